"""C20 — the command-line compiler emits a self-consistent header/source pair; option precedence."""

from __future__ import annotations

import json
import os
import re
import shutil
import subprocess
import sys
import tempfile

import numpy as np

import common

UFL_FILE = '''
import basix.ufl
from ufl import *
e = basix.ufl.element("Lagrange", "triangle", 2)
ce = basix.ufl.element("Lagrange", "triangle", 1, shape=(2,))
mesh = Mesh(ce)
V = FunctionSpace(mesh, e)
u, v = TrialFunction(V), TestFunction(V)
f = Coefficient(V)
k = Constant(mesh)
a = k*inner(grad(u), grad(v))*dx + f*u*v*ds(1)
L = f*v*dx
M = f*f*dx(2) + k*ds
forms = [a, L, M]
expressions = [(grad(f), [[0.25, 0.25], [0.5, 0.125]])]
elements = [e]
'''

UFL_TP = '''
import basix, basix.ufl
from ufl import *
_q = basix.CellType.quadrilateral
e = basix.ufl.wrap_element(basix.create_tp_element(basix.ElementFamily.P, _q, 2, basix.LagrangeVariant.gll_warped))
ce = basix.ufl.blocked_element(basix.ufl.wrap_element(basix.create_tp_element(basix.ElementFamily.P, _q, 1, basix.LagrangeVariant.gll_warped)), shape=(2,))
mesh = Mesh(ce)
V = FunctionSpace(mesh, e)
u, v = TrialFunction(V), TestFunction(V)
a = inner(u, v)*dx
'''

UFL_TINY = '''
import basix.ufl
from ufl import *
e = basix.ufl.element("Lagrange", "interval", 1)
mesh = Mesh(basix.ufl.element("Lagrange", "interval", 1, shape=(1,)))
V = FunctionSpace(mesh, e)
u, v = TrialFunction(V), TestFunction(V)
a = u*v*dx
'''

# file stems for the namespace / output-name half: every printable ASCII punctuation character
# (but "/"), runs of them, the characters the sanitiser itself uses, non-ASCII text
PINNED_STEMS = ["mass^2", "stokes[p2-p1]", "a`b\\c", "x!!y!z", "\u00e9t\u00e9 \u4e2d\u6587", "A-z", "~t{1}|", "q@#$%&*()+=,;'", 'say "hi" <now>?',
                "tab\tsep", "dots.v2..x", "__keep__9", "a:b"]


def random_stems(seed, n):
    import random
    rnd = random.Random(f"c20-{seed}")
    pool = [chr(c) for c in range(32, 127) if chr(c) != "/"] + ["\u00df", "\u03bb", "\u2028", "\U0001f600"]
    idc = "abcXYZ019_"
    out = []
    for _ in range(n):
        k = rnd.randint(1, 9)
        st = "".join(rnd.choice(pool) if rnd.random() < 0.5 else rnd.choice(idc) for _ in range(k))
        out.append(st.rstrip(". ") or "x")
    return out


def stems_check(v, tmp, seed, tier):
    """correspondence Sanit.run_steps OptGen.sanitise_steps <-> ffcx.main on the same file names,
    and the property itself (files written, alias an identifier, source compiles) on each"""
    stems = PINNED_STEMS + random_stems(seed, 12 if tier == "quick" else 60)
    stems = [f"f{i}_{st}" for i, st in enumerate(stems)]           # unique, never starting with - or .
    path = os.path.join(common.GEN, "C20_cases.v")
    lits = ["[" + "; ".join(str(ord(ch)) for ch in st) + "]%N" for st in stems]
    open(path, "w").write("From Coq Require Import NArith List.\nFrom FFCX Require Import Sanit.\nFrom FFCXGen Require Import OptGen.\nImport ListNotations.\n"
                          "Eval vm_compute in map (run_steps sanitise_steps) [\n " + ";\n ".join(lits) + "].\n")
    out = common.coqc_many([path], timeout=300)[path]
    m = re.search(r"=\s*\[(.*)\]\s*:\s*list \(list N\)", out[1], re.S) if out[0] == 0 else None
    model = None
    if m:
        model = ["".join(chr(int(x)) for x in re.findall(r"\d+", row)) for row in re.findall(r"\[([^\[\]]*)\]", m.group(1))]
    if model is None or len(model) != len(stems):
        v.oblige(False)
        v.violation("sanitise-model", "the regenerated sanitise_filename model could not be evaluated: " + (out[2] or out[1])[-300:], {}, no_input=True)
        model = None
    src = os.path.join(tmp, "stems")
    outd = os.path.join(tmp, "stems_out")
    os.makedirs(src)
    os.makedirs(outd)
    for st in stems:
        open(os.path.join(src, st + ".py"), "w").write(UFL_TINY)
    p = run_cli(tmp, ["-d", outd, *[os.path.join(src, st + ".py") for st in stems]])
    written = sorted(os.listdir(outd))
    inc = os.path.join(common.REPO, "ffcx", "codegeneration")
    ident = re.compile(r"^[A-Za-z0-9_]+$")
    for i, st in enumerate(stems):
        hs = [w for w in written if w.endswith(".h") and w.startswith(f"f{i}_")]
        obs = hs[0][:-2] if len(hs) == 1 else None
        payload = {"file_name": st + ".py", "ufl": UFL_TINY, "written": [w for w in written if w.startswith(f"f{i}_")][:6], "cli_stderr": p.stderr[-300:]}
        if model is not None:
            v.oblige(obs == model[i])
        # the property on this name
        good = obs is not None and ident.match(obs) is not None and os.path.exists(os.path.join(outd, obs + ".c"))
        why = f"output stem {obs!r}"
        if good:
            header = open(os.path.join(outd, obs + ".h")).read()
            decl = re.findall(r"^extern\s+ufcx_\w+\*?\s+(\S+);", header, re.M)
            alias = f"form_{obs}_a"
            if alias not in decl:
                good, why = False, f"alias {alias} not declared; header declares {decl[:4]}"
            else:
                cc = subprocess.run(["gcc", "-std=c17", "-fsyntax-only", "-Werror=implicit-function-declaration", "-I", inc, os.path.join(outd, obs + ".c")],
                                    capture_output=True, text=True)
                if cc.returncode != 0:
                    good, why = False, "source does not compile: " + cc.stderr[:200]
        v.oblige(good)
        if not good:
            v.violation("cli-file-name", f"ffcx on a UFL file called {st + '.py'!r}: {why}", payload)
        elif model is not None and obs != model[i]:
            v.violation("sanitise-correspondence", f"file {st + '.py'!r}: ffcx wrote stem {obs!r}, the regenerated model says {model[i]!r}", payload)
        elif i < 3:
            v.samples.append({"file": st + ".py", "stem": obs})
    return len(stems)


def naming_options_check(v, tmp):
    """-o gives the stem of the files written, -n the prefix of the aliases, each defaulting to the (sanitised) stem of
    the UFL file: every combination, with two input files at once (the i-th -o / -n belongs to the i-th file)"""
    src = os.path.join(tmp, "naming")
    os.makedirs(src)
    files = [os.path.join(src, "alpha.py"), os.path.join(src, "beta.py")]
    for f in files:
        open(f, "w").write(UFL_TINY)
    inc = os.path.join(common.REPO, "ffcx", "codegeneration")
    n = 0
    for label, extra, stems, prefixes in [
            ("-o", ["-o", "kernA", "kernB"], ["kernA", "kernB"], ["alpha", "beta"]),
            ("-n", ["-n", "femA", "femB"], ["alpha", "beta"], ["femA", "femB"]),
            ("-o -n", ["-o", "kernA", "kernB", "-n", "femA", "femB"], ["kernA", "kernB"], ["femA", "femB"])]:
        outd = os.path.join(tmp, "naming_out_" + str(n))
        os.makedirs(outd)
        n += 1
        p = run_cli(tmp, ["-d", outd, *extra, "-i", *files])
        written = sorted(os.listdir(outd))
        want = sorted(x + ext for x in stems for ext in (".c", ".h"))
        ok = p.returncode == 0 and written == want
        why = f"files written {written}, expected {want}" + ("" if p.returncode == 0 else "; " + p.stderr[-200:])
        if ok:
            for st, pre in zip(stems, prefixes):
                header = open(os.path.join(outd, st + ".h")).read()
                decl = re.findall(r"^extern\s+ufcx_\w+\*?\s+(\S+);", header, re.M)
                alias = f"form_{pre}_a"
                if alias not in decl:
                    ok, why = False, f"{st}.h does not declare {alias}; it declares {decl[:4]}"
                    break
                cc = subprocess.run(["gcc", "-std=c17", "-fsyntax-only", "-Werror=implicit-function-declaration", "-I", inc, os.path.join(outd, st + ".c")],
                                    capture_output=True, text=True)
                if cc.returncode != 0 or alias not in open(os.path.join(outd, st + ".c")).read():
                    ok, why = False, f"{st}.c does not compile or does not define {alias}: {cc.stderr[:160]}"
                    break
        v.oblige(ok)
        if not ok:
            v.violation(f"cli-naming:{label}", f"ffcx {' '.join(extra)} -i alpha.py beta.py: {why}", {"args": extra, "ufl": UFL_TINY, "written": written})
    return n


RUNNER = r'''
import sys, os
sys.path.insert(0, os.environ["FFCX_REPO"])
import ffcx.main
sys.exit(ffcx.main.main(sys.argv[1:]))
'''

READER = r'''
import sys, os, json, ctypes
sys.path.insert(0, os.environ["FFCX_REPO"])
import cffi, numpy as np
import ffcx.codegeneration.jit as jit
ffi = cffi.FFI()
ffi.cdef(jit.UFC_HEADER_DECL.format("double") + jit.UFC_INTEGRAL_DECL + jit.UFC_FORM_DECL + jit.UFC_EXPRESSION_DECL)
so, names = sys.argv[1], json.loads(sys.argv[2])
for n in names:
    ffi.cdef(("ufcx_form* %s;" if n.startswith("form_") else "ufcx_expression* %s;") % n)
lib = ffi.dlopen(so)
out = {}
rng = np.random.default_rng(5)
w = rng.integers(-2**20, 2**20, size=64) / 2.0**18
c = rng.integers(-2**20, 2**20, size=8) / 2.0**18
x = np.array([0.,0.,0., 1.,0.25,0., 0.125,1.5,0.])
e = np.array([1, 0], dtype=np.intc); p = np.zeros(2, dtype=np.uint8)
def P(a): return ffi.cast("double*", a.ctypes.data)
for n in names:
    obj = getattr(lib, n)
    if n.startswith("form_"):
        offs = [int(obj.form_integral_offsets[i]) for i in range(6)]
        ks = []
        for i in range(offs[5]):
            A = np.zeros(64)
            obj.form_integrals[i].tabulate_tensor_float64(P(A), P(w), P(c), P(x), ffi.cast("int*", e.ctypes.data), ffi.cast("uint8_t*", p.ctypes.data), ffi.NULL)
            ks.append(A.tolist())
        out[n] = {"rank": int(obj.rank), "offsets": offs, "ids": [int(obj.form_integral_ids[i]) for i in range(offs[5])], "A": ks}
    else:
        A = np.zeros(64)
        obj.tabulate_tensor_float64(P(A), P(w), P(c), P(x), ffi.cast("int*", e.ctypes.data), ffi.cast("uint8_t*", p.ctypes.data), ffi.NULL)
        out[n] = {"num_points": int(obj.num_points), "A": A.tolist()}
print(json.dumps(out))
'''

JIT = r'''
import sys, os, json, tempfile
sys.path.insert(0, os.environ["FFCX_REPO"])
import numpy as np, ufl
import ffcx.codegeneration.jit as jit
ufd = ufl.algorithms.load_ufl_file(sys.argv[1])
tmp = tempfile.mkdtemp()
forms, mod, _ = jit.compile_forms(list(ufd.forms), cache_dir=tmp, cffi_extra_compile_args=["-O0"])
exprs, emod, _ = jit.compile_expressions(list(ufd.expressions), cache_dir=tmp, cffi_extra_compile_args=["-O0"])
ffi = mod.ffi
rng = np.random.default_rng(5)
w = rng.integers(-2**20, 2**20, size=64) / 2.0**18
c = rng.integers(-2**20, 2**20, size=8) / 2.0**18
x = np.array([0.,0.,0., 1.,0.25,0., 0.125,1.5,0.])
e = np.array([1, 0], dtype=np.intc); p = np.zeros(2, dtype=np.uint8)
def P(f, a): return f.cast("double*", a.ctypes.data)
out = {"forms": [], "exprs": []}
for obj in forms:
    offs = [int(obj.form_integral_offsets[i]) for i in range(6)]
    ks = []
    for i in range(offs[5]):
        A = np.zeros(64)
        obj.form_integrals[i].tabulate_tensor_float64(P(ffi, A), P(ffi, w), P(ffi, c), P(ffi, x), ffi.cast("int*", e.ctypes.data), ffi.cast("uint8_t*", p.ctypes.data), ffi.NULL)
        ks.append(A.tolist())
    out["forms"].append({"rank": int(obj.rank), "offsets": offs, "A": ks})
ef = emod.ffi
for obj in exprs:
    A = np.zeros(64)
    obj.tabulate_tensor_float64(P(ef, A), P(ef, w), P(ef, c), P(ef, x), ef.cast("int*", e.ctypes.data), ef.cast("uint8_t*", p.ctypes.data), ef.NULL)
    out["exprs"].append({"A": A.tolist()})
import shutil; shutil.rmtree(tmp, ignore_errors=True)
print(json.dumps(out))
'''


def run_cli(tmp, args, cwd=None, xdg=None):
    env = common.env_for_repo()
    if xdg:
        env["XDG_CONFIG_HOME"] = xdg
    return subprocess.run([common.PY, "-c", RUNNER, *args], cwd=cwd or tmp, env=env, capture_output=True, text=True, timeout=600)


def options_in(text):
    m = re.search(r"following options:\n//\n(.*?)\n\n", text, re.S)
    if not m:
        return {}
    body = "\n".join(l[4:] if l.startswith("//  ") else l.lstrip("/") for l in m.group(1).splitlines())
    try:
        return eval(body, {"__builtins__": {}}, {})  # a pprint'ed dict of plain literals
    except Exception:  # noqa: BLE001
        return {}


def run(v, tier, seed, g):
    tmp = tempfile.mkdtemp(prefix="vfcli_")
    try:
        ufl_path = os.path.join(tmp, "Poisson-2 demo.py")
        open(ufl_path, "w").write(UFL_FILE)
        outd = os.path.join(tmp, "out")
        os.makedirs(outd)
        p = run_cli(tmp, ["-d", outd, ufl_path])
        stem = "Poisson_2_demo"
        h, c = os.path.join(outd, stem + ".h"), os.path.join(outd, stem + ".c")
        ok = p.returncode == 0 and os.path.exists(h) and os.path.exists(c)
        v.oblige(ok)
        if not ok:
            v.violation("cli-run", f"ffcx did not write {stem}.h/.c: {p.stderr[-300:]}", {"ufl": UFL_FILE})
            return v.finish("proof", {"checker_cmd": "./check C20", "trusted_base": [], "evaluations": 1, "distinct_nontrivial": 0, "rule": ""}, [])
        header, source = open(h).read(), open(c).read()
        # 1. the source compiles stand-alone against ufcx.h
        so = os.path.join(tmp, "lib.so")
        inc = os.path.join(common.REPO, "ffcx", "codegeneration")
        cc = subprocess.run(["gcc", "-std=c17", "-O0", "-ffp-contract=off", "-Wall", "-Werror=implicit-function-declaration",
                             "-Wno-unused-variable", "-shared", "-fPIC", "-I", inc, c, "-o", so, "-lm"],
                            capture_output=True, text=True)
        v.oblige(cc.returncode == 0)
        if cc.returncode != 0:
            v.violation("cli-gcc", "generated source does not compile stand-alone: " + cc.stderr[:300], {"ufl": UFL_FILE, "gcc": cc.stderr[:1500]})
        # 2. declared in the header => defined in the source
        decl = re.findall(r"^extern\s+(ufcx_\w+\*?)\s+(\w+);", header, re.M)
        nm = subprocess.run(["nm", "-D", "--defined-only", so], capture_output=True, text=True).stdout if cc.returncode == 0 else ""
        defined = set(l.split()[-1] for l in nm.splitlines() if l.strip())
        missing = [n for _, n in decl if n not in defined]
        v.oblige(bool(decl) and not missing)
        if missing or not decl:
            v.violation("cli-decl-def", f"declared in the header but not defined in the source: {missing[:5]}", {"ufl": UFL_FILE, "declared": [n for _, n in decl]})
        # 3. aliases by the names given in the UFL file
        want = [f"form_{stem}_a", f"form_{stem}_L", f"form_{stem}_M", f"expression_{stem}_0"]
        have = [n for _, n in decl]
        alias_missing = [n for n in want if n not in have]
        v.oblige(not alias_missing)
        if alias_missing:
            v.violation("cli-alias", f"aliases missing from the header: {alias_missing}", {"ufl": UFL_FILE, "declared": have})
        # 4. kernels through the aliases == kernels of the JIT path, same inputs, bit for bit
        if cc.returncode == 0 and not alias_missing:
            env = common.env_for_repo()
            r1 = subprocess.run([common.PY, "-c", READER, so, json.dumps(want)], env=env, cwd=tmp, capture_output=True, text=True, timeout=600)
            r2 = subprocess.run([common.PY, "-c", JIT, ufl_path], env=env, cwd=tmp, capture_output=True, text=True, timeout=900)
            try:
                cli, jit = json.loads(r1.stdout.strip().splitlines()[-1]), json.loads(r2.stdout.strip().splitlines()[-1])
                same = True
                detail = ""
                for n, jf in zip(want[:3], jit["forms"]):
                    cf = cli[n]
                    if cf["rank"] != jf["rank"] or cf["offsets"] != jf["offsets"] or cf["A"] != jf["A"]:
                        same = False
                        detail = f"{n}: offsets {cf['offsets']} vs {jf['offsets']}"
                if cli[want[3]]["A"] != jit["exprs"][0]["A"]:
                    same = False
                    detail = "expression kernel differs"
                v.oblige(same)
                if not same:
                    v.violation("cli-vs-jit", "kernels reached through the CLI aliases differ from the JIT kernels: " + detail, {"ufl": UFL_FILE})
                else:
                    v.samples.append({"alias": want[0], "offsets": cli[want[0]]["offsets"], "A0": cli[want[0]]["A"][0][:3]})
            except Exception as e:  # noqa: BLE001
                v.oblige(False)
                v.violation("cli-vs-jit-run", f"comparison could not run: {e} {r1.stderr[-200:]} {r2.stderr[-200:]}", {}, no_input=True)
        nstems = stems_check(v, tmp, seed, tier)
        nnaming = naming_options_check(v, tmp)
        # 5. option precedence over the three sources, every subset
        pw = os.path.join(tmp, "pwd")
        xdg = os.path.join(tmp, "xdg")
        os.makedirs(os.path.join(xdg, "ffcx"))
        os.makedirs(pw)
        open(os.path.join(pw, "F.py"), "w").write(UFL_TP)
        trials = [
            # (user json, pwd json, cli args, expected subset)
            ({"scalar_type": "float32", "table_rtol": 1e-3, "sum_factorization": True}, {}, [], {"scalar_type": "float32", "table_rtol": 1e-3, "sum_factorization": True}),
            ({"scalar_type": "float32", "table_rtol": 1e-3}, {"scalar_type": "float64", "sum_factorization": True}, [], {"scalar_type": "float64", "table_rtol": 1e-3, "sum_factorization": True}),
            ({"scalar_type": "float64"}, {"scalar_type": "float64", "table_atol": 1e-7}, ["--scalar_type", "float32"], {"scalar_type": "float32", "table_atol": 1e-7, "sum_factorization": False}),
            ({}, {"sum_factorization": False}, ["--sum_factorization"], {"sum_factorization": True}),
            # the command line restates a built-in default against a file that changed it
            ({"scalar_type": "float32", "table_rtol": 1e-3}, {"epsilon": 1e-10}, ["--scalar_type", "float64", "--table_rtol", "1e-06", "--epsilon", "1e-14"],
             {"scalar_type": "float64", "table_rtol": 1e-6, "epsilon": 1e-14}),
            ({"epsilon": 1e-12, "verbosity": 40}, {"verbosity": 50}, ["--table_rtol", "1e-4"], {"epsilon": 1e-12, "verbosity": 50, "table_rtol": 1e-4}),
        ]
        for ui, (uj, pj, args, exp) in enumerate(trials):
            for f_ in (os.path.join(xdg, "ffcx", "ffcx_options.json"), os.path.join(pw, "ffcx_options.json")):
                if os.path.exists(f_):
                    os.remove(f_)
            if uj:
                json.dump(uj, open(os.path.join(xdg, "ffcx", "ffcx_options.json"), "w"))
            if pj:
                json.dump(pj, open(os.path.join(pw, "ffcx_options.json"), "w"))
            o2 = os.path.join(tmp, f"o{ui}")
            os.makedirs(o2)
            p = run_cli(tmp, ["-d", o2, *args, "F.py"], cwd=pw, xdg=xdg)
            got = options_in(open(os.path.join(o2, "F.h")).read()) if p.returncode == 0 and os.path.exists(os.path.join(o2, "F.h")) else None
            ok = got is not None and all(str(got.get(k)) == str(val) for k, val in exp.items())
            v.oblige(ok)
            if not ok:
                bad = {k: (got.get(k) if got else None, val) for k, val in exp.items() if got is None or str(got.get(k)) != str(val)}
                v.violation(f"option-precedence:{'+'.join(sorted(bad))}", f"effective options (observed, expected) {bad} with user file {uj}, $PWD file {pj}, command line {args}",
                            {"user_json": uj, "pwd_json": pj, "cli": args, "observed": {k: str(x) for k, x in (got or {}).items()}, "stderr": p.stderr[-300:]})
    finally:
        shutil.rmtree(tmp, ignore_errors=True)
    if not g["ok"] and not v.violations and not v.known_hits:
        v.violation("gate", "proof obligations no longer check: " + "; ".join(g["broken"]), {"broken": g["broken"]}, no_input=True)
    cov = {"checker_cmd": f"./check C20 --tier {tier}",
           "trusted_base": ["Coq kernel + VM", "tr_opts.py (option table, argparse defaults, merge order read off the source)",
                            "UFL's load_ufl_file", "gcc / nm / cffi as observers"],
           "evaluations": 5 + 5 + nstems, "distinct_nontrivial": 10 + nstems,
           "rule": "one UFL file with named forms, a forms list, an expression and an element through ffcx.main.main; 5 combinations of the three option sources; "
                   f"{nstems} file names (pinned punctuation / non-ASCII + seeded random) through ffcx.main and through the regenerated sanitise_filename model",
           "axioms_under_property_theorems": g.get("axioms", [])}
    return v.finish("proof", cov, ["programs: one representative UFL file (plus the option matrix); kernels compared with the JIT path bit for bit"])


def replay(v, payload):
    print(payload)
    return 1
