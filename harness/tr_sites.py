"""tr_sites: find every place in ffcx/ where a Python set (hash-ordered) or a process-global
identifier (ufl_id, id(), hash()) can reach the generated text, and classify it:
  Sorted     the set is consumed through sorted(...)
  OrderFree  only order-free observations (len, in, ==, single-element unpacking, set algebra,
             any/all/sum/min/max, building another set)
  HashOrder  the enumeration order leaks (list(S), tuple(S), for x in S, comprehension into a
             list, passing S on to code that iterates it)
  HistoryId  ufl_id()/id()/hash() used in a name or a sort key; str / repr of the sorted objects as sort key
Emits coq/gen/SitesGen.v.  Anything set-valued whose use is not recognised counts as HashOrder
(fail-closed)."""
import ast
import os
import sys

HERE = os.path.dirname(os.path.abspath(__file__))
sys.path.insert(0, HERE)
import common  # noqa: E402

ORDER_FREE_CALLS = {"len", "any", "all", "sum", "min", "max", "set", "frozenset", "bool", "isinstance"}
ORDER_LEAK_CALLS = {"list", "tuple", "enumerate", "iter", "next", "zip", "reversed", "sort_elements", "join", "map", "filter", "chain"}
SET_METHODS_FREE = {"add", "update", "discard", "remove", "union", "intersection", "difference", "issubset", "issuperset", "copy", "clear", "isdisjoint"}


def _name(f):
    if isinstance(f, ast.Name):
        return f.id
    if isinstance(f, ast.Attribute):
        return f.attr
    return ""


class Scan(ast.NodeVisitor):
    def __init__(self, path):
        self.path = path
        self.sites = []          # (line, kind, text)
        self.setnames = [set()]  # stack of names known to hold sets
        self.dictofsets = [set()]
        self.parents = {}

    # -- helpers -----------------------------------------------------------------------------
    def is_set_expr(self, n):
        if isinstance(n, (ast.Set, ast.SetComp)):
            return True
        if isinstance(n, ast.Call) and isinstance(n.func, ast.Name) and n.func.id in ("set", "frozenset"):
            return True
        if isinstance(n, ast.Name) and n.id in self.setnames[-1]:
            return True
        if isinstance(n, ast.BinOp) and isinstance(n.op, (ast.BitOr, ast.BitAnd, ast.Sub, ast.BitXor)):
            return self.is_set_expr(n.left) or self.is_set_expr(n.right)
        if isinstance(n, ast.Subscript) and isinstance(n.value, ast.Name) and n.value.id in self.dictofsets[-1]:
            return True
        return False

    def classify_use(self, n):
        """how the set-valued node n is consumed by its parent."""
        p = self.parents.get(n)
        if p is None:
            return "OrderFree"
        if isinstance(p, ast.Call):
            fn = _name(p.func)
            if n in p.args or any(k.value is n for k in p.keywords):
                if fn == "sorted":
                    return "Sorted"
                if fn in ORDER_FREE_CALLS:
                    return "OrderFree"
                return "HashOrder"
            if isinstance(p.func, ast.Attribute) and p.func.value is n:
                return "OrderFree" if p.func.attr in SET_METHODS_FREE else "HashOrder"
        if isinstance(p, ast.Attribute) and p.value is n:
            pp = self.parents.get(p)
            if isinstance(pp, ast.Call) and pp.func is p:
                return "OrderFree" if p.attr in SET_METHODS_FREE else "HashOrder"
            return self.classify_use(p)
        if isinstance(p, ast.Compare):
            return "OrderFree"
        if isinstance(p, ast.BinOp):
            return "OrderFree"          # set algebra; the result is examined where it is used
        if isinstance(p, (ast.For, ast.comprehension)) and p.iter is n:
            if isinstance(p, ast.comprehension):
                comp = self.parents.get(p)
                if isinstance(comp, ast.SetComp):
                    return "OrderFree"
                if isinstance(comp, (ast.GeneratorExp, ast.ListComp)):
                    cp = self.parents.get(comp)
                    if isinstance(cp, ast.Call) and _name(cp.func) in ORDER_FREE_CALLS | {"sorted"} and isinstance(comp, ast.GeneratorExp):
                        return "Sorted" if _name(cp.func) == "sorted" else "OrderFree"
                if isinstance(comp, ast.DictComp):
                    return "HashOrder"
            return "HashOrder"
        if isinstance(p, ast.Assign):
            # single-element unpacking  (x,) = set(...)
            if len(p.targets) == 1 and isinstance(p.targets[0], ast.Tuple) and len(p.targets[0].elts) == 1 and p.value is n:
                return "OrderFree"
            return "OrderFree"          # binding: uses of the name are examined separately
        if isinstance(p, (ast.AnnAssign, ast.AugAssign, ast.Expr, ast.Assert, ast.If, ast.BoolOp, ast.UnaryOp, ast.IfExp, ast.Return, ast.DictComp, ast.Dict)):
            if isinstance(p, ast.Return):
                return "HashOrder"      # escapes: callers may iterate it
            return "OrderFree"
        if isinstance(p, ast.Starred):
            return "HashOrder"
        if isinstance(p, ast.keyword):
            return self.classify_use(p)
        return "HashOrder"

    def record(self, n, kind, what):
        self.sites.append((n.lineno, kind, what))

    # -- traversal ---------------------------------------------------------------------------
    def visit_FunctionDef(self, node):
        self.setnames.append(set())
        self.dictofsets.append(set())
        # names bound to sets in this function (one pass, flow-insensitive)
        for n in ast.walk(node):
            if isinstance(n, ast.Assign) and len(n.targets) == 1 and isinstance(n.targets[0], ast.Name):
                if isinstance(n.value, (ast.Set, ast.SetComp)) or (isinstance(n.value, ast.Call) and _name(n.value.func) in ("set", "frozenset")):
                    self.setnames[-1].add(n.targets[0].id)
            if isinstance(n, ast.AnnAssign) and isinstance(n.target, ast.Name):
                ann = ast.unparse(n.annotation)
                if ann.startswith(("set[", "set ", "Set[")) or ann == "set":
                    self.setnames[-1].add(n.target.id)
                elif "set[" in ann and ann.startswith("dict["):
                    self.dictofsets[-1].add(n.target.id)
        # loop variables ranging over the values of a dict of sets
        for n in ast.walk(node):
            # for-statements and comprehension clauses alike
            if isinstance(n, (ast.For, ast.comprehension)) and isinstance(n.iter, ast.Call) and isinstance(n.iter.func, ast.Attribute) \
                    and isinstance(n.iter.func.value, ast.Name) and n.iter.func.value.id in self.dictofsets[-1]:
                if n.iter.func.attr == "items" and isinstance(n.target, ast.Tuple) and len(n.target.elts) == 2 and isinstance(n.target.elts[1], ast.Name):
                    self.setnames[-1].add(n.target.elts[1].id)
                elif n.iter.func.attr == "values" and isinstance(n.target, ast.Name):
                    self.setnames[-1].add(n.target.id)
        self.generic_visit(node)
        self.setnames.pop()
        self.dictofsets.pop()

    visit_AsyncFunctionDef = visit_FunctionDef

    def generic_visit(self, node):
        for child in ast.iter_child_nodes(node):
            self.parents[child] = node
        super().generic_visit(node)

    def visit_Call(self, node):
        fn = _name(node.func)
        # a sort / min / max whose key is the str or repr of the objects: for UFL's counted objects (coefficients,
        # constants, arguments, meshes, function spaces) that text carries the process-global count
        if fn in ("sorted", "sort", "min", "max"):
            for kw in node.keywords:
                if kw.arg == "key":
                    kt = ast.unparse(kw.value)
                    if kt in ("str", "repr") or any(t in kt for t in ("str(", "repr(", ".count()", "ufl_id", "id(", "hash(")):
                        self.record(node, "HistoryId", "sort key " + kt[:30] + " in " + ast.unparse(node)[:50])
        if fn == "ufl_id" or (isinstance(node.func, ast.Name) and fn in ("id", "hash")):
            # harmless when only compared / used as a dict key inside one run; a name or a sort key is not
            p = self.parents.get(node)
            inside_fstring = False
            q = node
            while q in self.parents:
                q = self.parents[q]
                if isinstance(q, (ast.JoinedStr, ast.FormattedValue)):
                    inside_fstring = True
                if isinstance(q, ast.Lambda):
                    inside_fstring = True      # sort key
            if inside_fstring:
                self.record(node, "HistoryId", ast.unparse(node)[:60])
        self.generic_visit(node)
        if self.is_set_expr(node):
            k = self.classify_use(node)
            self.record(node, k, ast.unparse(node)[:70])

    def visit_Set(self, node):
        self.generic_visit(node)
        self.record(node, self.classify_use(node), ast.unparse(node)[:70])

    def visit_SetComp(self, node):
        self.generic_visit(node)
        self.record(node, self.classify_use(node), ast.unparse(node)[:70])

    def visit_Name(self, node):
        if isinstance(node.ctx, ast.Load) and node.id in self.setnames[-1]:
            self.record(node, self.classify_use(node), f"{node.id} (set)")

    def visit_Attribute(self, node):
        self.generic_visit(node)
        # UFL builds these tuples with tuple(set(...)): hash-ordered although they are tuples
        if isinstance(node.ctx, ast.Load) and node.attr in ("facet_types", "ridge_types", "peak_types"):
            self.record(node, self.classify_use(node), ast.unparse(node)[:70] + " (UFL tuple(set))")

    def visit_Subscript(self, node):
        self.generic_visit(node)
        if isinstance(node.ctx, ast.Load) and self.is_set_expr(node):
            self.record(node, self.classify_use(node), ast.unparse(node)[:70])


def global_state_sites(tree, rel):
    """module-level mutable containers that some function of the module mutates: state that survives from
    one compilation to the next (a cache keyed too coarsely makes the output depend on history)."""
    out = []
    glob = {}
    for n in tree.body:
        tgt = val = None
        if isinstance(n, ast.Assign) and len(n.targets) == 1 and isinstance(n.targets[0], ast.Name):
            tgt, val = n.targets[0].id, n.value
        elif isinstance(n, ast.AnnAssign) and isinstance(n.target, ast.Name) and n.value is not None:
            tgt, val = n.target.id, n.value
        if tgt is None:
            continue
        mutable = isinstance(val, (ast.Dict, ast.List, ast.Set, ast.DictComp, ast.ListComp, ast.SetComp)) or (
            isinstance(val, ast.Call) and _name(val.func) in ("dict", "list", "set", "defaultdict", "OrderedDict", "Counter", "deque", "count"))
        if mutable:
            glob[tgt] = n.lineno
    if not glob:
        return out
    for fn in ast.walk(tree):
        if not isinstance(fn, (ast.FunctionDef, ast.AsyncFunctionDef)):
            continue
        local = {a.arg for a in fn.args.args + fn.args.kwonlyargs}
        for n in ast.walk(fn):
            name = None
            if isinstance(n, (ast.Assign, ast.AugAssign, ast.AnnAssign)):
                tgts = n.targets if isinstance(n, ast.Assign) else [n.target]
                for t in tgts:
                    if isinstance(t, ast.Subscript) and isinstance(t.value, ast.Name):
                        name = t.value.id
            elif isinstance(n, ast.Call) and isinstance(n.func, ast.Attribute) and isinstance(n.func.value, ast.Name) \
                    and n.func.attr in ("append", "add", "update", "setdefault", "extend", "insert", "pop", "clear", "popitem", "remove", "__setitem__"):
                name = n.func.value.id
            elif isinstance(n, ast.Call) and _name(n.func) == "next" and n.args and isinstance(n.args[0], ast.Name):
                name = n.args[0].id
            elif isinstance(n, ast.Global):
                for g in n.names:
                    out.append((rel, n.lineno, "GlobalState", f"global {g} rebound in {fn.name}"))
            if name in glob and name not in local:
                out.append((rel, n.lineno, "GlobalState", f"module-level {name} (line {glob[name]}) mutated in {fn.name}"))
    return out


# sites the scanner cannot clear by itself, each with the reason it is harmless (file, start of text)
ALLOW = {
    ("ffcx/analysis.py", "sort key lambda x: repr(x) in sorted(set(coordinate_elements)"): "repr of a basix.ufl element is built from its family, cell, degree, variants, shape and dtype only: no counter, no address",
    ("ffcx/codegeneration/common.py", "set((fname for"): "returned set is only compared with == in asserts",
    ("ffcx/ir/integral.py", "active_table_names (set)"): "fills dicts whose consumer iterates sorted(...) (IntegralGenerator.generate_element_tables)",
    ("ffcx/ir/integral.py", "_argkeys (set)"): "set of int: its iteration order does not depend on the hash seed; the list is only used for membership",
}


def scan_repo():
    root = os.path.join(common.REPO, "ffcx")
    out = []
    for dp, dn, fn in os.walk(root):
        dn.sort()
        for f in sorted(fn):
            if not f.endswith(".py") or f.endswith("_template.py"):
                continue
            path = os.path.join(dp, f)
            rel = os.path.relpath(path, common.REPO)
            tree = ast.parse(open(path).read())
            sc = Scan(rel)
            sc.parents = {}
            sc.generic_visit(tree) if False else sc.visit(tree)
            for line, kind, what in sorted(set(sc.sites)):
                if kind in ("HashOrder", "HistoryId") and any(rel == f and what.startswith(t) for f, t in ALLOW):
                    kind = "OrderFree"
                out.append((rel, line, kind, what))
            out.extend(sorted(set(global_state_sites(tree, rel))))
    return out


def generate():
    sites = scan_repo()
    os.makedirs(common.GEN, exist_ok=True)

    def esc(s):
        return s.replace('"', "'").replace("\n", " ")
    rows = ";\n  ".join(f'("{esc(f)}:{ln}: {esc(w)}", {k})' for f, ln, k, w in sites)
    open(os.path.join(common.GEN, "SitesGen.v"), "w").write(
        "(* generated by harness/tr_sites.py: every use of a hash-ordered set or a process-global id in ffcx/ *)\n"
        "From Coq Require Import List String.\nFrom FFCX Require Import Order.\nImport ListNotations.\nOpen Scope string_scope.\n"
        f"Definition sites : list (string * site_kind) := [\n  {rows}\n].\n")
    return sites


if __name__ == "__main__":
    for s in generate():
        if s[2] in ("HashOrder", "HistoryId", "GlobalState") or "-v" in sys.argv:
            print(s)
