"""tr_jit: read off jit.py whether _compile_objects restores the root logger handlers when the
compile raises (try/finally or equivalent), whether the ready marker is published atomically after
its content was written, and the structural facts the Jit.v model relies on.
Emits coq/gen/JitGen.v.  Fail-closed on shapes it does not recognise."""
import ast
import os
import sys

HERE = os.path.dirname(os.path.abspath(__file__))
sys.path.insert(0, HERE)
import common  # noqa: E402


class TranslationError(Exception):
    pass


def generate():
    path = os.path.join(common.REPO, "ffcx/codegeneration/jit.py")
    tree = ast.parse(open(path).read())
    fns = {n.name: n for n in tree.body if isinstance(n, ast.FunctionDef)}
    for need in ("get_cached_module", "_compile_objects", "_load_objects", "compile_forms", "compile_expressions"):
        if need not in fns:
            raise TranslationError(f"jit.py: {need} not found")
    gc = ast.unparse(fns["get_cached_module"])
    for frag in ("with open(c_filename, 'x')", "except FileExistsError", "for i in range(timeout)", "os.path.exists(ready_name)",
                 "raise TimeoutError"):
        if frag not in gc:
            raise TranslationError(f"get_cached_module: expected fragment {frag!r} not found")
    co = fns["_compile_objects"]
    src = ast.unparse(co)
    for frag in ("root_logger.handlers = [logging.StreamHandler(f)]", "ffibuilder.compile(",
                 "root_logger.handlers = old_handlers"):
        if frag not in src:
            raise TranslationError(f"_compile_objects: expected fragment {frag!r} not found")
    # how does the ready marker come into being?
    #   (a) open(ready_name, 'x') and then the log is written into it          -> atomic_marker = false
    #   (b) the log is written to a temporary file T (with open(T, 'w') as fd: fd.write(s)) and then
    #       os.replace(T, ready_name) publishes it; ready_name is never opened -> atomic_marker = true
    stmts = [n for n in ast.walk(co) if isinstance(n, ast.stmt)]
    opens_ready = [ast.unparse(c) for c in ast.walk(co) if isinstance(c, ast.Call) and ast.unparse(c.func) == "open"
                   and c.args and ast.unparse(c.args[0]) == "ready_name"]
    publishes = [c for c in ast.walk(co) if isinstance(c, ast.Call) and ast.unparse(c.func) in ("os.replace", "os.rename")
                 and len(c.args) == 2 and ast.unparse(c.args[1]) == "ready_name"]
    if opens_ready == ["open(ready_name, 'x')"] and not publishes:
        atomic, marker_frag = False, "open(ready_name, 'x')"
    elif not opens_ready and len(publishes) == 1 and ast.unparse(publishes[0].func) == "os.replace" and isinstance(publishes[0].args[0], ast.Name):
        tmp = publishes[0].args[0].id
        writes = [w for w in stmts if isinstance(w, ast.With) and len(w.items) == 1
                  and ast.unparse(w.items[0].context_expr) == f"open({tmp}, 'w')" and w.items[0].optional_vars is not None
                  and [ast.unparse(b) for b in w.body] == [f"{ast.unparse(w.items[0].optional_vars)}.write(s)"]]
        if len(writes) != 1 or writes[0].lineno >= publishes[0].lineno:
            raise TranslationError("_compile_objects: the temporary marker file is not written (once, completely) before it is published")
        tdef = [a for a in stmts if isinstance(a, ast.Assign) and ast.unparse(a.targets[0]) == tmp]
        if len(tdef) != 1 or "ready_name" not in ast.unparse(tdef[0].value) or ast.unparse(tdef[0].value) == "ready_name":
            raise TranslationError("_compile_objects: temporary marker name of unrecognised shape")
        atomic, marker_frag = True, f"os.replace({tmp}, ready_name)"
    else:
        raise TranslationError(f"_compile_objects: ready marker created in an unrecognised way (opens {opens_ready}, {len(publishes)} publications)")
    # is the restoration of the handlers in a finally block that covers the compile and the marker?
    restore = False
    for n in ast.walk(co):
        if isinstance(n, ast.Try) and n.finalbody:
            fin = "\n".join(ast.unparse(s) for s in n.finalbody)
            body = "\n".join(ast.unparse(s) for s in n.body)
            if "root_logger.handlers = old_handlers" in fin and "ffibuilder.compile(" in body and marker_frag in body:
                restore = True
    # the marker step must come after the compile
    comp_line = [c.lineno for c in ast.walk(co) if isinstance(c, ast.Call) and ast.unparse(c.func) == "ffibuilder.compile"]
    mark_line = [c.lineno for c in ast.walk(co) if isinstance(c, ast.Call) and ast.unparse(c) == marker_frag]
    if len(comp_line) != 1 or len(mark_line) != 1 or mark_line[0] < comp_line[0]:
        raise TranslationError("_compile_objects: the ready marker is not created after the compile")
    # the publication of the marker is the LAST thing the build does: it is the last statement of the try body that
    # holds the compile (nothing that can raise comes between "the marker exists" and the return), and it is not in a
    # handler / finally (it happens only when the compile returned)
    if atomic:
        holder = [n for n in ast.walk(co) if isinstance(n, ast.Try)
                  and any(isinstance(c, ast.Call) and ast.unparse(c.func) == "ffibuilder.compile" for b in n.body for c in ast.walk(b))]
        if len(holder) != 1 or not holder[0].body or ast.unparse(holder[0].body[-1]) != marker_frag:
            raise TranslationError("_compile_objects: the publication of the ready marker is not the last statement of the try block around the compile "
                                   "(a failure after the marker exists, or a marker published although the compile failed, is not in the model)")
        after = [ast.unparse(x) for x in co.body[co.body.index(holder[0]) + 1:]] if holder[0] in co.body else None
        if after != ["return code_body"]:
            raise TranslationError(f"_compile_objects: statements after the build block of unrecognised shape: {after}")
    for name in ("compile_forms", "compile_expressions"):
        s = ast.unparse(fns[name])
        if "os.replace(c_filename, c_filename.with_suffix('.c.failed'))" not in s or "except Exception as e" not in s:
            raise TranslationError(f"{name}: failure path (rename to .c.failed) of unrecognised shape")
        if "_load_objects(cache_dir, module_name" not in s:
            raise TranslationError(f"{name}: does not load through _load_objects")
    os.makedirs(common.GEN, exist_ok=True)
    open(os.path.join(common.GEN, "JitGen.v"), "w").write(
        "(* generated by harness/tr_jit.py from ffcx/codegeneration/jit.py *)\n"
        f"Definition restore_on_fault : bool := {'true' if restore else 'false'}.\n"
        f"Definition atomic_marker : bool := {'true' if atomic else 'false'}.\n")
    return restore, atomic


if __name__ == "__main__":
    print(generate())
