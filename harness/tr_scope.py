"""tr_scope: read off integral_generator.py the scope discipline the Scopes.v model is parametrised
by — in particular whether the cache test of the varying partition falls back to the shared
piecewise scope.  Emits coq/gen/ScopeGen.v.  Fail-closed on shapes it does not recognise."""
import ast
import os
import sys

HERE = os.path.dirname(os.path.abspath(__file__))
sys.path.insert(0, HERE)
import common  # noqa: E402


class TranslationError(Exception):
    pass


def _norm(node):
    return ast.unparse(node).strip()


def generate():
    path = os.path.join(common.REPO, "ffcx/codegeneration/integral_generator.py")
    tree = ast.parse(open(path).read())
    cls = [n for n in tree.body if isinstance(n, ast.ClassDef) and n.name == "IntegralGenerator"]
    if not cls:
        raise TranslationError("IntegralGenerator not found")
    fns = {n.name: n for n in cls[0].body if isinstance(n, ast.FunctionDef)}
    for need in ("init_scopes", "set_var", "get_var", "generate", "generate_piecewise_partition",
                 "generate_varying_partition", "generate_partition", "generate_quadrature_loop"):
        if need not in fns:
            raise TranslationError(f"{need} not found")

    # set_var writes the (domain, rule) scope; get_var: own scope then (None, None)
    body = [s for s in fns["set_var"].body if not (isinstance(s, ast.Expr) and isinstance(s.value, ast.Constant))]
    if [_norm(s) for s in body] != ["self.scopes[domain, quadrature_rule][v] = vaccess"]:
        raise TranslationError("set_var of unrecognised shape: " + "; ".join(_norm(s) for s in body))
    gv = [_norm(s) for s in fns["get_var"].body if not (isinstance(s, ast.Expr) and isinstance(s.value, ast.Constant))]
    want_gv = ["if v._ufl_is_literal_:\n    return L.ufl_to_lnodes(v)",
               "f = self.scopes[domain, quadrature_rule].get(v)",
               "if f is None:\n    f = self.scopes[None, None].get(v)",
               "return f"]
    if gv != want_gv:
        raise TranslationError("get_var of unrecognised shape: " + " || ".join(gv))
    init = _norm(fns["init_scopes"])
    if "self.scopes[None, None] = {}" not in init or "for quadrature_rule in self.ir.expression.integrand.keys()" not in init:
        raise TranslationError("init_scopes of unrecognised shape")
    # the partitions: piecewise -> shared scope, varying -> the rule's scope
    if "return self.generate_partition(arraysymbol, F, 'piecewise', None, None)" not in _norm(fns["generate_piecewise_partition"]):
        raise TranslationError("generate_piecewise_partition does not use the shared (None, None) scope")
    if "return self.generate_partition(arraysymbol, F, 'varying', quadrature_rule, domain)" not in _norm(fns["generate_varying_partition"]):
        raise TranslationError("generate_varying_partition does not use the rule's scope")
    # generate(): per rule, piecewise partition first, then the quadrature loop
    g = _norm(fns["generate"])
    a = g.find("all_preparts += self.generate_piecewise_partition(rule, cell)")
    b = g.find("all_quadparts += self.generate_quadrature_loop(rule, cell)")
    if a < 0 or b < 0 or not a < b or "for cell, rule in self.ir.expression.integrand.keys()" not in g:
        raise TranslationError("generate(): order of piecewise partition / quadrature loop not recognised")
    if "self.generate_varying_partition(quadrature_rule, domain)" not in _norm(fns["generate_quadrature_loop"]):
        raise TranslationError("generate_quadrature_loop does not call generate_varying_partition")

    # generate_partition: the loop over F.nodes, the status filter, the cache test, set_var at the end
    gp = fns["generate_partition"]
    loops = [s for s in gp.body if isinstance(s, ast.For)]
    if len(loops) != 1 or _norm(loops[0].iter) != "F.nodes.items()":
        raise TranslationError("generate_partition: node loop not recognised")
    lb = loops[0].body
    if _norm(lb[0]) != "if attr['status'] != mode:\n    continue" or _norm(lb[1]) != "v = attr['expression']":
        raise TranslationError("generate_partition: status filter not recognised")
    rest = lb[2:]
    falls_back = None
    if len(rest) == 1 and isinstance(rest[0], ast.If) and _norm(rest[0].test) == "not self.get_var(quadrature_rule, domain, v)":
        falls_back, guarded = True, rest[0]
    elif len(rest) == 2 and isinstance(rest[0], ast.If) and isinstance(rest[1], ast.If) and _norm(rest[1].test) == "not cached":
        sel = rest[0]
        if (_norm(sel.test) == "mode == 'varying'" and [_norm(s) for s in sel.body] == ["cached = self.scopes[domain, quadrature_rule].get(v)"]
                and [_norm(s) for s in sel.orelse] == ["cached = self.get_var(quadrature_rule, domain, v)"]):
            falls_back, guarded = False, rest[1]
    if falls_back is None:
        raise TranslationError("generate_partition: cache test of unrecognised shape: " + " || ".join(_norm(s)[:120] for s in rest))
    if guarded.orelse or _norm(guarded.body[-1]) != "self.set_var(quadrature_rule, domain, v, vaccess)":
        raise TranslationError("generate_partition: the definition is not stored with set_var(quadrature_rule, domain, ...)")
    os.makedirs(common.GEN, exist_ok=True)
    open(os.path.join(common.GEN, "ScopeGen.v"), "w").write(
        "(* generated by harness/tr_scope.py from ffcx/codegeneration/integral_generator.py *)\n"
        f"Definition varying_check_falls_back : bool := {'true' if falls_back else 'false'}.\n")
    return falls_back


if __name__ == "__main__":
    print(generate())
