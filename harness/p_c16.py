"""C16 — formatted source means exactly what the code-generation AST says (C formatter)."""

from __future__ import annotations

import itertools
import os
import random
import re
import subprocess
import sys
from fractions import Fraction

import common
import cparse
import ffx

sys.path.insert(0, common.REPO)

ARITH_BIN = ["Add", "Sub", "Mul", "Div"]
CMP_BIN = ["LT", "GT", "LE", "GE", "EQ", "NE"]
LOGIC_BIN = ["And", "Or"]


def L():
    import ffcx.codegeneration.lnodes as L_
    return L_


# ---------------------------------------------------------------------------
# trees: built with the real LNodes classes (no overloads), typed like generated code

def atoms_arith():
    l = L()
    return [lambda: l.Symbol("x1", l.DataType.REAL), lambda: l.Symbol("x2", l.DataType.INT),
            lambda: l.LiteralInt(3), lambda: l.LiteralInt(-2), lambda: l.LiteralFloat(0.5),
            lambda: l.LiteralFloat(-2.0), lambda: l.LiteralFloat(1e-05),
            lambda: l.LiteralFloat(2j), lambda: l.LiteralFloat(-0.5 + 0.25j), lambda: l.LiteralFloat(complex(0.0, -1.5))]


def arith_builders(sub_a, sub_c):
    """functions building one arithmetic node from sub-tree factories."""
    l = L()
    out = []
    for op in ARITH_BIN:
        out.append(lambda a, b, op=op: getattr(l, op)(a(), b()))
    out.append(lambda a, b: l.Neg(a()))
    out.append(lambda a, b: l.Sum([a(), b(), a()]))
    out.append(lambda a, b: l.Product([a(), b()]))
    out.append(lambda a, b: l.Sum([a()]))
    out.append(lambda a, b: l.MathFunction("sqrt", [a()]))
    out.append(lambda a, b: l.MathFunction("power", [a(), b()]))
    out.append(lambda a, b: l.Symbol("x5", l.DataType.REAL)[a()][b()])
    return out


def gen_arith(rng, depth):
    l = L()
    if depth == 0 or rng.random() < 0.25:
        return rng.choice(atoms_arith())()
    r = rng.random()
    a = lambda: gen_arith(rng, depth - 1)  # noqa: E731
    if r < 0.4:
        return getattr(l, rng.choice(ARITH_BIN))(a(), a())
    if r < 0.5:
        return l.Neg(a())
    if r < 0.6:
        return l.Sum([a() for _ in range(rng.choice([1, 2, 3]))])
    if r < 0.7:
        return l.Product([a() for _ in range(rng.choice([1, 2, 3]))])
    if r < 0.8:
        return l.MathFunction(rng.choice(["sqrt", "exp", "abs"]), [a()])
    if r < 0.85:
        return l.MathFunction("power", [a(), a()])
    if r < 0.93:
        return l.Symbol("x5", l.DataType.REAL)[a()][a()]
    return l.Conditional(gen_cond(rng, depth - 1), a(), a())


def gen_cond(rng, depth):
    l = L()
    if depth == 0 or rng.random() < 0.5:
        return getattr(l, rng.choice(CMP_BIN))(gen_arith(rng, max(depth - 1, 0)), gen_arith(rng, max(depth - 1, 0)))
    r = rng.random()
    if r < 0.5:
        return getattr(l, rng.choice(LOGIC_BIN))(gen_cond(rng, depth - 1), gen_cond(rng, depth - 1))
    if r < 0.7:
        return l.Not(gen_cond(rng, depth - 1))
    # comparison whose operand is itself a comparison (legal C: (a<b) == c)
    return getattr(l, rng.choice(CMP_BIN))(gen_cond(rng, depth - 1), gen_arith(rng, 0))


def exhaustive_depth2():
    """every parent kind x child kind x position with atom grandchildren."""
    l = L()
    A = atoms_arith()
    sym = A[0]

    def arith_children():
        out = list(A)
        for op in ARITH_BIN:
            out.append(lambda op=op: getattr(l, op)(sym(), A[4]()))
        out += [lambda: l.Neg(sym()), lambda: l.Neg(A[5]()), lambda: l.Neg(A[3]()), lambda: l.Neg(l.Neg(sym())),
                lambda: l.Sum([sym(), A[2](), sym()]), lambda: l.Product([sym(), A[4]()]),
                lambda: l.MathFunction("sqrt", [sym()]), lambda: l.Symbol("x5", l.DataType.REAL)[A[1]()],
                lambda: l.Conditional(l.LT(sym(), A[4]()), sym(), A[4]())]
        return out

    def cond_children():
        out = [lambda op=op: getattr(l, op)(sym(), A[4]()) for op in CMP_BIN]
        out += [lambda op=op: getattr(l, op)(l.LT(sym(), A[4]()), l.GT(sym(), A[4]())) for op in LOGIC_BIN]
        out += [lambda: l.Not(l.LT(sym(), A[4]())), lambda: l.EQ(l.LT(sym(), A[4]()), A[2]())]
        return out

    trees = []
    ac, cc = arith_children(), cond_children()
    for c in ac:
        trees.append(l.Neg(c()))
        for op in ARITH_BIN + CMP_BIN:
            trees.append(getattr(l, op)(c(), sym()))
            trees.append(getattr(l, op)(sym(), c()))
        trees.append(l.Sum([c(), sym()]))
        trees.append(l.Sum([sym(), c()]))
        trees.append(l.Product([c(), sym()]))
        trees.append(l.Product([sym(), c()]))
        trees.append(l.MathFunction("sqrt", [c()]))
        trees.append(l.Symbol("x5", l.DataType.REAL)[c()])
        trees.append(l.Conditional(l.LT(sym(), A[4]()), c(), sym()))
        trees.append(l.Conditional(l.LT(sym(), A[4]()), sym(), c()))
    for c in cc:
        trees.append(l.Not(c()))
        for op in LOGIC_BIN + ["EQ", "NE"]:
            trees.append(getattr(l, op)(c(), l.LT(sym(), A[4]())))
            trees.append(getattr(l, op)(l.LT(sym(), A[4]()), c()))
        trees.append(l.Conditional(c(), sym(), A[4]()))
    return trees


# ---------------------------------------------------------------------------
# LNodes -> tuple with 'x<n>' names read as ident n

def conv(e):
    itn = ffx.Interner()
    return _conv(e)


def _conv(e):
    l = L()
    t = type(e)
    if t is l.Symbol:
        return ("ESym", int(e.name[1:]))
    if t is l.ArrayAccess:
        return ("EAcc", int(e.array.name[1:]), [_conv(i) for i in e.indices])
    if t is l.LiteralInt:
        return ("ELitI", int(e.value))
    if t is l.LiteralFloat:
        if isinstance(e.value, complex):
            return ("ELitC",) + ffx.dyadic(e.value.real) + ffx.dyadic(e.value.imag)
        return ("ELitF",) + ffx.dyadic(float(e.value))
    if t is l.Neg:
        return ("ENeg", _conv(e.arg))
    if t is l.Not:
        return ("ENot", _conv(e.arg))
    if t.__name__ in ffx.BINOPS:
        return ("EBin", ffx.BINOPS[t.__name__], _conv(e.lhs), _conv(e.rhs))
    if t is l.Sum:
        return ("ESum", [_conv(a) for a in e.args])
    if t is l.Product:
        return ("EProd", [_conv(a) for a in e.args])
    if t is l.MathFunction:
        return ("ECall", e.function, [_conv(a) for a in e.args])
    if t is l.Conditional:
        return ("ECond", _conv(e.condition), _conv(e.true), _conv(e.false))
    raise ValueError(t.__name__)


def canon_py(e):
    """C reading of the printed tree: negative literals = unary minus on the magnitude,
    n-ary nodes left-nested (harness twin of Fmt.canon; cross-checked against it in Coq)."""
    k = e[0]
    if k == "ELitI":
        return ("ENeg", ("ELitI", -e[1])) if e[1] < 0 else e
    if k == "ELitF":
        return ("ENeg", ("ELitF", -e[1], e[2])) if e[1] < 0 else e
    if k == "ELitC":
        return ("EBin", "OAdd", canon_py(("ELitF", e[1], e[2])),
                ("EBin", "OMul", ("ESym", 7), canon_py(("ELitF", e[3], e[4]))))
    if k == "ESym":
        return e
    if k == "EAcc":
        return ("EAcc", e[1], [canon_py(i) for i in e[2]])
    if k in ("ENeg", "ENot"):
        return (k, canon_py(e[1]))
    if k == "EBin":
        return ("EBin", e[1], canon_py(e[2]), canon_py(e[3]))
    if k in ("ESum", "EProd"):
        op = "OAdd" if k == "ESum" else "OMul"
        args = [canon_py(a) for a in e[1]]
        acc = args[0]
        for a in args[1:]:
            acc = ("EBin", op, acc, a)
        return acc
    if k == "ECall":
        return ("ECall", e[1], [canon_py(a) for a in e[2]])
    if k == "ECond":
        return ("ECond", canon_py(e[1]), canon_py(e[2]), canon_py(e[3]))
    raise ValueError(k)


def named(e, names):
    """ident numbers -> names (for comparison with pycparser's reading)."""
    k = e[0]
    if k == "ESym":
        return ("ESym", names(e[1]))
    if k == "EAcc":
        return ("EAcc", names(e[1]), [named(i, names) for i in e[2]])
    if k in ("ENeg", "ENot"):
        return (k, named(e[1], names))
    if k == "EBin":
        return ("EBin", e[1], named(e[2], names), named(e[3], names))
    if k in ("ESum", "EProd"):
        return (k, [named(a, names) for a in e[1]])
    if k == "ECall":
        return ("ECall", e[1], [named(a, names) for a in e[2]])
    if k == "ECond":
        return ("ECond", named(e[1], names), named(e[2], names), named(e[3], names))
    return e


def map_calls(e, table):
    k = e[0]
    if k == "ECall":
        return ("ECall", table.get(e[1], e[1]), [map_calls(a, table) for a in e[2]])
    if k == "EAcc":
        return ("EAcc", e[1], [map_calls(i, table) for i in e[2]])
    if k in ("ENeg", "ENot"):
        return (k, map_calls(e[1], table))
    if k == "EBin":
        return ("EBin", e[1], map_calls(e[2], table), map_calls(e[3], table))
    if k in ("ESum", "EProd"):
        return (k, [map_calls(a, table) for a in e[1]])
    if k == "ECond":
        return ("ECond", map_calls(e[1], table), map_calls(e[2], table), map_calls(e[3], table))
    return e


def coq_eval_cases(tuples, tag):
    """run the Gallina printer / canon / predicates on the trees; returns
    (rendered token strings, canon_agrees list, flags list[(wfG, noneg, lex_safe)])."""
    path = os.path.join(common.GEN, f"{tag}.v")
    exp = [canon_py(t) for t in tuples]
    txt = ("From Coq Require Import ZArith List String Uint63.\n"
           "From FFCX Require Import LN Enc Tok Fmt Render.\nImport ListNotations.\nOpen Scope string_scope.\n"
           "Set Printing Width 100000000.\nSet Printing Depth 100000000.\n")
    txt += "Definition cases : list expr := [\n " + ";\n ".join(ffx.coq_expr(t) for t in tuples) + "].\n"
    txt += "Definition expected : list expr := [\n " + ";\n ".join(ffx.coq_expr(t) for t in exp) + "].\n"
    txt += 'Eval vm_compute in String.concat "@@" (map (fun e => render (fmtC e)) cases).\n'
    txt += "Eval vm_compute in map (fun p => expr_eqb (canon (fst p)) (snd p)) (combine cases expected).\n"
    txt += "Eval vm_compute in map (fun e => (wfG e, true, lex_safe e)) cases.\n"
    with open(path, "w") as f:
        f.write(txt)
    out = common.coqc_many([path], timeout=900)[path]
    for ext in (".vo", ".vok", ".vos", ".glob"):
        try:
            os.remove(path[:-2] + ext)
        except OSError:
            pass
    if out[0] != 0:
        raise RuntimeError("coq evaluation of the printer model failed: " + out[2][-500:])
    so = out[1]
    blocks = re.findall(r"=\s(.*?)\n\s*:\s*(string|list bool|list \(bool \* bool \* bool\))\s*(?=\n|$)", so, re.S)
    by = {t: b for b, t in blocks}
    rendered = by["string"].strip().strip('"').replace("\n", " ").split("@@")
    agrees = [x.strip() == "true" for x in by["list bool"].strip().strip("[]").split(";")]
    flags = [tuple(y.strip() == "true" for y in x.strip(" ()\n").split(","))
             for x in by["list (bool * bool * bool)"].strip().strip("[]").split(";")]
    return rendered, agrees, flags


def norm_stmts(body, names, calls):
    """exporter tuples -> flattened, named, canonical statements (comparison form)."""
    out = []
    for s in body:
        k = s[0]
        if k == "SSkip":
            continue
        if k == "SList":
            out.extend(norm_stmts(s[1], names, calls))
        elif k == "SBlock":
            out.append(("SBlock", norm_stmts(s[1], names, calls)))
        elif k == "SFor":
            out.append(("SFor", names(s[1]), s[2], s[3], norm_stmts(s[4], names, calls)))
        elif k == "SVarDecl":
            out.append(("SVarDecl", names(s[1]), s[2], nexpr(s[3], names, calls)))
        elif k == "SArrDecl":
            out.append(("SArrDecl", names(s[1]), s[2], list(s[3]), [nexpr(v, names, calls) for v in s[4]], s[5]))
        elif k in ("SAssign", "SAssignAdd"):
            lv = s[1]
            lv = ("LVar", names(lv[1])) if lv[0] == "LVar" else ("LArr", names(lv[1]), [nexpr(i, names, calls) for i in lv[2]])
            out.append((k, lv, nexpr(s[2], names, calls)))
        else:
            raise ValueError(k)
    return out


def nexpr(e, names, calls):
    return map_calls(canon_py(named(e, names)), calls)


def _negzero(e):
    """-0.0 in the text is the AST's -0.0; the dyadic encoding has no signed zero."""
    if isinstance(e, tuple):
        if e[0] == "ENeg" and e[1] in (("ELitF", 0, 0), ("ELitI", 0)):
            return e[1]
        return tuple(_negzero(x) for x in e)
    if isinstance(e, list):
        return [_negzero(x) for x in e]
    return e


def norm_c(stmts, ctype_to_dt):
    stmts = _negzero(stmts)
    out = []
    for s in stmts:
        k = s[0]
        if k == "SBlock":
            out.append(("SBlock", norm_c(s[1], ctype_to_dt)))
        elif k == "SFor":
            out.append(("SFor", s[1], s[2], s[3], norm_c(s[4], ctype_to_dt)))
        elif k == "SVarDecl":
            out.append(("SVarDecl", s[1], ctype_to_dt(s[2]), s[3]))
        elif k == "SArrDecl":
            out.append(("SArrDecl", s[1], ctype_to_dt(s[2]), s[3], s[4], s[5], s[6]))
        else:
            out.append(s)
    return out


def first_diff(a, b, path="body"):
    if type(a) != type(b):
        return f"{path}: {str(a)[:80]} vs {str(b)[:80]}"
    if isinstance(a, (list, tuple)):
        if len(a) != len(b):
            return f"{path}: length {len(a)} vs {len(b)}"
        for i, (x, y) in enumerate(zip(a, b)):
            d = first_diff(x, y, f"{path}[{i}]")
            if d:
                return d
        return None
    return None if a == b else f"{path}: {a!r} vs {b!r}"


def literal_bound(x: float):
    """|float(format(x,'.16')) - x| in units of the 16th significant decimal digit and in binary ulps."""
    import math
    if x == 0 or x != x or x in (float("inf"), float("-inf")):
        return 0.0, 0.0
    y = float(f"{x:.16}")
    err = abs(Fraction(y) - Fraction(x))
    E = math.floor(math.log10(abs(x)))
    unit = Fraction(10) ** (E - 15)
    ulp = Fraction(math.ulp(x))
    return float(err / unit), float(err / ulp)


def run(v, tier, seed, g):
    from ffcx.codegeneration.C.formatter import Formatter, math_table
    rng = random.Random(seed)
    fmt = Formatter("float64")
    trees = exhaustive_depth2()
    n_ex = len(trees)
    n_rand = 300 if tier == "quick" else 4000
    for _ in range(n_rand):
        trees.append(gen_arith(rng, rng.choice([2, 3, 4, 5])) if rng.random() < 0.75 else gen_cond(rng, rng.choice([1, 2, 3])))
    tuples = [_conv(t) for t in trees]
    texts = [fmt(t) for t in trees]
    inv_table = {cname: cname for cname in set(math_table["float64"].values())}
    fwd = dict(math_table["float64"])
    try:
        rendered, agrees, flags = coq_eval_cases(tuples, "C16_cases")
    except Exception as e:  # noqa: BLE001
        v.oblige(False)
        v.violation("coq-model", f"printer model could not be evaluated: {e}", {}, no_input=True)
        rendered, agrees, flags = [], [], []
    n_in = n_out = 0
    distinct = set()
    outside_witnesses = []
    model_ok = len(rendered) == len(trees)
    for i, (tr, tup, text) in enumerate(zip(trees, tuples, texts)):
        if not model_ok:
            # the printer model does not evaluate (its proof obligations broke): search for a concrete failing input
            # with the independent reader alone — does the real text read back as the tree?
            if "--" in text:
                continue
            try:
                from pycparser import c_parser
                ast = c_parser.CParser().parse("void f(void){ r = " + text + "; }")
                got = cparse.c_expr(ast.ext[0].body.block_items[0].rvalue)
                want = map_calls(named(canon_py(tup), lambda n: "I" if n == 7 else f"x{n}"), fwd)
                bad = got != want
            except Exception:  # noqa: BLE001
                bad = True
            if bad and sum(1 for x in v.violations if "fmtC-search" in x[0]) < 3:
                v.violation(f"fmtC-search:{text[:60]}", f"C text {text!r} does not read back as the AST it was printed from (independent C parser; found while the printer model was broken)",
                            {"text": text, "tree": str(tup)})
            continue
        wf, noneg, lexs = flags[i]
        # model tokens: function names spelled as in the C table
        model = " ".join(("f:" + fwd.get(t[2:], t[2:])) if t.startswith("f:") else t for t in rendered[i].split(" "))
        try:
            real = cparse.render_tokens(cparse.lex(text), inv_table).replace(" I ", " x7 ")
        except ValueError as e:
            real = f"<lex error {e}>"
        inside = wf and noneg
        tok_ok = model == real
        # independent parse of the real text
        tree_ok = None
        try:
            from pycparser import c_parser
            ast = c_parser.CParser().parse("void f(void){ r = " + text + "; }")
            got = cparse.c_expr(ast.ext[0].body.block_items[0].rvalue)
            want = map_calls(named(canon_py(tup), lambda n: "I" if n == 7 else f"x{n}"), fwd)
            tree_ok = got == want
        except Exception as e:  # noqa: BLE001
            tree_ok = False
        v.oblige(agrees[i])
        if not agrees[i]:
            v.violation(f"canon-twin:{i}", "harness canon_py disagrees with Fmt.canon", {"tree": str(tup)}, no_input=True)
        if inside:
            n_in += 1
            distinct.add(text)
            v.oblige(tok_ok and tree_ok and lexs)
            if not (tok_ok and tree_ok):
                v.violation(f"fmtC:{text[:60]}",
                            f"C text {text!r} does not read back as the AST (tokens model/real: {model!r} / {real!r})",
                            {"text": text, "tree": str(tup), "model_tokens": model, "real_tokens": real,
                             "pycparser_agrees": tree_ok})
            elif len(v.samples) < 5:
                v.samples.append({"text": text, "tokens": real})
        else:
            n_out += 1
            if not (tok_ok and tree_ok) and len(outside_witnesses) < 50:
                outside_witnesses.append((text, model, real))
    # trees outside wf: the printer is not claimed correct there; each real misreading is a finding
    seen_kinds = set()
    for text, model, real in outside_witnesses:
        kind = "neg-of-negative-literal" if "--" in text else "other"
        if kind in seen_kinds:
            continue
        seen_kinds.add(kind)
        v.violation(f"fmtC-outside-wf:{kind}", f"formatter prints {text!r}, which C lexes as {real!r}",
                    {"text": text, "model_tokens": model, "real_tokens": real})
    # (a') statement level: the statement printer model (StmtFmt.fmtS, whose output is proved to derive the tree under the
    #      statement grammar) against the real Formatter, token by token, on every statement of the corpus kernels
    import corpus as _corpus
    import stmtcorr
    sc = stmtcorr.run((list(_corpus.PINNED)[::2] if tier == "quick" else list(_corpus.PINNED)) + _corpus.random_cases(seed + 3, 4 if tier == "quick" else 120),
                      max_tokens=20000 if tier == "quick" else 60000)
    v.oblige(sc["kernels"] > 0 and sc["equal"] == sc["kernels"] and not sc["errors"], max(sc["kernels"], 1))
    for e in sc["errors"][:2]:
        v.violation(f"stmt-model-harness:{e[0]}", f"the statement-printer correspondence could not be evaluated for case {e[0]}: {e[1]}", {"error": e}, no_input=True)
    for mm in sc["mismatches"][:3]:
        v.violation(f"stmt-model:{mm['case']}", f"C/formatter.py prints kernel {mm['kernel'][:40]} of case {mm['case']} differently from the statement-printer model StmtFmt.fmtS "
                    f"(first difference at token {mm['token_index']}: real text has {mm['real_tokens_there']}); the model is what C16_printed_statements_derive_the_tree is about",
                    mm, no_input=True)
    v.notes["statement_printer_correspondence"] = {k: sc[k] for k in ("kernels", "equal", "tokens", "skipped", "not_wf", "negative_zero_literals_read_as_zero")}
    # (b) whole kernels: pycparser reading of the real text vs the exported AST
    import astprops
    import corpus
    cases = [c for c in corpus.PINNED] + corpus.random_cases(seed, 12 if tier == "quick" else 150)
    results = common.run_cases(cases, lit="c_printed", want_text=True)
    n_k = 0
    for r in results:
        if r["status"] != "ok" or r.get("scalar_type") != "float64":
            continue
        for kd in r["kernels"]:
            if "body" not in kd:
                continue
            names = kd["names"]
            try:
                cst = cparse.read_kernel(r["source"], kd["name"])
            except Exception as e:  # noqa: BLE001
                v.oblige(False)
                v.violation(f"kernel-parse:{r['id']}", f"pycparser cannot read kernel {kd['name']}: {type(e).__name__}: {e}",
                            {"case": r["id"], "code": r["code"]})
                continue
            dt = lambda t: {"double": "DReal", "int": "DInt", "bool": "DBool", "_Bool": "DBool"}.get(t, t)  # noqa: E731
            a = norm_stmts(kd["body"], lambda n: names[n], fwd)
            # float64: REAL and SCALAR are both 'double'
            a = _merge_real_scalar(a)
            b = _merge_real_scalar(_drop_static(norm_c(cst, dt), v, r, kd))
            d = first_diff(a, b)
            v.oblige(d is None)
            n_k += 1
            if d is not None:
                v.violation(f"kernel-readback:{r['id']}", f"C text of kernel {kd['name']} does not read back as the exported AST: {d}",
                            {"case": r["id"], "code": r["code"], "kernel": kd["name"], "first_difference": d})
    # (c) literals: 16 significant digits
    worst_dec = worst_ulp = 0.0
    lits = [rng.random() * 10 ** rng.randint(-8, 8) for _ in range(20000)] + \
           [1.0 + k * 2.0 ** -52 for k in range(1, 4000, 7)]
    for x in lits:
        dq, uq = literal_bound(x)
        worst_dec, worst_ulp = max(worst_dec, dq), max(worst_ulp, uq)
    # printing rounds to the nearest 16-digit decimal d (|d-x| <= 1/2 unit); reading back takes the double
    # nearest to d, and x itself is a candidate, so |rb-d| <= |x-d|: together at most one unit
    ok_lit = worst_dec <= 1.0 + 1e-9
    v.oblige(ok_lit)
    if not ok_lit:
        v.violation("literal-16-digits", f"a literal reads back {worst_dec} units of the 16th digit away", {"worst": worst_dec})
    v.notes["literal_readback"] = {"checked": len(lits), "worst_units_of_16th_digit": worst_dec,
                                   "worst_binary_ulps": worst_ulp,
                                   "reading": "one unit in the last (16th) printed place; in binary ulps the worst case is about 2.25"}
    if not g["ok"] and not v.violations:
        v.violation("gate", "proof obligations no longer check: " + "; ".join(g["broken"]), {"broken": g["broken"]}, no_input=True)
    cov = {
        "checker_cmd": f"./check C16 --tier {tier}",
        "trusted_base": ["Coq kernel + VM", "tr_prec.py (precedence table and comparators from the source)",
                         "C expression grammar as transcribed in Tok.v from C17 6.5 (unambiguity of that grammar is a fact about C, not proved here)",
                         "pycparser 3.0 and the harness lexer as independent readers of the real text",
                         "CPython's correctly rounded float formatting"],
        "evaluations": len(trees) + n_k, "distinct_nontrivial": len(distinct),
        "rule": "trees: exhaustive parent/child/position at depth 2 (%d) + %d random typed trees; inside = wfG and no Neg of a negative literal; kernels: pycparser re-reading of the compiled text" % (n_ex, n_rand),
        "trees_inside_wf": n_in, "trees_outside_wf": n_out, "kernels_read_back": n_k,
        "axioms_under_property_theorems": g.get("axioms", []),
    }
    return v.finish("proof", cov, ["numba half of the property is decided by ./check C18"])


def _merge_real_scalar(stmts):
    out = []
    for s in stmts:
        if s[0] in ("SVarDecl", "SArrDecl"):
            s = (s[0], s[1], "DReal" if s[2] == "DScalar" else s[2]) + tuple(s[3:])
        elif s[0] == "SBlock":
            s = ("SBlock", _merge_real_scalar(s[1]))
        elif s[0] == "SFor":
            s = s[:4] + (_merge_real_scalar(s[4]),)
        out.append(tuple(s) if not isinstance(s, tuple) else s)
    return out


def _drop_static(stmts, v, r, kd):
    """C07 side condition read off the text: 'static' exactly on const arrays."""
    out = []
    for s in stmts:
        if s[0] == "SArrDecl":
            if s[6] != s[5]:
                v.violation(f"static-nonconst:{r['id']}", f"array {s[1]} in {kd['name']} is static={s[6]} const={s[5]}",
                            {"case": r["id"], "code": r["code"]})
            s = s[:6]
        elif s[0] == "SBlock":
            s = ("SBlock", _drop_static(s[1], v, r, kd))
        elif s[0] == "SFor":
            s = s[:4] + (_drop_static(s[4], v, r, kd),)
        out.append(s)
    return out


def replay(v, payload):
    print(payload.get("text"), payload.get("real_tokens"))
    return 1
