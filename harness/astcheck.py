"""Export every kernel of a set of cases to Coq and evaluate the proven-sound checkers on
it.  One generated file per kernel:  gen/<tag>_<n>.v
   verdict bits:  (safe_all, safe_enabled, accum_only, safe_flag)
     safe_all     : check_kernel under the full UFCx extents          (C08, C19 scoping, C02/C03 pointers)
     safe_enabled : check_kernel with w restricted to enabled coeffs  (C05)
     accum_only   : A only '+=' and never read                        (C07)
     safe_flag    : check_kernel with a zero-length permutation array when needs_facet_permutations is false (C03)
followed by machine-checked theorems (Qed) instantiating the general soundness theorems
for this kernel when the bits are true."""

from __future__ import annotations

import os

import common
import ffx

THEOREMS = """
Theorem k_verdict : verdict = (true, true, true, true).
Proof. vm_compute. reflexivity. Qed.
"""


def kernel_file_text(kd):
    con = kd["contract"]
    con_all = dict(con)
    con_all["w"] = [[0, con["w_total"]]] if con["w_total"] > 0 else []
    txt = common.HEADER
    txt += f"(* kernel {kd['name']} *)\n"
    txt += "Definition k : list stmt :=\n" + ffx.coq_body(kd["body"]) + ".\n"
    txt += f"Definition nA : Z := {con['nA']}.\n"
    txt += f"Definition ic_all : ictx := {common.contract_coq(con_all)}.\n"
    con_flag = dict(con_all)
    con_flag["np"] = con["np_flag"]
    con_en = dict(con)
    con_en["c_allowed"] = con["c_used"]
    txt += f"Definition ic_en : ictx := {common.contract_coq(con_en)}.\n"
    txt += f"Definition ic_flag : ictx := {common.contract_coq(con_flag)}.\n"
    txt += ("Definition verdict := (check_kernel ic_all nA k, check_kernel ic_en nA k, accum_only_list k, "
            "check_kernel ic_flag nA k).\nEval vm_compute in verdict.\n")
    txt += "Eval vm_compute in first_fail ic_en k (aenv0 nA) 0.\n"
    txt += THEOREMS
    return txt


def run(cases, tag, lit="exact", want_text=False, timeout=120):
    """returns (case_results, kernel_records).  kernel record: dict(case, name, contract,
    bits or None, qed (bool), fail_stmt, unsupported)."""
    results = common.run_cases(cases, lit=lit, want_text=want_text, timeout=timeout)
    common.clean_gen(tag + "_")
    files = {}
    recs = []
    n = 0
    for r in results:
        for kd in r.get("kernels", []):
            rec = {"case": r["id"], "code": r["code"], "name": kd["name"], "kind": kd["kind"],
                   "contract": kd.get("contract"), "bits": None, "qed": False,
                   "unsupported": kd.get("unsupported"), "text_tied": kd.get("text_tied"),
                   "names": kd.get("names")}
            recs.append(rec)
            if "body" not in kd:
                continue
            path = os.path.join(common.GEN, f"{tag}_{n}.v")
            with open(path, "w") as f:
                f.write(kernel_file_text(kd))
            files[path] = rec
            rec["file"] = path
            rec["nstmts"] = _count(kd["body"])
            n += 1
    out = common.coqc_many(list(files), timeout=900)
    for path, rec in files.items():
        rc, so, se = out[path]
        rec["bits"] = common.parse_bools(so)
        rec["qed"] = rc == 0
        rec["coq_err"] = se[-400:] if rc != 0 else ""
        import re
        m = re.search(r"=\s*(Some\s+(\d+)|None)\s*:\s*option nat", so)
        rec["fail_stmt"] = int(m.group(2)) if (m and m.group(2)) else None
        for ext in (".vo", ".vok", ".vos", ".glob"):
            try:
                os.remove(path[:-2] + ext)
            except OSError:
                pass
        aux = os.path.join(os.path.dirname(path), "." + os.path.basename(path)[:-2] + ".aux")
        if os.path.exists(aux):
            os.remove(aux)
    return results, recs


def _count(body):
    n = 0
    for s in body:
        n += 1
        if s[0] in ("SList", "SBlock"):
            n += _count(s[1])
        elif s[0] == "SFor":
            n += _count(s[4])
    return n


def distribution(results, recs):
    d = {"cases": len(results), "status": {}, "kernels": len(recs), "kinds": {}, "integral_types": {},
         "cells": {}, "unsupported_kernels": 0}
    for r in results:
        d["status"][r["status"]] = d["status"].get(r["status"], 0) + 1
    for k in recs:
        if k["unsupported"]:
            d["unsupported_kernels"] += 1
            continue
        c = k["contract"]
        d["kinds"][k["kind"]] = d["kinds"].get(k["kind"], 0) + 1
        d["integral_types"][c["integral_type"]] = d["integral_types"].get(c["integral_type"], 0) + 1
        d["cells"][str(c.get("cell"))] = d["cells"].get(str(c.get("cell")), 0) + 1
    return d
