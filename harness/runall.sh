#!/bin/sh
# runall.sh [tier] : every registered check on /repo's current tree, one line per check
tier=${1:-quick}
cd /verif
for id in $(python3 -c "import json;print(' '.join(c['property_id'] for c in json.load(open('MANIFEST.json'))['checks']))"); do
  s=$(date +%s)
  out=$(./check $id --tier $tier 2>&1); rc=$?
  echo "$id rc=$rc $(( $(date +%s) - s ))s :: $(echo "$out" | grep '^OK\|^VIOLATION\|^KNOWN' | head -3 | tr '\n' ' ')"
done
