"""Worker: compile a chunk of cases with the real FFCx from /repo and dump, per case, the
captured kernels (LN tuples, contract, C text, names).  Run as a subprocess:
    python worker.py <in.pkl> <out.pkl>
in.pkl: {"cases":[...], "lit":"exact"|"c_printed", "want_text":bool, "timeout":sec}
"""

from __future__ import annotations

import os
import pickle
import signal
import sys
import traceback

sys.path.insert(0, os.path.dirname(os.path.abspath(__file__)))
import ffx  # noqa: E402


class CaseTimeout(BaseException):
    pass


def _alarm(signum, frame):
    raise CaseTimeout()


def where_in_repo(tb):
    """innermost frame inside /repo/ffcx (or first ufl frame) as 'file:line'."""
    frames = traceback.extract_tb(tb)
    best = None
    for fr in frames:
        if "/ffcx/" in fr.filename:
            best = f"{os.path.relpath(fr.filename, ffx.REPO)}:{fr.lineno}"
    if best is None and frames:
        fr = frames[-1]
        best = f"{fr.filename}:{fr.lineno}"
    return best


def process_case(case, lit, want_text, capture_opt=False, disable_opt=False, want_flat=False):
    out = {"id": case["id"], "code": case["code"], "status": "ok", "kernels": []}
    try:
        objs, options, ns = ffx.build_case(case["code"])
    except CaseTimeout:
        raise
    except BaseException as e:  # noqa: BLE001
        out["status"] = "build_error"
        out["error"] = f"{type(e).__name__}: {e}"[:300]
        return out
    try:
        cap = ffx.compile_case(objs, options, capture_opt=capture_opt, disable_opt=disable_opt)
    except CaseTimeout:
        raise
    except (KeyboardInterrupt, SystemExit):
        raise
    except BaseException as e:  # noqa: BLE001  (ufl ArityMismatch derives from BaseException)
        out["status"] = "rejected"
        out["error"] = f"{type(e).__name__}: {e}"[:300]
        out["where"] = where_in_repo(e.__traceback__)
        return out
    out["options"] = {k: str(v) for k, v in cap.options.items()}
    out["scalar_type"] = str(cap.options["scalar_type"])
    if want_text:
        out["header"], out["source"] = cap.code[0], cap.code[1]
    from ffcx.codegeneration.C.formatter import Formatter
    is_c = cap.options.get("language", "C") == "C"
    if want_text and is_c:
        out["forms"] = form_dispatch(cap)
    for k in cap.kernels:
        kd = {"name": ffx.kernel_name(k), "kind": k["kind"], "scopes": k.get("scopes")}
        try:
            kd["contract"] = ffx.kernel_contract(cap, k)
            body, itn = ffx.conv_kernel(k["ast"], ffx.c_printed if lit == "c_printed" else None)
            kd["body"] = body
            kd["names"] = dict(itn.names)
            if is_c:
                text = Formatter(cap.options["scalar_type"])(k["ast"])
                kd["text_tied"] = text in cap.code[1]
                if want_flat:
                    # the same tree under one identifier per name, and the text the real formatter prints for it
                    fitn = ffx.FlatInterner(ffx.c_printed)
                    fs = ffx.conv_stmt(k["ast"], fitn)
                    kd["body_flat"] = fs[1] if fs[0] == "SList" else [fs]
                    kd["ids_flat"] = dict(fitn.ids)
                    kd["ktext"] = text
            else:
                kd["text_tied"] = None
        except ffx.Unsupported as e:
            kd["unsupported"] = str(e)
        out["kernels"].append(kd)
    if capture_opt:
        out["opt_calls"] = []
        for before, after in cap.opt_calls:
            try:
                out["opt_calls"].append(ffx.conv_opt_call(before, after))
            except ffx.Unsupported as e:
                out["opt_calls"].append({"unsupported": str(e)})
    return out


ITYPES = ["cell", "exterior_facet", "interior_facet", "vertex", "ridge"]


def form_dispatch(cap):
    """per form: what the emitted descriptor lists under each (type, id) (read off the C text)
    and what it must list according to UFL's integral data (kernels of the integral-data groups
    whose id tuple contains the id)."""
    import re
    src = cap.code[1]
    forms = []
    n = 0
    for fi, fd in enumerate(cap.analysis.form_data):
        fname = cap.ir.forms[fi].name
        exp = {}
        for itg in fd.integral_data:
            ir = cap.ir.integrals[n]
            n += 1
            names = sorted(f"{ir.expression.name}_{d.name}" for d in set(c for c, r in ir.expression.integrand.keys()))
            for sid in itg.subdomain_id:
                i = -1 if sid in ("otherwise", "everywhere") else int(sid)
                exp.setdefault((itg.integral_type, i), []).extend(names)
        def arr(kind, pat):
            m = re.search(kind + re.escape(fname) + r"\[(\d+)\] = \{(.*?)\};", src, re.S)
            return [x.strip() for x in m.group(2).split(",")] if m and m.group(2).strip() else []
        ks = [x.lstrip("&") for x in arr("form_integrals_", None)]
        ids = [int(x) for x in arr("form_integral_ids_", None)]
        offs = [int(x) for x in arr("form_integral_offsets_", None)]
        got = {}
        if len(offs) == 6 and len(ks) == len(ids):
            for ti, t in enumerate(ITYPES):
                for j in range(offs[ti], min(offs[ti + 1], len(ids))):
                    got.setdefault((t, ids[j]), []).append(ks[j])
        forms.append({"name": fname, "expected": {k: sorted(v) for k, v in exp.items()},
                      "listed": {k: sorted(v) for k, v in got.items()}, "offsets": offs, "ids": ids})
    return forms


def main():
    with open(sys.argv[1], "rb") as f:
        job = pickle.load(f)
    res = []
    signal.signal(signal.SIGALRM, _alarm)
    for case in job["cases"]:
        signal.alarm(int(job.get("timeout", 120)))
        try:
            r = process_case(case, job.get("lit", "exact"), job.get("want_text", False),
                             capture_opt=job.get("capture_opt", False), want_flat=job.get("want_flat", False),
                             disable_opt=job.get("disable_opt", False))
        except CaseTimeout:
            r = {"id": case["id"], "code": case["code"], "status": "timeout", "kernels": []}
        except BaseException as e:  # noqa: BLE001
            r = {"id": case["id"], "code": case["code"], "status": "harness_error",
                 "error": f"{type(e).__name__}: {e}"[:300] + traceback.format_exc()[-600:],
                 "kernels": []}
        finally:
            signal.alarm(0)
        res.append(r)
    with open(sys.argv[2], "wb") as f:
        pickle.dump(res, f)


if __name__ == "__main__":
    main()
