"""Static gate shared by all checks (steps 1-2 of the verdict protocol):
   1. regenerate the translated model fragments from /repo's current source
   2. build the static theories (full .vo build, incremental)
   3. hygiene scan: no Admitted / admit / Axiom / Parameter / Conjecture / guard switches
   4. compile props/<id>.v and read Print Assumptions under every property theorem
A failure of 1, 2 or 4 is a broken proof obligation: the property module then searches
for a concrete failing input and reports either that, or `no-failing-input-found` naming
what no longer checks."""

from __future__ import annotations

import os
import re
import subprocess

import common

BAD = re.compile(r"\b(Admitted|admit|Axiom|Axioms|Parameter|Parameters|Conjecture|Hypothesis|Variable)\b"
                 r"|Unset\s+Guard|bypass_check|type-in-type|impredicative-set|Admit\s+Obligations")


def hygiene():
    """scan all .v sources; Variable/Hypothesis are allowed only inside Sections."""
    hits = []
    for sub in ("theories", "props", "gen"):
        d = os.path.join(common.COQ, sub)
        if not os.path.isdir(d):
            continue
        for fn in sorted(os.listdir(d)):
            if not fn.endswith(".v"):
                continue
            depth = 0
            in_comment = 0
            with open(os.path.join(d, fn)) as f:
                for ln, line in enumerate(f, 1):
                    # strip comments (nesting aware, line granular)
                    out = ""
                    i = 0
                    while i < len(line):
                        if line.startswith("(*", i):
                            in_comment += 1
                            i += 2
                        elif line.startswith("*)", i) and in_comment:
                            in_comment -= 1
                            i += 2
                        else:
                            if not in_comment:
                                out += line[i]
                            i += 1
                    if re.match(r"\s*Section\b", out):
                        depth += 1
                    if re.match(r"\s*End\b", out) and depth > 0:
                        depth -= 1
                    for m in BAD.finditer(out):
                        w = m.group(0)
                        if w in ("Variable", "Hypothesis") and depth > 0:
                            continue
                        if w in ("Variable", "Hypothesis") and re.search(r"Hypothesis\w|Variable\w", out):
                            continue
                        hits.append(f"{sub}/{fn}:{ln}: {w}")
    return hits


def translators(prop):
    """run the translators whose output the property's theories import. Returns (ok, log)."""
    import importlib
    log = []
    ok = True
    for name in TRANSLATORS_FOR.get(prop, []):
        try:
            mod = importlib.import_module(name)
            mod.generate()
            log.append(f"{name}: ok")
        except Exception as e:  # noqa: BLE001
            ok = False
            log.append(f"{name}: FAILED {type(e).__name__}: {e}")
    return ok, log


ALL_TRANSLATORS = ["tr_fact", "tr_tab", "tr_rules", "tr_prec", "tr_smart", "tr_naming", "tr_opts", "tr_jit", "tr_math", "tr_scope", "tr_c10", "tr_sites", "tr_quad", "tr_perm", "tr_lookup", "tr_dtype"]
TRANSLATORS_FOR: dict[str, list[str]] = {"C01": ["tr_tab", "tr_fact", "tr_lookup"], "C02": ["tr_tab"], "C03": ["tr_perm", "tr_tab"], "C19": ["tr_rules"], "C16": ["tr_prec"], "C17": ["tr_smart"], "C04": ["tr_smart"], "C13": ["tr_naming"], "C20": ["tr_opts"], "C14": ["tr_jit"], "C15": ["tr_jit"], "C09": ["tr_math", "tr_fact", "tr_dtype"], "C11": ["tr_scope", "tr_quad"], "C10": ["tr_c10"], "C12": ["tr_sites"], "C18": ["tr_prec"]}

# what `make` must build for a property: only its own closure, so that a broken
# obligation of one property never raises an alarm for another
KERNEL = ["theories/KernelProps.vo", "theories/Enc.vo", "theories/Num.vo"]
PROP_TARGETS: dict[str, list[str]] = {
    "C03": KERNEL + ["theories/Perm.vo", "gen/PermGen.vo", "theories/Tab.vo", "gen/TabGen.vo"], "C05": KERNEL, "C07": KERNEL, "C08": KERNEL,
    "C19": KERNEL + ["theories/RuleIds.vo", "gen/Rules.vo"],
    "C01": ["theories/Flatten.vo", "theories/Fact.vo", "theories/Tab.vo", "gen/TabGen.vo", "gen/FactGen.vo", "theories/Lookup.vo", "gen/LookupGen.vo", "theories/Indexing.vo"],
    "C02": ["theories/Flatten.vo", "theories/Affine.vo", "theories/Tab.vo", "gen/TabGen.vo"],
    "C04": ["theories/Flatten.vo", "theories/MIdx.vo", "gen/SmartGen.vo", "theories/Opt.vo"],
    "C06": ["theories/FormData.vo"],
    "C09": ["theories/MathTab.vo", "gen/MathTabGen.vo", "theories/Fact.vo", "gen/FactGen.vo", "theories/Dtype.vo", "gen/DtypeGen.vo"],
    "C11": ["theories/Scopes.vo", "gen/ScopeGen.vo", "theories/QuadExact.vo", "gen/QuadGen.vo"],
    "C12": ["theories/Order.vo", "gen/SitesGen.vo"],
    "C18": ["theories/Fmt.vo", "gen/PrecGen.vo", "theories/PyFmt.vo"],
    "C10": ["theories/Clamp.vo", "theories/Diag.vo", "theories/SumFact.vo", "gen/C10Gen.vo", "theories/Sym.vo", "theories/SymEq.vo"],
    "C14": ["theories/Jit.vo", "gen/JitGen.vo"],
    "C15": ["theories/Jit.vo", "gen/JitGen.vo"],
    "C20": ["theories/Cli.vo", "gen/OptGen.vo"],
    "C13": ["theories/Naming.vo", "gen/NamingGen.vo"],
    "C17": ["theories/Smart.vo", "theories/SmartQc.vo", "theories/Render.vo", "theories/Enc.vo", "theories/Num.vo", "theories/Sym.vo", "theories/SymEq.vo", "theories/Opt.vo", "theories/OptProps.vo", "theories/Footprint.vo", "theories/OptSound.vo", "theories/LicmProps.vo"],
    "C16": ["theories/Fmt.vo", "theories/FmtSem.vo", "theories/Render.vo", "theories/Enc.vo", "theories/StmtFmt.vo", "theories/StmtRender.vo"],
}


def compile_props(prop):
    path = os.path.join(common.COQ, "props", f"{prop}.v")
    if not os.path.exists(path):
        return False, "", [f"missing {path}"], 0
    p = subprocess.run(["coqc", *common.COQ_FLAGS, path], cwd=common.COQ, capture_output=True,
                       text=True, timeout=900)
    out = p.stdout
    ntheorems = len(re.findall(r"^\s*(Theorem|Lemma|Example)\b", open(path).read(), re.M))
    closed = out.count("Closed under the global context")
    axioms = []
    for blk in re.findall(r"Axioms:\n((?:.+\n)+?)(?:\n|$)", out):
        for line in blk.splitlines():
            m = re.match(r"^(\S+)\s*:", line)
            if m:
                axioms.append(m.group(1))
    return p.returncode == 0, out + p.stderr[-2000:], sorted(set(axioms)), ntheorems


ALLOWED_AXIOMS = set()  # primitives of Coq's own float/int types are reported separately


def run_gate(prop, v):
    g = {"ok": True, "broken": []}
    tok, tlog = translators(prop)
    g["translators"] = tlog
    if not tok:
        g["ok"] = False
        g["broken"].append("translator: " + "; ".join(t for t in tlog if "FAILED" in t))
    ok, log = common.ensure_theories(PROP_TARGETS.get(prop, KERNEL))
    if not ok:
        g["ok"] = False
        m = re.findall(r'File "([^"]+)", line (\d+)', log)
        g["broken"].append("static theories do not build: " + (f"{m[-1][0]}:{m[-1][1]}" if m else log[-300:]))
    hits = hygiene()
    g["hygiene_hits"] = hits
    if hits:
        g["ok"] = False
        g["broken"].append("hygiene: " + ", ".join(hits[:5]))
    if ok:
        pok, plog, axioms, nth = compile_props(prop)
        g["axioms"] = axioms
        g["prop_theorems"] = nth
        prim = [a for a in axioms if a.startswith(("PrimFloat.", "Uint63.", "PrimInt63.", "Sint63."))]
        other = [a for a in axioms if a not in prim and a not in ALLOWED_AXIOMS]
        v.oblige(pok and not other, max(nth, 1))
        if not pok:
            g["ok"] = False
            g["broken"].append(f"props/{prop}.v does not check: " + plog[-300:].replace("\n", " "))
        if other:
            g["ok"] = False
            g["broken"].append("unexpected axioms under property theorem: " + ", ".join(other))
    else:
        v.oblige(False)
    v.notes["gate"] = {k: g[k] for k in g if k != "ok"}
    return g
