"""C08 — kernels stay inside the extents of the UFCx contract."""
import astprops


def run(v, tier, seed, g):
    return astprops.run_ast_property(
        v, tier, seed, g, "safe_all", "C08", astprops.search_oob_counterexample,
        "access outside the UFCx extents",
        extra_assumptions=["C semantics of multi-dimensional subscripts = row-major flat index with per-dimension bounds"])


def replay(v, payload):
    import common
    res, recs = __import__("astcheck").run([{"id": payload["case"], "code": payload["code"]}], "C08r")
    bad = [r for r in recs if not (r["bits"] and r["bits"][0])]
    for r in bad:
        print("still failing:", r["name"], r["bits"], "statement", r.get("fail_stmt"))
        print(f"VIOLATION property=C08 replay={payload.get('how_to_run','')}")
    return 1 if bad else 0
