"""Contract-satisfying kernel inputs (dyadic values so that Coq's PrimFloat and C see the same bits)."""

from __future__ import annotations

import numpy as np


def dyadic(rng, n, scale=18, span=20):
    return rng.integers(-(2 ** span), 2 ** span, size=n) / float(2 ** scale)


def ref_nodes(cell: str, degree: int):
    """reference coordinates of the coordinate-element nodes (Lagrange points)."""
    import basix
    ct = getattr(basix.CellType, cell)
    e = basix.create_element(basix.ElementFamily.P, ct, degree, basix.LagrangeVariant.equispaced
                             if degree > 2 else basix.LagrangeVariant.unset) if degree > 2 else \
        basix.create_element(basix.ElementFamily.P, ct, degree)
    return np.array(e.points, dtype=float)


def geometry(con, rng, perturb=True):
    """coordinate_dofs (nodes x 3, flattened; doubled for interior facets): reference cell
    mapped by a random well-conditioned affine map + small nodal perturbation."""
    cell = con.get("cell")
    if cell is None or con["nx"] == 0:
        return np.zeros(con["nx"])
    width = 2 if con["integral_type"] == "interior_facet" else 1
    nn = con["nx"] // (3 * width)
    tdim = {"interval": 1, "triangle": 2, "quadrilateral": 2, "tetrahedron": 3, "hexahedron": 3,
            "prism": 3, "pyramid": 3}[cell]
    deg = None
    for d in (1, 2, 3):
        try:
            pts = ref_nodes(cell, d)
        except Exception:  # noqa: BLE001
            continue
        if pts.shape[0] == nn:
            deg = d
            break
    if deg is None:
        pts = rng.random((nn, tdim))
    out = []
    for _ in range(width):
        M = np.eye(3)[:, :tdim] + (rng.integers(-8, 9, size=(3, tdim)) / 32.0)
        b = rng.integers(-16, 17, size=3) / 8.0
        X = pts @ M.T + b
        if perturb and deg and deg > 1:
            X = X + rng.integers(-4, 5, size=X.shape) / 256.0
        # snap to dyadic
        X = np.round(X * 2 ** 20) / 2 ** 20
        out.append(X)
    return np.concatenate([o.reshape(-1) for o in out])


def make(con, rng, scalar_type="float64", e=None, p=None):
    """dict of numpy arrays A, w, c, x, e, p for the kernel's contract."""
    st = np.dtype(scalar_type)
    rt = np.dtype({"float32": "float32", "float64": "float64", "complex64": "float32",
                   "complex128": "float64"}[st.name])
    span, scale = (10, 8) if rt == np.float32 else (20, 18)

    def vals(n):
        v = dyadic(rng, n, scale, span)
        if st.kind == "c":
            v = v + 1j * dyadic(rng, n, scale, span)
        return v.astype(st)
    d = {"A": vals(con["nA"]), "w": vals(con["w_total"]), "c": vals(con["nc"]),
         "x": geometry(con, rng).astype(rt)}
    ne, npm = con["ne"], con["np"]
    if e is None:
        e = [int(rng.integers(con["e_range"][0], max(con["e_range"][1], 1))) for _ in range(ne)]
    if p is None:
        p = [int(rng.integers(con["p_range"][0], max(con["p_range"][1], 1))) for _ in range(npm)]
    d["e"] = np.array(list(e) + [0] * (2 - len(e)), dtype=np.intc)
    d["p"] = np.array(list(p) + [0] * (2 - len(p)), dtype=np.uint8)
    d["e_used"], d["p_used"] = list(e), list(p)
    return d
