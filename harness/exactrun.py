"""C11 worker: monomial functionals  sum_k c_k x^alpha_k * dx(degree=q)  on a random affine cell,
compiled by FFCx, run through gcc, and compared with the closed-form integral computed in exact
rational arithmetic (expansion of the affine pull-back, reference-cell monomial integrals).

python exactrun.py in.pkl out.pkl     job: {"cases":[{"cell","degrees":[..],"seed", "scheme"}]}
"""
from __future__ import annotations

import math
import os
import pickle
import sys
import traceback
from fractions import Fraction

sys.path.insert(0, os.path.dirname(os.path.abspath(__file__)))
import numpy as np  # noqa: E402

import ffx  # noqa: E402
import runc  # noqa: E402

TDIM = {"interval": 1, "triangle": 2, "quadrilateral": 2, "tetrahedron": 3, "hexahedron": 3, "prism": 3, "pyramid": 3}


def ref_monomial_integral(cell, a):
    """exact integral of X^a over the reference cell."""
    f = math.factorial
    if cell in ("interval", "quadrilateral", "hexahedron"):
        r = Fraction(1)
        for k in a:
            r /= (k + 1)
        return r
    if cell in ("triangle", "tetrahedron"):
        num = 1
        for k in a:
            num *= f(k)
        return Fraction(num, f(sum(a) + len(a)))
    if cell == "prism":
        return Fraction(f(a[0]) * f(a[1]), f(a[0] + a[1] + 2)) / (a[2] + 1)
    if cell == "pyramid":
        # int_0^1 int_0^{1-z} int_0^{1-z} x^a y^b z^c = c! (a+b+2)! / ((a+1)(b+1)(a+b+c+3)!)
        return Fraction(f(a[2]) * f(a[0] + a[1] + 2), (a[0] + 1) * (a[1] + 1) * f(a[0] + a[1] + a[2] + 3))
    raise ValueError(cell)


def poly_mul(p, q):
    r = {}
    for ea, ca in p.items():
        for eb, cb in q.items():
            e = tuple(x + y for x, y in zip(ea, eb))
            r[e] = r.get(e, 0) + ca * cb
    return r


def poly_pow(p, n, one):
    r = {one: Fraction(1)}
    for _ in range(n):
        r = poly_mul(r, p)
    return r


def exact_integral(cell, B, b0, alpha):
    """integral over the affine image x = b0 + B X of the reference cell of prod_i x_i^alpha_i."""
    d = TDIM[cell]
    one = (0,) * d
    total = {one: Fraction(1)}
    for i, ai in enumerate(alpha):
        lin = {one: Fraction(b0[i])}
        for j in range(d):
            e = tuple(1 if t == j else 0 for t in range(d))
            lin[e] = lin.get(e, 0) + Fraction(B[i][j])
        total = poly_mul(total, poly_pow(lin, ai, one))
    det = Fraction(np.linalg.det(np.array(B, dtype=float))).limit_denominator(1 << 40)
    # B has dyadic entries with few bits: the determinant is exact in double precision
    s = Fraction(0)
    for e, c in total.items():
        if c:
            s += c * ref_monomial_integral(cell, e)
    return s * abs(det)


def monomials(d, q, rng, n=4):
    """a few exponent tuples: total degree exactly q (extremes and random), and some below q."""
    out = set()
    out.add(tuple(q if i == 0 else 0 for i in range(d)))
    out.add(tuple(q if i == d - 1 else 0 for i in range(d)))
    for _ in range(n):
        cuts = sorted(rng.integers(0, q + 1, size=d - 1)) if d > 1 else []
        parts = [b - a for a, b in zip([0, *cuts], [*cuts, q])]
        out.add(tuple(int(x) for x in parts))
    if q > 0:
        lo = int(rng.integers(0, q))
        cuts = sorted(rng.integers(0, lo + 1, size=d - 1)) if d > 1 else []
        out.add(tuple(int(b - a) for a, b in zip([0, *cuts], [*cuts, lo])))
    return sorted(out)


def run_case(case):
    cell, degs, seed = case["cell"], case["degrees"], case["seed"]
    scheme = case.get("scheme", "default")
    rng = np.random.default_rng(seed)
    d = TDIM[cell]
    lines = [f'm=mesh("{cell}"); x=SpatialCoordinate(m)', "objs=[]"]
    spec = []
    for q in degs:
        ms = monomials(d, q, rng)
        cs = [int(rng.integers(1, 8)) / 4 for _ in ms]
        terms = []
        for c, a in zip(cs, ms):
            fac = "*".join(f"x[{i}]**{k}" for i, k in enumerate(a) if k > 0) or "1.0"
            terms.append(f"{c}*{fac}")
        md = f'degree={q}' + (f', scheme="{scheme}"' if scheme != "default" else "")
        lines.append(f"objs.append(({' + '.join(terms)})*dx({md}, domain=m))")
        spec.append((q, ms, cs))
    code = "\n".join(lines) + "\n"
    out = {"id": case.get("id", f"{cell}:{scheme}:{degs[0]}-{degs[-1]}"), "code": code, "status": "ok", "rows": []}
    try:
        objs, options, ns = ffx.build_case(code)
        cap = ffx.compile_case(objs, options)
    except BaseException as e:  # noqa: BLE001
        out["status"] = "rejected"
        out["error"] = f"{type(e).__name__}: {e}"[:300]
        return out
    b = runc.CBuild(cap.code[0], cap.code[1])
    if not b.ok:
        out["status"] = "gcc_failed"
        out["error"] = b.log[:400]
        return out
    # a positive affine cell: x in roughly [0.25, 2.5]^d
    while True:
        B = np.round(rng.uniform(-0.5, 0.5, size=(d, d)) * 8) / 8 + np.eye(d)
        if abs(np.linalg.det(B)) > 0.3 and (B.sum(axis=1) > 0).all() and (B > -0.26).all():
            break
    b0 = np.round(rng.uniform(0.5, 1.0, size=d) * 8) / 8
    import basix
    ref = np.asarray(basix.geometry(getattr(basix.CellType, cell)))
    P = ref @ B.T + b0
    xs = np.zeros((P.shape[0], 3))
    xs[:, :d] = P
    xs = xs.reshape(-1)
    if len(cap.kernels) != len(spec):
        out["status"] = "harness_error"
        out["error"] = f"{len(cap.kernels)} kernels for {len(spec)} forms"
        return out
    for k, (q, ms, cs) in zip(cap.kernels, spec):
        A = np.zeros(1)
        runc.call_kernel(b.kernel(ffx.kernel_name(k)), A, np.zeros(1), np.zeros(1), xs, np.zeros(1), np.zeros(1))
        exact = sum(Fraction(c) * exact_integral(cell, B.tolist(), b0.tolist(), a) for c, a in zip(cs, ms))
        err = abs(Fraction(float(A[0])) - exact) / abs(exact)
        out["rows"].append({"q": q, "monomials": ms, "coeffs": cs, "kernel": float(A[0]), "exact": float(exact),
                            "relerr": float(err), "B": B.tolist(), "b0": b0.tolist()})
    return out


def main():
    job = pickle.load(open(sys.argv[1], "rb"))
    res = []
    for case in job["cases"]:
        try:
            res.append(run_case(case))
        except BaseException as e:  # noqa: BLE001
            res.append({"id": case.get("id", str(case)), "code": "", "status": "harness_error", "error": f"{type(e).__name__}: {e}" + traceback.format_exc()[-600:], "rows": []})
    pickle.dump(res, open(sys.argv[2], "wb"))


if __name__ == "__main__":
    main()
