#!/bin/sh
# withpatch.sh [-R] <diff file> <check ids...> : apply (or reverse-apply) a diff to /repo's working tree, run the checks,
# undo it.  The evidence files describe the unchanged tree: they are saved and put back.
set -u
rev=""; [ "$1" = "-R" ] && { rev="-R"; shift; }
p=$1; shift
[ -z "$(git -C /repo status --short)" ] || { echo "/repo has uncommitted changes: refusing"; exit 2; }
sav=$(mktemp -d /tmp/vf_evid.XXXXXX); cp -a /verif/evidence/. "$sav"/
git -C /repo apply $rev "$p" || { echo "patch does not apply"; rm -rf "$sav"; exit 2; }
for c in "$@"; do
  echo "=== check $c with $(basename $p) ${rev:+reversed }applied"
  /verif/check $c --tier quick 2>&1 | grep "^VIOLATION\|^OK\|^KNOWN\|violation detail" | head -6
done
git -C /repo checkout -- .
git -C /repo status --short | head -3
cp -a "$sav"/. /verif/evidence/; rm -rf "$sav"
