"""Regenerate /verif/MANIFEST.json from the table below (keeps it schema-valid)."""

import json
import os

VERIF = os.path.dirname(os.path.dirname(os.path.abspath(__file__)))

CHECKS = {
    "C05": dict(
        technique="Coq proof: sound abstract interpreter (Check.v) + non-interference theorem (Mono.v), evaluated by vm_compute on every exported kernel under the enabled-coefficient contract",
        text="Per exported kernel, for ALL input values: reads of w fall inside the ranges of enabled coefficients (offset_k, width*dim_k in reduced order), reads of c inside the constants' flattened extent; by the non-interference theorem the result is independent of every other input cell. Forms are sampled (pinned + seeded corpus); the front half (UFL's reduced_coefficients) is trusted.",
        note="Coq kernel+VM; exporter and contract computation (harness/ffx.py); LN.exec as meaning of emitted C (bit-exact correspondence run in C17); UFL enabled_coefficients/reduced_coefficients taken as given",
        design="DESIGN.md S.2 and 3 C05"),
    "C07": dict(
        technique="Coq proof: relational theorem kernel_accumulates (Accum.v) instantiated per exported kernel by vm_compute of accum_only_list; write-protection of inputs via Check.v soundness",
        text="Per exported kernel, for ALL inputs and ALL initial A: A1 = A0 (+) D with D the kernel's result from a zero tensor (exact arithmetic), inputs and const tables never written. Thread schedules are not modelled (no shared mutable state is the argument; partial for schedules).",
        note="Coq kernel+VM; exporter; exact arithmetic for the algebraic law; C semantics of restrict/static const trusted; threads not modelled",
        design="DESIGN.md S.2 and 3 C07"),
    "C08": dict(
        technique="Coq proof: type/bounds soundness of the abstract interpreter (check_sound, kernel_safe) w.r.t. a trapping big-step semantics; vm_compute per exported kernel; ASan build of the real C as failing-input search",
        text="Per exported kernel, for ALL inputs, loop iterations and admissible entity/permutation values: no subscript leaves a declared shape or the UFCx extents (A, w, c, coordinate_dofs, entity_local_index, quadrature_permutation); cell kernels never dereference entity/permutation pointers. Forms sampled.",
        note="Coq kernel+VM; exporter; extents computed from UFL data by the harness (independent of common.tensor_sizes); C row-major subscripts",
        design="DESIGN.md S.2 and 3 C08"),
}

CHECKS["C03"] = dict(
    technique="Coq proof: (flag half) non-interference theorem instantiated with a zero-length permutation array, vm_compute per exported kernel; (numbering half) FFCx's point permutations and the stacking order of the permuted tables are translated from elementtables.py on every run, and it is proved that code c acts on the vertex shape functions of the reference facet by a pinned table, that the tables are the full symmetry groups (S3, D4, Z2) and hence that for every relative numbering of a shared affine/bilinear facet some code aligns the physical points of both sides at every point; value level: the '-' cell is renumbered and every code is run against the oracle",
    text="Per exported kernel flagged needs_facet_permutations=false, for ALL inputs: the kernel never reads quadrature_permutation. For ALL points of the reference facet and all vertex coordinates: the permuted point of code c is the image under the facet symmetry tabulated for c, the tabulated symmetries are all symmetries, and some code makes both sides' physical points coincide for each of the 6 / 8 / 2 relative numberings. Sampled: per kernel and sampled renumbering of the '-' cell some code reproduces the oracle's integral and unique matching codes agree across kernels. Not proved: that the kernel's tables ARE the element tabulated at the permuted points (decided by the value runs), curved facets, which code DOLFINx passes.",
    note="Coq kernel+VM; exporter; tr_perm.py; oracle (affine '-' cells, pull-back of physical points); forms and renumberings sampled; DOLFINx's computation of permutation codes outside FFCx",
    design="DESIGN.md S.2 and 3 C03")
CHECKS["C19"] = dict(
    technique="Coq proof: scoping/typing progress theorem per exported kernel (vm_compute), finite exhaustive theorem over the rule-id table regenerated from /repo; gcc -std=c17 on every accepted case; rejection stream",
    text="Per exported kernel: every identifier declared once per C scope, before use, in scope (C name resolution done by the exporter, redeclaration/unbound detected by the proven checker). Exhaustive over cells x degree 0..30 x schemes x polyset types x vertex scheme: equal rule ids imply equal points and weights. Every accepted corpus case is compiled by gcc; unsupported constructs must raise before the compiler.",
    note="Coq kernel+VM; exporter name resolution; gcc as arbiter of C17 validity; SHA-1 collision-free on the enumerated rules; forms sampled",
    design="DESIGN.md S.2 and 3 C19")

CHECKS["C16"] = dict(
    technique="Coq proof: token-level printer model over the precedence table/comparators regenerated from the source derives canon(e) under a C17 expression grammar (fmtC_derives), value preservation (canon_eval), lexer safety for all trees; char-exact correspondence with the real Formatter, pycparser re-reading of expressions and whole kernels; statement level: token model of the statement printer (StmtFmt.fmtS) proved to derive every well-formed statement tree under a statement grammar written from C17 6.7/6.8 (fmtS_derives), compared token by token with the real Formatter on every kernel of the corpus (stmtcorr.py)",
    text="For every well-formed expression tree: the printed tokens derive, under the C grammar, the same tree (n-ary nodes left-nested, negative literals as unary minus), which has the same value; no glued '--' for any tree. Statement level (declarations with nested initialiser lists, assignments, +=, for loops with their bounds, blocks, spliced lists): for every statement tree with well-formed expressions the printed tokens derive that tree under the statement grammar (proved over the token model, which is compared with the real Formatter on every corpus kernel; the real text is additionally re-read with pycparser against the exported AST). Literals (one unit in the 16th printed digit; -0.0 read as 0) are decided by re-reading. Complex literals are outside the Coq fragment. numba half: see C18.",
    note="Coq kernel+VM; tr_prec.py; the C grammar transcription in Tok.v and its unambiguity; pycparser; CPython float formatting",
    design="DESIGN.md S.2 and 3 C16")

CHECKS["C06"] = dict(
    technique="Coq proof over a hand model of common.integral_data (sorting keeps ids/names/domains paired, offsets delimit groups, dispatch lists exactly the entries of an id); correspondence model vs real function vs independent spec on generated inputs; descriptors read back from cffi-compiled modules",
    text="For all inputs of integral_data: groups in ufcx order, ids non-decreasing with names/domains paired, offsets = kernel counts per type, slots under an id = entries of that id. Compiled ufcx_form fields (offsets, ids, rank, coefficient positions, constant shapes, kernels present) compared with the declared form for forms with mixed types, tuple ids, repeated ids, prism facets, several forms. The 'sum of kernels = declared integrands' half is left to the value oracle (C01).",
    note="Coq kernel+VM; hand model tied by correspondence; UFL build_integral_data; cffi/gcc",
    design="DESIGN.md S.2 and 3 C06")
CHECKS["C17"] = dict(
    technique="Coq proof: (1) overloads translated from lnodes.py on every run (tr_smart): value preservation for all operands and stores in any commutative ring, float_product, correspondence Python result tree vs translated function on every operand-kind pair; (2) optimiser: hand model Opt.v of optimizer.py tied by node-by-node comparison of Opt.optimize with the real result on every captured optimize() call (optcorr.py); section fusion and loop fusion proved, for all code lists and all inputs, to refine the code under a decidable side condition evaluated by vm_compute per captured call (Footprint.v: footprints of LN.exec, commutation of non-interfering statements, verified reorder checker, block merge, n-ary loop fusion; OptSound.v); optimize = licm after the fusing passes; licm: algebraic half for all products, bookkeeping of temporaries for all assignment lists (LicmProps.v: numbered consecutively, each declared once, never shared between two products; a rewritten assignment keeps the value of its product when the temporary holds the hoisted factors' product), and per exported kernel pair (passes on / off) symbolic execution of both kernels in the free term algebra (homomorphism theorem Sym.run_hom) and comparison of the outputs as polynomials over the inputs with Coq's ring normaliser (SymEq.kernels_equiv_sound), evaluated by vm_compute for every admissible entity/permutation value; LN.exec vs gcc bit-exact",
    text="LExpr.__neg__/__add__/__radd__/__sub__/__rsub__/__mul__/__rmul__/__div__/__rdiv__ and float_product build trees with the same numeric value as the unsimplified operation for all operand kinds/values (exact arithmetic; IEEE corner cases excluded). Optimiser half: for each sampled form, the kernel generated with fuse_sections/fuse_loops/licm and the kernel generated without them are proved to return the same tensor for ALL real inputs (literals, division and math functions uninterpreted; ring operations of Z, i.e. a polynomial identity) and all listed entity/permutation combinations (all of them when at most 8 in the quick tier / 200 in the thorough tier, else a sample). Not proved: the passes as functions on arbitrary ASTs; kernels with conditionals are compared by execution on random inputs.",
    note="Coq kernel+VM; tr_smart.py; exporter; ring hypotheses (satisfiable: SmartQc.v); Ring_polynom (stdlib) for the normal forms; atoms (input cells, literals, quotients, function applications) compared syntactically; forms sampled",
    design="DESIGN.md S.2 and 3 C17")
CHECKS["C13"] = dict(
    technique="Coq proof of injectivity of the signature pre-image encoding (separator-joined fields, fixed-length digests) and of name distinctness under an injective digest; shape check of naming.py by translator; names taken from the real entry points (compile_forms / compile_expressions stopped at the cache lookup) in subprocess runs across hash seeds / object counters / prior compilations, with one and with several compiler flags; request pairs that must be kept apart (incl. the order of compiler flags)",
    text="The text hashed into module and object names determines every component (forms, version, ufcx.h hash, kind, options+flags tag) - proved for all inputs of the encoding; SHA-1 and UFL signatures are assumed injective/renumbering-invariant. Stability and separation are exercised in fresh processes (seeds, histories, near-equal and large point arrays, flags, options).",
    note="Coq kernel; SHA-1; UFL signatures; Python str() of tuples/options; tr_naming.py",
    design="DESIGN.md S.2 and 3 C13")

CHECKS["C20"] = dict(
    technique="Coq proof of option precedence (association-list model of get_options and of main's priority options, option table and argparse defaults regenerated from the source by tr_opts) and of header/source assembly; Coq proof that the namespace / output stem produced by main.sanitise_filename (regenerated as a pipeline of character-class substitutions by tr_opts) consists of C-identifier characters for every file name, and fixes clean names; end-to-end run of ffcx.main.main: gcc stand-alone, nm declared-subset-of-defined, aliases, kernels vs JIT path bit for bit, option matrix over the three sources",
    text="For every option key and all contents of the three sources: command line > $PWD file > user file > defaults (an option absent from the command line is None in argparse - checked on the regenerated table). Header = declarations, source = implementations in block order. For every file name the alias prefix and output stem are identifier characters (and identifiers are kept); file names with punctuation / non-ASCII go through ffcx.main and the model and must agree, be written, declare the alias and compile. One representative UFL file (named forms, forms list, expression, element) is compiled through the CLI and compared with the JIT kernels bit for bit.",
    note="Coq kernel+VM; tr_opts.py; UFL file loader; gcc/nm/cffi; programs: one UFL file + option matrix",
    design="DESIGN.md S.2 and 3 C20")

CHECKS["C14"] = dict(
    technique="Coq proof: inductive invariant over all reachable states of a transition-system model of jit.py's file-system protocol (any number of processes, any interleaving): mutual exclusion, marker implies complete, no partial load (all traces, failures and kills included: the marker is published atomically, a fact regenerated from the source by tr_jit), at most one compile, reuse; trace conformance of the real compile_forms under a deterministic scheduler that stops at every file-system call (also at pathlib / os primitives on protocol files the protocol does not use today); property judged on real outcomes",
    text="For every number of concurrent requests and every interleaving of their file-system steps: at most one builder, the ready marker is only present with a complete module, no request loads a partial module, the compiler finishes at most once without faults, a later request reuses the module in three steps. The model is validated against the real functions on scheduled runs (120 quick / 3000 thorough), the OS loader replaced by a content check. Correctness of the kernels inside the module is C01's concern.",
    note="Coq kernel+VM; hand model tied by trace conformance; POSIX exclusivity of open('x'), atomic rename, dlopen of a complete file; wall-clock timeout modelled as a poll counter",
    design="DESIGN.md S.2 and 3 C14, Appendix B")
CHECKS["C15"] = dict(
    technique="Coq proof over the same transition system with fault and kill transitions at every point: no partial load and marker-implies-complete after any kill/failure on every trace, failed build releases the lock, root logger handlers restored in every request that returns or raises (restore_on_fault, atomic_marker read off the source by tr_jit); the publication of the marker is the last statement of the build (nothing that can fail comes between 'the marker exists' and the return: read off the source by tr_jit, fail-closed); fault/kill-injected trace conformance with faults at code generation, compile, link, the verbose echo of the compiler log (requests run with cffi_verbose=True), log write and marker publication; scripted schedule for the former marker-window defect",
    text="For every crash point and every later history: later requests load a complete module or raise, never a partial one; after a failed build the lock is renamed and the next request builds; process-global logger state is restored. With the marker created empty and then filled (the code before fix 4061520) the safety statement is false (Jit.marker_window_refuted); with atomic publication it holds for every trace. A request in which nothing failed may not raise a build error.",
    note="Coq kernel+VM; hand model tied by fault-injected trace conformance; kill = process disappears between two file-system calls; POSIX assumptions as C14",
    design="DESIGN.md S.2 and 3 C15, Appendix B")

CHECKS["C01"] = dict(
    technique="Coq proof (Indexing.v, tied by idxcorr.py on every call the corpus makes) that the component maps of the value numbering (indexing.py: e2[multiindex], as_tensor) and the grouping of reconstruct.handle_index_sum are what indexing / index summation mean, for all shapes and index patterns; Coq proof (Lookup.v over the table lnodes._ufl_call_lookup regenerated by tr_lookup.py) that every UFL comparison / connective / conditional / arithmetic operator and elementary function is translated to the LNodes node of the same meaning; Coq proof that the argument factorisation (model Fact.v of ffcx/ir/analysis/factorization.py, tied by exact correspondence on every integrand of the sampled forms) preserves the value of every multilinear integrand in every commutative ring with conjugation; Coq proof that the classification and reduction of element tables (model Tab.v over Q; predicates regenerated by tr_tab and pinned; real predicates vs model on generated dyadic tables) leaves the value read by table_access within the table tolerances, inside the reduced extent; Coq proof of the layout facts (row-major flattening = printed stride expression, bijective onto [0,prod); blocked layout) + independent oracle (UFL point evaluation of the original integrand, textbook push-forwards, basix tabulation) against every cell kernel of the corpus; per exported kernel the theorems of C05/C07/C08/C16/C17/C19",
    text="The end-to-end statement (kernel = quadrature sum of the form) is decided per sampled form by differential execution against an independent oracle (agreement to ~1e-15 relative): NOT a theorem. Proved for all inputs are the soundness of the argument factorisation (integrand = sum over argkeys of factor times arguments, for all multilinear integrands; multilinearity is checked on every exported integrand) and the index-layout lemmas; proved per exported kernel are purity/accumulation, bounds, packing, C text = AST. Partial: UFL lowering, basix, table compression and the partition into loops are not modelled.",
    note="oracle (harness/oracle.py) trusted as specification; forms sampled (pinned + seeded random, explicit quadrature degrees); Coq kernel for Flatten.v, Fact.v; factcorr.py exporter",
    design="DESIGN.md S.2 and 3 C01")
CHECKS["C02"] = dict(
    technique="Coq proof: affine sub-entity embedding is the barycentric combination of the entity's vertices (points of the reference facet land on that facet), interior-facet macro layout bijective; oracle run of every facet/vertex kernel for ALL local entity indices with different data on the two sides",
    text="Per sampled facet/vertex kernel every local entity index of the cell (prisms/pyramids: both facet types) is executed and compared with the independent oracle (normals, facet measures, point maps, '+'/'-' data in the macro layout). Proved: embedding and macro-layout lemmas. Partial: forms sampled; basix geometry/topology taken as data.",
    note="oracle trusted as specification; interior facets: mirrored '-' cell with identical local numbering and permutation code 0; Coq kernel for Affine.v/Flatten.v",
    design="DESIGN.md S.2 and 3 C02")

CHECKS["C04"] = dict(
    technique="Coq proof: the printed index of A[point][component][dof] is the row-major position and distinct (point, component, dof) never alias (Flatten.v); oracle evaluation of the expression at the given points for every sampled expression; JIT descriptor compared with the UFL expression",
    text="Per sampled expression (scalar/vector/tensor valued, rank 0 and 1, cell and facet points, affine and non-affine cells, mixed coefficients): every entry of A equals the expression evaluated at the point by the independent oracle, and the compiled ufcx_expression descriptor (points, value shape, rank, coefficient numbering, constants) matches the expression. Proved for all shapes: index layout lemmas. Per exported expression kernel the C05/C07/C08 theorems also apply. Partial: expressions sampled.",
    note="oracle trusted as specification; expressions sampled; Coq kernel for Flatten.v; cffi JIT for the descriptor",
    design="DESIGN.md S.2 and 3 C04")
CHECKS["C09"] = dict(
    technique="Coq proof (Dtype.v over merge_dtypes / extract_dtype regenerated by tr_dtype.py) that the type inferred for an intermediate variable is the widest type among ALL its operands (no complex value is ever stored in a real temporary); Coq proof: finite exhaustive theorem over the formatter's math-function tables regenerated from /repo (every UFL math operator x 4 scalar types selects a function existing for the operand type, complex operands of real-only functions are rejected); oracle comparison of each form compiled for float32/float64/complex64/complex128 on data of that type",
    text="Proved (finite, exhaustive over operators x scalar types, re-derived from the source on every run): the selected C function exists for the operand type; a complex operand never silently reaches a real-only function. Sampled: sesquilinear forms with complex data agree with the oracle evaluated in complex arithmetic with the test function conjugated, for all four scalar types; complex operands of erf/atan2/bessel must be rejected while real-valued operands still work.",
    note="Coq kernel+VM; tr_math.py; oracle trusted as specification (Python math/cmath, own Bessel quadrature); glibc libm/complex.h",
    design="DESIGN.md S.2 and 3 C09")

CHECKS["C11"] = dict(
    technique="Coq proof: (1) model of IntegralGenerator's variable scopes with the cache test regenerated from the source, theorem that every rule reads its own varying values for all rule lists, correspondence of the model with the real generator's scope resolution; (2) finite exactness theorem: the rules FFCx builds for every (cell, degree up to a stated bound, default scheme) are tabulated through create_quadrature_points_and_weights on every run and every monomial of total degree <= q is shown, in exact integer arithmetic evaluated by vm_compute over BigZ, to be integrated to within 2^-40; oracle with each integral's own rule; closed-form monomial integrals for degree 0..30",
    text="Proved for all lists of rules and all status assignments: a node that varies under rule i is resolved to rule i's own definition (refuted by example for the pre-fix cache test). Proved (finite, regenerated, bounds in the theorem: 1D/2D cells q<=20, 3D cells q<=6 in the quick tier; 30/14 in the thorough tier): exactness of the tabulated default rules incl. the tensor-product variant, and that the table covers every degree up to the bound. Correspondence: the real generator's scope resolution equals the model's. Sampled: sums of integrals with differing rules / partial metadata / vertex, GLL, custom schemes / quadrature elements vs the oracle; forms without metadata exact on affine cells; monomial functionals with dx(degree=q) vs closed forms (7 cells, q=0..30, 4 schemes).",
    note="Coq kernel+VM; Bignums BigZ (the stdlib axioms on primitive 63-bit integers, Uint63.*_spec, appear under the exactness theorem and nowhere else); closed-form reference integrals (Dirichlet) are part of the statement; tr_scope.py, tr_quad.py; oracle and exact rational closed forms trusted; known finding: two different one-point rules in one integral share piecewise values",
    design="DESIGN.md S.2 and 3 C11")

CHECKS["C10"] = dict(
    technique="Coq proof: clamping bound for all entries/tolerances (Clamp.v, targets regenerated from the source), diagonal kernel = diagonal of the full tensor for all dof-block lists under FFCx's layouts with the block guard read off the source (Diag.v), tensor-product rule factorisation (SumFact.v); per sampled bilinear form the rank-1 kernel of part='diagonal' is proved, by symbolic execution of both kernels and polynomial normal forms (Sym.v, SymEq.diagonal_equiv_sound), to return the diagonal of the rank-2 kernel for all inputs; each form compiled under each option and compared with the independent oracle",
    text="Proved: an element-table entry moves by at most atol+rtol under clamp_table_small_numbers (and not at all for zero tolerances); with the guard found in generate_block_parts the rank-1 kernel equals the diagonal for every list of blocks whose position families are equal or disjoint; flat tensor-rule sum = product of directional sums; per sampled bilinear form (mixed, vector, interior facets, H(div)/H(curl), two rules) and entity/permutation value: diagonal kernel = diagonal of the full kernel for ALL real inputs. Sampled: sum_factorization on/off on tensor-product elements (coefficients, several rules, one-point rules, vector-valued, hex/quad), options on integrals they do not apply to (no rejection, no change), part='diagonal' through the real compile_forms preprocessing (mixed, vector, interior facets, H(div)/H(curl)), zero and coarse table tolerances.",
    note="Coq kernel; tr_c10.py; oracle trusted as specification; forms sampled; table classification uses default tolerances regardless of the options (noted)",
    design="DESIGN.md S.2 and 3 C10")

CHECKS["C12"] = dict(
    technique="Coq proof: site table of every hash-ordered set / process-global id / module-level container mutated by a function in ffcx/ regenerated by a syntactic scanner, finite theorem that no site leaks enumeration order, general theorem that a sorted site is enumeration-independent (Order.v); subprocess generation under different PYTHONHASHSEED values and histories compared byte for byte",
    text="Proved: for any two enumerations of the same elements a sorted site returns the same list (keys separating the elements); size/membership observations are order-free; every site the scanner finds in ffcx/ is Sorted, OrderFree or a list de-duplication (finite, re-derived from the source on every run; three sites cleared by a justified allow-list). Sampled: every corpus case generated in separate processes for several hash seeds and under four histories (unrelated UFL objects first, reverse order, another form in between, same form twice), C and numba, digests equal to those of the text generated for each case alone in a fresh process.",
    note="Coq kernel+VM; tr_sites.py (syntactic, flow-insensitive; UFL's and basix' own ordering functions are outside it); forms, seeds and histories sampled",
    design="DESIGN.md S.2 and 3 C12")

CHECKS["C18"] = dict(
    technique="Coq proof: token-level model of the numba expression printer (PyFmt.fmtPy, comparators and handler shapes regenerated from numba/formatter.py by tr_prec) derives, under a Python expression grammar written from the language reference, the canonical reading of every tree FFCx can produce (fmtPy_derives); model vs real numba Formatter token for token and against Python's own parser on generated trees; the generated module executed in plain Python (numba.carray modelled as a view of the declared extent) against the C kernels of the same objects on the same inputs; descriptor classes compared with the C descriptors and the user's expressions",
    text="Proved for all expression trees without a comparison directly under a comparison (Python chains comparisons; FFCx does not produce such trees): the printed Python tokens derive the tree (precedence/associativity of + - * /, comparisons, and/or, (not (x)), (t if c else f), a[i, j], np.f(args)). Correspondence on ~1000 generated trees per run: real text = model text, ast.parse(real text) = canonical tree. Sampled forms/expressions (all integral types, conditionals, min/max/abs/sign/power, math functions, interior facets with coefficients in 1D/2D/3D, permutations, mixed spaces, complex/single precision, two rules, diagonal, sum factorisation, equal table names with different values, literal-component expressions): valid Python, kernels agree with the C kernels to 1e-11, reads stay inside the extents declared by tensor_sizes, descriptors carry the same metadata. Statement level (loops, declarations) and complex literals are covered by execution only; real numba.cfunc compilation is left to the test suite.",
    note="Coq kernel+VM; tr_prec.py; the Python grammar transcription in PyFmt.v; CPython's tokenizer/parser as arbiter and as executor of the generated module; numba stub (harness/nbrun.py); gcc; forms sampled",
    design="DESIGN.md S.2 and 3 C18")

ALL = [f"C{i:02d}" for i in range(1, 21)]

NOT_YET = "check not built yet in this session (work in progress; see DESIGN.md section 6 for the order of construction)"


def main():
    checks = []
    for pid, c in CHECKS.items():
        checks.append({
            "property_id": pid,
            "quick_cmd": f"./check {pid} --tier quick",
            "thorough_cmd": f"./check {pid} --tier thorough",
            "evidence_file": f"/verif/evidence/{pid}.json",
            "replay_cmd_template": f"./check {pid} --replay {{path}}",
            "engine": "coq-ffcx",
            "level_claimed": {"category": "proof", "text": c["text"], "design_ref": c["design"]},
            "level_note": c["note"],
            "technique": c["technique"],
        })
    m = {
        "version": 1,
        "setup_cmd": "./setup.sh",
        "hooks": {
            "guard": "FFCX_VERIF",
            "enable": "no source hooks: the harness calls FFCx's own entry points from /repo (PYTHONPATH=/repo) and rebinds module globals from outside",
            "baseline_off_cmd": "cd /repo && /venv/bin/python -m pytest -ra -q -p no:cacheprovider --timeout=900 --continue-on-collection-errors",
            "source_commits": [],
            "add_only": True,
        },
        "engines": [{
            "name": "coq-ffcx",
            "path": "/verif/coq",
            "serves_properties": sorted(CHECKS),
            "kind_free_text": "Coq 8.16.1 development (stdlib only): deep embedding of LNodes with trapping big-step semantics, proven-sound static checkers evaluated by vm_compute on kernels exported from the real pipeline, models of FFCx functions tied by translators and correspondence runs",
        }],
        "checks": checks,
        "not_applicable": [{"property_id": p, "reason": NOT_YET} for p in ALL if p not in CHECKS],
        "notes": "All checks rebuild from /repo's working tree (PYTHONPATH=/repo). Scratch goes to mkdtemp dirs and /verif/work (ignored).",
    }
    with open(os.path.join(VERIF, "MANIFEST.json"), "w") as f:
        json.dump(m, f, indent=1)


if __name__ == "__main__":
    main()
