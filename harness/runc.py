"""Compile the text FFCx really emits with gcc and call kernels through ctypes."""

from __future__ import annotations

import ctypes
import os
import shutil
import subprocess
import tempfile

import numpy as np

REPO = os.environ.get("FFCX_REPO", "/repo")
UFCX_INC = os.path.join(REPO, "ffcx", "codegeneration")

# -D_DEFAULT_SOURCE: jn/yn are POSIX, not ISO C; the cffi JIT gets them through Python.h's feature macros
BASE_FLAGS = ["-std=c17", "-D_DEFAULT_SOURCE", "-O0", "-ffp-contract=off", "-fPIC", "-shared", "-fno-builtin"]
STRICT = ["-Wall", "-Werror=implicit-function-declaration", "-Werror=int-conversion",
          "-Werror=incompatible-pointer-types", "-Wno-unused-variable",
          "-Wno-unused-but-set-variable", "-Wno-unused-const-variable"]


class CBuild:
    def __init__(self, header: str, source: str, extra=(), strict=True, keep=False):
        self.dir = tempfile.mkdtemp(prefix="vfc_")
        self.ok = False
        self.log = ""
        self.lib = None
        try:
            with open(os.path.join(self.dir, "k.h"), "w") as f:
                f.write(header)
            with open(os.path.join(self.dir, "k.c"), "w") as f:
                f.write(source)
            cmd = ["gcc", *BASE_FLAGS, *(STRICT if strict else []), *extra, "-I", UFCX_INC,
                   "-o", os.path.join(self.dir, "k.so"), os.path.join(self.dir, "k.c"), "-lm"]
            p = subprocess.run(cmd, capture_output=True, text=True, timeout=600)
            self.log = p.stdout + p.stderr
            self.ok = p.returncode == 0
            if self.ok:
                self.lib = ctypes.CDLL(os.path.join(self.dir, "k.so"))
        finally:
            if not keep:
                # the loaded library stays mapped after unlink
                shutil.rmtree(self.dir, ignore_errors=True)

    def kernel(self, name: str):
        f = getattr(self.lib, "tabulate_tensor_" + name)
        f.restype = None
        f.argtypes = [ctypes.c_void_p] * 7
        return f


def call_kernel(fn, A, w, c, x, e, p):
    """All arguments numpy arrays (already of the right dtype); A is updated in place."""
    def ptr(a):
        return a.ctypes.data_as(ctypes.c_void_p) if a is not None and a.size else None
    e = np.ascontiguousarray(e, dtype=np.intc)
    p = np.ascontiguousarray(p, dtype=np.uint8)
    fn(ptr(A), ptr(w), ptr(c), ptr(x), ptr(e), ptr(p), None)
    return A
