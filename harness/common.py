"""Common driver pieces: parallel compilation of cases through worker.py, Coq file
emission / execution, evidence and verdict protocol."""

from __future__ import annotations

import json
import os
import pickle
import re
import shutil
import subprocess
import sys
import tempfile
import time

HERE = os.path.dirname(os.path.abspath(__file__))
VERIF = os.path.dirname(HERE)
COQ = os.path.join(VERIF, "coq")
GEN = os.path.join(COQ, "gen")
REPO = os.environ.get("FFCX_REPO", "/repo")
PY = "/venv/bin/python"
NPROC = int(os.environ.get("VERIF_JOBS", "16"))

sys.path.insert(0, HERE)
import ffx  # noqa: E402

COQ_FLAGS = ["-Q", os.path.join(COQ, "theories"), "FFCX", "-Q", GEN, "FFCXGen",
             "-Q", os.path.join(COQ, "props"), "FFCXProps", "-w", "-notation-overridden"]


def env_for_repo():
    env = dict(os.environ)
    env["PYTHONPATH"] = REPO
    env.setdefault("PYTHONHASHSEED", "0")
    env["FFCX_REPO"] = REPO
    env["PIP_NO_INDEX"] = "1"
    # never let FFCx pick up a stray user/cwd options file
    env["XDG_CONFIG_HOME"] = "/nonexistent-verif-xdg"
    return env


def run_cases(cases, lit="exact", want_text=False, timeout=120, jobs=None, disable_opt=False,
              script="worker.py", extra=None, _retry=False):
    """Compile all cases in parallel worker subprocesses; returns list of per-case results in
    input order."""
    jobs = jobs or NPROC
    if not cases:
        return []
    tmp = tempfile.mkdtemp(prefix="vfw_")
    try:
        chunks = [cases[i::jobs] for i in range(jobs)]
        procs = []
        for i, ch in enumerate(chunks):
            if not ch:
                continue
            inp = os.path.join(tmp, f"in{i}.pkl")
            outp = os.path.join(tmp, f"out{i}.pkl")
            with open(inp, "wb") as f:
                job = {"cases": ch, "lit": lit, "want_text": want_text, "timeout": timeout,
                       "disable_opt": disable_opt}
                job.update(extra or {})
                pickle.dump(job, f)
            p = subprocess.Popen([PY, os.path.join(HERE, script), inp, outp],
                                 env=env_for_repo(), cwd=tmp, stdout=subprocess.PIPE,
                                 stderr=subprocess.PIPE, text=True)
            procs.append((p, outp, ch))
        byid = {}
        for p, outp, ch in procs:
            killed = False
            try:
                so, se = p.communicate(timeout=timeout * len(ch) + 60)
            except subprocess.TimeoutExpired:
                p.kill()
                killed = True
                so, se = p.communicate()
            if os.path.exists(outp):
                with open(outp, "rb") as f:
                    for r in pickle.load(f):
                        byid[r["id"]] = r
            lost = [c for c in ch if c["id"] not in byid]
            if lost and not _retry:
                # the worker died (crash of a compiled kernel, kill by the chunk's time limit, out of memory): its unfinished
                # cases are run again one per fresh worker, so that only the case that really cannot be run is reported
                for c in lost:
                    r1 = run_cases([c], lit=lit, want_text=want_text, timeout=timeout, jobs=1, disable_opt=disable_opt,
                                   script=script, extra=extra, _retry=True)[0]
                    byid[c["id"]] = r1
            for c in ch:
                if c["id"] not in byid:
                    byid[c["id"]] = {"id": c["id"], "code": c["code"], "status": "timeout" if (killed and _retry) else "harness_error",
                                     "error": ("time limit exceeded" if killed else "worker died: ") + (se or "")[-400:], "kernels": []}
        return [byid[c["id"]] for c in cases]
    finally:
        shutil.rmtree(tmp, ignore_errors=True)


def ensure_theories(targets=None, timeout=1500):
    """(Re)build the static theories; returns (ok, log)."""
    if not os.path.exists(os.path.join(COQ, "Makefile")):
        p = subprocess.run(["coq_makefile", "-f", "_CoqProject", "-o", "Makefile"], cwd=COQ,
                           capture_output=True, text=True)
        if p.returncode != 0:
            return False, p.stdout + p.stderr
    cmd = ["make", f"-j{NPROC}"] + (targets or [])
    p = subprocess.run(cmd, cwd=COQ, capture_output=True, text=True, timeout=timeout)
    return p.returncode == 0, (p.stdout + p.stderr)[-4000:]


def _big_stack():
    """large generated literals overflow coqc's default 8 MB stack"""
    import resource
    try:
        soft, hard = resource.getrlimit(resource.RLIMIT_STACK)
        resource.setrlimit(resource.RLIMIT_STACK, (hard, hard))
    except (ValueError, OSError):
        pass


def coqc_many(files, timeout=600, jobs=None):
    """compile generated files in parallel; returns {file: (rc, stdout, stderr)}.
    Output goes to temporary files (a pipe would block coqc once its buffer is full)."""
    jobs = jobs or NPROC
    res = {}
    pending = list(files)
    running = []
    tmp = tempfile.mkdtemp(prefix="vfcoq_")
    try:
        n = 0
        while pending or running:
            while pending and len(running) < jobs:
                f = pending.pop(0)
                n += 1
                fo = open(os.path.join(tmp, f"o{n}"), "w+")
                fe = open(os.path.join(tmp, f"e{n}"), "w+")
                p = subprocess.Popen(["coqc", *COQ_FLAGS, f], cwd=COQ, stdout=fo, stderr=fe,
                                     text=True, preexec_fn=_big_stack)
                running.append((f, p, time.time(), fo, fe))
            still = []
            for f, p, t0, fo, fe in running:
                rc = p.poll()
                if rc is None:
                    if time.time() - t0 > timeout:
                        p.kill()
                        p.wait()
                        res[f] = (-9, "", "TIMEOUT")
                        fo.close()
                        fe.close()
                    else:
                        still.append((f, p, t0, fo, fe))
                else:
                    fo.seek(0)
                    fe.seek(0)
                    res[f] = (rc, fo.read(), fe.read())
                    fo.close()
                    fe.close()
            running = still
            if running:
                time.sleep(0.02)
        return res
    finally:
        shutil.rmtree(tmp, ignore_errors=True)


def clean_gen(prefix):
    os.makedirs(GEN, exist_ok=True)
    for fn in os.listdir(GEN):
        if fn.startswith(prefix):
            try:
                os.remove(os.path.join(GEN, fn))
            except OSError:
                pass


HEADER = """From Coq Require Import ZArith List String Uint63.
From FFCX Require Import LN Enc Check Accum KernelProps.
Import ListNotations.
Open Scope string_scope.
"""


def contract_coq(con):
    def merge(rs):
        out = []
        for lo, hi in sorted(rs):
            if hi <= lo:
                continue
            if out and out[-1][1] >= lo:
                out[-1][1] = max(out[-1][1], hi)
            else:
                out.append([lo, hi])
        return out
    w = "; ".join(f"({lo}, {hi})" for lo, hi in merge(con["w"]))
    c = "; ".join(f"({lo}, {hi})" for lo, hi in merge(con.get("c_allowed", [[0, con["nc"]]])))
    return (f"(mk_ictx [{w}] [{c}] {con['nx']} {con['ne']} {con['e_range'][0]} "
            f"{con['e_range'][1]} {con['np']} {con['p_range'][0]} {con['p_range'][1]})")


def parse_bools(stdout):
    """first '= (true, false, ...)' or '= true' printed by Eval."""
    m = re.search(r"=\s*\(?\s*((?:true|false)(?:\s*,\s*(?:true|false))*)\s*\)?\s*:", stdout)
    if not m:
        return None
    return [x.strip() == "true" for x in m.group(1).split(",")]


# ---------------------------------------------------------------------------
# known findings / evidence / verdict

def load_known(prop):
    p = os.path.join(VERIF, "known_findings.json")
    if not os.path.exists(p):
        return []
    with open(p) as f:
        data = json.load(f)
    return [k for k in data.get("findings", []) if k.get("property") == prop]


def write_evidence(prop, tier, seed, level, coverage, assumptions, wall, violations):
    os.makedirs(os.path.join(VERIF, "evidence"), exist_ok=True)
    ev = {"property_id": prop, "tier": tier, "seed": int(seed), "level": level,
          "coverage": coverage, "assumptions": assumptions, "wall_s": round(wall, 2),
          "violations": int(violations)}
    with open(os.path.join(VERIF, "evidence", f"{prop}.json"), "w") as f:
        json.dump(ev, f, indent=1, default=str)


def write_replay(prop, name, payload):
    d = os.path.join(VERIF, "work", "replay")
    os.makedirs(d, exist_ok=True)
    p = os.path.join(d, f"{prop}_{name}.json")
    payload = dict(payload)
    payload["property"] = prop
    payload.setdefault("how_to_run", f"./check {prop} --replay {p}")
    with open(p, "w") as f:
        json.dump(payload, f, indent=1, default=str)
    return p


class Verdict:
    """collects obligations, violations and known findings of one check run."""

    def __init__(self, prop, tier, seed):
        self.prop, self.tier, self.seed = prop, tier, seed
        self.t0 = time.time()
        self.obligations = 0
        self.discharged = 0
        self.violations = []   # (replay_path, text, no_input)
        self.known_hits = []
        self.samples = []
        self.notes = {}
        self.known = load_known(prop)

    def oblige(self, ok: bool, n=1):
        self.obligations += n
        if ok:
            self.discharged += n

    def is_known(self, key):
        return any(k.get("status", "known") == "known" and k.get("key") == key for k in self.known)

    def violation(self, key, text, payload, no_input=False):
        """key: stable identifier of *what fails* (matched against known_findings.json)."""
        for k in self.known:
            if k.get("status", "known") == "known" and k.get("key") == key:
                if key not in [h[0] for h in self.known_hits]:
                    self.known_hits.append((key, k.get("what", text)))
                return
        path = write_replay(self.prop, re.sub(r"[^A-Za-z0-9_.-]", "_", key)[:80],
                            dict(payload, key=key, what=text))
        self.violations.append((path, text, no_input))

    def finish(self, level, coverage, assumptions):
        cov = dict(coverage)
        cov.setdefault("obligations", self.obligations)
        cov.setdefault("discharged", self.discharged)
        cov.setdefault("samples", self.samples[:8] or ["(none)"])
        cov["known_findings_hit"] = [h[0] for h in self.known_hits]
        cov.update(self.notes)
        write_evidence(self.prop, self.tier, self.seed, level, cov, assumptions,
                       time.time() - self.t0, len(self.violations))
        for key, what in self.known_hits:
            print(f"KNOWN-FINDING: property={self.prop} {key}: {what}")
        for path, text, no_input in self.violations:
            print(f"  violation detail: {text}")
            print(f"VIOLATION property={self.prop} replay={path}" +
                  (" no-failing-input-found" if no_input else ""))
        if self.violations:
            return 1
        print(f"OK property={self.prop} tier={self.tier} obligations={self.obligations} "
              f"discharged={self.discharged} wall={time.time()-self.t0:.1f}s")
        return 0
