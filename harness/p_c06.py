"""C06 — the form descriptor dispatches each (type, subdomain id) to the right kernels."""

from __future__ import annotations

import os
import random
import re
import sys
from types import SimpleNamespace

import common
import corpus

sys.path.insert(0, common.REPO)
ITYPES = ["cell", "exterior_facet", "interior_facet", "vertex", "ridge"]

FORMS = [
    corpus._c("c06_mixed_types_ids", '''
m=mesh("triangle"); V=space(m,"P",1); u,v=TrialFunction(V),TestFunction(V); f=Coefficient(V); g=Coefficient(V)
objs=[f*u*v*dx(5) + u*v*dx(2) + g*u*v*dx + u*v*ds(7) + u*v*ds(1) + avg(f)*jump(u)*jump(v)*dS(3) + u*v*dx((2,9))]'''),
    corpus._c("c06_interleaved_tuple_ids", '''
m=mesh("triangle"); V=space(m,"P",1); u,v=TrialFunction(V),TestFunction(V)
objs=[u*v*dx((1,3)) + inner(grad(u),grad(v))*dx(2), 2*u*v*dx((5,1)) + 3*inner(grad(u),grad(v))*dx((3,0)) + 5*u*v*dx(2) + u*v*ds((4,1)) + 7*u*v*ds(2)]'''),
    corpus._c("c06_prism_facets_and_vertices", '''
m=mesh("prism"); V=space(m,"P",1); u,v=TrialFunction(V),TestFunction(V)
objs=[u*v*dx + u*v*ds + u*v*dP]'''),
    corpus._c("c06_prism_ids", '''
m=mesh("prism"); V=space(m,"P",1); v=TestFunction(V); f=Coefficient(V)
objs=[f*v*dx(4) + f*v*ds(2) + v*ds(1) + v*dP(3) + f*v*dx(1)]'''),
    corpus._c("c06_same_id_two_degrees", '''
m=mesh("triangle"); V=space(m,"P",2); v=TestFunction(V); f=Coefficient(V)
objs=[f*v*dx(1,degree=1) + f*f*v*dx(1,degree=4) + v*dx(3) + v*ds]'''),
    corpus._c("c06_same_id_in_two_groups", '''
m=mesh("triangle"); V=space(m,"P",2); f=Coefficient(V); g=Coefficient(V); x=SpatialCoordinate(m)
objs=[f*dx((1,2), degree=1) + g*g*dx(1, degree=3), x[0]*dx((0,2), degree=1) + x[1]*x[1]*dx((2,5), degree=2) + x[0]*x[1]*dx(degree=2)]'''),
    corpus._c("c06_several_forms", '''
m=mesh("tetrahedron"); V=space(m,"P",1); u,v=TrialFunction(V),TestFunction(V); f=Coefficient(V); c=Constant(m,shape=(3,)); k=Constant(m)
objs=[inner(grad(u),grad(v))*dx(1)+u*v*ds(2), k*f*v*dx + dot(c,grad(f))*v*ds(5), f*f*dx(2)+f*dS]'''),
    # ids that are integers without being Python ints (taken from an array of mesh tags)
    corpus._c("c06_numpy_integer_ids", '''
m=mesh("triangle"); V=space(m,"P",1); u,v=TrialFunction(V),TestFunction(V); f=Coefficient(V); tags=np.array([1,3,6],dtype=np.int32)
objs=[u*v*dx + 2*u*v*dx(tags[0]) + 3*u*v*dx(2) + 5*u*v*dx(tags[1]) + u*v*ds((np.int64(4),7)) + 7*u*v*ds,
      f*v*dx(np.int32(6)) + f*f*v*dx(6,degree=3) + v*dx, f*dS(np.int64(2)) + f*f*dS(int(tags[1]))]'''),
    corpus._c("c06_vertex_and_everywhere", '''
m=mesh("interval"); V=space(m,"P",2); u,v=TrialFunction(V),TestFunction(V)
objs=[u*v*dx + u*v*dP(2) + u*v*dP + u*v*ds(1)]'''),
]


def expected_ids(form):
    """(type -> sorted list of ids) the user declared; 'everywhere' -> -1; tuples count for each id."""
    out = {t: set() for t in ITYPES}
    for itg in form.integrals():
        t = itg.integral_type()
        sid = itg.subdomain_id()
        ids = sid if isinstance(sid, tuple) else (sid,)
        for i in ids:
            out[t].add(-1 if i in ("everywhere", "otherwise") else int(i))
    return {t: sorted(v) for t, v in out.items()}


def random_ir(rng, duplicates=False):
    ir = SimpleNamespace(subdomain_ids={}, integral_names={}, integral_domains={})
    n = 0
    for t in ITYPES:
        k = rng.choice([0, 0, 1, 2, 3, 4])
        # the same id may be listed by several integral groups (tuple ids with different metadata)
        ids = [rng.choice([-1, 0, 1, 2, 3, 5]) for _ in range(k)] if duplicates else rng.sample([-1, 0, 1, 2, 3, 5, 8, 13], k)
        ir.subdomain_ids[t] = ids
        ir.integral_names[t] = [f"n{n + i}" for i in range(k)]
        ir.integral_domains[t] = [[rng.choice([1, 2, 3])] if rng.random() < 0.6 else [2, 3] for _ in range(k)]
        n += k
    return ir


def run(v, tier, seed, g):
    from ffcx.codegeneration.common import integral_data
    rng = random.Random(seed)
    # ---- model vs real integral_data, and real integral_data vs its specification --------------
    N = 300 if tier == "quick" else 5000
    irs = [random_ir(rng) for _ in range(N)]
    dup_irs = [random_ir(rng, duplicates=True) for _ in range(N)]
    rows = []
    spec_bad = 0
    for ir in dup_irs:
        # with repeated ids: the same entries as a multiset, ids non-decreasing within each type, offsets = kernel counts
        real = integral_data(ir)
        exp_off = [0]
        for t in ITYPES:
            exp_off.append(exp_off[-1] + sum(len(d) for d in ir.integral_domains[t]))
        exp_entries = []
        for t in ITYPES:
            exp_entries += sorted(zip(ir.subdomain_ids[t], ir.integral_names[t], [list(d) for d in ir.integral_domains[t]]))
        real_entries = list(zip(real.ids, real.names, [list(d) for d in real.domains]))
        pos, mono = 0, True
        for t in ITYPES:
            k = len(ir.subdomain_ids[t])
            seg = list(real.ids[pos:pos + k])
            mono = mono and seg == sorted(seg)
            pos += k
        ok = list(real.offsets) == exp_off and sorted(real_entries) == sorted(exp_entries) and mono and len(real_entries) == len(exp_entries)
        v.oblige(ok)
        if not ok:
            spec_bad += 1
            if spec_bad <= 2:
                v.violation("integral_data-duplicates", "integral_data loses or misplaces entries when a subdomain id is listed by several integral groups of one type",
                            {"subdomain_ids": ir.subdomain_ids, "integral_names": ir.integral_names, "integral_domains": ir.integral_domains,
                             "observed_offsets": list(real.offsets), "expected_offsets": exp_off, "observed_entries": str(real_entries), "expected_entries": str(exp_entries)})
    for ir in irs:
        real = integral_data(ir)
        # specification, written independently: groups in ufcx order, sorted by id, offsets = kernel counts
        exp_off = [0]
        for t in ITYPES:
            exp_off.append(exp_off[-1] + sum(len(d) for d in ir.integral_domains[t]))
        exp_entries = []
        for t in ITYPES:
            exp_entries += sorted(zip(ir.subdomain_ids[t], ir.integral_names[t], [list(d) for d in ir.integral_domains[t]]))
        real_entries = list(zip(real.ids, real.names, [list(d) for d in real.domains]))
        ok = list(real.offsets) == exp_off and real_entries == exp_entries
        v.oblige(ok)
        if not ok:
            spec_bad += 1
            if spec_bad <= 2:
                v.violation("integral_data-spec", f"integral_data: offsets {list(real.offsets)} expected {exp_off}" if list(real.offsets) != exp_off
                            else "integral_data: ids/names/domains no longer paired or sorted",
                            {"subdomain_ids": ir.subdomain_ids, "integral_names": ir.integral_names,
                             "integral_domains": ir.integral_domains, "observed_offsets": list(real.offsets),
                             "expected_offsets": exp_off, "observed_entries": str(real_entries), "expected_entries": str(exp_entries)})
        rows.append((ir, real))
    # Coq model on the same inputs
    path = os.path.join(common.GEN, "C06_cases.v")

    def ent(i, nm, ds):
        return f"(({i})%Z, {int(nm[1:])}%N, [{'; '.join(str(d) + '%N' for d in ds)}])"
    checks = []
    for ir, real in rows[:400]:
        pt = "[" + "; ".join("[" + "; ".join(ent(i, nm, ds) for i, nm, ds in zip(ir.subdomain_ids[t], ir.integral_names[t], ir.integral_domains[t])) + "]" for t in ITYPES) + "]"
        want_e = "[" + "; ".join(ent(i, nm, ds) for i, nm, ds in zip(real.ids, real.names, real.domains)) + "]"
        want_o = "[" + "; ".join(f"({o})%Z" for o in real.offsets) + "]"
        checks.append(f"same (integral_data {pt}) ({want_e}, {want_o})")
    txt = ("From Coq Require Import ZArith NArith List Bool.\nFrom FFCX Require Import FormData.\nImport ListNotations.\n"
           "Definition ent_eqb (a b : entry) : bool := Z.eqb (fst (fst a)) (fst (fst b)) && N.eqb (snd (fst a)) (snd (fst b)) && "
           "(Nat.eqb (length (snd a)) (length (snd b)) && forallb (fun p => N.eqb (fst p) (snd p)) (combine (snd a) (snd b))).\n"
           "Definition same (x y : list entry * list Z) : bool := Nat.eqb (length (fst x)) (length (fst y)) && "
           "forallb (fun p => ent_eqb (fst p) (snd p)) (combine (fst x) (fst y)) && Nat.eqb (length (snd x)) (length (snd y)) && "
           "forallb (fun p => Z.eqb (fst p) (snd p)) (combine (snd x) (snd y)).\n")
    txt += "Eval vm_compute in [\n " + ";\n ".join(checks) + "].\n"
    open(path, "w").write(txt)
    out = common.coqc_many([path], timeout=600)[path]
    m = re.search(r"=\s*\[(.*?)\]\s*:\s*list bool", out[1], re.S) if out[0] == 0 else None
    if not m:
        v.oblige(False)
        v.violation("coq-model", "FormData model could not be evaluated: " + out[2][-300:], {}, no_input=True)
    else:
        bits = [x.strip() == "true" for x in m.group(1).split(";")]
        nbad = bits.count(False)
        v.oblige(nbad == 0, len(bits))
        if nbad and not v.violations:
            k = bits.index(False)
            ir, real = rows[k]
            v.violation("integral_data-model", "integral_data no longer behaves like the FormData.v model",
                        {"subdomain_ids": ir.subdomain_ids, "integral_domains": ir.integral_domains,
                         "observed_offsets": list(real.offsets), "broken_obligation": "correspondence FormData.integral_data"}, no_input=True)
    for ext in (".vo", ".vok", ".vos", ".glob"):
        try:
            os.remove(path[:-2] + ext)
        except OSError:
            pass
    # ---- end to end: descriptors of compiled modules ---------------------------------------------
    cases = FORMS + [c for c in corpus.PINNED if c["id"] in ("subdomains_tri", "unused_coefficient", "two_forms_module", "tensor_const_tri")]
    res = common.run_cases(cases, script="jit_worker.py", timeout=300)
    import ffx
    nform = 0
    for r in res:
        if r["status"] != "ok":
            v.oblige(False)
            v.violation(f"jit:{r['id']}", f"case could not be JIT-compiled: {r.get('error','')[:200]}", {"case": r["id"], "code": r["code"]}, no_input=True)
            continue
        objs, opts, ns = ffx.build_case(r["code"])
        forms = [o for o in objs if not isinstance(o, tuple)]
        for form, d in zip(forms, r.get("forms", [])):
            nform += 1
            offs, ids = d["offsets"], d["ids"]
            exp = expected_ids(form)
            problems = []
            if offs[0] != 0 or any(offs[i] > offs[i + 1] for i in range(5)) or offs[5] != len(ids):
                problems.append(f"offsets {offs} do not delimit {len(ids)} kernels")
            else:
                for ti, t in enumerate(ITYPES):
                    grp = ids[offs[ti]:offs[ti + 1]]
                    if grp != sorted(grp):
                        problems.append(f"{t}: ids {grp} not non-decreasing")
                    if sorted(set(grp)) != exp[t]:
                        problems.append(f"{t}: ids listed {sorted(set(grp))}, declared {exp[t]}")
            if d["rank"] != len(form.arguments()):
                problems.append(f"rank {d['rank']} vs {len(form.arguments())} arguments")
            consts = form.constants()
            if d["num_constants"] != len(consts) or d["constant_shapes"] != [list(c.ufl_shape) for c in consts]:
                problems.append(f"constant shapes {d['constant_shapes']} vs {[list(c.ufl_shape) for c in consts]}")
            allc = form.coefficients()
            if len(d["original_coefficient_positions"]) != d["num_coefficients"] or \
                    any(p < 0 or p >= len(allc) for p in d["original_coefficient_positions"]) or \
                    d["original_coefficient_positions"] != sorted(d["original_coefficient_positions"]):
                problems.append(f"original_coefficient_positions {d['original_coefficient_positions']} for {len(allc)} coefficients")
            if not all(k["has_kernel"] for k in d["kernels"]):
                problems.append("a listed integral has no kernel for the scalar type")
            v.oblige(not problems)
            if problems:
                v.violation(f"descriptor:{r['id']}", "form descriptor disagrees with the form: " + "; ".join(problems),
                            {"case": r["id"], "code": r["code"], "descriptor": {k: d[k] for k in ("offsets", "ids", "rank", "num_coefficients", "original_coefficient_positions")}})
            elif len(v.samples) < 4:
                v.samples.append({"case": r["id"], "offsets": offs, "ids": ids, "declared": exp})
    # ---- dispatch: the kernels listed under (type, id) are those of the integral groups declared for id
    #      (each such kernel is compared with the sum of its group's integrands by the oracle of C01/C02)
    dres = common.run_cases(cases + [c for c in corpus.PINNED if "dx(" in c["code"] or "ds(" in c["code"]] +
                            corpus.random_cases(seed, 25 if tier == "quick" else 400), want_text=True)
    ndis = 0
    for r in dres:
        for fdesc in r.get("forms", []):
            ndis += 1
            ok = fdesc["expected"] == fdesc["listed"]
            v.oblige(ok)
            if not ok:
                diff = {str(k): (fdesc["listed"].get(k), fdesc["expected"].get(k)) for k in set(fdesc["expected"]) | set(fdesc["listed"])
                        if fdesc["listed"].get(k) != fdesc["expected"].get(k)}
                v.violation(f"dispatch:{r['id']}", f"form descriptor lists the wrong kernels under some (type, id): (listed, expected) {str(diff)[:300]}",
                            {"case": r["id"], "code": r["code"], "difference": {k: [str(x) for x in d] for k, d in diff.items()},
                             "ids": fdesc["ids"], "offsets": fdesc["offsets"]})
    v.notes["descriptors_dispatch_checked"] = ndis
    if not g["ok"] and not v.violations:
        v.violation("gate", "proof obligations no longer check: " + "; ".join(g["broken"]), {"broken": g["broken"]}, no_input=True)
    cov = {"checker_cmd": f"./check C06 --tier {tier}",
           "trusted_base": ["Coq kernel + VM", "hand model FormData.v of common.integral_data (tied by the correspondence run on generated inputs)",
                            "UFL's regrouping of integrals by (type, id) (build_integral_data)", "cffi / gcc for reading the compiled descriptors"],
           "evaluations": N + nform, "distinct_nontrivial": N,
           "rule": "random FormIR-shaped inputs (ids incl. -1, 1-2 domains per integral) for integral_data vs spec vs Coq model; compiled descriptors of forms with mixed types / tuple ids / repeated ids / several forms",
           "axioms_under_property_theorems": g.get("axioms", [])}
    return v.finish("proof", cov, ["the sum of kernels under (type,id) against the declared integrands is decided by the value oracle of C01 (not in this check)"])


def replay(v, payload):
    print(payload)
    return 1
