"""tr_perm: translate FFCx's permute_quadrature_interval/triangle/quadrilateral (elementtables.py) and
the order in which build_optimized_tables stacks the permuted tables (code = position in the stack)
into coq/gen/PermGen.v.  Fail-closed on shapes it does not recognise."""
import ast
import os
import sys

HERE = os.path.dirname(os.path.abspath(__file__))
sys.path.insert(0, HERE)
import common  # noqa: E402


class TranslationError(Exception):
    pass


def coq_expr(n):
    """affine expression in p[0], p[1] -> Coq term over Q with variables x y."""
    if isinstance(n, ast.Subscript) and isinstance(n.value, ast.Name) and n.value.id == "p":
        i = ast.literal_eval(n.slice)
        return {0: "x", 1: "y"}[i]
    if isinstance(n, ast.Constant) and isinstance(n.value, (int, float)) and float(n.value) == int(n.value):
        return str(int(n.value))
    if isinstance(n, ast.BinOp) and isinstance(n.op, (ast.Add, ast.Sub)):
        return f"({coq_expr(n.left)} {'+' if isinstance(n.op, ast.Add) else '-'} {coq_expr(n.right)})"
    raise TranslationError("unsupported coordinate expression: " + ast.unparse(n))


def loops_of(fn, nargs):
    """[(counter name, [component expressions])] for the 'for _ in range(<counter>)' loops, in order."""
    out = []
    for s in fn.body:
        if isinstance(s, ast.For) and isinstance(s.iter, ast.Call) and ast.unparse(s.iter.func) == "range" and isinstance(s.iter.args[0], ast.Name):
            counter = s.iter.args[0].id
            if counter not in ("reflections", "rotations"):
                continue
            inner = s.body
            if len(inner) != 1 or not isinstance(inner[0], ast.For) or ast.unparse(inner[0].iter) != "enumerate(output)":
                raise TranslationError(f"{fn.name}: loop over {counter} of unrecognised shape")
            asg = inner[0].body
            if len(asg) != 1 or not isinstance(asg[0], ast.Assign) or ast.unparse(asg[0].targets[0]) != "output[n]" or not isinstance(asg[0].value, ast.List):
                raise TranslationError(f"{fn.name}: update of unrecognised shape")
            out.append((counter, [coq_expr(e) for e in asg[0].value.elts]))
    return out


def generate():
    path = os.path.join(common.REPO, "ffcx/ir/elementtables.py")
    src = open(path).read()
    tree = ast.parse(src)
    fns = {n.name: n for n in tree.body if isinstance(n, ast.FunctionDef)}
    defs = []
    order = {}
    for name, dim in (("permute_quadrature_interval", 1), ("permute_quadrature_triangle", 2), ("permute_quadrature_quadrilateral", 2)):
        if name not in fns:
            raise TranslationError(f"{name} not found")
        fn = fns[name]
        if ast.unparse(fn.body[1] if isinstance(fn.body[0], ast.Expr) else fn.body[0]) != "output = points.copy()" or ast.unparse(fn.body[-1]) != "return output":
            raise TranslationError(f"{name}: frame of unrecognised shape")
        lp = loops_of(fn, dim)
        order[name] = [c for c, _ in lp]
        short = name.split("_")[-1]
        for counter, comps in lp:
            if len(comps) != dim:
                raise TranslationError(f"{name}: {counter} update has {len(comps)} components")
            if dim == 1:
                defs.append(f"Definition {short}_{counter[:3]} (x : Q) : Q := {comps[0]}.")
            else:
                defs.append(f"Definition {short}_{counter[:3]} (p : Q * Q) : Q * Q := let (x, y) := p in ({comps[0]}, {comps[1]}).")
    if order["permute_quadrature_interval"] != ["reflections"] or order["permute_quadrature_triangle"] != ["rotations", "reflections"] \
            or order["permute_quadrature_quadrilateral"] != ["rotations", "reflections"]:
        raise TranslationError(f"order of rotations/reflections changed: {order}")
    # the stacking order in build_optimized_tables: code = position in new_table
    bot = fns["build_optimized_tables"]
    stacks = {}
    for n in ast.walk(bot):
        if isinstance(n, ast.For) and ast.unparse(n.iter.func if isinstance(n.iter, ast.Call) else n.iter) == "range":
            txt = ast.unparse(n)
            for key, call in (("interval", "permute_quadrature_interval(quadrature_rule.points, ref)"),
                              ("triangle", "permute_quadrature_triangle(quadrature_rule.points, ref, rot)"),
                              ("quadrilateral", "permute_quadrature_quadrilateral(quadrature_rule.points, ref, rot)")):
                if call in txt and isinstance(n.target, ast.Name):
                    # outermost loop containing the call decides the major index
                    cur = stacks.get(key)
                    hdr = (n.target.id, ast.literal_eval(n.iter.args[0]))
                    if cur is None or hdr not in cur:
                        stacks.setdefault(key, []).append(hdr)
    want = {"interval": [("ref", 2)], "triangle": [("rot", 3), ("ref", 2)], "quadrilateral": [("rot", 4), ("ref", 2)]}
    got = {k: sorted(v, key=lambda h: 0 if h[0] == "rot" else 1) for k, v in stacks.items()}
    # nesting: 'for rot ...: for ref ...:' (rot major) — checked textually
    for key, rng in (("triangle", 3), ("quadrilateral", 4)):
        frag = f"for rot in range({rng}):\n    for ref in range(2):\n        new_table.append(get_ffcx_table_values(permute_quadrature_{key}(quadrature_rule.points, ref, rot)"
        if frag not in "\n".join(ast.unparse(n) for n in ast.walk(bot) if isinstance(n, ast.For)):
            raise TranslationError(f"stacking loops for {key} facets of unrecognised shape")
    if got != want:
        raise TranslationError(f"stacking ranges changed: {got}")
    if 't["array"] = np.vstack([td["array"] for td in new_table])' not in src:
        raise TranslationError("permuted tables are not stacked with np.vstack in loop order")
    out = ["(* generated by harness/tr_perm.py from ffcx/ir/elementtables.py *)", "From Coq Require Import QArith List.", "Import ListNotations.", "Open Scope Q_scope.",
           *defs,
           "(* (rotations, reflections) of code c = position in the stacked table; rotations are applied first *)",
           "Definition interval_codes : list (nat * nat) := [(0, 0); (0, 1)]%nat.",
           "Definition triangle_codes : list (nat * nat) := [" + "; ".join(f"({r}, {f})" for r in range(3) for f in range(2)) + "]%nat.",
           "Definition quadrilateral_codes : list (nat * nat) := [" + "; ".join(f"({r}, {f})" for r in range(4) for f in range(2)) + "]%nat."]
    os.makedirs(common.GEN, exist_ok=True)
    open(os.path.join(common.GEN, "PermGen.v"), "w").write("\n".join(out) + "\n")
    return defs


if __name__ == "__main__":
    for d in generate():
        print(d)
