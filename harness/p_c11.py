"""C11 — requested quadrature degree/scheme honoured; exact where it should be."""
import common
import corpus
import valprops

_c = corpus._c

# several rules in one integral (same subdomain): each integrand keeps its own rule
MULTI = [
    _c("c11_two_rules_1pt_leak_tri", '''
m=mesh("triangle"); V=space(m,"P",2); f=Coefficient(V)
objs=[f*dx(degree=1) + f*f*dx(degree=4)]'''),
    _c("c11_two_rules_rank1_quad", '''
m=mesh("quadrilateral",2); V=space(m,"Q",2); v=TestFunction(V); f=Coefficient(V)
objs=[f*v*dx(degree=0) + f*f*v*dx(degree=3)]'''),
    _c("c11_three_rules_tet", '''
m=mesh("tetrahedron"); V=space(m,"P",2); f=Coefficient(V); g=Coefficient(V)
objs=[f*g*dx(degree=1) + f*f*f*dx(degree=5) + g*dx(degree=2)]'''),
    _c("c11_vertex_and_default_tri", '''
m=mesh("triangle"); V=space(m,"P",2); v=TestFunction(V); f=Coefficient(V)
objs=[f*v*dx(scheme="vertex", degree=1) + f*f*v*dx(degree=4)]'''),
    # two rules of one integral with the same number of points and the same weights but different points
    # (vertex scheme next to the default rule of degree 2 / 3; a custom rule with the default rule's weights)
    _c("c11_same_weights_other_points_tri", '''
m=mesh("triangle"); V=space(m,"P",2); v=TestFunction(V); f=Coefficient(V)
objs=[f*v*dx(scheme="vertex", degree=1) + f*f*v*dx(degree=2), f*f*v*dx(degree=2) + f*v*dx(scheme="vertex", degree=1) + v*dx(degree=0)]'''),
    _c("c11_same_weights_other_points_quad_tet", '''
m=mesh("quadrilateral"); V=space(m,"Q",2); v=TestFunction(V); f=Coefficient(V)
mt=mesh("tetrahedron"); Vt=space(mt,"P",2); vt=TestFunction(Vt); ft=Coefficient(Vt)
objs=[f*v*dx(scheme="vertex", degree=1) + f*f*v*dx(degree=3), ft*vt*dx(scheme="vertex", degree=1) + ft*ft*vt*dx(degree=2),
      ft*vt*ds(scheme="vertex", degree=1) + ft*ft*vt*ds(degree=2)]'''),
    _c("c11_custom_points_default_weights_tri", '''
m=mesh("triangle"); V=space(m,"P",2); v=TestFunction(V); f=Coefficient(V)
objs=[f*f*v*dx(degree=2) + f*v*dx(metadata={"quadrature_rule":"custom","quadrature_points":np.array([[0.25,0.25],[0.5,0.25],[0.25,0.5]]),"quadrature_weights":np.array([1.0/6,1.0/6,1.0/6])})]'''),
    _c("c11_gll_and_default_interval", '''
m=mesh("interval"); V=space(m,"P",3); v=TestFunction(V); f=Coefficient(V)
objs=[f*v*dx(scheme="GLL", degree=3) + f*f*v*dx(degree=1) + f*v*dx(degree=6)]'''),
    _c("c11_custom_and_default_tri", '''
m=mesh("triangle"); V=space(m,"P",2); v=TestFunction(V); f=Coefficient(V)
objs=[f*v*dx(metadata={"quadrature_rule":"custom","quadrature_points":np.array([[0.25,0.5]]),"quadrature_weights":np.array([0.5])}) + f*f*v*dx(degree=3)]'''),
    _c("c11_two_one_point_rules_tri", '''
m=mesh("triangle"); V=space(m,"P",2); f=Coefficient(V)
objs=[f*dx(degree=1) + f*f*dx(metadata={"quadrature_rule":"custom","quadrature_points":np.array([[0.125,0.25]]),"quadrature_weights":np.array([0.5])})]'''),
    _c("c11_facet_rules_tri", '''
m=mesh("triangle"); V=space(m,"P",2); v=TestFunction(V); f=Coefficient(V)
objs=[f*v*ds(degree=1) + f*f*v*ds(degree=4)]'''),
    _c("c11_facet_rules_tet", '''
m=mesh("tetrahedron"); V=space(m,"P",2); f=Coefficient(V); n=FacetNormal(m)
objs=[f*ds(degree=1) + dot(grad(f),n)*f*ds(degree=3)]'''),
    _c("c11_interior_facet_rules_tri", '''
m=mesh("triangle"); V=space(m,"DP",2); v=TestFunction(V); f=Coefficient(V)
objs=[avg(f)*jump(v)*dS(degree=1) + f('+')*f('-')*avg(v)*dS(degree=4)]'''),
    _c("c11_subdomain_rules_tri", '''
m=mesh("triangle"); V=space(m,"P",2); v=TestFunction(V); f=Coefficient(V)
objs=[f*v*dx(1, degree=1) + f*f*v*dx(1, degree=4) + f*v*dx(degree=2) + f*f*f*v*dx(2, degree=6)]'''),
    _c("c11_bilinear_rules_hex", '''
m=mesh("hexahedron"); V=space(m,"Q",1); u,v=TrialFunction(V),TestFunction(V); f=Coefficient(V)
objs=[f*u*v*dx(degree=1) + f*f*inner(grad(u),grad(v))*dx(degree=3)]'''),
    _c("c11_piecewise_shared_p1_grad", '''
m=mesh("triangle"); V=space(m,"P",1); v=TestFunction(V); f=Coefficient(V)
objs=[dot(grad(f),grad(v))*dx(degree=1) + f*dot(grad(f),grad(v))*dx(degree=3)]'''),
    _c("c11_expression_shared_between_rules", '''
m=mesh("triangle"); V=space(m,"P",2); v=TestFunction(V); f=Coefficient(V); g=Coefficient(V)
objs=[(f*g+1.0)*v*dx(degree=1) + (f*g+1.0)*(f*g+1.0)*v*dx(degree=5)]'''),
    _c("c11_vertex_scheme_on_facets_next_to_other_rules", '''
m=mesh("tetrahedron"); V=space(m,"P",1); u,v=TrialFunction(V),TestFunction(V); f=Coefficient(V)
m2=mesh("triangle"); V2=space(m2,"P",2); v2=TestFunction(V2); g=Coefficient(V2)
objs=[f*u*v*ds + f*f*u*v*ds(scheme="vertex", degree=1), f*u*v*ds(scheme="vertex", degree=1) + f*f*u*v*ds(degree=3) + u*v*ds(1, scheme="vertex", degree=1),
      g*v2*ds(degree=3) + g*g*v2*ds(scheme="vertex", degree=1), avg(g)*avg(v2)*dS(degree=2) + g('+')*v2('-')*dS(scheme="vertex", degree=1)]'''),
    _c("c11_vertex_scheme_cells", '''
m=mesh("quadrilateral"); V=space(m,"Q",1); u,v=TrialFunction(V),TestFunction(V)
m3=mesh("tetrahedron"); V3=space(m3,"P",1); u3,v3=TrialFunction(V3),TestFunction(V3)
objs=[u*v*dx(scheme="vertex", degree=1), u3*v3*dx(scheme="vertex", degree=1)]'''),
    _c("c11_quadrature_element", '''
m=mesh("triangle"); V=space(m,"P",1); v=TestFunction(V)
QE=basix.ufl.quadrature_element("triangle", (), "default", 3); f=Coefficient(FunctionSpace(m,QE))
objs=[f*v*dx(degree=3, scheme="default")]'''),
    _c("c11_quadrature_element_overrides_metadata", '''
m=mesh("triangle"); V=space(m,"P",2); v=TestFunction(V); g=Coefficient(V)
QE=basix.ufl.quadrature_element("triangle", (), "default", 3); f=Coefficient(FunctionSpace(m,QE))
objs=[f*g*v*dx(degree=2), f*f*v*dx]'''),
    _c("c11_quadrature_element_term_next_to_plain_terms", '''
m=mesh("triangle"); V=space(m,"P",2); u,v=TrialFunction(V),TestFunction(V); f=Coefficient(V)
QE=basix.ufl.quadrature_element("triangle", (), "default", 2); s=Coefficient(FunctionSpace(m,QE))
objs=[s*v*dx(degree=2) + f*f*v*dx(degree=6), s*u*v*dx(degree=2) + f*u*v*dx(degree=4) + u*v*dx(1, degree=3), f*v*dx(degree=5) + s*s*v*dx]'''),
    _c("c11_quadrature_element_vector_tet", '''
m=mesh("tetrahedron"); V=space(m,"P",1); v=TestFunction(V)
QE=basix.ufl.quadrature_element("tetrahedron", (3,), "default", 2); f=Coefficient(FunctionSpace(m,QE))
objs=[dot(f,grad(v))*dx(degree=2)]'''),
    _c("c11_quadrature_element_gll_quad", '''
m=mesh("quadrilateral"); V=space(m,"Q",1); v=TestFunction(V)
QE=basix.ufl.quadrature_element("quadrilateral", (), "GLL", 3); f=Coefficient(FunctionSpace(m,QE))
objs=[f*v*dx]'''),
]

# no metadata: polynomial integrands on affine cells are integrated exactly (oracle uses a high-degree rule)
MULTI += [
    # the same degree under different schemes, inside one integral and across the forms of one module: the rule is
    # determined by (cell, degree, scheme, polyset), and the integrands are not integrated exactly by either rule
    _c("c11_same_degree_different_schemes", '''
m=mesh("interval"); V=space(m,"P",2); v=TestFunction(V); f=Coefficient(V)
mt=mesh("triangle"); Vt=space(mt,"P",2); vt=TestFunction(Vt); ft=Coefficient(Vt)
mq=mesh("quadrilateral"); Vq=space(mq,"Q",2); vq=TestFunction(Vq); fq=Coefficient(Vq)
objs=[f*f*f*v*dx(degree=4) + f*f*v*dx(degree=4, scheme="GLL"), f*f*f*v*dx(degree=4, scheme="GLL"),
      ft*ft*ft*vt*dx(degree=3) + ft*ft*vt*dx(degree=3, scheme="Gauss-Jacobi"), ft**4*vt*dx(degree=3, scheme="Gauss-Jacobi"),
      fq*fq*vq*dx(degree=5) + fq**3*vq*dx(degree=5, scheme="GLL"), fq**4*vq*ds(degree=3, scheme="GLL") + fq*vq*ds(degree=3)]'''),
    _c("c11_scheme_after_default_same_degree_tet", '''
m=mesh("tetrahedron"); V=space(m,"P",1); v=TestFunction(V); f=Coefficient(V)
objs=[f**3*v*dx(degree=2), f**3*v*dx(degree=2, scheme="Gauss-Jacobi"), f**3*v*ds(degree=2), f**3*v*ds(degree=2, scheme="Gauss-Jacobi")]'''),
]
NOMETA = [
    _c("c11_nometa_p2_mass_coef_tri", '''
m=mesh("triangle"); V=space(m,"P",2); u,v=TrialFunction(V),TestFunction(V); f=Coefficient(V)
objs=[f*u*v*dx, f*f*inner(grad(u),grad(v))*dx]'''),
    _c("c11_nometa_p3_tet", '''
m=mesh("tetrahedron"); V=space(m,"P",3); v=TestFunction(V); f=Coefficient(V); W=space(m,"P",1); g=Coefficient(W)
objs=[f*g*v*dx, g*g*g*f*dx]'''),
    _c("c11_nometa_q2_parallelogram", '''
m=mesh("quadrilateral"); V=space(m,"Q",2); u,v=TrialFunction(V),TestFunction(V); f=Coefficient(V)
objs=[f*u*v*dx]'''),
    _c("c11_nometa_interval_p4", '''
m=mesh("interval"); V=space(m,"P",4); u,v=TrialFunction(V),TestFunction(V); f=Coefficient(V)
objs=[f*u.dx(0)*v*dx + f*f*u*v*dx]'''),
    _c("c11_nometa_spatial_coordinate", '''
m=mesh("triangle"); V=space(m,"P",2); v=TestFunction(V); x=SpatialCoordinate(m)
objs=[x[0]*x[0]*x[1]*v*dx, x[0]**3*x[1]**2*dx(domain=m)]'''),
    _c("c11_nometa_facet_p2_tet", '''
m=mesh("tetrahedron"); V=space(m,"P",2); u,v=TrialFunction(V),TestFunction(V); f=Coefficient(V)
objs=[f*u*v*ds]'''),
    _c("c11_nometa_mixed_degrees_sum", '''
m=mesh("triangle"); V=space(m,"P",1); W=space(m,"P",3); v=TestFunction(V); f=Coefficient(W); g=Coefficient(V)
objs=[g*v*dx + f*f*v*dx]'''),
    _c("c11_partial_metadata_low_then_none", '''
m=mesh("triangle"); V=space(m,"P",2); f=Coefficient(V); v=TestFunction(V)
objs=[f*dx(degree=1) + f*f*dx, f*f*dx(degree=1) + f*dx, f*v*dx(degree=0) + f*f*f*v*dx]'''),
    _c("c11_partial_metadata_three_terms", '''
m=mesh("tetrahedron"); V=space(m,"P",2); f=Coefficient(V); g=Coefficient(V)
objs=[f*dx(degree=1) + f*g*dx(degree=2) + f*f*g*dx, g*g*g*dx + f*dx(degree=8)]'''),
    _c("c11_partial_metadata_scheme_only", '''
m=mesh("interval"); V=space(m,"P",3); f=Coefficient(V); v=TestFunction(V)
objs=[f*v*dx(degree=1) + f*f*v*dx(scheme="default") + f*v*dx(degree=-1, scheme="GLL")]'''),
    _c("c11_partial_metadata_facets", '''
m=mesh("triangle"); V=space(m,"P",2); f=Coefficient(V); v=TestFunction(V)
objs=[f*v*ds(degree=1) + f*f*v*ds, f*v*dx(degree=1) + f*f*v*dx(1) + f*f*f*v*dx(1, degree=2)]'''),
    _c("c11_nometa_hex_q1", '''
m=mesh("hexahedron"); V=space(m,"Q",1); u,v=TrialFunction(V),TestFunction(V); f=Coefficient(V)
objs=[f*u*v*dx]'''),
]

CELLS = ["interval", "triangle", "quadrilateral", "tetrahedron", "hexahedron", "prism", "pyramid"]


def exact_jobs(tier, seed):
    jobs = []
    if tier == "quick":
        groups = {"interval": [list(range(0, 31))], "triangle": [list(range(0, 16)), list(range(16, 31))],
                  "quadrilateral": [list(range(0, 31))], "tetrahedron": [list(range(0, 11)), [13, 17, 22, 30]],
                  "hexahedron": [list(range(0, 11)), [15, 30]], "prism": [list(range(0, 9)), [14, 30]],
                  "pyramid": [list(range(0, 9)), [14, 30]]}
    else:
        groups = {c: [list(range(a, min(a + 4, 31))) for a in range(0, 31, 4)] for c in CELLS}
    for cell, gs in groups.items():
        for i, g in enumerate(gs):
            jobs.append({"id": f"{cell}:default:{g[0]}-{g[-1]}", "code": "", "cell": cell, "degrees": g, "seed": seed * 1000 + i})
    # other schemes that promise exactness for the degree requested
    for cell, scheme, degs in [("interval", "GLL", [1, 2, 5, 9, 16]), ("quadrilateral", "GLL", [1, 3, 8]),
                               ("triangle", "Gauss-Jacobi", [0, 3, 8, 17]), ("tetrahedron", "Gauss-Jacobi", [0, 2, 7]),
                               ("triangle", "xiao_gimbutas", [1, 6, 20]), ("tetrahedron", "xiao_gimbutas", [1, 6, 15])]:
        jobs.append({"id": f"{cell}:{scheme}:{degs[0]}-{degs[-1]}", "code": "", "cell": cell, "degrees": degs, "seed": seed * 1000 + 77, "scheme": scheme})
    return jobs


def scope_correspondence(v, tier, seed):
    """real IntegralGenerator scope resolution (logged by the exporter) vs Scopes.generate/get_var
    evaluated by Coq on the same (rule, node, status) lists."""
    import os
    import re
    cases = MULTI + [c for c in corpus.PINNED if "degree=" in c["code"]] + (corpus.random_cases(seed, 10 if tier == "quick" else 150))
    res = common.run_cases(cases, timeout=300)
    rows = []
    for r in res:
        if r["status"] != "ok":
            continue
        for k in r["kernels"]:
            sc = k.get("scopes")
            if sc and sc["resolved"]:
                rows.append((r["id"], k["name"], sc))
    path = os.path.join(common.GEN, "C11_scopes.v")

    def fact(F):
        return "[" + "; ".join(f"({n}, {st})" for n, st in F) + "]"
    checks = []
    for cid, name, sc in rows:
        rules = "[" + "; ".join(fact(F) for F in sc["rules"]) + "]"
        obs = "[" + "; ".join(f"(({i}, {n}), ({w}, {m}))" for i, n, w, m in sc["resolved"] if m in ("Piecewise", "Varying") and w >= 0) + "]"
        nbad = sum(1 for i, n, w, m in sc["resolved"] if m not in ("Piecewise", "Varying") or w < 0)
        checks.append(f"agrees {rules} {obs} && Nat.eqb {nbad} 0")
    txt = ("From Coq Require Import List Bool Arith.\nFrom FFCX Require Import Scopes.\nFrom FFCXGen Require Import ScopeGen.\nImport ListNotations.\n"
           "Definition agrees (rules : list fact) (obs : list ((nat * nat) * (nat * status))) : bool :=\n"
           "  let st := generate varying_check_falls_back rules in\n"
           "  forallb (fun o => match get_var st (fst (fst o)) (snd (fst o)) with\n"
           "                    | Some d => Nat.eqb (d_rule d) (fst (snd o)) && status_eqb (d_mode d) (snd (snd o))\n"
           "                    | None => false end) obs.\n")
    txt += "Eval vm_compute in [\n " + ";\n ".join(checks or ["true"]) + "].\n"
    open(path, "w").write(txt)
    out = common.coqc_many([path], timeout=600)[path]
    m = re.search(r"=\s*\[(.*?)\]\s*:\s*list bool", out[1], re.S) if out[0] == 0 else None
    multi = sum(1 for _, _, sc in rows if len(sc["rules"]) > 1)
    if not m:
        v.oblige(False)
        v.violation("scope-model", "Scopes model could not be evaluated: " + out[2][-300:], {"broken_obligation": "correspondence Scopes.generate"}, no_input=True)
    else:
        bits = [x.strip() == "true" for x in m.group(1).split(";")]
        nbad = bits.count(False)
        v.oblige(nbad == 0, max(len(rows), 1))
        if nbad:
            cid, name, sc = rows[bits.index(False)]
            code = next(c["code"] for c in cases if c["id"] == cid)
            v.violation(f"scope-model:{cid}", f"IntegralGenerator resolves variables differently from the Scopes.v model (case {cid}, kernel {name[:40]})",
                        {"case": cid, "code": code, "scopes": sc, "broken_obligation": "correspondence Scopes.generate/get_var"}, no_input=True)
    for ext in (".vo", ".vok", ".vos", ".glob"):
        try:
            os.remove(path[:-2] + ext)
        except OSError:
            pass
    return {"kernels": len(rows), "kernels_with_several_rules": multi, "lookups": sum(len(sc["resolved"]) for _, _, sc in rows)}


def run(v, tier, seed, g):
    scope_stats = scope_correspondence(v, tier, seed)
    # 1. several rules in one integral, vertex scheme, quadrature elements: oracle with each integral's own rule
    res = valprops.run_oracle(MULTI, seed, entity_mode="all" if tier != "quick" else "random")
    st_multi = valprops.account(v, res, "c11-rules", what="an integral of a sum is not integrated with its own rule")
    # 2. no metadata: exact on affine cells
    res2 = common.run_cases(NOMETA, script="oraclerun.py", timeout=400, extra={"seed": seed, "exact_ref": 20, "affine": True})
    st_nometa = valprops.account(v, res2, "c11-nometa", what="a polynomial form without metadata is not integrated exactly on an affine cell")
    # 3. closed-form monomial integrals, every cell, degrees 0..30
    jobs = exact_jobs(tier, seed)
    res3 = common.run_cases(jobs, script="exactrun.py", timeout=900, jobs=len(jobs))
    nrows, worst = 0, 0.0
    by_cell = {}
    for r in res3:
        if r["status"] != "ok":
            v.oblige(False)
            v.violation(f"exact-run:{r['id']}", f"monomial case {r['id']}: {r['status']} {r.get('error','')[:200]}", {"case": r["id"], "code": r.get("code", "")},
                        no_input=(r["status"] not in ("gcc_failed", "rejected")))
            continue
        for row in r["rows"]:
            nrows += 1
            ok = row["relerr"] <= 1e-11
            worst = max(worst, row["relerr"])
            v.oblige(ok)
            by_cell[r["id"].split(":")[0]] = by_cell.get(r["id"].split(":")[0], 0) + 1
            if not ok:
                v.violation(f"exactness:{r['id']}:q{row['q']}", f"degree-{row['q']} rule does not integrate a polynomial of degree <= {row['q']} exactly on an affine {r['id'].split(':')[0]}: "
                            f"kernel {row['kernel']!r} vs closed form {row['exact']!r} (relative error {row['relerr']:.3g})",
                            {"case": r["id"], "code": r["code"], "row": row})
            elif len(v.samples) < 8:
                v.samples.append({"case": r["id"], "q": row["q"], "monomials": row["monomials"][:3], "relerr": row["relerr"]})
    if not g["ok"] and not v.violations:
        v.violation("gate", "proof obligations no longer check: " + "; ".join(g["broken"]), {"broken": g["broken"]}, no_input=True)
    tot = st_multi["agree"] + st_multi["mismatch"] + st_nometa["agree"] + st_nometa["mismatch"] + nrows
    cov = {"checker_cmd": f"./check C11 --tier {tier}", "trusted_base": valprops.ORACLE_TRUST + [
               "exactrun.py: closed-form monomial integrals in exact rational arithmetic (affine pull-back expanded symbolically)",
               "Coq kernel+VM for the scope-lookup model (Scopes.v); tr_scope.py"],
           "programs": st_multi["cases"] + st_nometa["cases"] + len(jobs), "disagreements_checked": tot, "evaluations": tot,
           "distinct_nontrivial": st_multi["distinct"] + st_nometa["distinct"] + nrows,
           "multi_rule": st_multi, "no_metadata": st_nometa, "scope_correspondence": scope_stats, "monomial_rows": nrows, "monomial_rows_by_cell": by_cell, "worst_relative_error": worst,
           "rule": "multi-rule forms vs oracle (own rule per integral); no-metadata polynomial forms on affine cells vs oracle with a degree-20 rule; monomial functionals of degree q with dx(degree=q) vs closed form, all 7 cells, q in 0..30 (quick: subset for 3D cells)",
           "axioms_under_property_theorems": g.get("axioms", [])}
    return v.finish("proof", cov, ["forms sampled; proved for all rule lists and status assignments: each rule reads its own varying values (Scopes.v, cache test regenerated from the source); exactness of the rules is decided against closed forms per sampled (cell, degree, monomial), not proved"])


def replay(v, payload):
    if "row" in payload:
        print(payload["row"])
        return 1
    import oraclerun
    r = oraclerun.check_case({"id": payload["case"], "code": payload["code"]}, 1, entity_mode="all")
    bad = [k for k in r["kernels"] if k["status"] == "mismatch"]
    print(r["status"], [(k["status"], k.get("error")) for k in r["kernels"]])
    return 1 if bad else 0
