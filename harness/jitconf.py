"""Trace conformance between the real jit.py (run under harness/jitsched.py) and Jit.step."""
from __future__ import annotations

import os
import pickle
import re
import shutil
import subprocess
import tempfile

import common

CODE = {"Loaded": 0, "LoadedPartial": 1, "RaisedTimeout": 2, "RaisedNotFound": 3, "RaisedBuild": 4, "Dead": 5, "Running": 9}
SO = {"SoAbsent": 0, "SoPartial": 1, "SoComplete": 2}
TIMEOUT = 3


def schedules(seed, n, faults, kills, window=False, nreq=(2, 5)):
    import random
    rng = random.Random(seed)
    return [{"seed": rng.randrange(10 ** 9), "nreq": rng.randint(*nreq), "faults": faults, "kills": kills, "window": window}
            for _ in range(n)]


def run_real(specs):
    tmp = tempfile.mkdtemp(prefix="vfjs_")
    try:
        chunks = [specs[i::8] for i in range(8)]
        procs = []
        for i, ch in enumerate(chunks):
            if not ch:
                continue
            inp, outp = os.path.join(tmp, f"i{i}.pkl"), os.path.join(tmp, f"o{i}.pkl")
            pickle.dump({"schedules": ch, "timeout": TIMEOUT}, open(inp, "wb"))
            procs.append((subprocess.Popen([common.PY, os.path.join(common.HERE, "jitsched.py"), inp, outp],
                                           env=common.env_for_repo(), cwd=tmp, stdout=subprocess.PIPE, stderr=subprocess.PIPE, text=True), outp))
        out = []
        errs = []
        for p, outp in procs:
            try:
                so, se = p.communicate(timeout=900)
            except subprocess.TimeoutExpired:
                p.kill()
                so, se = p.communicate()
            if os.path.exists(outp):
                out += pickle.load(open(outp, "rb"))
            else:
                errs.append(se[-400:])
        return out, errs
    finally:
        shutil.rmtree(tmp, ignore_errors=True)


def ev(e):
    return "Spawn" if e[0] == "Spawn" else f"Step {e[1]} {e[2]}"


def run_model(runs, flags):
    """returns for each run the model's summary (outcome codes+swapped, fs, compiles) and
    whether the trace is 'good' (no fault at B6)."""
    path = os.path.join(common.GEN, "Jit_cases.v")
    txt = ("From Coq Require Import List Bool Arith.\nFrom FFCX Require Import Jit.\nImport ListNotations.\nSet Printing Width 1000000.\n"
           f"Definition R := {'true' if flags[0] else 'false'}.\nDefinition AT := {'true' if flags[1] else 'false'}.\n"
           "Definition traces : list (list event) := [\n " +
           ";\n ".join("[" + "; ".join(ev(e) for e in r["events"]) + "]" for r in runs) + "].\n"
           f"Eval vm_compute in map (fun t => summary (run {TIMEOUT} R AT init t)) traces.\n")
    open(path, "w").write(txt)
    out = common.coqc_many([path], timeout=600)[path]
    for ext in (".vo", ".vok", ".vos", ".glob"):
        try:
            os.remove(path[:-2] + ext)
        except OSError:
            pass
    if out[0] != 0:
        raise RuntimeError("model evaluation failed: " + out[2][-300:])
    body = out[1][out[1].index("="):]
    res = []
    # one summary:  ([(0, false); (2, false)], (true, true, false, 2), 1)
    for m in re.finditer(r"\(\[(.*?)\],\s*\((\w+),\s*(\w+),\s*(\w+),\s*(\d+)\),\s*(\d+)\)", body, re.S):
        procs = [(int(a), b == "true") for a, b in re.findall(r"\(\s*(\d+)\s*,\s*(\w+)\s*\)", m.group(1))]
        res.append({"procs": procs, "fs": (m.group(2) == "true", m.group(3) == "true", m.group(4) == "true", int(m.group(5))),
                    "compiles": int(m.group(6))})
    return res


def compare(v, runs, model, label, check_handlers=True):
    ok_all = 0
    for r, m in zip(runs, model):
        # the logger state of a killed process is not observable (it is gone)
        real_p = [(CODE[o], s if (check_handlers and o != "Dead") else False) for o, s in zip(r["outcomes"], r["swapped"])]
        mod_p = [(c, s if (check_handlers and c != 5) else False) for c, s in m["procs"]]
        real_fs = (r["fs"]["c"], r["fs"]["cached"], r["fs"]["failed"], SO[r["fs"]["so"]])
        same = real_p == mod_p and real_fs == m["fs"]
        v.oblige(same)
        if same:
            ok_all += 1
        else:
            v.violation(f"trace-conformance:{label}", f"jit.py and Jit.v disagree on a schedule: outcomes real {real_p} / model {mod_p}; files real {real_fs} / model {m['fs']}",
                        {"schedule": r["spec"], "events": [ev(e) for e in r["events"]], "real_outcomes": r["outcomes"],
                         "real_fs": r["fs"], "model": m, "broken_obligation": "trace conformance with Jit.step"}, no_input=True)
    return ok_all
