"""Correspondence between the REAL table classification (ffcx/ir/elementtables.py: analyse_table_type,
is_permuted_table, the ttype tuples) and the model Tab.v, on generated tables.  Entries and tolerances are dyadic
rationals, so numpy's float comparison |a-b| <= atol + rtol|b| is exact and must agree with the model over Q."""
from __future__ import annotations

import os
import random
import re
import sys

HERE = os.path.dirname(os.path.abspath(__file__))
sys.path.insert(0, HERE)
import common  # noqa: E402

TOL = (1, 1024)           # rtol = atol = 2^-10
CODES = {"zeros": 0, "ones": 1, "quadrature": 2, "fixed": 3, "piecewise": 4, "uniform": 5, "varying": 6}


def gen_table(rng):
    """nested lists [perm][entity][point][dof] of (numerator, denominator=2^k) built to hit every class and every
    boundary of the tolerance"""
    np_, ne, nq, nd = rng.choice([1, 1, 2, 3]), rng.randint(1, 4), rng.randint(1, 4), rng.randint(1, 3)
    eps_in, eps_out = (1, 4096), (3, 1024)       # inside / outside the tolerance band
    kind = rng.choice(["zeros", "ones", "identity", "fixed", "piecewise", "uniform", "varying", "perm0-piecewise", "entity0-piecewise"])
    if kind == "identity":
        nd = nq
    base = [[(rng.randint(-3, 3), 1) for _ in range(nd)] for _ in range(4)]

    def entry(p, e, q, d):
        if kind == "zeros":
            v = (0, 1)
        elif kind == "ones":
            v = (1, 1)
        elif kind == "identity":
            v = (1 if q == d else 0, 1)
        elif kind == "fixed":
            v = base[0][d]
        elif kind == "piecewise":
            v = (base[0][d][0] + e, 1)
        elif kind == "uniform":
            v = (base[0][d][0] + q, 1)
        elif kind == "perm0-piecewise":
            v = (base[0][d][0] + (q if p > 0 else 0), 1)
        elif kind == "entity0-piecewise":
            v = (base[0][d][0] + (q if e > 0 else 0), 1)
        else:
            v = (base[0][d][0] + 2 * q + 5 * e + p, 1)
        r = rng.random()
        if r < 0.25:        # perturb within the band
            v = (v[0] * eps_in[1] + rng.choice([-1, 1]) * eps_in[0], eps_in[1])
        elif r < 0.30:      # perturb outside
            v = (v[0] * eps_out[1] + rng.choice([-1, 1]) * eps_out[0], eps_out[1])
        return v
    return [[[[entry(p, e, q, d) for d in range(nd)] for q in range(nq)] for e in range(ne)] for p in range(np_)], kind


def real_classify(tables):
    """run the real functions in a subprocess of the repo's python"""
    import json
    import subprocess
    code = r'''
import sys, json, numpy as np
sys.path.insert(0, sys.argv[1])
import ffcx.ir.elementtables as et
tabs = json.load(open(sys.argv[2]))
rt = at = 1.0 / 1024
out = []
for t in tabs:
    a = np.array([[[[n / d for (n, d) in row] for row in ent] for ent in perm] for perm in t], dtype=np.float64)
    tt = et.analyse_table_type(a, rtol=rt, atol=at)
    b = a
    if tt in et.piecewise_ttypes:
        b = b[:, :, :1, :]
    if tt in et.uniform_ttypes:
        b = b[:, :1, :, :]
    out.append([tt, bool(et.is_permuted_table(b, rtol=rt, atol=at))])
print(json.dumps(out))
'''
    import tempfile
    tmp = tempfile.mkdtemp(prefix="vftab_")
    try:
        path = os.path.join(tmp, "t.json")
        json.dump(tables, open(path, "w"))
        p = subprocess.run([common.PY, "-c", code, common.REPO, path], capture_output=True, text=True, env=common.env_for_repo(), timeout=600)
        if p.returncode != 0:
            raise RuntimeError(p.stderr[-400:])
        return json.loads(p.stdout.strip().splitlines()[-1])
    finally:
        import shutil
        shutil.rmtree(tmp, ignore_errors=True)


def q_coq(v):
    n, d = v
    return f"(({n}) # {d})" if d != 1 else f"({n})"


def run(v, seed, n):
    rng = random.Random(f"tab-{seed}")
    tabs, kinds = [], []
    for _ in range(n):
        t, k = gen_table(rng)
        tabs.append(t)
        kinds.append(k)
    try:
        real = real_classify(tabs)
    except Exception as e:  # noqa: BLE001
        v.oblige(False)
        v.violation("tab-real", f"the real table classification could not be run: {e}", {}, no_input=True)
        return {"tables": 0}
    files = []
    chunk = 250
    for ci in range(0, n, chunk):
        path = os.path.join(common.GEN, f"Tab_cases_{ci // chunk}.v")
        rows = []
        for t in tabs[ci:ci + chunk]:
            rows.append("  [" + "; ".join("[" + "; ".join("[" + "; ".join("[" + "; ".join(q_coq(x) for x in row) + "]" for row in ent) + "]" for ent in perm) + "]" for perm in t) + "]")
        open(path, "w").write("From Coq Require Import List QArith.\nFrom FFCX Require Import Tab.\nImport ListNotations.\nOpen Scope Q_scope.\n"
                              f"Eval vm_compute in map (classify ({TOL[0]} # {TOL[1]}) ({TOL[0]} # {TOL[1]})) [\n" + ";\n".join(rows) + "].\n")
        files.append(path)
    out = common.coqc_many(files, timeout=900)
    model = []
    ok_eval = True
    for path in files:
        rc, so, se = out[path]
        for ext in (".vo", ".vok", ".vos", ".glob"):
            try:
                os.remove(path[:-2] + ext)
            except OSError:
                pass
        if rc != 0:
            ok_eval = False
            v.oblige(False)
            v.violation("tab-model", "Tab.v could not be evaluated on the generated tables: " + (se or so)[-300:], {}, no_input=True)
            break
        model += [(int(a), b == "true") for a, b in re.findall(r"\(\s*(\d+)(?:%nat)?\s*,\s*(true|false)\s*\)", so)]
    stats = {"tables": n, "agree": 0, "by_real_type": {}, "permuted": 0}
    if ok_eval and len(model) == n:
        reported = 0
        for t, k, (rt, rp), (mt, mp) in zip(tabs, kinds, real, model):
            same = CODES.get(rt) == mt and rp == mp
            v.oblige(same)
            stats["by_real_type"][rt] = stats["by_real_type"].get(rt, 0) + 1
            stats["permuted"] += int(rp)
            if same:
                stats["agree"] += 1
            elif reported < 3:
                reported += 1
                v.violation("tab-correspondence", f"table classification differs from Tab.v on a generated table (built as '{k}'): real ({rt}, permuted={rp}), model (code {mt}, permuted={mp})",
                            {"table_[perm][entity][point][dof]_as_fractions": t, "rtol=atol": "1/1024", "real": [rt, rp], "model": [mt, mp],
                             "broken_obligation": "correspondence elementtables.analyse_table_type / is_permuted_table <-> Tab.classify"})
    elif ok_eval:
        v.oblige(False)
        v.violation("tab-model", f"Tab.v returned {len(model)} results for {n} tables", {}, no_input=True)
    return stats
