"""Compute JIT names for cases under a given process history. python sig_worker.py in.pkl out.pkl
job: {"cases":[{"id","code","history": "none"|"objects"|"compile_other", "cffi_args":[...], "debug":bool}]}"""
import os
import pickle
import sys

sys.path.insert(0, os.path.dirname(os.path.abspath(__file__)))
import ffx  # noqa: E402

OTHER = '''
m=mesh("tetrahedron"); V=space(m,"P",2); u,v=TrialFunction(V),TestFunction(V); f=Coefficient(V)
objs=[f*inner(grad(u),grad(v))*dx + u*v*ds]
'''


class _Stop(Exception):
    pass


def real_names(jit, forms, exprs, options, args, dbg):
    """module / object names as the REAL entry points compute them (compile_forms / compile_expressions are
    called with the request's own arguments and stopped where they look the module up in the cache)"""
    import tempfile
    seen = {}

    def stop(module_name, object_names, cache_dir, timeout):
        seen["module"] = module_name
        seen["objects"] = list(object_names)
        raise _Stop()
    saved = jit.get_cached_module
    jit.get_cached_module = stop
    d = tempfile.mkdtemp(prefix="vfsigc_")
    try:
        try:
            if forms:
                jit.compile_forms(list(forms), options=dict(options or {}), cache_dir=d,
                                  cffi_extra_compile_args=list(args), cffi_debug=dbg)
            else:
                jit.compile_expressions(list(exprs), options=dict(options or {}), cache_dir=d,
                                        cffi_extra_compile_args=list(args), cffi_debug=dbg)
        except _Stop:
            pass
    finally:
        jit.get_cached_module = saved
        import shutil
        shutil.rmtree(d, ignore_errors=True)
    return seen


def main():
    job = pickle.load(open(sys.argv[1], "rb"))
    import hashlib

    import ffcx.naming
    import ffcx.codegeneration.jit as jit
    import ffcx.options
    captured = []

    class H:
        def __getattr__(self, n):
            return getattr(hashlib, n)

        def sha1(self, data=b""):
            captured.append(bytes(data))
            return hashlib.sha1(data)
    ffcx.naming.hashlib = H()
    out = []
    for case in job["cases"]:
        r = {"id": case["id"], "status": "ok"}
        try:
            hist = case.get("history", "none")
            if hist == "objects":
                import ufl, basix.ufl
                for k in range(7):
                    mm = ufl.Mesh(basix.ufl.element("P", "triangle", 1, shape=(2,)))
                    VV = ufl.FunctionSpace(mm, basix.ufl.element("P", "triangle", 1))
                    ufl.variable(ufl.Coefficient(VV)); ufl.Constant(mm); ufl.TrialFunction(VV)
            elif hist == "compile_other":
                o2, op2, _ = ffx.build_case(OTHER)
                ffx.compile_case(o2, op2)
            objs, options, ns = ffx.build_case(case["code"])
            p = ffcx.options.get_options(dict(options))
            args = case.get("cffi_args", [])
            dbg = case.get("debug", False)
            forms = [o for o in objs if not isinstance(o, tuple)]
            exprs = [o for o in objs if isinstance(o, tuple)]
            # names: always through the real entry points
            if forms:
                captured.clear()
                rn = real_names(jit, forms, [], options, args, dbg)
                r["module"] = rn["module"]
                r["form_names"] = rn["objects"]
                r["preimage"] = captured[0].decode("utf-8") if captured else ""
            if exprs:
                captured.clear()
                rn = real_names(jit, [], exprs, options, args, dbg)
                r["emodule"] = rn["module"]
                r["expr_names"] = rn["objects"]
                r["epreimage"] = captured[0].decode("utf-8") if captured else ""
            # the fields of the modelled encoding (tie of Naming.v): how jit.py composes the tag today
            try:
                tag = jit._compute_option_signature(p) + jit._compilation_signature(args, dbg)
                if forms:
                    r["fields"] = ["".join(f.signature() for f in forms), str(ffcx.__version__),
                                   ffcx.codegeneration.get_signature(), "form", tag]
            except BaseException as e:  # noqa: BLE001
                r["fields_error"] = f"{type(e).__name__}: {e}"[:200]
                r.pop("preimage", None)
            if case.get("object_names"):
                cap = ffx.compile_case(objs, options, prefix=r.get("module", r.get("emodule", "p")))
                names = [fi.name for fi in cap.ir.forms]
                names += [ffx.kernel_name(k) for k in cap.kernels]
                r["object_names"] = names
        except BaseException as e:  # noqa: BLE001
            r["status"] = "error"
            r["error"] = f"{type(e).__name__}: {e}"[:300]
        out.append(r)
    pickle.dump(out, open(sys.argv[2], "wb"))


if __name__ == "__main__":
    main()
