"""idxcorr.py — correspondence of coq/theories/Indexing.v with ffcx/ir/analysis/indexing.py.

While the given cases are compiled, every call of map_indexed_arg_components / map_component_tensor_arg_components made by
the value numbering is recorded: the inputs of the MODEL are read off the UFL object by this harness (total shapes =
shape + free-index dimensions, the multi-index as fixed values / positions among the free indices, the position maps),
the output is what the real function returned.  Coq evaluates Indexing.map_indexed / map_ct on the inputs and compares.

python idxcorr.py in.pkl out.pkl  = worker (one subprocess per chunk of cases)."""
from __future__ import annotations

import os
import pickle
import re
import sys

HERE = os.path.dirname(os.path.abspath(__file__))
sys.path.insert(0, HERE)


def worker():
    import ffx
    job = pickle.load(open(sys.argv[1], "rb"))
    import ffcx.ir.analysis.valuenumbering as VN
    from ufl.classes import FixedIndex, Index
    o_idx, o_ct = VN.map_indexed_arg_components, VN.map_component_tensor_arg_components
    res = []
    for case in job["cases"]:
        r = {"id": case["id"], "status": "ok", "records": []}

        def w_idx(indexed, _r=r):
            d = o_idx(indexed)
            try:
                e2, mi = indexed.ufl_operands
                e1 = indexed
                fi1, fi2 = e1.ufl_free_indices, e2.ufl_free_indices
                tsh1 = tuple(e1.ufl_shape) + tuple(e1.ufl_index_dimensions)
                tsh2 = tuple(e2.ufl_shape) + tuple(e2.ufl_index_dimensions)
                mix = []
                for i in mi:
                    if isinstance(i, FixedIndex):
                        mix.append(("F", int(i)))
                    elif isinstance(i, Index):
                        mix.append(("I", fi1.index(i.count())))
                    else:
                        raise ValueError(type(i).__name__)
                _r["records"].append({"kind": "indexed", "tsh1": [int(x) for x in tsh1], "tsh2": [int(x) for x in tsh2], "mi": mix,
                                      "ind2to1": [fi1.index(i) for i in fi2], "out": [int(x) for x in d]})
            except Exception as e:  # noqa: BLE001
                _r["records"].append({"kind": "indexed", "export_error": f"{type(e).__name__}: {e}"[:200]})
            return d

        def w_ct(tensor, _r=r):
            d = o_ct(tensor)
            try:
                e1, mi = tensor.ufl_operands
                e2 = tensor
                fi1, fi2 = e1.ufl_free_indices, e2.ufl_free_indices
                tsh1 = tuple(e1.ufl_shape) + tuple(e1.ufl_index_dimensions)
                tsh2 = tuple(e2.ufl_shape) + tuple(e2.ufl_index_dimensions)
                p2to1 = [fi1.index(i.count()) for i in mi] + [fi1.index(i) for i in fi2]
                _r["records"].append({"kind": "ct", "tsh1": [int(x) for x in tsh1], "tsh2": [int(x) for x in tsh2], "p2to1": p2to1,
                                      "out": [int(x) for x in d]})
            except Exception as e:  # noqa: BLE001
                _r["records"].append({"kind": "ct", "export_error": f"{type(e).__name__}: {e}"[:200]})
            return d
        import ufl as _ufl
        import ffcx.ir.analysis.reconstruct as RC
        o_isum = RC._reconstruct_call_lookup[_ufl.classes.IndexSum]

        class Mark:
            """stands for the k-th scalar component of the summand; `sum` of marks collects their positions"""

            def __init__(self, ks):
                self.ks = ks

            def __add__(self, other):
                return Mark(self.ks + other.ks)

            def __radd__(self, other):
                return self if other == 0 else Mark(other.ks + self.ks)

        def w_isum(o, ops, _r=r):
            res = o_isum(o, ops)
            try:
                summand, mi = o.ufl_operands
                fi, fid = summand.ufl_free_indices, summand.ufl_index_dimensions
                ipos = fi.index(mi[0].count())
                pre = 1
                for x in tuple(summand.ufl_shape) + tuple(fid[:ipos]):
                    pre *= int(x)
                post = 1
                for x in fid[ipos + 1:]:
                    post *= int(x)
                d = int(fid[ipos])
                groups = [list(m.ks) for m in o_isum(o, [[Mark([k]) for k in range(len(ops[0]))]])]
                _r["records"].append({"kind": "isum", "pre": pre, "d": d, "post": post, "out": groups})
            except Exception as e:  # noqa: BLE001
                _r["records"].append({"kind": "isum", "export_error": f"{type(e).__name__}: {e}"[:200]})
            return res
        RC._reconstruct_call_lookup[_ufl.classes.IndexSum] = w_isum
        o_prod = RC._reconstruct_call_lookup[_ufl.classes.Product]

        def w_prod(o, ops, _r=r):
            res = o_prod(o, ops)
            try:
                if len(ops) == 2 and len(ops[0]) > 1 and len(ops[1]) > 1:
                    o0, o1 = o.ufl_operands
                    fi, fi0, fi1 = o.ufl_free_indices, o0.ufl_free_indices, o1.ufl_free_indices
                    import basix.ufl as _bu
                    dm = _ufl.Mesh(_bu.element("P", "interval", 1, shape=(1,)))
                    m0 = [_ufl.Constant(dm) for _ in ops[0]]
                    m1 = [_ufl.Constant(dm) for _ in ops[1]]
                    pos0 = {id(c): k for k, c in enumerate(m0)}
                    pos1 = {id(c): k for k, c in enumerate(m1)}
                    pairs = []
                    for pr in o_prod(o, [m0, m1]):
                        a, b = pr.ufl_operands
                        if id(a) in pos1:
                            a, b = b, a
                        pairs.append((pos0[id(a)], pos1[id(b)]))
                    _r["records"].append({"kind": "prod", "fid": [int(x) for x in o.ufl_index_dimensions], "fid0": [int(x) for x in o0.ufl_index_dimensions],
                                          "fid1": [int(x) for x in o1.ufl_index_dimensions], "indmap0": [fi.index(i) for i in fi0],
                                          "indmap1": [fi.index(i) for i in fi1], "out": pairs})
            except Exception as e:  # noqa: BLE001
                _r["records"].append({"kind": "prod", "export_error": f"{type(e).__name__}: {e}"[:200]})
            return res
        RC._reconstruct_call_lookup[_ufl.classes.Product] = w_prod
        VN.map_indexed_arg_components, VN.map_component_tensor_arg_components = w_idx, w_ct
        try:
            objs, options, ns = ffx.build_case(case["code"])
            ffx.compile_case(objs, options)
        except BaseException as e:  # noqa: BLE001
            r["status"] = "rejected"
            r["error"] = f"{type(e).__name__}: {e}"[:200]
        finally:
            VN.map_indexed_arg_components, VN.map_component_tensor_arg_components = o_idx, o_ct
            RC._reconstruct_call_lookup[_ufl.classes.IndexSum] = o_isum
            RC._reconstruct_call_lookup[_ufl.classes.Product] = o_prod
        res.append(r)
    pickle.dump(res, open(sys.argv[2], "wb"))


def nl(l):
    return "[" + "; ".join(str(int(x)) for x in l) + "]%nat"


def run(cases, tag="Idxc", max_out=4000):
    import common
    res = common.run_cases(cases, script="idxcorr.py", timeout=300)
    common.clean_gen(tag + "_")
    seen = set()
    rows, metas = [], []
    info = {"calls": 0, "distinct": 0, "equal": 0, "export_errors": 0, "mismatches": [], "errors": [], "indexed": 0, "component_tensor": 0, "largest": 0}
    for r in res:
        for rec in r.get("records", []):
            info["calls"] += 1
            if "export_error" in rec:
                info["export_errors"] += 1
                continue
            if len(rec["out"]) > max_out:
                continue
            if rec["kind"] == "prod":
                key = repr(sorted(rec.items()))
                if key in seen:
                    continue
                seen.add(key)
                info["product"] = info.get("product", 0) + 1
                outl = "[" + "; ".join(f"({a}, {b})" for a, b in rec["out"]) + "]%nat"
                rows.append(f"eqpp (product_pairs {nl(rec['fid'])} {nl(rec['fid0'])} {nl(rec['fid1'])} {nl(rec['indmap0'])} {nl(rec['indmap1'])}) {outl}")
                metas.append((r["id"], rec))
                continue
            if rec["kind"] == "isum":
                key = repr((rec["pre"], rec["d"], rec["post"], rec["out"]))
                if key in seen:
                    continue
                seen.add(key)
                info["index_sum"] = info.get("index_sum", 0) + 1
                outl = "[" + "; ".join(nl(g) for g in rec["out"]) + "]"
                rows.append(f"eqnn (index_sum_groups {rec['pre']} {rec['d']} {rec['post']}) {outl}")
                metas.append((r["id"], rec))
                continue
            key = repr(sorted(rec.items()))
            if key in seen:
                continue
            seen.add(key)
            info["largest"] = max(info["largest"], len(rec["out"]))
            if rec["kind"] == "indexed":
                info["indexed"] += 1
                mi = "[" + "; ".join(f"MFixed {k}" if t == "F" else f"MIndex {k}" for t, k in rec["mi"]) + "]"
                rows.append(f"eqn (map_indexed {nl(rec['tsh1'])} {nl(rec['tsh2'])} {mi} {nl(rec['ind2to1'])}) {nl(rec['out'])}")
            else:
                info["component_tensor"] += 1
                rows.append(f"eqn (map_ct {nl(rec['tsh1'])} {nl(rec['tsh2'])} {nl(rec['p2to1'])}) {nl(rec['out'])}")
            metas.append((r["id"], rec))
    info["distinct"] = len(rows)
    files = {}
    per = 150
    for k in range(0, len(rows), per):
        path = os.path.join(common.GEN, f"{tag}_{k // per}.v")
        t = ("From Coq Require Import List Arith.\nFrom FFCX Require Import Indexing.\nImport ListNotations.\n"
             "Fixpoint eqn (a b : list nat) : bool := match a, b with [], [] => true | x :: a', y :: b' => Nat.eqb x y && eqn a' b' | _, _ => false end.\n"
             "Fixpoint eqpp (a b : list (nat * nat)) : bool := match a, b with [], [] => true | (x, y) :: a', (u, w) :: b' => Nat.eqb x u && Nat.eqb y w && eqpp a' b' | _, _ => false end.\n"
             "Fixpoint eqnn (a b : list (list nat)) : bool := match a, b with [], [] => true | x :: a', y :: b' => eqn x y && eqnn a' b' | _, _ => false end.\n")
        t += "Eval vm_compute in [" + ";\n ".join(rows[k:k + per]) + "].\n"
        open(path, "w").write(t)
        files[path] = metas[k:k + per]
    out = common.coqc_many(list(files), timeout=600)
    for path, ms in files.items():
        rc, so, se = out[path]
        mm = re.search(r"=\s*\[(.*?)\]\s*:\s*list bool", so, re.S) if rc == 0 else None
        b = [x.strip() == "true" for x in mm.group(1).split(";")] if mm else None
        if b is None or len(b) != len(ms):
            info["errors"].append((os.path.basename(path), (se or so)[-300:]))
            continue
        for ok, (cid, rec) in zip(b, ms):
            if ok:
                info["equal"] += 1
            elif len(info["mismatches"]) < 5:
                info["mismatches"].append({"case": cid, "record": {k: v for k, v in rec.items() if k != "out"}, "real_output": rec["out"][:40]})
            else:
                info["mismatches"].append({"case": cid})
        for ext in (".vo", ".vok", ".vos", ".glob"):
            try:
                os.remove(path[:-2] + ext)
            except OSError:
                pass
    return info


if __name__ == "__main__":
    if len(sys.argv) == 3 and sys.argv[1].endswith(".pkl"):
        worker()
    else:
        import json

        import corpus
        n = int(sys.argv[1]) if len(sys.argv) > 1 else 6
        r = run(list(corpus.PINNED) + corpus.random_cases(0, n))
        r["mismatches"] = r["mismatches"][:3]
        print(json.dumps(r, indent=1, default=str)[:3000])
