"""Correspondence run for LN.exec itself: every selected float64 kernel is executed
 (a) by LN.exec over Coq's primitive binary64 floats (vm_compute), literals taken as the
     values the C text reads back as ('{x:.16}'), and
 (b) as the C that FFCx really emits, compiled by gcc -O0 -ffp-contract=off,
on the same dyadic inputs; results must agree bit for bit.  This is what licenses reading
the theorems about LN.exec as statements about the emitted C."""

from __future__ import annotations

import os
import re

import numpy as np

import common
import ffx
import inputs
import runc

SUPPORTED_CALLS = {"sqrt", "abs"}


def calls_in(body):
    out = set()

    def ex(e):
        k = e[0]
        if k == "ECall":
            out.add(e[1])
            for a in e[2]:
                ex(a)
        elif k in ("ENeg", "ENot"):
            ex(e[1])
        elif k == "EBin":
            ex(e[2]); ex(e[3])
        elif k in ("ESum", "EProd"):
            for a in e[1]:
                ex(a)
        elif k == "EAcc":
            for a in e[2]:
                ex(a)
        elif k == "ECond":
            ex(e[1]); ex(e[2]); ex(e[3])

    def st(s):
        k = s[0]
        if k in ("SList", "SBlock"):
            for x in s[1]:
                st(x)
        elif k == "SFor":
            for x in s[4]:
                st(x)
        elif k == "SVarDecl":
            ex(s[3])
        elif k in ("SAssign", "SAssignAdd"):
            ex(s[2])
            if s[1][0] == "LArr":
                for a in s[1][2]:
                    ex(a)
    for s in body:
        st(s)
    return out


def flops_estimate(body):
    def st(s):
        k = s[0]
        if k in ("SList", "SBlock"):
            return sum(st(x) for x in s[1])
        if k == "SFor":
            return max(s[3] - s[2], 0) * sum(st(x) for x in s[4])
        return 1
    return sum(st(s) for s in body)


def lits(a):
    return "[" + "; ".join("VF (f_of_lit (%d) (%d))" % ffx.dyadic(float(v)) for v in a) + "]"


def zl(a):
    return "[" + "; ".join(str(int(v)) for v in a) + "]"


HEADER = """From Coq Require Import ZArith List String PrimFloat Uint63.
From FFCX Require Import LN Enc Num.
Import ListNotations.
Open Scope string_scope.
"""


def run(cases, tag, seed, max_flops=400000, per_kernel_inputs=2):
    """returns dict(compared, agree, skipped{reason:count}, disagreements[list], samples)."""
    results = common.run_cases(cases, lit="c_printed", want_text=True)
    common.clean_gen(tag + "_")
    rng = np.random.default_rng(seed)
    jobs = []
    skipped = {}

    def skip(r):
        skipped[r] = skipped.get(r, 0) + 1
    for r in results:
        if r["status"] != "ok":
            skip("case " + r["status"])
            continue
        if r["scalar_type"] != "float64":
            skip("scalar type " + r["scalar_type"])
            continue
        b = None
        for kd in r["kernels"]:
            if "body" not in kd:
                skip("unsupported ast")
                continue
            calls = calls_in(kd["body"])
            if not calls <= SUPPORTED_CALLS:
                skip("libm call " + ",".join(sorted(calls - SUPPORTED_CALLS)))
                continue
            if flops_estimate(kd["body"]) > max_flops:
                skip("too large for vm_compute budget")
                continue
            if b is None:
                b = runc.CBuild(r["header"], r["source"])
            if not b.ok:
                skip("gcc failed")
                continue
            con = kd["contract"]
            fn = b.kernel(kd["name"])
            ins = [inputs.make(con, rng, "float64") for _ in range(per_kernel_inputs)]
            outs = []
            for d in ins:
                A = d["A"].copy()
                runc.call_kernel(fn, A, d["w"], d["c"], d["x"], d["e"], d["p"])
                outs.append(A)
            n = len(jobs)
            path = os.path.join(common.GEN, f"{tag}_{n}.v")
            txt = HEADER + "Definition k : list stmt :=\n" + ffx.coq_body(kd["body"]) + ".\n"
            for j, d in enumerate(ins):
                txt += (f"Definition inp{j} := @inputs_of_lists float {lits(d['w'])} {lits(d['c'])} {lits(d['x'])} "
                        f"{zl(d['e'][:con['ne']])} {zl(d['p'][:con['np']])}.\n")
                txt += f"Definition A0_{j} : list f_val := {lits(d['A'])}.\n"
                txt += f"Eval vm_compute in option_map floats_of (f_run inp{j} k A0_{j}).\n"
            with open(path, "w") as f:
                f.write(txt)
            jobs.append((path, r, kd, ins, outs))
    out = common.coqc_many([j[0] for j in jobs], timeout=900)
    compared = agree = 0
    disagreements = []
    samples = []
    for path, r, kd, ins, outs in jobs:
        rc, so, se = out[path]
        blocks = re.findall(r"=\s*(Some\s*\[(.*?)\]|None)\s*:\s*option", so, re.S)
        for j, (d, A_c) in enumerate(zip(ins, outs)):
            compared += 1
            if rc != 0 or j >= len(blocks):
                disagreements.append({"case": r["id"], "code": r["code"], "kernel": kd["name"],
                                      "why": "coq evaluation failed: " + se[-300:]})
                continue
            whole, inner = blocks[j]
            if whole == "None":
                disagreements.append({"case": r["id"], "code": r["code"], "kernel": kd["name"],
                                      "why": "LN.exec traps (None) where C runs", "e": d["e_used"], "p": d["p_used"]})
                continue
            vals = np.array([_pf(v) for v in inner.replace("\n", " ").split(";")]) if inner.strip() else np.zeros(0)
            same = vals.shape == A_c.shape and np.array_equal(vals.view(np.uint64), A_c.view(np.uint64))
            if not same and vals.shape == A_c.shape:
                # -0.0 vs 0.0 and NaN payloads are the only tolerated bit differences
                same = all((a == b) or (a != a and b != b) for a, b in zip(vals.tolist(), A_c.tolist()))
            if same:
                agree += 1
                if len(samples) < 4:
                    samples.append({"case": r["id"], "kernel": kd["name"], "A_len": int(A_c.size),
                                    "A_first": [float(x) for x in A_c[:3]], "entity": d["e_used"], "perm": d["p_used"]})
            else:
                k = int(np.argmax(vals != A_c)) if vals.shape == A_c.shape else -1
                disagreements.append({"case": r["id"], "code": r["code"], "kernel": kd["name"],
                                      "why": "bit difference", "index": k,
                                      "coq": float(vals[k]).hex() if k >= 0 else None,
                                      "c": float(A_c[k]).hex() if k >= 0 else None,
                                      "e": d["e_used"], "p": d["p_used"]})
        for ext in (".vo", ".vok", ".vos", ".glob"):
            try:
                os.remove(path[:-2] + ext)
            except OSError:
                pass
    return {"compared": compared, "agree": agree, "skipped": skipped, "disagreements": disagreements,
            "samples": samples, "kernels": len(jobs)}


def _pf(tok):
    t = tok.strip().replace("%float", "").strip("() ")
    if t in ("infinity", "+infinity"):
        return float("inf")
    if t in ("-infinity", "neg_infinity"):
        return float("-inf")
    return float(t)
