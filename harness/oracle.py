"""Independent evaluation of a form integral / expression on one cell (or one interior
facet) "by definition": physical quadrature points, push-forward of basis functions by the
textbook formulas, UFL's own point-evaluation of the *original* integrand (after expansion of
Gateaux derivatives and algebra lowering only) — none of FFCx, and none of UFL's pull-back /
geometry-lowering / scaling passes that FFCx builds on.

Supported: Lagrange-type basix elements (identity map), blocked (vector/tensor) elements,
covariant / contravariant Piola elements on affine cells, mixed elements of those; affine and
non-affine geometry; manifolds for identity-mapped elements; cell, exterior/interior facet and
vertex integrals; FacetNormal, SpatialCoordinate, CellVolume, FacetArea, Circumradius on affine
simplices.  Anything else raises Unsupported (the caller counts it)."""

from __future__ import annotations

import itertools
import math

import basix
import basix.ufl
import numpy as np
import ufl
from ufl.algorithms import expand_derivatives
from ufl.algorithms.apply_algebra_lowering import apply_algebra_lowering

TDIM = {"interval": 1, "triangle": 2, "quadrilateral": 2, "tetrahedron": 3, "hexahedron": 3, "prism": 3, "pyramid": 3}


class Unsupported(Exception):
    pass


# ---------------------------------------------------------------------------------------------
# geometry

class OracleMismatch(Exception):
    """the form asks for something that has no meaning (e.g. a quadrature element off its points)."""


class Cell:
    """one physical cell: coordinate element + nodal coordinates (nn x gdim)."""

    def __init__(self, mesh, coords):
        self.mesh = mesh
        ce = mesh.ufl_coordinate_element()
        self.cellname = mesh.ufl_cell().cellname
        self.tdim = TDIM[self.cellname]
        self.gdim = ce.reference_value_shape[0]
        sub = ce._sub_element if hasattr(ce, "_sub_element") else ce
        self.be = sub.basix_element
        self.coords = np.asarray(coords, dtype=float).reshape(-1, 3)[:, : self.gdim]
        self.affine = self.be.degree == 1 and self.cellname in ("interval", "triangle", "tetrahedron")

    def at(self, X):
        """physical point, Jacobian (gdim x tdim), pseudo-inverse K (tdim x gdim), measure scale"""
        X = np.asarray(X, dtype=float).reshape(1, self.tdim)
        t = self.be.tabulate(1, X)          # (1+tdim, 1, nn, 1)
        phi = t[0, 0, :, 0]
        x = phi @ self.coords
        J = np.zeros((self.gdim, self.tdim))
        for a in range(self.tdim):
            J[:, a] = t[1 + a, 0, :, 0] @ self.coords
        if self.gdim == self.tdim:
            detJ = np.linalg.det(J)
            K = np.linalg.inv(J)
            scale = abs(detJ)
        else:
            G = J.T @ J
            K = np.linalg.inv(G) @ J.T
            detJ = math.sqrt(np.linalg.det(G))
            scale = detJ
        return x, J, K, detJ, scale


def facet_embedding(cellname, facet):
    """(origin, axes): reference facet point xi -> cell reference point origin + axes @ xi."""
    ct = getattr(basix.CellType, cellname)
    geom = np.asarray(basix.geometry(ct))
    verts = basix.topology(ct)[TDIM[cellname] - 1][facet]
    v = geom[verts]
    if len(v) == 1:
        return v[0], np.zeros((TDIM[cellname], 0))
    return v[0], np.stack([v[k] - v[0] for k in range(1, TDIM[cellname])], axis=1)   # simplex/quad facet: first tdim-1 edges


def facet_type(cellname, facet):
    ct = getattr(basix.CellType, cellname)
    return basix.cell.subentity_types(ct)[TDIM[cellname] - 1][facet]


def reference_normal(cellname, facet):
    ct = getattr(basix.CellType, cellname)
    return np.asarray(basix.cell.facet_outward_normals(ct))[facet]


# ---------------------------------------------------------------------------------------------
# elements: physical values and derivatives of every basis function at one point

def _leaf_tab(el, cell, X, nder):
    """-> vals[dof, comp], d1[dof, comp, gdim], d2[dof, comp, gdim, gdim] (d2 None unless nder==2)."""
    be = el.basix_element
    x, J, K, detJ, scale = cell.at(X)
    t = be.tabulate(nder, np.asarray(X, dtype=float).reshape(1, cell.tdim))   # (nd, 1, ndofs, vs)
    nd, _, ndofs, vs = t.shape
    ref = t[0, 0]                                       # (ndofs, vs)
    dref = np.stack([t[1 + a, 0] for a in range(cell.tdim)], axis=-1) if nder >= 1 else None   # (ndofs, vs, tdim)
    mt = be.map_type
    if mt == basix.MapType.identity:
        vals = ref
        d1 = np.einsum("dca,aj->dcj", dref, K) if nder >= 1 else None
        d2 = None
        if nder >= 2:
            if not cell.affine:
                raise Unsupported("second derivatives on non-affine geometry")
            H = np.zeros((ndofs, vs, cell.tdim, cell.tdim))
            for a in range(cell.tdim):
                for b in range(cell.tdim):
                    idx = basix.index(*[(1 if k == a else 0) + (1 if k == b else 0) for k in range(cell.tdim)])
                    H[:, :, a, b] = t[idx, 0]
            d2 = np.einsum("dcab,aj,bl->dcjl", H, K, K)
            if nder >= 3:
                # third derivatives ride on an extra last axis of d2: [..., 0] = second derivative, [..., 1 + k] = its
                # derivative in physical direction k (affine cells: three applications of K)
                td = cell.tdim
                H3 = np.zeros((ndofs, vs, td, td, td))
                for a in range(td):
                    for b in range(td):
                        for c in range(td):
                            idx = basix.index(*[(1 if k == a else 0) + (1 if k == b else 0) + (1 if k == c else 0) for k in range(td)])
                            H3[:, :, a, b, c] = t[idx, 0]
                d3 = np.einsum("dcabe,aj,bl,em->dcjlm", H3, K, K, K)
                d2 = np.concatenate([d2[..., None], d3], axis=-1)
        return vals, d1, d2
    if not cell.affine or cell.gdim != cell.tdim:
        raise Unsupported("Piola-mapped element on non-affine / manifold geometry")
    if nder >= 2:
        raise Unsupported("second derivatives of Piola-mapped elements")
    if mt == basix.MapType.covariantPiola:
        vals = np.einsum("da,aj->dj", ref, K)
        d1 = np.einsum("dab,aj,bl->djl", dref, K, K) if nder >= 1 else None
        return vals, d1, None
    if mt == basix.MapType.contravariantPiola:
        vals = np.einsum("ja,da->dj", J, ref) / detJ
        d1 = np.einsum("ja,dab,bl->djl", J, dref, K) / detJ if nder >= 1 else None
        return vals, d1, None
    if mt in (basix.MapType.doubleCovariantPiola, basix.MapType.doubleContravariantPiola):
        # reference values are tdim x tdim matrices (row-major): K^T V K  resp.  J V J^T / detJ^2
        t = cell.tdim
        V = ref.reshape(ndofs, t, t)
        if mt == basix.MapType.doubleCovariantPiola:
            vals = np.einsum("ai,dab,bj->dij", K, V, K)
        else:
            vals = np.einsum("ia,dab,jb->dij", J, V, J) / (detJ * detJ)
        vals = vals.reshape(ndofs, -1)
        if nder >= 1:
            dV = dref.reshape(ndofs, t, t, cell.tdim)
            if mt == basix.MapType.doubleCovariantPiola:
                d1 = np.einsum("ai,dabc,bj,cl->dijl", K, dV, K, K)
            else:
                d1 = np.einsum("ia,dabc,jb,cl->dijl", J, dV, J, K) / (detJ * detJ)
            d1 = d1.reshape(ndofs, -1, cell.gdim)
        else:
            d1 = None
        return vals, d1, None
    raise Unsupported(f"map type {mt}")


def tabulate_physical(el, cell, X, nder):
    """flattened physical value components: vals[dof, ncomp], d1[dof, ncomp, gdim], d2 or None,
    components in the element's (physical) value shape, row-major."""
    cls = type(el).__name__
    if cls == "_BasixElement":
        return _leaf_tab(el, cell, X, nder)
    if nder >= 3:
        raise Unsupported("third derivatives of composite elements")
    if cls == "_BlockedElement":
        sv, s1, s2 = tabulate_physical(el._sub_element, cell, X, nder)
        if sv.shape[1] != 1:
            raise Unsupported("blocked non-scalar sub-element")
        bs = el.block_size
        n = sv.shape[0]
        if getattr(el, "_has_symmetry", False):
            # symmetric rank-2 tensor: one block component per unordered index pair, numbered along the rows of the
            # lower triangle ((0,0) (1,0) (1,1) (2,0) ...); the physical value has both (i,j) and (j,i) equal to it
            r = int(el._block_shape[0])
            if bs != r * (r + 1) // 2 or tuple(el._block_shape) != (r, r):
                raise Unsupported("symmetric element of unexpected shape")
            pairs = [(i, j) for i in range(r) for j in range(i + 1)]
            vals = np.zeros((n * bs, r * r))
            d1 = np.zeros((n * bs, r * r, cell.gdim)) if s1 is not None else None
            d2 = np.zeros((n * bs, r * r, cell.gdim, cell.gdim)) if s2 is not None else None
            for k in range(n):
                for c, (i, j) in enumerate(pairs):
                    for flat in {i * r + j, j * r + i}:
                        vals[bs * k + c, flat] = sv[k, 0]
                        if d1 is not None:
                            d1[bs * k + c, flat] = s1[k, 0]
                        if d2 is not None:
                            d2[bs * k + c, flat] = s2[k, 0]
            return vals, d1, d2
        vals = np.zeros((n * bs, bs))
        d1 = np.zeros((n * bs, bs, cell.gdim)) if s1 is not None else None
        d2 = np.zeros((n * bs, bs, cell.gdim, cell.gdim)) if s2 is not None else None
        for i in range(n):
            for c in range(bs):
                vals[bs * i + c, c] = sv[i, 0]
                if d1 is not None:
                    d1[bs * i + c, c] = s1[i, 0]
                if d2 is not None:
                    d2[bs * i + c, c] = s2[i, 0]
        return vals, d1, d2
    if cls == "_MixedElement":
        parts = [tabulate_physical(e, cell, X, nder) for e in el.sub_elements]
        nd = sum(p[0].shape[0] for p in parts)
        nc = sum(p[0].shape[1] for p in parts)
        vals = np.zeros((nd, nc))
        d1 = np.zeros((nd, nc, cell.gdim)) if all(p[1] is not None for p in parts) else None
        d2 = np.zeros((nd, nc, cell.gdim, cell.gdim)) if all(p[2] is not None for p in parts) else None
        do = co = 0
        for v, g, h in parts:
            a, b = v.shape
            vals[do:do + a, co:co + b] = v
            if d1 is not None:
                d1[do:do + a, co:co + b] = g
            if d2 is not None:
                d2[do:do + a, co:co + b] = h
            do += a
            co += b
        return vals, d1, d2
    if cls == "_RealElement":
        # one global constant per value component
        n = int(np.prod(el.reference_value_shape, dtype=int)) if el.reference_value_shape else 1
        return np.eye(n), np.zeros((n, n, cell.gdim)), np.zeros((n, n, cell.gdim, cell.gdim))
    if cls == "_QuadratureElement":
        # defined at its own points only: dof i is the value at point i
        pts = np.asarray(el._points)
        d = np.linalg.norm(pts - np.asarray(X, dtype=float).reshape(1, -1), axis=1)
        i = int(np.argmin(d))
        if d[i] > 1e-12:
            raise OracleMismatch(f"quadrature element evaluated at {np.asarray(X).tolist()}, which is not one of its points")
        vals = np.zeros((pts.shape[0], 1))
        vals[i, 0] = 1.0
        return vals, None, None
    raise Unsupported(f"element class {cls}")




class Field:
    """callable usable as a UFL evaluation mapping value: f(x) / f(x, derivatives)."""

    def __init__(self, shape, val, d1, d2):
        self.shape, self.val, self.d1, self.d2 = tuple(shape), val, d1, d2

    def __call__(self, x, derivatives=()):
        if len(derivatives) == 0:
            a = self.val
        elif len(derivatives) == 1:
            if self.d1 is None:
                raise Unsupported("derivative not tabulated")
            a = self.d1[..., derivatives[0]]
        elif len(derivatives) in (2, 3):
            if self.d2 is None:
                raise NeedSecond()
            ext = self.d1 is not None and np.ndim(self.d2) == np.ndim(self.d1) + 2
            if len(derivatives) == 2:
                a = self.d2[..., derivatives[0], derivatives[1], 0] if ext else self.d2[..., derivatives[0], derivatives[1]]
            elif ext:
                a = self.d2[..., derivatives[0], derivatives[1], 1 + derivatives[2]]
            else:
                raise NeedSecond()
        else:
            raise Unsupported("derivatives of order four")
        a = np.asarray(a)
        return a.reshape(self.shape) if self.shape else a.reshape(-1)[0]


class NeedSecond(Exception):
    pass


# ---------------------------------------------------------------------------------------------
# side-aware rewriting of restricted terminals

def split_sides(expr):
    """replace every terminal under a restriction by a per-side placeholder Constant-like symbol.
    Returns (new_expr, placeholders: {placeholder: (terminal, side)})."""
    memo = {}
    ph = {}
    back = {}

    def placeholder(t, side):
        key = (t, side)
        if key not in back:
            if isinstance(t, (ufl.Coefficient, ufl.Argument)):
                p = ufl.Coefficient(t.ufl_function_space())
            else:
                dom = ufl.domain.extract_unique_domain(t)
                p = ufl.Constant(dom, shape=t.ufl_shape)
            back[key] = p
            ph[p] = (t, side)
        return back[key]

    def rw(e, side):
        k = (e, side)
        if k in memo:
            return memo[k]
        if isinstance(e, ufl.classes.Restricted):
            r = rw(e.ufl_operands[0], e.side())
        elif e._ufl_is_terminal_:
            if side is not None and isinstance(e, (ufl.Coefficient, ufl.Argument, ufl.classes.GeometricQuantity)) \
                    and not isinstance(e, ufl.classes.SpatialCoordinate):
                r = placeholder(e, side)
            else:
                r = e
        else:
            ops = [rw(o, side) for o in e.ufl_operands]
            r = e._ufl_expr_reconstruct_(*ops) if any(a is not b for a, b in zip(ops, e.ufl_operands)) else e
        memo[k] = r
        return r
    return rw(expr, None), ph


# ---------------------------------------------------------------------------------------------
# the reference tensor of one kernel

def sub_ids(integral):
    sid = integral.subdomain_id()
    return sid if isinstance(sid, tuple) else (sid,)


_min_fd_cache = {}


def group_integrals(form, group_index, itype, subdomain_id, complex_mode=False):
    """the integrals UFL puts into integral-data group `group_index` of `form`, processed as little as UFL
    allows (derivatives expanded, algebra lowered, restrictions propagated; no pull-backs, no scaling, no
    geometry lowering).  The kernels FFCx generates are one per such group: with overlapping tuple ids and
    different metadata a subdomain id is served by several groups."""
    from ufl.algorithms.compute_form_data import compute_form_data
    key = (id(form), complex_mode)
    if key not in _min_fd_cache:
        # FFCx/DOLFINx convention: integrals over the whole mesh are NOT added to the integrals of a subdomain id (the
        # assembler runs the 'otherwise' kernel everywhere and the id kernels on their subdomains)
        _min_fd_cache[key] = (form, compute_form_data(form, do_append_everywhere_integrals=False, complex_mode=complex_mode))
    fd = _min_fd_cache[key][1]
    if group_index >= len(fd.integral_data):
        return None
    g = fd.integral_data[group_index]
    if g.integral_type != itype or tuple(g.subdomain_id) != tuple(subdomain_id):
        return None
    return list(g.integrals)


def integrals_for(form, itype, sid):
    """original integrals that a kernel listed under (itype, sid) must add up."""
    out = []
    for itg in form.integrals():
        if itg.integral_type() != itype:
            continue
        ids = [(-1 if s in ("everywhere", "otherwise") else int(s)) for s in sub_ids(itg)]
        if sid in ids:
            out.append(itg)
    return out


def rule_for(integral, cellname, itype, facet=None, polyset=None):
    md = integral.metadata() or {}
    if polyset is None:
        # macro (piecewise polynomial) argument spaces are integrated with a composite rule on their sub-cells
        polyset = basix.PolysetType.standard
        for a in ufl.algorithms.extract_arguments(integral.integrand()):
            pt = getattr(a.ufl_function_space().ufl_element(), "polyset_type", basix.PolysetType.standard)
            polyset = basix.polyset_superset(getattr(basix.CellType, cellname), polyset, pt)
    scheme = md.get("quadrature_rule", md.get("quadrature_scheme", "default"))
    # a quadrature element is defined at its own points only: they are the rule
    qes = [e for e in ufl.algorithms.extract_elements(integral) if type(e).__name__ == "_QuadratureElement"]
    if qes:
        if itype != "cell" or any(not np.array_equal(np.asarray(e._points), np.asarray(qes[0]._points)) for e in qes):
            raise Unsupported("quadrature elements off cells / with different points")
        return np.asarray(qes[0]._points, dtype=float), np.asarray(qes[0]._weights, dtype=float)
    if scheme == "custom":
        return np.asarray(md["quadrature_points"], dtype=float), np.asarray(md["quadrature_weights"], dtype=float)
    if "quadrature_degree" not in md:
        raise Unsupported("integral without explicit quadrature degree (the oracle does not estimate degrees)")
    deg = int(md["quadrature_degree"])
    if itype == "cell":
        ct = getattr(basix.CellType, cellname)
    elif itype in ("exterior_facet", "interior_facet"):
        ct = facet_type(cellname, facet)
    elif itype == "vertex":
        return np.zeros((1, 0)), np.ones(1)
    else:
        raise Unsupported(itype)
    if ct == basix.CellType.point:
        return np.zeros((1, 0)), np.ones(1)
    if scheme == "vertex":
        g = np.asarray(basix.geometry(ct))
        return g, np.full(g.shape[0], basix.cell.volume(ct) / g.shape[0])
    return basix.make_quadrature(ct, deg, rule=basix.quadrature.string_to_type(scheme), polyset_type=polyset)


def geometric_values(cellobj, X, facet, itype):
    """values of the geometric terminals the oracle supports, for one cell at one point."""
    x, J, K, detJ, scale = cellobj.at(X)
    vals = {"x": x, "J": J, "K": K, "detJ": detJ}
    cn = cellobj.cellname
    if facet is not None and itype != "vertex":
        nref = reference_normal(cn, facet)
        n = K.T @ nref
        vals["n"] = n / np.linalg.norm(n)
    vals["refcellvolume"] = basix.cell.volume(getattr(basix.CellType, cn))
    if facet is not None and itype != "vertex" and cellobj.tdim > 1:
        o_, ax_ = facet_embedding(cn, facet)
        vals["CFJ"] = ax_
        vals["FJ"] = J @ ax_
        vals["detFJ"] = math.sqrt(abs(np.linalg.det(vals["FJ"].T @ vals["FJ"])))
        vals["reffacetvolume"] = basix.cell.volume(facet_type(cn, facet))
        vals["nref"] = reference_normal(cn, facet)
    if cellobj.gdim == cellobj.tdim + 1:
        # manifold: unit normal of the cell (orientation of UFL: cross product of the tangents / rotated tangent)
        if cellobj.tdim == 2:
            nn_ = np.cross(J[:, 0], J[:, 1])
        else:
            nn_ = np.array([-J[1, 0], J[0, 0]])
        vals["cellnormal"] = nn_ / np.linalg.norm(nn_)
    # quantities defined through the vertices (any cell, any geometry degree)
    ct0 = getattr(basix.CellType, cn)
    topo = basix.topology(ct0)
    VV = cellobj.coords[: len(topo[0])]
    vals["celldiameter"] = max(np.linalg.norm(VV[i] - VV[j]) for i in range(len(VV)) for j in range(i + 1, len(VV)))
    elens = [np.linalg.norm(VV[e[0]] - VV[e[1]]) for e in topo[1]]
    vals["mincelledge"], vals["maxcelledge"] = min(elens), max(elens)
    if facet is not None and itype != "vertex" and cellobj.tdim == 3:
        fv = topo[2][facet]
        fel = [np.linalg.norm(VV[e[0]] - VV[e[1]]) for e in topo[1] if e[0] in fv and e[1] in fv]
        vals["minfacetedge"], vals["maxfacetedge"] = min(fel), max(fel)
    if cellobj.affine:
        ct = getattr(basix.CellType, cn)
        vals["cellvolume"] = abs(detJ) * basix.cell.volume(ct)
        if cn in ("triangle", "tetrahedron", "interval"):
            V = cellobj.coords[: cellobj.tdim + 1]
            if cn == "triangle":
                a, b, c = (np.linalg.norm(V[i] - V[j]) for i, j in ((1, 2), (0, 2), (0, 1)))
                vals["circumradius"] = a * b * c / (4.0 * vals["cellvolume"])
            elif cn == "interval":
                vals["circumradius"] = np.linalg.norm(V[1] - V[0]) / 2.0
            elif cn == "tetrahedron":
                e = [np.linalg.norm(V[i] - V[j]) for i, j in ((0, 1), (0, 2), (0, 3), (2, 3), (1, 3), (1, 2))]
                la, lb, lc = e[0] * e[3], e[1] * e[4], e[2] * e[5]
                s = (la + lb + lc) / 2
                vals["circumradius"] = math.sqrt(s * (s - la) * (s - lb) * (s - lc)) / (6.0 * vals["cellvolume"])
        if facet is not None and itype != "vertex" and cellobj.tdim > 1:
            o, ax = facet_embedding(cn, facet)
            FJ = J @ ax
            ft = facet_type(cn, facet)
            vals["facetarea"] = math.sqrt(abs(np.linalg.det(FJ.T @ FJ))) * basix.cell.volume(ft)
    return vals


def facet_scale(cellobj, X, facet):
    if cellobj.tdim == 1:
        return 1.0
    x, J, K, detJ, scale = cellobj.at(X)
    o, ax = facet_embedding(cellobj.cellname, facet)
    FJ = J @ ax
    return math.sqrt(abs(np.linalg.det(FJ.T @ FJ)))


def reference_tensor(form, itype, sid, cells, wvals, cvals, entity, scalar=float, forced_points=None, diagonal=False,
                     match_physical=False, integrals=None):
    """cells: [Cell] (two for interior facets); wvals: {coefficient: [dofs per side]};
    cvals: {constant: ndarray}; entity: local entity index per side.  Returns A as nested
    numpy array of shape (dims of arguments, doubled for interior facets)."""
    form = expand_derivatives(form)
    args = sorted(form.arguments(), key=lambda a: a.number())
    nside = 2 if itype == "interior_facet" else 1
    dims = [int(a.ufl_function_space().ufl_element().dim) for a in args]
    A = np.zeros([d * nside for d in dims], dtype=complex if scalar is complex else float)
    cn = cells[0].cellname
    for itg in (integrals if integrals is not None else integrals_for(form, itype, sid)):
        expr = apply_algebra_lowering(itg.integrand())
        expr, ph = split_sides(expr)
        facet0 = entity[0] if itype != "cell" else None
        if forced_points is not None:
            pts, wts = forced_points
        else:
            pts, wts = rule_for(itg, cn, itype, facet0)
        for q in range(len(wts)):
            # reference points per side
            Xs = []
            for s in range(nside):
                if itype == "cell":
                    Xs.append(pts[q])
                elif itype == "vertex":
                    Xs.append(np.asarray(basix.geometry(getattr(basix.CellType, cn)))[entity[s]])
                else:
                    o, ax = facet_embedding(cn, entity[s])
                    Xs.append(o + ax @ pts[q])
            if match_physical and nside == 2 and itype == "interior_facet":
                # the '-' cell may be numbered differently: its reference point is the pre-image of the
                # physical point seen from '+' (affine '-' geometry: X = K (x - x(0)))
                x_phys = cells[0].at(Xs[0])[0]
                x0, _, K1, _, _ = cells[1].at(np.zeros(cells[1].tdim))
                Xs[1] = K1 @ (x_phys - x0)
            if itype == "cell":
                scale = cells[0].at(Xs[0])[4]
            elif itype == "vertex":
                scale = 1.0
            else:
                scale = facet_scale(cells[0], Xs[0], entity[0])
            geo = [geometric_values(cells[s], Xs[s], entity[s] if itype != "cell" else None, itype) for s in range(nside)]
            A += wts[q] * scale * _point_tensor(expr, ph, args, dims, nside, cells, Xs, geo, wvals, cvals, itype)
    if diagonal and len(dims) == 2:
        return np.diagonal(A).copy()
    return A


def _point_tensor(expr, ph, args, dims, nside, cells, Xs, geo, wvals, cvals, itype):
    for nder in (1, 2, 3):
        try:
            return _point_tensor_n(expr, ph, args, dims, nside, cells, Xs, geo, wvals, cvals, itype, nder)
        except NeedSecond:
            continue
    raise Unsupported("derivative order")


def _geo_value(t, g):
    if isinstance(t, ufl.classes.FacetNormal):
        return g["n"]
    if isinstance(t, ufl.classes.SpatialCoordinate):
        return g["x"]
    if isinstance(t, ufl.classes.CellVolume):
        if "cellvolume" not in g:
            raise Unsupported("CellVolume on non-affine cell")
        return g["cellvolume"]
    if isinstance(t, ufl.classes.Circumradius):
        if "circumradius" not in g:
            raise Unsupported("Circumradius")
        return g["circumradius"]
    if isinstance(t, ufl.classes.FacetArea):
        if "facetarea" not in g:
            raise Unsupported("FacetArea")
        return g["facetarea"]
    for cls, key in (("CellDiameter", "celldiameter"), ("MinCellEdgeLength", "mincelledge"), ("MaxCellEdgeLength", "maxcelledge"),
                     ("MinFacetEdgeLength", "minfacetedge"), ("MaxFacetEdgeLength", "maxfacetedge")):
        if isinstance(t, getattr(ufl.classes, cls)):
            if key not in g:
                raise Unsupported(cls)
            return g[key]
    simple = {"JacobianInverse": "K", "ReferenceCellVolume": "refcellvolume", "ReferenceFacetVolume": "reffacetvolume",
              "FacetJacobian": "FJ", "FacetJacobianDeterminant": "detFJ", "CellFacetJacobian": "CFJ", "ReferenceNormal": "nref",
              "CellNormal": "cellnormal"}
    for cls, key in simple.items():
        if isinstance(t, getattr(ufl.classes, cls)):
            if key not in g:
                raise Unsupported(cls)
            return g[key]
    if isinstance(t, ufl.classes.Jacobian):
        return g["J"]
    if isinstance(t, ufl.classes.JacobianDeterminant):
        return g["detJ"]
    raise Unsupported(f"geometric quantity {type(t).__name__}")


def _point_tensor_n(expr, ph, args, dims, nside, cells, Xs, geo, wvals, cvals, itype, nder):
    mapping = {}
    tabs = {}

    def tab(el, s):
        k = (el, s)
        if k not in tabs:
            tabs[k] = tabulate_physical(el, cells[s], Xs[s], nder)
        return tabs[k]
    # unrestricted terminals (side 0 data) and per-side placeholders
    terminals = set()
    for t in ufl.algorithms.analysis.extract_type(expr, ufl.classes.Terminal):
        terminals.add(t)
    arg_slots = {}   # mapping key -> (argument, side)
    for t in terminals:
        orig, side = ph.get(t, (t, None))
        s = {"+": 0, "-": 1, None: 0}[side]
        if isinstance(orig, ufl.Argument):
            arg_slots[t] = (orig, s)
        elif isinstance(orig, ufl.Coefficient):
            el = orig.ufl_element()
            v, d1, d2 = tab(el, s)
            w = np.asarray(wvals[orig][s])
            shape = orig.ufl_shape
            mapping[t] = Field(shape, _combine(w, v, shape),
                               _combine(w, d1, shape) if d1 is not None else None,
                               _combine(w, d2, shape) if d2 is not None else None)
        elif isinstance(orig, ufl.Constant) and orig in cvals:
            mapping[t] = np.asarray(cvals[orig]).reshape(orig.ufl_shape) if orig.ufl_shape else np.asarray(cvals[orig]).reshape(-1)[0]
        elif isinstance(orig, ufl.classes.GeometricQuantity):
            if isinstance(orig, ufl.classes.SpatialCoordinate):
                continue       # UFL evaluates x from the coordinate passed in
            val = _geo_value(orig, geo[s])
            mapping[t] = val
        elif isinstance(orig, ufl.Constant):
            raise Unsupported("constant without value")
    x0 = tuple(geo[0]["x"])
    out = np.zeros([d * nside for d in dims], dtype=complex)
    # all combinations of (side, dof) per argument
    ranges = [[(s, i) for s in range(nside) for i in range(d)] for d in dims]
    argnums = [a.number() for a in args]
    for combo in itertools.product(*ranges):
        m = dict(mapping)
        for t, (orig, s) in arg_slots.items():
            k = argnums.index(orig.number())
            cs, ci = combo[k]
            el = orig.ufl_element()
            shape = orig.ufl_shape
            if cs != s:
                v, d1, d2 = tab(el, s)
                z = np.zeros_like(v[0])
                m[t] = Field(shape, _one(z, shape), _one(np.zeros_like(d1[0]), shape) if d1 is not None else None,
                             _one(np.zeros_like(d2[0]), shape) if d2 is not None else None)
            else:
                v, d1, d2 = tab(el, s)
                m[t] = Field(shape, _one(v[ci], shape), _one(d1[ci], shape) if d1 is not None else None,
                             _one(d2[ci], shape) if d2 is not None else None)
        val = expr(x0, m)
        idx = tuple(cs * dims[k] + ci for k, (cs, ci) in enumerate(combo))
        out[idx] = val
    return out if np.iscomplexobj(out) and np.abs(out.imag).max(initial=0) > 0 else out.real


def _combine(w, v, shape):
    """sum_i w_i * v[i, ...] kept in the flattened-component layout expected by Field."""
    return np.tensordot(w, v, axes=(0, 0))


def _one(v, shape):
    return v


def reference_expression(expr, points, cell, wvals, cvals, entity=None):
    """A[point][component][argument dof] for a UFL expression evaluated at reference points
    (points of the cell, or of the reference facet `entity` of the cell)."""
    expr = apply_algebra_lowering(expand_derivatives(expr))
    expr, ph = split_sides(expr)
    args = sorted(ufl.algorithms.extract_arguments(expr), key=lambda a: a.number())
    if len(args) > 1:
        raise Unsupported("expression with more than one argument")
    dims = [int(a.ufl_function_space().ufl_element().dim) for a in args]
    shape = expr.ufl_shape
    comps = list(itertools.product(*[range(n) for n in shape])) if shape else [()]
    points = np.asarray(points, dtype=float)
    out = np.zeros((points.shape[0], len(comps), dims[0] if dims else 1))
    for p in range(points.shape[0]):
        if entity is None:
            X = points[p]
        else:
            o, ax = facet_embedding(cell.cellname, entity)
            X = o + ax @ points[p]
        geo = [geometric_values(cell, X, entity, "exterior_facet" if entity is not None else "cell")]
        for ci, comp in enumerate(comps):
            for nder in (1, 2, 3):
                try:
                    vals = _expr_point(expr, ph, args, dims, cell, X, geo, wvals, cvals, comp, nder)
                    break
                except NeedSecond:
                    continue
            out[p, ci, :] = vals
    return out


def _expr_point(expr, ph, args, dims, cell, X, geo, wvals, cvals, comp, nder):
    mapping = {}
    tabs = {}

    def tab(el):
        if el not in tabs:
            tabs[el] = tabulate_physical(el, cell, X, nder)
        return tabs[el]
    arg_slots = []
    for t in ufl.algorithms.analysis.extract_type(expr, ufl.classes.Terminal):
        orig, side = ph.get(t, (t, None))
        if isinstance(orig, ufl.Argument):
            arg_slots.append((t, orig))
        elif isinstance(orig, ufl.Coefficient):
            v, d1, d2 = tab(orig.ufl_element())
            w = np.asarray(wvals[orig][0])
            mapping[t] = Field(orig.ufl_shape, _combine(w, v, None), _combine(w, d1, None) if d1 is not None else None,
                               _combine(w, d2, None) if d2 is not None else None)
        elif isinstance(orig, ufl.Constant):
            mapping[t] = np.asarray(cvals[orig]).reshape(orig.ufl_shape) if orig.ufl_shape else np.asarray(cvals[orig]).reshape(-1)[0]
        elif isinstance(orig, ufl.classes.GeometricQuantity) and not isinstance(orig, ufl.classes.SpatialCoordinate):
            mapping[t] = _geo_value(orig, geo[0])
    x0 = tuple(geo[0]["x"])
    if not args:
        return [expr(x0, mapping, comp)]
    res = []
    for i in range(dims[0]):
        m = dict(mapping)
        for t, orig in arg_slots:
            v, d1, d2 = tab(orig.ufl_element())
            m[t] = Field(orig.ufl_shape, v[i], d1[i] if d1 is not None else None, d2[i] if d2 is not None else None)
        res.append(expr(x0, m, comp))
    return res


# UFL's point evaluation of ln() uses math.log only (a complex argument is silently cast to
# real); the oracle evaluates it with cmath when the argument is complex.
def _ln_evaluate(self, x, mapping, component, index_values):
    import cmath
    a = self.ufl_operands[0].evaluate(x, mapping, component, index_values)
    if isinstance(a, (complex, np.complexfloating)) and complex(a).imag != 0.0:
        return cmath.log(complex(a))
    return math.log(complex(a).real if isinstance(a, (complex, np.complexfloating)) else a)


ufl.mathfunctions.Ln.evaluate = _ln_evaluate


# scipy is not installed: Bessel functions of integer order from their integral representations
# (periodic trapezoid rule, exponentially convergent), independent of libm's jn/yn.
def _bessel_evaluate(self, x, mapping, component, index_values):
    a = self.ufl_operands[1].evaluate(x, mapping, component, index_values)
    if isinstance(a, (complex, np.complexfloating)):
        if complex(a).imag != 0.0:
            raise ValueError("oracle: Bessel function of a complex argument")
        a = complex(a).real
    nu = float(self.ufl_operands[0])
    if nu != int(nu):
        raise ValueError("oracle: Bessel function of non-integer order")
    n = int(nu)
    kind = self._name[-1]
    N = 4096
    t = (np.arange(N) + 0.5) * (math.pi / N)
    if kind == "j":
        return float(np.sum(np.cos(n * t - a * np.sin(t))) / N)
    if kind == "i":
        return float(np.sum(np.exp(a * np.cos(t)) * np.cos(n * t)) / N)
    if kind == "y":
        # Y_n(a) = 1/pi int_0^pi sin(a sin t - n t) dt - 1/pi int_0^oo (e^{n s} + (-1)^n e^{-n s}) e^{-a sinh s} ds,  a > 0
        if a <= 0.0:
            raise ValueError("oracle: Bessel function of the second kind at a non-positive argument")
        gx, gw = np.polynomial.legendre.leggauss(64)

        def panels(f, lo, hi, m):
            tot = 0.0
            for k in range(m):
                u, w = lo + (hi - lo) * k / m, (hi - lo) / m
                tot += float(np.sum(gw * f(u + (gx + 1.0) * w / 2.0)) * w / 2.0)
            return tot
        first = panels(lambda th: np.sin(a * np.sin(th) - n * th), 0.0, math.pi, 8)
        T = math.asinh((60.0 + 2.0 * n * 8.0) / a) + 1.0
        second = panels(lambda u: (np.exp(n * u) + (-1) ** n * np.exp(-n * u)) * np.exp(-a * np.sinh(u)), 0.0, T, 24)
        return (first - second) / math.pi
    raise ValueError("oracle: modified Bessel function of the second kind not supported")


ufl.mathfunctions.BesselFunction.evaluate = _bessel_evaluate
