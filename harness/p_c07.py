"""C07 — kernels accumulate into A and are pure functions of their inputs."""
import astprops


def run(v, tier, seed, g):
    return astprops.run_ast_property(
        v, tier, seed, g, "accum", "C07", astprops.search_accum_counterexample,
        "kernel result depends on the previous contents of A or overwrites A",
        extra_assumptions=["threads: the model has no scheduler; reentrancy follows from 'no state but arguments and block locals' under C semantics (static only on const tables: checked on the formatter source)",
                           "exact arithmetic for the law A0 (+) T; IEEE rounding of the running sums depends on A0"])


def replay(v, payload):
    res, recs = __import__("astcheck").run([{"id": payload["case"], "code": payload["code"]}], "C07r")
    bad = [r for r in recs if not (r["bits"] and r["bits"][2])]
    for r in bad:
        print("still failing:", r["name"], r["bits"])
    return 1 if bad else 0
