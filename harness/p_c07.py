"""C07 — kernels accumulate into A and are pure functions of their inputs."""
import astprops


def static_scan(v, tier, seed):
    """C text: no object with static storage duration may be writable (reentrancy / no state
    surviving a call).  Read off the compiled text with pycparser, every kernel of the corpus."""
    import common
    import corpus
    import cparse
    cases = list(corpus.PINNED) + corpus.random_cases(seed, 10 if tier == "quick" else 150)
    n = 0
    for r in common.run_cases(cases, want_text=True):
        if r["status"] != "ok":
            continue
        for kd in r["kernels"]:
            try:
                bad = cparse.mutable_statics(r["source"], kd["name"])
            except Exception as e:  # noqa: BLE001
                v.oblige(False)
                v.violation(f"static-scan:{r['id']}", f"cannot read kernel text: {e}", {"case": r["id"], "code": r["code"]}, no_input=True)
                continue
            n += 1
            v.oblige(not bad)
            if bad:
                v.violation(f"mutable-static:{r['id']}", f"kernel {kd['name']} declares writable static storage {bad[:4]}: calls are not independent / not reentrant",
                            {"case": r["id"], "code": r["code"], "kernel": kd["name"], "names": bad})
    v.notes["kernels_scanned_for_mutable_statics"] = n


def run(v, tier, seed, g):
    static_scan(v, tier, seed)
    return astprops.run_ast_property(
        v, tier, seed, g, "accum", "C07", astprops.search_accum_counterexample,
        "kernel result depends on the previous contents of A or overwrites A",
        extra_assumptions=["threads: the model has no scheduler; reentrancy follows from 'no state but arguments and block locals' under C semantics (static only on const tables: checked on the formatter source)",
                           "exact arithmetic for the law A0 (+) T; IEEE rounding of the running sums depends on A0"])


def replay(v, payload):
    res, recs = __import__("astcheck").run([{"id": payload["case"], "code": payload["code"]}], "C07r")
    bad = [r for r in recs if not (r["bits"] and r["bits"][2])]
    for r in bad:
        print("still failing:", r["name"], r["bits"])
    return 1 if bad else 0
