"""C18 — the numba backend computes the same tensors as the C backend."""
import common
import corpus

_c = corpus._c
EXTRA = [
    _c("c18_logic_not_and_or", '''
m=mesh("triangle"); V=space(m,"P",1); v=TestFunction(V); f=Coefficient(V); g=Coefficient(V)
objs=[conditional(Not(gt(f,g)),f,g)*v*dx + conditional(And(gt(f,0.0),Or(lt(g,0.25),ge(f,g))),f*g,1.0)*v*dx + conditional(Not(And(lt(f,g),ne(f,0.5))),2.0,g)*v*dx]'''),
    _c("c18_min_max_abs_sign_power", '''
m=mesh("triangle"); V=space(m,"P",1); v=TestFunction(V); f=Coefficient(V); g=Coefficient(V)
objs=[(max_value(f,g)+min_value(f,0.25)+abs(f-g)+sign(g)+(f*f+1.0)**1.5+f**3)*v*dx]'''),
    _c("c18_math_functions", '''
m=mesh("triangle"); V=space(m,"P",1); v=TestFunction(V); f=Coefficient(V); g=Coefficient(V)
objs=[(exp(f)+ln(f*f+1.0)+sin(f)+cos(g)+tan(0.5*f)+sinh(f)+cosh(g)+tanh(f)+ufl.acos(0.5*tanh(f))+ufl.asin(0.5*tanh(g))+atan(f)+atan2(f,g*g+1.0)+erf(f)+sqrt(f*f+2.0))*v*dx]'''),
    _c("c18_bessel", '''
m=mesh("triangle"); V=space(m,"P",1); v=TestFunction(V); f=Coefficient(V)
objs=[(bessel_J(1,f)+bessel_Y(0,f*f+1.0))*v*dx]'''),
    _c("c18_interior_facet_coefficients", '''
m=mesh("triangle"); V=space(m,"DP",1); u,v=TrialFunction(V),TestFunction(V); f=Coefficient(V); k=Constant(m); n=FacetNormal(m)
objs=[k*avg(f)*jump(u)*jump(v)*dS + f('-')*inner(jump(grad(u)),n('+'))*avg(v)*dS]'''),
    _c("c18_interior_facet_interval_and_tet", '''
m=mesh("interval"); V=space(m,"DP",2); v=TestFunction(V); f=Coefficient(V)
m3=mesh("tetrahedron"); V3=space(m3,"DP",1); v3=TestFunction(V3); f3=Coefficient(V3)
objs=[f('-')*v('+')*dS + f('+')*v('-')*dS, f3('-')*v3('+')*dS]'''),
    _c("c18_facet_permutations", '''
m=mesh("tetrahedron"); V=space(m,"DP",2); u,v=TrialFunction(V),TestFunction(V)
objs=[jump(u)*jump(v)*dS]'''),
    _c("c18_vertex_and_exterior_prism", '''
m=mesh("prism"); V=space(m,"P",1); v=TestFunction(V); f=Coefficient(V)
objs=[f*v*ds + f*v*dP]'''),
    _c("c18_mixed_constants_tensor", '''
m=mesh("triangle"); P2=el("P","triangle",2,shape=(2,)); P1=el("P","triangle",1)
W=FunctionSpace(m,basix.ufl.mixed_element([P2,P1])); (u,p)=TrialFunctions(W); (v,q)=TestFunctions(W); K=Constant(m,shape=(2,2)); w=Coefficient(W)
objs=[inner(K*grad(u),grad(v))*dx - p*div(v)*dx + inner(dot(split(w)[0],nabla_grad(u)),v)*dx + split(w)[1]*p*q*dx]'''),
    _c("c18_complex_conj", '''
m=mesh("triangle"); V=space(m,"P",1); u,v=TrialFunction(V),TestFunction(V); f=Coefficient(V)
objs=[(2.0+1j)*f*inner(u,v)*dx + inner(grad(u),grad(v))/(2j)*dx + abs(f)*real(f)*imag(f)*conj(f)*inner(u,v)*dx]
options={"scalar_type":"complex128"}'''),
    _c("c18_complex64_sqrt", '''
m=mesh("triangle"); V=space(m,"P",1); v=TestFunction(V); f=Coefficient(V)
objs=[inner(sqrt(f)+exp(f)+f**2, v)*dx]
options={"scalar_type":"complex64"}'''),
    _c("c18_expression_conditional_mathfun", '''
m=mesh("triangle"); V=space(m,"P",2); f=Coefficient(V); g=Coefficient(V); u=TrialFunction(V)
objs=[(conditional(Not(gt(f,g)),sqrt(f*f+1.0),max_value(f,g))*grad(g), np.array([[0.25,0.25],[0.5,0.125]])), (u.dx(0)*f, np.array([[0.125,0.5]]))]'''),
    _c("c18_two_rules_diagonal", '''
m=mesh("triangle"); V=space(m,"P",2); u,v=TrialFunction(V),TestFunction(V); f=Coefficient(V)
objs=[f*u*v*dx(degree=1) + f*f*inner(grad(u),grad(v))*dx(degree=4)]
options={"part":"diagonal"}'''),
    _c("c18_sum_factorization", '''
m=tpmesh("quadrilateral"); V=FunctionSpace(m,tp("quadrilateral",2)); u,v=TrialFunction(V),TestFunction(V); f=Coefficient(V)
objs=[f*inner(grad(u),grad(v))*dx]
options={"sum_factorization":True}'''),
    # integer-valued tables (facet -> edge -> vertices) and every other reference-geometry table
    _c("c18_integer_geometry_tables", '''
m=mesh("tetrahedron"); V=space(m,"P",1); v=TestFunction(V); f=Coefficient(V)
mh=mesh("hexahedron"); Vh=space(mh,"Q",1); vh=TestFunction(Vh)
objs=[MinFacetEdgeLength(m)*f*v*ds + MaxFacetEdgeLength(m)*v*ds + MinCellEdgeLength(m)*v*dx + MaxCellEdgeLength(m)*f*v*dx + Circumradius(m)*v*ds,
      MinFacetEdgeLength(mh)*vh*ds + MaxCellEdgeLength(mh)*vh*dx + MaxFacetEdgeLength(mh)('+')*avg(vh)*dS]'''),
    _c("c18_expression_descriptor_shapes", '''
m=mesh("triangle"); V=space(m,"P",2,shape=(2,)); f=Coefficient(V); u=TrialFunction(V); k=Constant(m,shape=(2,2))
objs=[(f, np.array([[0.25,0.25]])), (grad(f)*k, np.array([[0.25,0.25],[0.5,0.125]])), (outer(u,f), np.array([[0.125,0.5]])), (div(f), np.array([[0.5,0.25]]))]'''),
    # tables with the same name and shape but different values in one module (element variants)
    _c("c18_same_table_names_different_values", '''
m=mesh("triangle")
V1=FunctionSpace(m,el("P","triangle",3,lagrange_variant=basix.LagrangeVariant.equispaced)); u1,v1=TrialFunction(V1),TestFunction(V1); f1=Coefficient(V1)
V2=FunctionSpace(m,el("P","triangle",3,lagrange_variant=basix.LagrangeVariant.gll_warped)); u2,v2=TrialFunction(V2),TestFunction(V2); f2=Coefficient(V2)
objs=[u1*v1*dx(degree=6), u2*v2*dx(degree=6), f1*v1*dx(degree=6) + f1*v1*ds(degree=6), f2*v2*dx(degree=6) + f2*v2*ds(degree=6)]'''),
    _c("c18_negative_literals", '''
m=mesh("triangle"); V=space(m,"P",1); v=TestFunction(V); f=Coefficient(V)
objs=[(-2.0*f - (-3.5) + f*(-1.0) - -f*f/(-0.5))*v*dx]'''),
]


def py_tokens(text):
    """the real numba text as normalised tokens (same spelling as PyFmt.prender)."""
    import io
    import tokenize

    import ffx
    out = []
    toks = [t for t in tokenize.generate_tokens(io.StringIO(text).readline) if t.type not in (tokenize.NEWLINE, tokenize.ENDMARKER, tokenize.NL)]
    i = 0
    while i < len(toks):
        t = toks[i]
        if t.type == tokenize.NAME and i + 2 < len(toks) and toks[i + 1].string == "." and t.string in ("np", "math"):
            out.append("f:" + toks[i + 2].string)
            i += 3
            continue
        if t.type == tokenize.NAME:
            out.append(t.string if t.string in ("not", "and", "or", "if", "else") else t.string)
        elif t.type == tokenize.NUMBER:
            if t.string.endswith("j"):
                out.append("c")
            elif all(ch.isdigit() for ch in t.string):
                out.append("i" + t.string)
            else:
                m, e = ffx.dyadic(float(t.string))
                out.append(f"n{m}e{e}")
        else:
            out.append(t.string)
        i += 1
    return " ".join(out)


def py_tree(node):
    """Python's own reading of the text (ast) as a tuple tree comparable with PyFmt.pcanon."""
    import ast

    import ffx
    if isinstance(node, ast.Constant):
        if isinstance(node.value, bool):
            raise ValueError("bool constant")
        if isinstance(node.value, int):
            return ("ELitI", node.value)
        if isinstance(node.value, complex):
            return ("ELitC",)
        return ("ELitF",) + ffx.dyadic(float(node.value))
    if isinstance(node, ast.Name):
        return ("ESym", node.id)
    if isinstance(node, ast.Subscript):
        idx = node.slice.elts if isinstance(node.slice, ast.Tuple) else [node.slice]
        return ("EAcc", node.value.id, [py_tree(i) for i in idx])
    if isinstance(node, ast.UnaryOp):
        if isinstance(node.op, ast.USub):
            return ("ENeg", py_tree(node.operand))
        if isinstance(node.op, ast.Not):
            return ("ENot", py_tree(node.operand))
    if isinstance(node, ast.BinOp):
        op = {ast.Add: "OAdd", ast.Sub: "OSub", ast.Mult: "OMul", ast.Div: "ODiv"}[type(node.op)]
        return ("EBin", op, py_tree(node.left), py_tree(node.right))
    if isinstance(node, ast.Compare):
        if len(node.ops) != 1:
            return ("CHAINED",)
        op = {ast.Lt: "OLT", ast.Gt: "OGT", ast.LtE: "OLE", ast.GtE: "OGE", ast.Eq: "OEQ", ast.NotEq: "ONE"}[type(node.ops[0])]
        return ("EBin", op, py_tree(node.left), py_tree(node.comparators[0]))
    if isinstance(node, ast.BoolOp):
        op = "OAnd" if isinstance(node.op, ast.And) else "OOr"
        acc = py_tree(node.values[0])
        for x in node.values[1:]:
            acc = ("EBin", op, acc, py_tree(x))
        return acc
    if isinstance(node, ast.IfExp):
        return ("ECond", py_tree(node.test), py_tree(node.body), py_tree(node.orelse))
    if isinstance(node, ast.Call):
        return ("ECall", node.func.attr, [py_tree(a) for a in node.args])
    raise ValueError(type(node).__name__)


def pcanon_py(e):
    """harness twin of PyFmt.pcanon (cross-checked against it in Coq)."""
    import p_c16
    k = e[0]
    if k == "ELitC":
        return ("ELitC",)
    if k == "EAcc":
        return ("EAcc", e[1], [pcanon_py(i) for i in e[2]])
    if k in ("ENeg", "ENot"):
        return (k, pcanon_py(e[1]))
    if k == "EBin":
        return ("EBin", e[1], pcanon_py(e[2]), pcanon_py(e[3]))
    if k in ("ESum", "EProd"):
        op = "OAdd" if k == "ESum" else "OMul"
        args = [pcanon_py(a) for a in e[1]]
        acc = args[0]
        for a in args[1:]:
            acc = ("EBin", op, acc, a)
        return acc
    if k == "ECall":
        return ("ECall", e[1], [pcanon_py(a) for a in e[2]])
    if k == "ECond":
        return ("ECond", pcanon_py(e[1]), pcanon_py(e[2]), pcanon_py(e[3]))
    return p_c16.canon_py(e)


def printer_correspondence(v, tier, seed):
    """the real numba Formatter against the printer model PyFmt.fmtPy (token for token) and against
    Python's own parser (ast.parse of the text = pcanon of the tree), on generated expression trees."""
    import ast
    import os
    import random
    import re

    import ffx
    import p_c16
    from ffcx.codegeneration.numba.formatter import Formatter as NF
    rng = random.Random(seed)
    fmt = NF("float64")
    trees = p_c16.exhaustive_depth2()
    for _ in range(300 if tier == "quick" else 4000):
        trees.append(p_c16.gen_arith(rng, rng.choice([2, 3, 4, 5])) if rng.random() < 0.75 else p_c16.gen_cond(rng, rng.choice([1, 2, 3])))
    tuples, texts, keep = [], [], []
    for t in trees:
        try:
            txt = fmt(t)
        except Exception:  # noqa: BLE001  (e.g. functions the numba backend rejects)
            continue
        tuples.append(p_c16._conv(t))
        texts.append(txt)
    path = os.path.join(common.GEN, "C18_cases.v")
    txt = ("From Coq Require Import ZArith List String Uint63.\nFrom FFCX Require Import LN Enc Tok Render PyFmt.\nImport ListNotations.\nOpen Scope string_scope.\n"
           "Set Printing Width 100000000.\nSet Printing Depth 100000000.\n")
    txt += "Definition cases : list expr := [\n " + ";\n ".join(ffx.coq_expr(t) for t in tuples) + "].\n"
    txt += 'Eval vm_compute in String.concat "@@" (map (fun e => prender (fmtPy e)) cases).\n'
    txt += "Eval vm_compute in map (fun e => (wfPy e, negb (has_clit e))) cases.\n"
    open(path, "w").write(txt)
    rc, so, se = common.coqc_many([path], timeout=900)[path]
    for ext in (".vo", ".vok", ".vos", ".glob"):
        try:
            os.remove(path[:-2] + ext)
        except OSError:
            pass
    st = {"trees": len(tuples), "inside_fragment": 0, "token_equal": 0, "python_parser_agrees": 0}
    m1 = re.search(r'=\s*"(.*?)"\s*:\s*string', so, re.S)
    m2 = re.search(r"=\s*\[(.*?)\]\s*:\s*list \(bool \* bool\)", so, re.S)
    if rc != 0 or not m1 or not m2:
        v.oblige(False)
        # search for a concrete failing input with Python's own parser: does the numba text read back as the tree?
        found = 0
        for tup, text in zip(tuples, texts):
            if "j" in text:
                continue      # complex literals are spelled by Python's repr: compared by execution only
            try:
                got = py_tree(ast.parse(text.strip(), mode="eval").body)
                want = p_c16.named(pcanon_py(tup), lambda n: f"x{n}")
                bad = got != want
            except Exception:  # noqa: BLE001
                bad = True
            if bad and found < 3:
                found += 1
                v.violation(f"c18-search:{text[:60]}", f"numba text {text!r} does not read back as the AST it was printed from (Python's parser; found while the printer model was broken)",
                            {"text": text, "tree": str(tup)})
        if not found:
            v.violation("c18-coq-model", "numba printer model could not be evaluated: " + se[-300:], {}, no_input=True)
        return st
    rendered = m1.group(1).replace("\n", " ").split("@@")
    flags = [(a.strip() == "true", b.strip() == "true") for a, b in re.findall(r"\((true|false),\s*(true|false)\)", m2.group(1))]
    names = lambda n: f"x{n}"   # noqa: E731
    for tup, text, model, (wf, noc) in zip(tuples, texts, rendered, flags):
        if not wf or not noc:
            continue          # complex literals are spelled by Python's repr ((-0.5+0.25j), 2j): compared by execution only
        st["inside_fragment"] += 1
        try:
            got = py_tree(ast.parse(text.strip(), mode="eval").body)
            want = p_c16.named(pcanon_py(tup), names)
            tree_ok = got == want
        except Exception as e:  # noqa: BLE001
            tree_ok = False
            got = f"<{type(e).__name__}: {e}>"
        tok_ok = True
        if noc:
            # function names: the model carries the UFL name, the text the numpy name
            real = py_tokens(text)
            mt = " ".join(t for t in model.split(" "))
            tok_ok = re.sub(r"f:[A-Za-z_0-9]+", "f:", mt) == re.sub(r"f:[A-Za-z_0-9]+", "f:", real)
        v.oblige(tok_ok and tree_ok)
        st["token_equal"] += 1 if tok_ok else 0
        st["python_parser_agrees"] += 1 if tree_ok else 0
        if not (tok_ok and tree_ok):
            v.violation(f"c18-printer:{text[:50]}", f"numba text {text!r} does not read back as the AST under Python's grammar, or differs from the printer model (model tokens {model!r})",
                        {"text": text, "tree": str(tup), "model_tokens": model, "python_reads": str(got)})
    return st


def run(v, tier, seed, g):
    printer_stats = printer_correspondence(v, tier, seed)
    big = ("hex", "tet_p2", "n1curl_tet", "sumfact_hex")
    cases = [c for c in corpus.PINNED if tier != "quick" or not any(b in c["id"] for b in big)] + EXTRA
    if tier != "quick":
        cases += corpus.random_cases(seed, 150)
    else:
        cases += corpus.random_cases(seed, 12)
    res = common.run_cases(cases, script="nbrun.py", timeout=600, extra={"seed": seed, "kernel_limit": 25 if tier == "quick" else 240})
    st = {"agree": 0, "mismatch": 0, "skipped": 0, "failed": 0, "rejected": 0, "cases": len(res), "descriptors_ok": 0}
    distinct = set()
    for r in res:
        if r["status"] == "rejected" or (r["status"] == "numba_rejected" and "not supported by the numba backend" in r.get("error", "")):
            # rejected by both, or declared unsupported by the numba backend with a clear error before any code is produced
            st["rejected"] += 1
            st.setdefault("numba_unsupported", []).append(r["id"]) if r["status"] == "numba_rejected" else None
            continue
        if r["status"] != "ok":
            v.oblige(False)
            st["failed"] += 1
            v.violation(f"c18-{r['status']}:{r['id']}", f"case {r['id']}: {r['status']}: {r.get('error','')[:200]}", {"case": r["id"], "code": r["code"], "status": r["status"]},
                        no_input=(r["status"] in ("harness_error", "gcc_failed")))
            continue
        for k in r["kernels"]:
            s = k["status"]
            if s == "agree":
                st["agree"] += 1
                v.oblige(True)
                distinct.add((r["id"], k["name"]))
                if len(v.samples) < 5:
                    v.samples.append({"case": r["id"], "kernel": k["name"][:40], "max_rel_diff": k["error"]})
            elif s == "skipped":
                st["skipped"] += 1
            elif s == "mismatch":
                st["mismatch"] += 1
                v.oblige(False)
                v.violation(f"c18-mismatch:{r['id']}", f"numba kernel differs from the C kernel on the same inputs: case {r['id']}, relative difference {k['error']:.3g}",
                            {"case": r["id"], "code": r["code"], "kernel": k["name"], "entity": k.get("entity"), "observed_numba": [str(x) for x in k["observed"]], "expected_c": [str(x) for x in k["expected"]]})
            else:
                st["failed"] += 1
                v.oblige(False)
                v.violation(f"c18-{s}:{r['id']}", f"numba kernel of case {r['id']} cannot be executed: {k.get('why','')[:200]}", {"case": r["id"], "code": r["code"], "kernel": k["name"], "trace": k.get("tb", "")})
        ok = not r["descriptor_problems"]
        v.oblige(ok)
        if ok:
            st["descriptors_ok"] += 1
        else:
            v.violation(f"c18-descriptor:{r['id']}", f"numba descriptors differ from the C descriptors (case {r['id']}): " + "; ".join(r["descriptor_problems"][:4]),
                        {"case": r["id"], "code": r["code"], "problems": r["descriptor_problems"]})
    if not g["ok"] and not v.violations:
        v.violation("gate", "proof obligations no longer check: " + "; ".join(g["broken"]), {"broken": g["broken"]}, no_input=True)
    tot = st["agree"] + st["mismatch"] + st["failed"]
    cov = {"checker_cmd": f"./check C18 --tier {tier}", "trusted_base": ["CPython executing the generated module with numba.carray replaced by numpy views of the declared extent (harness/nbrun.py)",
                                                                          "gcc -O0 for the C kernels; identical random inputs; tolerance 1e-11 (2e-4 single precision)",
                                                                          "Coq kernel (PyFmt theorems over the precedence table regenerated by tr_prec.py)"],
           "programs": st["cases"], "disagreements_checked": tot, "evaluations": tot, "distinct_nontrivial": len(distinct), "by_status": st, "printer_correspondence": printer_stats,
           "rule": "every accepted case is generated for C and for numba; each kernel pair is run on the same inputs; descriptor classes compared with the C descriptors / the user's expression",
           "axioms_under_property_theorems": g.get("axioms", [])}
    return v.finish("proof", cov, ["forms sampled; numba.cfunc compilation itself is not exercised in the quick tier"])


def replay(v, payload):
    import signal

    import nbrun
    signal.signal(signal.SIGALRM, nbrun._alarm)
    r = nbrun.run_case({"id": payload["case"], "code": payload["code"]}, 1, 240)
    print(r["status"], r.get("error"), [(k["status"], k.get("error"), k.get("why")) for k in r["kernels"]], r["descriptor_problems"])
    bad = r["status"] != "ok" or r["descriptor_problems"] or any(k["status"] not in ("agree", "skipped") for k in r["kernels"])
    return 1 if bad else 0
