"""Correspondence between the REAL argument factorisation (ffcx/ir/analysis/factorization.py) and the model
Fact.factorize, on the scalar integrand graphs of real forms.

Worker mode (python factcorr.py in.pkl out.pkl, run by common.run_cases): compiles every case with
compute_argument_factorization wrapped; for every target vertex of every integrand graph it exports
  - the integrand as an sx term (argument-free sub-DAGs collapsed into atoms, vertices named by their index in S),
  - the argument number of every argument component,
  - random Gaussian-integer values for atoms and (real) values for argument components,
  - the real result: argkeys with the value of the real factor expression under those values.
Driver (run(v, cases, seed)): evaluates Fact.run_case / Fact.wfb on the same terms in Coq and compares.
Values are exact (Gaussian integers; division is x * ginv(y) with the same ginv on both sides)."""
from __future__ import annotations

import os
import pickle
import random
import re
import sys

HERE = os.path.dirname(os.path.abspath(__file__))
sys.path.insert(0, HERE)

MAX_TREE = 4000


class NotComparable(Exception):
    pass


def gmul(x, y):
    return (x[0] * y[0] - x[1] * y[1], x[0] * y[1] + x[1] * y[0])


def gadd(x, y):
    return (x[0] + y[0], x[1] + y[1])


def ginv(y):
    y3 = gmul(y, gmul(y, y))
    return (y3[0] - y[0] + 1, y3[1] - y[1])


def export(S, rank, F, rng, out, case_id, ngraph):
    import ufl
    from ufl.classes import Conditional, Conj, Division, Product, Sum, Zero

    from ffcx.ir.analysis.factorization import build_argument_indices
    from ffcx.ir.analysis.modified_terminals import analyse_modified_terminal
    arg_idx = set(build_argument_indices(S))
    argn = {si: int(analyse_modified_terminal(S.nodes[si]["expression"]).terminal.number()) for si in arg_idx}
    size = [0]

    def conv(si):
        size[0] += 1
        if size[0] > MAX_TREE:
            raise NotComparable("integrand tree too large")
        v = S.nodes[si]["expression"]
        if si in arg_idx:
            return ("arg", si)
        if not S.nodes[si]["factors"]:
            return ("lit0",) if isinstance(v, Zero) else ("atom", si)
        deps = S.out_edges[si]
        kids = [conv(d) for d in deps]
        for cls, tag, n in ((Sum, "sum", 2), (Product, "prod", 2), (Conj, "conj", 1), (Division, "div", 2), (Conditional, "cond", 3)):
            if isinstance(v, cls):
                if len(kids) != n:
                    raise NotComparable(f"{tag} with {len(kids)} operands")
                return (tag, *kids)
        if len(kids) == 1:
            return ("op1", kids[0])
        if len(kids) == 2:
            return ("op2", kids[0], kids[1])
        raise NotComparable(f"operator {type(v).__name__} with {len(kids)} operands over arguments")

    # values are drawn per underlying expression: the atom Conj(x) holds the conjugate of x's value, because the
    # handlers build Conj(factor) and UFL rewrites Conj(Conj(x)) to x
    base_val = {}

    def value_of(e_):
        if isinstance(e_, Conj):
            x = value_of(e_.ufl_operands[0])
            return (x[0], -x[1])
        if e_ not in base_val:
            base_val[e_] = (rng.randint(-3, 3), rng.randint(-3, 3))
        return base_val[e_]
    atoms = {si: value_of(S.nodes[si]["expression"]) for si in S.nodes if si not in arg_idx and not S.nodes[si]["factors"]}
    # literals keep their value (UFL folds products of literals while the factors are built); a literal that is not
    # a Gaussian integer stays opaque, and a record in which such a literal was folded is not comparable
    nonint = [False]
    for si in atoms:
        e_ = S.nodes[si]["expression"]
        if isinstance(e_, ufl.classes.ScalarValue) and not isinstance(e_, Zero):
            val = complex(e_._value)
            if val.real == int(val.real) and val.imag == int(val.imag) and abs(val) < 2 ** 20:
                atoms[si] = (int(val.real), int(val.imag))
            else:
                nonint[0] = True
    args = {si: (rng.choice([-3, -2, -1, 1, 2, 3]), 0) for si in arg_idx}

    memo = {}
    budget = [0]

    def pyeval(e):
        k_ = id(e)
        if k_ in memo:
            return memo[k_]
        budget[0] += 1
        if budget[0] > 200000:
            raise NotComparable("factor expressions too large")
        r_ = pyeval_(e)
        memo[k_] = r_
        return r_

    def pyeval_(e):
        si = S.e2i.get(e)
        if si is not None and si not in arg_idx and not S.nodes[si]["factors"]:
            return (0, 0) if isinstance(e, Zero) else atoms[si]
        if isinstance(e, Zero):
            return (0, 0)
        if e in base_val:
            return base_val[e]
        if isinstance(e, ufl.classes.ScalarValue):
            if nonint[0]:
                raise NotComparable("a literal that is not a Gaussian integer was folded into a factor")
            val = complex(e._value)
            if val.real != int(val.real) or val.imag != int(val.imag):
                raise NotComparable("non-integer literal in a factor")
            return (int(val.real), int(val.imag))
        ops = e.ufl_operands
        if isinstance(e, Sum):
            return gadd(pyeval(ops[0]), pyeval(ops[1]))
        if isinstance(e, Product):
            return gmul(pyeval(ops[0]), pyeval(ops[1]))
        if isinstance(e, Division):
            return gmul(pyeval(ops[0]), ginv(pyeval(ops[1])))
        if isinstance(e, Conj):
            x = pyeval(ops[0])
            return (x[0], -x[1])
        if isinstance(e, Conditional):
            c = pyeval(ops[0])
            return pyeval(ops[1]) if c[0] > 0 else pyeval(ops[2])
        raise NotComparable(f"factor contains {type(e).__name__}")

    for t, attr in S.nodes.items():
        if not attr.get("target", False):
            continue
        rec = {"case": case_id, "graph": ngraph, "target": int(t), "rank": int(rank)}
        try:
            size[0] = 0
            rec["sx"] = conv(t)
            real = []
            for key, fi in attr["factors"].items():
                real.append((tuple(int(k) for k in key), pyeval(F.nodes[fi]["expression"])))
            rec["real"] = sorted(real)
            used_atoms, used_args = set(), set()

            def walk(x):
                if x[0] == "atom":
                    used_atoms.add(x[1])
                elif x[0] == "arg":
                    used_args.add(x[1])
                else:
                    for y in x[1:]:
                        if isinstance(y, tuple):
                            walk(y)
            walk(rec["sx"])
            rec["atoms"] = {k: atoms[k] for k in used_atoms}
            rec["args"] = {k: args[k] for k in used_args}
            rec["argn"] = {k: argn[k] for k in used_args}
        except NotComparable as e:
            rec["skip"] = str(e)
        out.append(rec)


def worker():
    import ffx
    job = pickle.load(open(sys.argv[1], "rb"))
    import ffcx.ir.integral as I
    orig = I.compute_argument_factorization
    res = []
    for i, case in enumerate(job["cases"]):
        r = {"id": case["id"], "code": case["code"], "status": "ok", "records": [], "kernels": []}
        rng = random.Random(f"{job.get('seed', 0)}-{case['id']}")
        n = [0]

        def wrapped(S, rank, _r=r, _rng=rng, _n=n):
            F = orig(S, rank)
            try:
                export(S, rank, F, _rng, _r["records"], _r["id"], _n[0])
            except Exception as e:  # noqa: BLE001
                _r["records"].append({"case": _r["id"], "graph": _n[0], "export_error": f"{type(e).__name__}: {e}"[:200]})
            _n[0] += 1
            return F
        I.compute_argument_factorization = wrapped
        try:
            objs, options, ns = ffx.build_case(case["code"])
            o = dict(options or {})
            o.update(job.get("options_override") or {})
            ffx.compile_case(objs, o)
        except BaseException as e:  # noqa: BLE001
            r["status"] = "rejected"
            r["error"] = f"{type(e).__name__}: {e}"[:200]
        finally:
            I.compute_argument_factorization = orig
        res.append(r)
    pickle.dump(res, open(sys.argv[2], "wb"))


# ---------------------------------------------------------------------------------------------
def sx_coq(x):
    t = x[0]
    if t == "arg":
        return f"(XArg {x[1]})"
    if t == "atom":
        return f"(XAtom {x[1]})"
    if t == "lit0":
        return "XLit0"
    if t in ("sum", "prod", "div"):
        return f"({ {'sum': 'XSum', 'prod': 'XProd', 'div': 'XDiv'}[t]} {sx_coq(x[1])} {sx_coq(x[2])})"
    if t == "conj":
        return f"(XConj {sx_coq(x[1])})"
    if t == "cond":
        return f"(XCond {sx_coq(x[1])} {sx_coq(x[2])} {sx_coq(x[3])})"
    if t == "op1":
        return f"(XOp1 0 {sx_coq(x[1])})"
    if t == "op2":
        return f"(XOp2 0 {sx_coq(x[1])} {sx_coq(x[2])})"
    raise ValueError(t)


def g_coq(z):
    return f"(({z[0]})%Z, ({z[1]})%Z)"


def run(v, cases, seed, label, options_override=None, chunk=150):
    """returns statistics; reports violations through v."""
    import common
    res = common.run_cases(cases, script="factcorr.py", timeout=400, extra={"seed": seed, "options_override": options_override})
    recs, skipped, export_errors = [], {}, []
    for r in res:
        for rec in r.get("records", []):
            if "export_error" in rec:
                export_errors.append(rec)
            elif "skip" in rec:
                skipped[rec["skip"]] = skipped.get(rec["skip"], 0) + 1
            else:
                recs.append(rec)
    for rec in export_errors[:3]:
        v.oblige(False)
        v.violation(f"fact-export:{rec['case']}", f"the factorisation of case {rec['case']} could not be exported: {rec['export_error']}", rec, no_input=True)
    files = []
    for ci in range(0, len(recs), chunk):
        part = recs[ci:ci + chunk]
        path = os.path.join(common.GEN, f"Fact_cases_{label}_{ci // chunk}.v")
        lines = ["From Coq Require Import ZArith List Bool.", "From FFCX Require Import Fact.", "Import ListNotations.",
                 "Definition keyeqb (a b : list nat) : bool := if list_eq_dec Nat.eq_dec a b then true else false.",
                 "Definition geqb (a b : G) : bool := Z.eqb (fst a) (fst b) && Z.eqb (snd a) (snd b).",
                 "Fixpoint kfind (k : list nat) (l : list (list nat * G)) : option G := match l with [] => None | (k', v) :: r => if keyeqb k k' then Some v else kfind k r end.",
                 "Definition same (got : option (list (list nat * G))) (want : list (list nat * G)) : bool := match got with None => false | Some g => "
                 "Nat.eqb (length g) (length want) && forallb (fun kv => match kfind (fst kv) g with Some x => geqb x (snd kv) | None => false end) want end.",
                 "Fixpoint nlookup (k : nat) (l : list (nat * nat)) : nat := match l with [] => 0%nat | (k', v) :: r => if Nat.eqb k k' then v else nlookup k r end.",
                 "Definition checks : list (bool * bool) := ["]
        rows = []
        for rec in part:
            args = "[" + "; ".join(f"({k}%nat, {g_coq(z)})" for k, z in sorted(rec["args"].items())) + "]"
            atoms = "[" + "; ".join(f"({k}%nat, {g_coq(z)})" for k, z in sorted(rec["atoms"].items())) + "]"
            argn = "[" + "; ".join(f"({k}%nat, {n}%nat)" for k, n in sorted(rec["argn"].items())) + "]"
            want = "[" + "; ".join("([" + "; ".join(f"{i}%nat" for i in key) + "], " + g_coq(z) + ")" for key, z in rec["real"]) + "]"
            e = sx_coq(rec["sx"])
            rows.append(f" (same (run_case {args} {atoms} {e}) {want}, wfb (fun i => nlookup i {argn}) {e})")
        lines.append(";\n".join(rows) + "].")
        lines.append("Eval vm_compute in checks.")
        open(path, "w").write("\n".join(lines) + "\n")
        files.append((path, part))
    out = common.coqc_many([p for p, _ in files], timeout=900)
    nsame = nwf = nreported = 0
    for path, part in files:
        rc, so, se = out[path]
        for ext in (".vo", ".vok", ".vos", ".glob"):
            try:
                os.remove(path[:-2] + ext)
            except OSError:
                pass
        pairs = re.findall(r"\(\s*(true|false)\s*,\s*(true|false)\s*\)", so) if rc == 0 else []
        if rc != 0 or len(pairs) != len(part):
            v.oblige(False)
            v.violation(f"fact-model:{label}", f"Fact.v could not be evaluated on the exported integrands: {(se or so)[-300:]}", {"file": path}, no_input=True)
            continue
        for (s_, w_), rec in zip(pairs, part):
            v.oblige(s_ == "true")
            v.oblige(w_ == "true")
            if s_ == "true":
                nsame += 1
            elif nreported < 3:
                nreported += 1
                v.violation(f"fact-correspondence:{rec['case']}", f"argument factorisation of case {rec['case']} (integrand graph {rec['graph']}, vertex {rec['target']}) differs from Fact.factorize "
                            "on the same integrand and values (exact Gaussian-integer evaluation of every factor)",
                            {"case": rec["case"], "code": next(c["code"] for c in cases if c["id"] == rec["case"]), "sx": repr(rec["sx"])[:2000],
                             "real_factors": rec["real"][:12], "args": rec["args"], "atoms": rec["atoms"], "broken_obligation": "correspondence factorization.py <-> Fact.factorize"})
            if w_ == "true":
                nwf += 1
            else:
                v.violation(f"fact-wf:{rec['case']}", f"an integrand handed to the argument factorisation is not multilinear in the sense of Fact.wf (case {rec['case']}): the soundness theorem does not cover it",
                            {"case": rec["case"], "sx": repr(rec["sx"])[:2000], "argn": rec["argn"]}, no_input=True)
    return {"integrands": len(recs), "agree": nsame, "wf": nwf, "skipped": skipped, "rejected_cases": sum(1 for r in res if r["status"] != "ok"),
            "with_conj": sum(1 for r in recs if "conj" in repr(r["sx"])), "with_cond": sum(1 for r in recs if "cond" in repr(r["sx"])),
            "with_div": sum(1 for r in recs if "'div'" in repr(r["sx"])), "bilinear": sum(1 for r in recs if r["rank"] == 2),
            "max_keys": max([len(r["real"]) for r in recs] or [0])}


if __name__ == "__main__":
    worker()
