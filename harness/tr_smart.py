"""tr_smart: translate the operator overloads of lnodes.LExpr (__neg__ ... __rdiv__), the
is_*_lexpr predicates and float_product into Gallina (coq/gen/SmartGen.v).
Recognised shape of a method body: an optional `other = as_lexpr(other)`, then a chain of
`if <cond>: return <expr>` / `if <cond>: raise ...`, then a final `return <expr>`.
Anything else stops the translator (fail-closed)."""

from __future__ import annotations

import ast
import os
import sys

HERE = os.path.dirname(os.path.abspath(__file__))
sys.path.insert(0, HERE)
import common  # noqa: E402
import ffx  # noqa: E402


class TranslationError(Exception):
    pass


METHODS = ["__neg__", "__add__", "__radd__", "__sub__", "__rsub__", "__mul__", "__rmul__",
           "__div__", "__rdiv__"]
NAME = {"__neg__": "neg_s", "__add__": "add_s", "__radd__": "radd_s", "__sub__": "sub_s",
        "__rsub__": "rsub_s", "__mul__": "mul_s", "__rmul__": "rmul_s", "__div__": "div_s",
        "__rdiv__": "rdiv_s"}
BIN = {"Add": "OAdd", "Sub": "OSub", "Mul": "OMul", "Div": "ODiv"}
PRED = {"is_zero_lexpr": "is_zero_s", "is_one_lexpr": "is_one_s", "is_negative_one_lexpr": "is_negone_s"}


def err(node, msg):
    raise TranslationError(f"lnodes.py:{getattr(node, 'lineno', '?')}: {msg}")


def tr_cond(c):
    if isinstance(c, ast.BoolOp) and isinstance(c.op, ast.And):
        return "(" + " && ".join(tr_cond(v) for v in c.values) + ")"
    if isinstance(c, ast.Call) and isinstance(c.func, ast.Name):
        if c.func.id in PRED and len(c.args) == 1 and isinstance(c.args[0], ast.Name):
            return f"{PRED[c.func.id]} {c.args[0].id}"
        if c.func.id == "isinstance" and len(c.args) == 2 and isinstance(c.args[0], ast.Name) \
                and isinstance(c.args[1], ast.Name):
            cls = c.args[1].id
            if cls in ("Neg", "LiteralInt", "LiteralFloat"):
                return f"isa_{cls} {c.args[0].id}"
    err(c, "condition of unrecognised shape: " + ast.dump(c)[:80])


def tr_val(v):
    """integer/float payload expression: self.value - other.value etc. -> (kind, coq)"""
    if isinstance(v, ast.Attribute) and v.attr == "value" and isinstance(v.value, ast.Name):
        return f"ival {v.value.id}"
    if isinstance(v, ast.BinOp) and isinstance(v.op, (ast.Sub, ast.Mult, ast.Add)):
        op = {ast.Sub: "-", ast.Mult: "*", ast.Add: "+"}[type(v.op)]
        return f"({tr_val(v.left)} {op} {tr_val(v.right)})%Z"
    if isinstance(v, ast.UnaryOp) and isinstance(v.op, ast.USub):
        return f"(- {tr_val(v.operand)})%Z"
    err(v, "payload of unrecognised shape")


def tr_expr(e):
    """returns Gallina of type option expr"""
    if isinstance(e, ast.Name) and e.id in ("self", "other"):
        return f"Some {e.id}"
    if isinstance(e, ast.UnaryOp) and isinstance(e.op, ast.USub) and isinstance(e.operand, ast.Name):
        return f"neg_s {e.operand.id}"
    if isinstance(e, ast.Call) and isinstance(e.func, ast.Name):
        f = e.func.id
        if f in BIN and len(e.args) == 2:
            return f"Some (EBin {BIN[f]} {tr_arg(e.args[0])} {tr_arg(e.args[1])})"
        if f == "Neg" and len(e.args) == 1:
            return f"Some (ENeg {tr_arg(e.args[0])})"
        if f == "LiteralInt" and len(e.args) == 1:
            return f"Some (ELitI {tr_val(e.args[0])})"
        if f == "LiteralFloat" and len(e.args) == 1:
            a = e.args[0]
            if isinstance(a, ast.UnaryOp) and isinstance(a.op, ast.USub) and isinstance(a.operand, ast.Attribute) \
                    and a.operand.attr == "value" and isinstance(a.operand.value, ast.Name):
                return f"Some (flit_neg {a.operand.value.id})"
            if isinstance(a, ast.Constant) and isinstance(a.value, float):
                m, ex = ffx.dyadic(a.value)
                return f"Some (ELitF ({m}) ({ex}))"
    err(e, "returned expression of unrecognised shape: " + ast.dump(e)[:100])


def tr_arg(a):
    if isinstance(a, ast.Name) and a.id in ("self", "other"):
        return a.id
    if isinstance(a, ast.Attribute) and a.attr == "arg" and isinstance(a.value, ast.Name):
        return f"(arg_of {a.value.id})"
    err(a, "constructor argument of unrecognised shape")


def tr_method(fn):
    params = [a.arg for a in fn.args.args]
    body = [s for s in fn.body if not (isinstance(s, ast.Expr) and isinstance(s.value, ast.Constant))]
    out = []
    final = None
    for s in body:
        if isinstance(s, ast.Assign) and len(s.targets) == 1 and isinstance(s.targets[0], ast.Name) \
                and isinstance(s.value, ast.Call) and isinstance(s.value.func, ast.Name) \
                and s.value.func.id == "as_lexpr" and s.targets[0].id == "other":
            continue
        if isinstance(s, ast.If) and not s.orelse and len(s.body) == 1:
            inner = s.body[0]
            if isinstance(inner, ast.Return):
                out.append((tr_cond(s.test), tr_expr(inner.value)))
                continue
            if isinstance(inner, ast.Raise):
                out.append((tr_cond(s.test), "None"))
                continue
        if isinstance(s, ast.Return):
            final = tr_expr(s.value)
            continue
        err(s, "statement of unrecognised shape in " + fn.name)
    if final is None:
        err(fn, "no final return in " + fn.name)
    txt = ""
    for c, r in out:
        txt += f"  if {c} then {r} else\n"
    txt += f"  {final}"
    return params, txt


def tr_pred(fn):
    """is_*_lexpr: (isinstance(x, LiteralFloat) and x.value == F) or (isinstance(x, LiteralInt) and x.value == I)"""
    if len(fn.body) < 1:
        err(fn, "empty predicate")
    ret = [s for s in fn.body if isinstance(s, ast.Return)]
    if len(ret) != 1:
        err(fn, "predicate without single return")
    e = ret[0].value
    if not (isinstance(e, ast.BoolOp) and isinstance(e.op, ast.Or) and len(e.values) == 2):
        err(e, "predicate is not an 'or' of two clauses")
    res = {}
    for cl in e.values:
        if not (isinstance(cl, ast.BoolOp) and isinstance(cl.op, ast.And) and len(cl.values) == 2):
            err(cl, "clause is not 'isinstance(...) and value == c'")
        isa, cmp_ = cl.values
        if not (isinstance(isa, ast.Call) and getattr(isa.func, "id", None) == "isinstance"):
            err(isa, "first conjunct is not isinstance")
        cls = isa.args[1].id
        if not (isinstance(cmp_, ast.Compare) and len(cmp_.ops) == 1 and isinstance(cmp_.ops[0], ast.Eq)):
            err(cmp_, "second conjunct is not an == comparison")
        c = cmp_.comparators[0]
        if isinstance(c, ast.UnaryOp) and isinstance(c.op, ast.USub) and isinstance(c.operand, ast.Constant):
            val = -c.operand.value
        elif isinstance(c, ast.Constant):
            val = c.value
        else:
            err(c, "comparison constant of unrecognised shape")
        res[cls] = val
    if set(res) != {"LiteralFloat", "LiteralInt"}:
        err(fn, "predicate clauses must cover LiteralFloat and LiteralInt")
    m, ex = ffx.dyadic(float(res["LiteralFloat"]))
    return f"lit_test ({m}) ({ex}) ({int(res['LiteralInt'])})"


def tr_float_product(fn):
    """factors = [f for f in factors if not is_one_lexpr(f)]; 0 -> LiteralFloat(1.0); 1 -> f; else Product"""
    src = ast.unparse(fn)
    want = ["[f for f in factors if not is_one_lexpr(f)]", "len(factors) == 0", "LiteralFloat(1.0)",
            "len(factors) == 1", "factors[0]", "Product(factors)"]
    for w in want:
        if w not in src:
            err(fn, f"float_product: expected fragment {w!r} not found")
    return ("Definition float_product_s (factors : list expr) : expr :=\n"
            "  match filter (fun f => negb (is_one_s f)) factors with\n"
            "  | [] => ELitF 1 0\n  | [f] => f\n  | fs => EProd fs\n  end.")


def generate():
    path = os.path.join(common.REPO, "ffcx/codegeneration/lnodes.py")
    tree = ast.parse(open(path).read())
    funcs = {n.name: n for n in tree.body if isinstance(n, ast.FunctionDef)}
    cls = [n for n in tree.body if isinstance(n, ast.ClassDef) and n.name == "LExpr"]
    if len(cls) != 1:
        raise TranslationError("class LExpr not found")
    meths = {n.name: n for n in cls[0].body if isinstance(n, ast.FunctionDef)}
    aliases = {}
    for n in cls[0].body:
        if isinstance(n, ast.Assign) and len(n.targets) == 1 and isinstance(n.targets[0], ast.Name) \
                and isinstance(n.value, ast.Name):
            aliases[n.targets[0].id] = n.value.id
    for a, b in (("__truediv__", "__div__"), ("__rtruediv__", "__rdiv__")):
        if aliases.get(a) != b:
            raise TranslationError(f"LExpr.{a} is not an alias of {b}")
    lines = ["(* generated by harness/tr_smart.py from ffcx/codegeneration/lnodes.py *)",
             "From Coq Require Import ZArith List Bool.", "From FFCX Require Import LN SmartBase.",
             "Import ListNotations.", ""]
    for py, coq in PRED.items():
        if py not in funcs:
            raise TranslationError(f"{py} not found")
        lines.append(f"Definition {coq} (x : expr) : bool := {tr_pred(funcs[py])} x.")
    lines.append("")
    for m in METHODS:
        if m not in meths:
            raise TranslationError(f"LExpr.{m} not found")
        params, body = tr_method(meths[m])
        ps = " ".join(f"({p} : expr)" for p in params)
        lines.append(f"Definition {NAME[m]} {ps} : option expr :=\n{body}.\n")
    lines.append(tr_float_product(funcs["float_product"]))
    os.makedirs(common.GEN, exist_ok=True)
    with open(os.path.join(common.GEN, "SmartGen.v"), "w") as f:
        f.write("\n".join(lines) + "\n")


if __name__ == "__main__":
    generate()
    print(open(os.path.join(common.GEN, "SmartGen.v")).read())
