#!/bin/sh
# seedrun.sh <seed dir name> <check ids...> : apply the seeded patch to /repo, run the checks, undo it.
# The evidence files describe the unchanged tree: they are saved and put back.
set -u
d=/verif/seeded/$1; shift
[ -z "$(git -C /repo status --short)" ] || { echo "/repo has uncommitted changes: refusing"; exit 2; }
sav=$(mktemp -d /tmp/vf_evid.XXXXXX); cp -a /verif/evidence/. "$sav"/
git -C /repo apply "$d/patch.diff" || { echo "patch does not apply"; rm -rf "$sav"; exit 2; }
for c in "$@"; do
  echo "=== check $c with $(basename $d) applied"
  /verif/check $c --tier quick 2>&1 | grep "^VIOLATION\|^OK\|^KNOWN\|violation detail" | head -6
done
git -C /repo checkout -- .
git -C /repo status --short | head -3
cp -a "$sav"/. /verif/evidence/; rm -rf "$sav"
