#!/bin/sh
# seedrun.sh <seed dir name> <check ids...> : apply the seeded patch to /repo, run the checks, undo it
set -u
d=/verif/seeded/$1; shift
git -C /repo apply "$d/patch.diff" || { echo "patch does not apply"; exit 2; }
for c in "$@"; do
  echo "=== check $c with $(basename $d) applied"
  /verif/check $c --tier quick 2>&1 | grep "^VIOLATION\|^OK\|^KNOWN\|violation detail" | head -6
done
git -C /repo checkout -- .
git -C /repo status --short | head -3
