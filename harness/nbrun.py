"""C18 worker: the numba module FFCx generates, executed in plain Python (numba.carray etc.
replaced by numpy views), against the C kernels of the same objects on the same inputs, and
its descriptor classes against the C descriptors.

python nbrun.py in.pkl out.pkl
"""
from __future__ import annotations

import ast
import os
import pickle
import re
import signal
import sys
import traceback
import types

sys.path.insert(0, os.path.dirname(os.path.abspath(__file__)))
import numpy as np  # noqa: E402

import ffx  # noqa: E402
import inputs  # noqa: E402
import runc  # noqa: E402


class CaseTimeout(BaseException):
    pass


def _alarm(s, f):
    raise CaseTimeout()


def numba_stub():
    m = types.ModuleType("numba")

    def carray(ptr, shape, dtype=None):
        """numba.carray(pointer, shape): a view of the DECLARED extent over the caller's memory.  Reading
        past the declared extent raises (as with a numpy array in plain Python); a declaration larger than
        the caller's data is poisoned with NaN beyond the data (reading it would read foreign memory)."""
        n = int(np.prod(shape))
        flat = ptr.reshape(-1)
        if flat.size >= n:
            return flat[:n].reshape(shape)
        if n == 0 or flat.size == 0:
            return np.zeros(shape, dtype=flat.dtype)
        ext = np.full(n, np.nan if flat.dtype.kind in "fc" else 0, dtype=flat.dtype)
        ext[:flat.size] = flat
        carray.overdeclared.append((flat.size, n))
        return ext.reshape(shape)
    carray.overdeclared = []
    m.carray = carray
    m.njit = lambda *a, **k: (a[0] if a and callable(a[0]) else (lambda f: f))
    m.jit = m.njit
    m.cfunc = lambda *a, **k: (lambda f: f)
    m.types = types.SimpleNamespace()
    return m


def exec_module(src):
    saved = sys.modules.get("numba")
    sys.modules["numba"] = numba_stub()
    g = {"__name__": "ffcx_numba_module"}
    try:
        exec(compile(src, "<ffcx numba module>", "exec"), g)
    finally:
        if saved is not None:
            sys.modules["numba"] = saved
        else:
            del sys.modules["numba"]
    return g


def c_descriptors(cap):
    """what the C text says about each form (read off the generated source), for comparison."""
    src = cap.code[1]
    out = {}
    for fi, fd in enumerate(cap.analysis.form_data):
        ir = cap.ir.forms[fi]
        name = ir.name

        def arr(prefix, conv=str):
            m = re.search(prefix + re.escape(name) + r"\[(\d+)\] = \{(.*?)\};", src, re.S)
            return [conv(x.strip()) for x in m.group(2).split(",")] if m and m.group(2).strip() else []
        d = {"original_coefficient_positions": arr(r"int original_coefficient_position_", int),
             "form_integral_ids": arr(r"int form_integral_ids_", int),
             "form_integral_offsets": arr(r"int form_integral_offsets_", int),
             "form_integrals": [x.lstrip("&") for x in arr(r"ufcx_integral\* form_integrals_")]}
        m = re.search(r"ufcx_form " + re.escape(name) + r" =\s*\{(.*?)\};", src, re.S)
        body = m.group(1) if m else ""
        for key in ("rank", "num_coefficients", "num_constants"):
            mm = re.search(r"\." + key + r" = (\d+)", body)
            d[key] = int(mm.group(1)) if mm else None
        mm = re.search(r"\.signature = \"(.*?)\"", body)
        d["signature"] = mm.group(1) if mm else None
        out[name] = d
    return out


def run_case(case, seed, limit):
    import ffcx.compiler
    import ffcx.options
    out = {"id": case["id"], "code": case["code"], "status": "ok", "kernels": [], "descriptor_problems": []}
    rng = np.random.default_rng(seed)
    try:
        objs, options, ns = ffx.build_case(case["code"])
        cap = ffx.compile_case(list(objs), options)
    except BaseException as e:  # noqa: BLE001
        out["status"] = "rejected"
        out["error"] = f"{type(e).__name__}: {e}"[:300]
        return out
    # the numba module of the same objects
    try:
        o = dict(options or {})
        o["language"] = "numba"
        text, _ = ffcx.compiler.compile_ufl_objects(list(objs), options=ffcx.options.get_options(o), namespace="vf")
        src = "\n".join(text)
    except BaseException as e:  # noqa: BLE001
        out["status"] = "numba_rejected"
        out["error"] = f"accepted by the C backend, rejected by the numba backend: {type(e).__name__}: {e}"[:300]
        return out
    out["numba_source"] = src if len(src) < 200000 else src[:200000]
    try:
        ast.parse(src)
        g = exec_module(src)
    except SyntaxError as e:
        out["status"] = "invalid_python"
        out["error"] = f"SyntaxError: {e.msg}: {(e.text or '').strip()[:120]} (line {e.lineno})"
        return out
    except BaseException as e:  # noqa: BLE001
        out["status"] = "module_exec_failed"
        out["error"] = f"{type(e).__name__}: {e}"[:300]
        return out
    scalar = str(cap.options["scalar_type"])
    b = runc.CBuild(cap.code[0], cap.code[1])
    if not b.ok:
        out["status"] = "gcc_failed"
        out["error"] = b.log[:300]
        return out
    for k in cap.kernels:
        name = ffx.kernel_name(k)
        kr = {"name": name, "kind": k["kind"]}
        try:
            con = ffx.kernel_contract(cap, k)
            fn = g.get("tabulate_tensor_" + name)
            if fn is None:
                kr.update(status="missing", why=f"no function tabulate_tensor_{name} in the numba module")
                out["kernels"].append(kr)
                continue
            ents = list(range(con["e_range"][0], max(con["e_range"][1], 1))) if con["ne"] else [0]
            ent = int(rng.choice(ents))
            dd = inputs.make(con, rng, scalar)
            dd["e"][: con["ne"]] = ent
            nperm = max(con["p_range"][1], 1) if con.get("np") else 1
            dd["p"][:] = rng.integers(0, nperm, size=dd["p"].shape) if con.get("np") else 0
            A0 = dd["A"].copy()
            Ac = A0.copy()
            runc.call_kernel(b.kernel(name), Ac, dd["w"], dd["c"], dd["x"], dd["e"], dd["p"])
            An = A0.copy()
            signal.alarm(limit)
            try:
                fn(An, dd["w"].copy(), dd["c"].copy(), dd["x"].copy(), np.asarray(dd["e"], dtype=np.intc).copy(), np.asarray(dd["p"], dtype=np.uint8).copy(), None)
            finally:
                signal.alarm(0)
            tol = 2e-4 if scalar in ("float32", "complex64") else 1e-11
            scale = max(float(np.max(np.abs(Ac))), 1e-12)
            err = float(np.max(np.abs(An - Ac)) / scale)
            if not np.all(np.isfinite(An)) and np.all(np.isfinite(Ac)):
                err = float("inf")
            # the same call on a zero tensor, compared relative to the tensor itself (a kernel whose entries are all
            # tiny - small cut cells, custom rules - must agree to rounding as well)
            Zc = np.zeros_like(A0)
            runc.call_kernel(b.kernel(name), Zc, dd["w"], dd["c"], dd["x"], dd["e"], dd["p"])
            Zn = np.zeros_like(A0)
            signal.alarm(limit)
            try:
                fn(Zn, dd["w"].copy(), dd["c"].copy(), dd["x"].copy(), np.asarray(dd["e"], dtype=np.intc).copy(), np.asarray(dd["p"], dtype=np.uint8).copy(), None)
            finally:
                signal.alarm(0)
            zs = float(np.max(np.abs(Zc)))
            if zs > 0 and np.all(np.isfinite(Zc)):
                zerr = float(np.max(np.abs(Zn - Zc)) / zs) if np.all(np.isfinite(Zn)) else float("inf")
                if zerr > err:
                    err, An, Ac = zerr, Zn, Zc
            kr.update(status="agree" if err <= tol else "mismatch", error=err, entity=ent,
                      observed=[complex(x) if "complex" in scalar else float(x) for x in An[:8]],
                      expected=[complex(x) if "complex" in scalar else float(x) for x in Ac[:8]])
            # per-kernel descriptor: the class next to the function
            cls = g.get(name)
            if k["kind"] == "integral" and cls is not None:
                ir = k["ir"]
                want = {"enabled_coefficients": [1 if x else 0 for x in ir.enabled_coefficients],
                        "needs_facet_permutations": bool(ir.expression.needs_facet_permutations),
                        "domain": int(k["domain"])}
                for key, val in want.items():
                    got = getattr(cls, key, None)
                    if (list(got) if isinstance(got, (list, tuple)) else got) != val:
                        out["descriptor_problems"].append(f"{name}.{key}: numba {got!r} vs C {val!r}")
        except CaseTimeout:
            kr.update(status="skipped", why=f"plain-Python execution longer than {limit}s")
        except ffx.Unsupported as e:
            kr.update(status="skipped", why=str(e))
        except BaseException as e:  # noqa: BLE001
            kr.update(status="numba_kernel_failed", why=f"{type(e).__name__}: {e}"[:300], tb=traceback.format_exc()[-600:])
        out["kernels"].append(kr)
    # form descriptors
    try:
        cd = c_descriptors(cap)
        for fname, d in cd.items():
            cls = g.get(fname)
            if cls is None:
                out["descriptor_problems"].append(f"form class {fname} missing in the numba module")
                continue
            for key in ("rank", "num_coefficients", "num_constants", "signature"):
                if getattr(cls, key, None) != d[key]:
                    out["descriptor_problems"].append(f"{fname}.{key}: numba {getattr(cls, key, None)!r} vs C {d[key]!r}")
            for key in ("original_coefficient_positions", "form_integral_ids", "form_integral_offsets"):
                got = list(getattr(cls, key, []) or [])
                if got != d[key]:
                    out["descriptor_problems"].append(f"{fname}.{key}: numba {got} vs C {d[key]}")
            got = [getattr(x, "__name__", str(x)) for x in (getattr(cls, "form_integrals", []) or [])]
            if got != d["form_integrals"]:
                out["descriptor_problems"].append(f"{fname}.form_integrals: numba {got} vs C {d['form_integrals']}")
        # expressions: the descriptor against the expression the user wrote
        import ufl
        exprs = [o for o in objs if isinstance(o, tuple)]
        eks = [k for k in cap.kernels if k["kind"] == "expression"]
        for k, (expr, pts) in zip(eks, exprs):
            name = ffx.kernel_name(k)
            cls = g.get(name)
            if cls is None:
                out["descriptor_problems"].append(f"expression class {name} missing")
                continue
            pts = np.asarray(pts, dtype=float)
            coeffs = ufl.algorithms.extract_coefficients(expr)
            kept = ufl.algorithms.extract_coefficients(ufl.algorithms.expand_derivatives(expr))
            want = {"num_points": int(pts.shape[0]), "entity_dimension": int(pts.shape[1]), "value_shape": list(expr.ufl_shape),
                    "num_components": len(expr.ufl_shape),      # ufcx.h: value_shape[num_components]; what the C descriptor holds
                    "rank": len(ufl.algorithms.extract_arguments(expr)), "num_coefficients": len(kept),
                    "original_coefficient_positions": [coeffs.index(c) for c in kept],
                    "num_constants": len(ufl.algorithms.analysis.extract_constants(expr))}
            for key, val in want.items():
                got = getattr(cls, key, None)
                got = list(got) if isinstance(got, (list, tuple, np.ndarray)) else got
                if got != val:
                    out["descriptor_problems"].append(f"{name}.{key}: numba {got!r} vs expression {val!r}")
            gp = np.asarray(getattr(cls, "points", []), dtype=float).reshape(-1)
            if gp.shape != pts.reshape(-1).shape or not np.array_equal(gp, pts.reshape(-1)):
                out["descriptor_problems"].append(f"{name}.points differ from the expression's points")
    except BaseException as e:  # noqa: BLE001
        out["descriptor_problems"].append(f"descriptor comparison failed: {type(e).__name__}: {e}"[:200])
    return out


def main():
    job = pickle.load(open(sys.argv[1], "rb"))
    signal.signal(signal.SIGALRM, _alarm)
    res = []
    for i, case in enumerate(job["cases"]):
        try:
            res.append(run_case(case, job.get("seed", 0) + i, job.get("kernel_limit", 20)))
        except BaseException as e:  # noqa: BLE001
            res.append({"id": case["id"], "code": case["code"], "status": "harness_error", "error": f"{type(e).__name__}: {e}" + traceback.format_exc()[-500:], "kernels": [], "descriptor_problems": []})
    pickle.dump(res, open(sys.argv[2], "wb"))


if __name__ == "__main__":
    main()
