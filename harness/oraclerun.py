"""Run compiled kernels of a case against harness/oracle.py.  Used by the value properties
(C01 C02 C04 C06 C09 C10 C11 C18).  Worker: python oraclerun.py in.pkl out.pkl"""
from __future__ import annotations

import os
import pickle
import signal
import sys
import traceback

sys.path.insert(0, os.path.dirname(os.path.abspath(__file__)))
import numpy as np  # noqa: E402
import ufl  # noqa: E402

import ffx  # noqa: E402
import inputs  # noqa: E402
import oracle  # noqa: E402
import runc  # noqa: E402


class CaseTimeout(BaseException):
    pass


def _alarm(s, f):
    raise CaseTimeout()


def force_degrees(form, default_degree):
    """give every integral an explicit quadrature degree (the oracle does not estimate degrees)."""
    import ufl
    new = []
    for itg in form.integrals():
        md = dict(itg.metadata() or {})
        if "quadrature_degree" not in md and md.get("quadrature_rule") != "custom":
            md["quadrature_degree"] = default_degree
        new.append(itg.reconstruct(metadata=md))
    return ufl.Form(new)


def default_degree(form):
    import ufl
    d = 1
    for a in list(form.arguments()) + list(form.coefficients()):
        d += int(a.ufl_element().embedded_superdegree)
    return min(max(d, 2), 6)


def pack_inputs(cap, k, fd, itg, con, rng, scalar):
    """random dyadic inputs for the contract + the same data keyed by UFL objects for the oracle."""
    d = inputs.make(con, rng, scalar)
    width = 2 if con["integral_type"] == "interior_facet" else 1
    wvals, off = {}, 0
    for coeff, el in zip(fd.reduced_coefficients, fd.coefficient_elements):
        n = int(el.dim)
        wvals[coeff] = [d["w"][off + s * n: off + (s + 1) * n] for s in range(width)]
        off += width * n
    cvals, off = {}, 0
    for c in fd.original_form.constants():
        n = int(np.prod(c.ufl_shape, dtype=int))
        cvals[c] = d["c"][off:off + n]
        off += n
    nn = con["nx"] // (3 * width)
    cells = [oracle.Cell(itg.domain, d["x"][s * 3 * nn:(s + 1) * 3 * nn]) for s in range(width)]
    return d, wvals, cvals, cells


def interior_geometry(con, d, rng):
    """make the '-' cell the mirror image of the '+' cell across the shared facet (same local
    facet index, shared vertices identical): quadrature points then coincide physically."""
    import basix
    cell = con["cell"]
    tdim = oracle.TDIM[cell]
    nn = con["nx"] // 6
    X = d["x"][: 3 * nn].reshape(nn, 3).copy()
    return X


def check_case(case, seed, entity_mode="random", options_override=None, want_numba=False, exact_ref=None, affine=False, renumber=False):
    out = {"id": case["id"], "code": case["code"], "status": "ok", "kernels": []}
    rng = np.random.default_rng(seed)
    try:
        objs, options, ns = ffx.build_case(case["code"])
        if options_override:
            options = dict(options, **options_override)
        forms = [o for o in objs if not isinstance(o, tuple)]
        if not forms or len(forms) != len(objs):
            out["status"] = "skipped"
            out["why"] = "expressions are handled by the expression oracle"
            return out
        if exact_ref is None:
            forms = [force_degrees(f, default_degree(f)) for f in forms]
        orig_forms = list(forms)
        if (options or {}).get("part") == "diagonal":
            # the rewriting compile_forms applies before code generation (diagonal blocks of mixed spaces)
            forms = ffx.jit_forms(forms, options)
        cap = ffx.compile_case(forms, options)
    except CaseTimeout:
        raise
    except BaseException as e:  # noqa: BLE001
        out["status"] = "rejected"
        out["error"] = f"{type(e).__name__}: {e}"[:300]
        return out
    scalar = str(cap.options["scalar_type"])
    b = runc.CBuild(cap.code[0], cap.code[1])
    if not b.ok:
        out["status"] = "gcc_failed"
        out["error"] = b.log[:400]
        return out
    for k in cap.kernels:
        kr = {"name": ffx.kernel_name(k)}
        try:
            con = ffx.kernel_contract(cap, k)
            fd, itg = ffx.integral_owner(cap, k["ir"])
            if con["mixed_mesh"]:
                raise oracle.Unsupported("several meshes")
            itype = con["integral_type"]
            sid = itg.subdomain_id[0]
            sid = -1 if sid in ("otherwise", "everywhere") else int(sid)
            ents = list(range(con["e_range"][0], max(con["e_range"][1], 1))) if con["ne"] else [0]
            if entity_mode == "random":
                ents = [int(rng.choice(ents))]
            worst = 0.0
            for ent in ents:
                e = [ent] * con["ne"]
                dd, wvals, cvals, cells = pack_inputs(cap, k, fd, itg, con, rng, scalar)
                if affine:
                    dd, cells = affine_geometry(dd, cells, con, itg.domain, rng)
                if itype == "interior_facet":
                    cells, dd = mirror_cells(cells, dd, con, ent, itg.domain, rng)
                fminus, sigma = None, None
                if renumber and itype == "interior_facet":
                    cells, dd, fminus, sigma = renumber_minus(cells, dd, con, ent, itg.domain, rng)
                    e = [ent, fminus]
                dd["e"][: len(e)] = e
                dd["p"][:] = 0          # identical local numbering on both sides: permutation code 0
                # prism facets have two types: a kernel exists per quadrature cell type
                if itype in ("exterior_facet", "interior_facet") and oracle.TDIM[con["cell"]] == 3 \
                        and oracle.facet_type(con["cell"], ent).name != k["domain"].name:
                    continue      # prism / pyramid: one kernel per facet type; this facet belongs to the other kernel
                A = np.zeros_like(dd["A"])
                runc.call_kernel(b.kernel(kr["name"]), A, dd["w"], dd["c"], dd["x"], dd["e"], dd["p"])
                sc = complex if "complex" in scalar else float
                candidates = [A]
                if fminus is not None:
                    # '+' keeps code 0; some code of the '-' side must make the points of both sides coincide
                    candidates = []
                    for code in range(max(con["p_range"][1], 1)):
                        dd["p"][:] = 0
                        if len(dd["p"]) > 1:
                            dd["p"][1] = code
                        Ak = np.zeros_like(dd["A"])
                        runc.call_kernel(b.kernel(kr["name"]), Ak, dd["w"], dd["c"], dd["x"], dd["e"], dd["p"])
                        candidates.append(Ak)
                oform = fd.original_form
                if k["ir"].part.name == "diagonal":
                    # diagonal of the form the user wrote, not of what compile_forms made of it
                    oform = orig_forms[[id(x) for x in cap.analysis.form_data].index(id(fd))]
                if exact_ref is not None:
                    # the kernel keeps FFCx's own degree estimate / metadata; the oracle integrates with a rule of
                    # degree exact_ref (exact for the polynomial integrands of these cases)
                    def _md(g):
                        md = dict(g.metadata() or {})
                        if md.get("quadrature_degree", -1) < 0 and md.get("quadrature_rule") != "custom":
                            md["quadrature_degree"] = exact_ref      # no degree requested: must be exact
                        return md
                    oform = ufl.Form([g.reconstruct(metadata=_md(g)) for g in oform.integrals()])
                grp = None
                if k["ir"].part.name != "diagonal":
                    # the integrals of exactly this kernel's integral-data group (several groups may serve one id)
                    gi = [id(x) for x in fd.integral_data].index(id(itg))
                    grp = oracle.group_integrals(fd.original_form, gi, itype, itg.subdomain_id, complex_mode=(sc is complex))
                    if grp is not None and exact_ref is not None:
                        grp = [g_.reconstruct(metadata=_md(g_)) for g_ in grp]
                exp = oracle.reference_tensor(oform, itype, sid, cells, wvals, cvals, e or [0], scalar=sc,
                                              diagonal=(k["ir"].part.name == "diagonal"), match_physical=fminus is not None,
                                              integrals=grp)
                exp = np.asarray(exp).reshape(-1)
                tol = (2e-4 if "32" in scalar or "64" == scalar[-2:] and "complex64" == scalar else 1e-9)
                tol = 2e-4 if scalar in ("float32", "complex64") else 1e-9
                scale = max(np.max(np.abs(exp)), 1e-3)    # inputs are O(1): below 1e-3 the comparison is absolute (tensors that vanish identically)
                if not np.all(np.isfinite(exp)):
                    raise oracle.Unsupported("the oracle's value is not finite for these data")
                # a kernel that returns NaN / inf where the specification is finite disagrees (NaN compares false with everything)
                errs = [float(np.max(np.abs(Ak - exp)) / scale) if np.all(np.isfinite(Ak)) else float("inf") for Ak in candidates]
                # a tensor that vanishes identically: kernel and oracle both return rounding noise whose size depends on
                # the magnitudes multiplied before the cancellation; with O(1) data anything below 1e-8 is zero
                errs = [0.0 if (np.max(np.abs(exp)) <= 1e-8 and np.max(np.abs(Ak)) <= 1e-8) else x for Ak, x in zip(candidates, errs)]
                err = min(errs)
                A = candidates[int(np.argmin(errs))]
                if fminus is not None:
                    kr.setdefault("codes", []).append({"sigma": sigma, "facets": [int(ent), int(fminus)], "matching_code": int(np.argmin(errs)),
                                                       "codes_within_tol": [i for i, x in enumerate(errs) if x <= tol],
                                                       "codes_by_convention": convention_codes(cells, con, ent, fminus, len(errs))})
                worst = max(worst, err)
                if err > tol:
                    kr.update(status="mismatch", entity=ent, error=err, observed=[complex(x) if sc is complex else float(x) for x in A[:12]],
                              expected=[complex(x) if sc is complex else float(x) for x in exp[:12]], integral_type=itype, subdomain=sid)
                    break
            else:
                kr.update(status="agree", error=worst, integral_type=itype, entities=len(ents))
        except oracle.Unsupported as e:
            kr.update(status="unsupported", why=str(e))
        except CaseTimeout:
            raise
        except Exception as e:  # noqa: BLE001
            kr.update(status="oracle_error", why=f"{type(e).__name__}: {e}", tb=traceback.format_exc()[-800:])
        out["kernels"].append(kr)
    return out


def affine_geometry(dd, cells, con, mesh, rng):
    """replace the random geometry by a random affine image of the reference cell (parallelogram /
    parallelepiped for tensor-product cells), all nodes of a higher-order geometry included."""
    import basix
    cp = cells[0]
    X = np.asarray(cp.be.points)          # reference positions of the geometry nodes
    tdim, gdim = cp.tdim, cp.gdim
    while True:
        B = np.round(rng.uniform(-1, 1, size=(gdim, tdim)) * 8) / 8 + np.eye(gdim, tdim)
        if abs(np.linalg.det(B.T @ B)) > 0.2:
            break
    b0 = np.round(rng.uniform(-1, 1, size=gdim) * 8) / 8
    P = X @ B.T + b0
    nn = P.shape[0]
    width = len(cells)
    for s in range(width):
        blk = np.zeros((nn, 3))
        blk[:, :gdim] = P
        dd["x"][s * 3 * nn:(s + 1) * 3 * nn] = blk.reshape(-1)
    cells = [oracle.Cell(mesh, dd["x"][s * 3 * nn:(s + 1) * 3 * nn]) for s in range(width)]
    return dd, cells


def cell_symmetries(cellname):
    """vertex permutations that are valid renumberings of the reference cell (sigma[new] = old)."""
    import itertools

    import basix
    ct = getattr(basix.CellType, cellname)
    G = np.asarray(basix.geometry(ct))
    nv, d = G.shape
    if cellname in ("interval", "triangle", "tetrahedron"):
        return [list(p) for p in itertools.permutations(range(nv))]
    out = []
    for axes in itertools.permutations(range(d)):
        for flips in itertools.product((0, 1), repeat=d):
            T = G[:, list(axes)]
            T = np.where(np.array(flips)[None, :] == 1, 1.0 - T, T)
            sig = [int(np.argmin(np.linalg.norm(G - T[i], axis=1))) for i in range(nv)]
            if sorted(sig) == list(range(nv)):
                out.append(sig)
    return out


def renumber_minus(cells, dd, con, ent, mesh, rng):
    """give the '-' cell (so far the mirror image of '+' with the same numbering) another valid local
    numbering; returns the new cells, data and the '-' local facet index of the shared facet."""
    import basix
    cm = cells[1]
    if cm.be.degree > 1:
        raise oracle.Unsupported("renumbering of higher-order geometry")
    ct = getattr(basix.CellType, cm.cellname)
    topo = basix.topology(ct)
    shared = set(topo[cm.tdim - 1][ent])
    syms = cell_symmetries(cm.cellname)
    sig = syms[int(rng.integers(0, len(syms)))]
    newc = cm.coords[sig]                      # new vertex i sits where old vertex sig[i] sat
    fminus = [f for f, vs in enumerate(topo[cm.tdim - 1]) if {sig[i] for i in vs} == shared]
    if len(fminus) != 1:
        raise oracle.Unsupported("renumbering does not keep the facet")
    nn = cm.coords.shape[0]
    pad = np.zeros((nn, 3))
    pad[:, : cm.gdim] = newc
    x = dd["x"].copy()
    x[3 * nn:] = pad.reshape(-1)
    dd["x"] = x
    return [cells[0], oracle.Cell(mesh, x[3 * nn:])], dd, fminus[0], sig


def mirror_cells(cells, dd, con, ent, mesh, rng):
    """'-' cell := '+' cell reflected through the hyperplane of its local facet `ent`
    (facet vertices fixed, same local numbering) so that both sides see the facet with the
    same parametrisation; non-vertex nodes of higher-order geometry are reflected too."""
    import basix
    cp = cells[0]
    cn = cp.cellname
    ct = getattr(basix.CellType, cn)
    tdim = cp.tdim
    fverts = basix.topology(ct)[tdim - 1][ent]
    P = cp.coords                      # nn x gdim (nodes; the first #vertices are the vertices)
    if cp.gdim != tdim:
        raise oracle.Unsupported("interior facets on manifolds")
    V = P[: len(basix.geometry(ct))]
    p0 = V[fverts[0]]
    if tdim == 1:
        nrm = np.array([1.0])
    elif tdim == 2:
        t = V[fverts[1]] - p0
        nrm = np.array([-t[1], t[0]])
    else:
        nrm = np.cross(V[fverts[1]] - p0, V[fverts[2]] - p0)
    nrm = nrm / np.linalg.norm(nrm)
    if cp.be.degree > 1:
        raise oracle.Unsupported("interior facets with non-affine geometry")
    Q = P - 2.0 * np.outer((P - p0) @ nrm, nrm)
    Q = np.round(Q * 2 ** 20) / 2 ** 20
    # facet vertices must stay exactly where they are
    for fv in fverts:
        Q[fv] = P[fv]
    nn = P.shape[0]
    x = dd["x"].copy()
    pad = np.zeros((nn, 3))
    pad[:, : cp.gdim] = Q
    x[3 * nn:] = pad.reshape(-1)
    dd["x"] = x
    return [cp, oracle.Cell(mesh, x[3 * nn:])], dd


def main():
    job = pickle.load(open(sys.argv[1], "rb"))
    signal.signal(signal.SIGALRM, _alarm)
    res = []
    for i, case in enumerate(job["cases"]):
        signal.alarm(int(job.get("timeout", 300)))
        try:
            if job.get("expressions"):
                r = check_expression_case(case, job.get("seed", 0) + i)
            else:
                r = check_case(case, job.get("seed", 0) + i, entity_mode=job.get("entity_mode", "random"),
                               options_override=job.get("options_override"), exact_ref=job.get("exact_ref"),
                               affine=job.get("affine", False), renumber=job.get("renumber", False))
        except CaseTimeout:
            r = {"id": case["id"], "code": case["code"], "status": "timeout", "kernels": []}
        except BaseException as e:  # noqa: BLE001
            r = {"id": case["id"], "code": case["code"], "status": "harness_error", "error": f"{type(e).__name__}: {e}" + traceback.format_exc()[-500:], "kernels": []}
        finally:
            signal.alarm(0)
        res.append(r)
    pickle.dump(res, open(sys.argv[2], "wb"))




def convention_codes(cells, con, ent, fminus, ncodes):
    """the permutation codes of the '-' side that ufcx.h's convention (code = 2*rotations + reflections, the points of the
    reference facet rotated `rotations` times and then reflected) assigns to this pair of numberings: the codes under
    which generic points of the reference facet, seen from '-', land on the physical points '+' sees with code 0.
    Computed from the geometry alone (permuted_facet_points is this harness's own reading of the convention)."""
    try:
        cn = cells[0].cellname
        tdim = cells[0].tdim
        if tdim < 2:
            return None
        ftype = oracle.facet_type(cn, ent).name
        pts = np.array([[0.125, 0.25], [0.5, 0.125], [0.25, 0.5625]])[:, : tdim - 1] if tdim == 3 else np.array([[0.125], [0.6875]])
        op, ap = oracle.facet_embedding(cn, ent)
        om, am = oracle.facet_embedding(cn, fminus)
        xp = np.array([cells[0].at(op + ap @ q)[0] for q in pts])
        saved = permuted_facet_points.simplex
        permuted_facet_points.simplex = (ftype == "triangle")
        good = []
        try:
            for code in range(ncodes):
                qm = permuted_facet_points(pts, code)
                xm = np.array([cells[1].at(om + am @ q)[0] for q in qm])
                if np.max(np.abs(xm - xp)) < 1e-9:
                    good.append(code)
        finally:
            permuted_facet_points.simplex = saved
        return good
    except Exception:  # noqa: BLE001
        return None


def permuted_facet_points(pts, code):
    """points of a reference facet under permutation code `code` (0 = as given)."""
    pts = np.array(pts, dtype=float)
    if code == 0:
        return pts
    if pts.shape[1] == 1:
        return 1.0 - pts if code % 2 else pts
    rot, ref = divmod(int(code), 2)
    out = []
    for (a, b_) in pts:
        for _ in range(rot):
            a, b_ = (b_, 1.0 - a - b_) if permuted_facet_points.simplex else (b_, 1.0 - a)
        if ref:
            a, b_ = b_, a
        out.append([a, b_])
    return np.array(out)


permuted_facet_points.simplex = True


def check_expression_case(case, seed):
    """expression kernels against oracle.reference_expression."""
    import ufl
    out = {"id": case["id"], "code": case["code"], "status": "ok", "kernels": []}
    rng = np.random.default_rng(seed)
    try:
        objs, options, ns = ffx.build_case(case["code"])
        exprs = [o for o in objs if isinstance(o, tuple)]
        if not exprs:
            out["status"] = "skipped"
            return out
        cap = ffx.compile_case(exprs, options)
    except CaseTimeout:
        raise
    except BaseException as e:  # noqa: BLE001
        out["status"] = "rejected"
        out["error"] = f"{type(e).__name__}: {e}"[:300]
        return out
    scalar = str(cap.options["scalar_type"])
    b = runc.CBuild(cap.code[0], cap.code[1])
    if not b.ok:
        out["status"] = "gcc_failed"
        out["error"] = b.log[:400]
        return out
    for k, (expr, points) in zip(cap.kernels, exprs):
        kr = {"name": ffx.kernel_name(k), "integral_type": "expression"}
        try:
            con = ffx.kernel_contract(cap, k)
            if con["mixed_mesh"]:
                raise oracle.Unsupported("several meshes")
            coeffs = ufl.algorithms.extract_coefficients(expr)
            consts = ufl.algorithms.analysis.extract_constants(expr)
            doms = ufl.domain.extract_domains(expr)
            if not doms:
                raise oracle.Unsupported("expression without a mesh")
            mesh = max(doms, key=lambda d: d.topological_dimension)
            ents = list(range(con["e_range"][0], max(con["e_range"][1], 1))) if con["ne"] else [None]
            worst = 0.0
            pts0 = np.asarray(points, dtype=float)
            cellname = mesh.ufl_cell().cellname
            cellname = cellname() if callable(cellname) else cellname
            tdim = oracle.TDIM[cellname]
            runs = []
            for ent in ents:
                ncodes = 1
                if ent is not None and tdim >= 2 and pts0.shape[1] == tdim - 1:
                    ncodes = 2 if tdim == 2 else {"triangle": 6, "quadrilateral": 8}[oracle.facet_type(cellname, ent).name]
                codes = [0] + ([int(q) for q in rng.choice(np.arange(1, ncodes), size=min(2, ncodes - 1), replace=False)] if ncodes > 1 else [])
                runs += [(ent, q) for q in codes]
            for ent, code in runs:
                dd = inputs.make(con, rng, scalar)
                # w holds the coefficients that survive differentiation (UFL's expand_derivatives), in the order of
                # the expression as written -- the packing the descriptor's original_coefficient_positions announces
                kept = ufl.algorithms.extract_coefficients(ufl.algorithms.expand_derivatives(expr))
                wvals, off = {}, 0
                for cf in coeffs:
                    n = int(cf.ufl_element().dim)
                    if cf in kept:
                        wvals[cf] = [dd["w"][off:off + n]]
                        off += n
                    else:
                        wvals[cf] = [np.round(rng.uniform(-1, 1, size=n) * 64) / 64]     # cannot influence the value
                cvals, off = {}, 0
                for c in consts:
                    n = int(np.prod(c.ufl_shape, dtype=int))
                    cvals[c] = dd["c"][off:off + n]
                    off += n
                xs = dd["x"]
                if xs.size == 0:
                    # the kernel takes no geometry (FFCx found the expression independent of it): the oracle still
                    # evaluates on a random cell, so that a wrongly dropped dependence shows
                    import basix
                    g = np.asarray(mesh.ufl_coordinate_element().basix_element.points if hasattr(mesh.ufl_coordinate_element(), "basix_element")
                                   else mesh.ufl_coordinate_element()._sub_element.basix_element.points)
                    g = g + np.round(rng.uniform(-0.125, 0.125, size=g.shape) * 64) / 64
                    xs = np.zeros((g.shape[0], 3))
                    xs[:, :g.shape[1]] = g
                    xs = xs.reshape(-1)
                cell = oracle.Cell(mesh, xs)
                if ent is not None:
                    dd["e"][0] = ent
                dd["p"][:] = 0
                dd["p"][0] = code
                A = np.zeros_like(dd["A"])
                runc.call_kernel(b.kernel(kr["name"]), A, dd["w"], dd["c"], dd["x"], dd["e"], dd["p"])
                # permutation code q of a facet: output row i holds the value at the i-th point as the neighbour
                # numbers the facet (code = 2*rotations + reflections; rotate first)
                permuted_facet_points.simplex = ent is not None and tdim == 3 and oracle.facet_type(cellname, ent).name == "triangle"
                exp = oracle.reference_expression(expr, permuted_facet_points(pts0, code), cell, wvals, cvals, entity=ent).reshape(-1)
                tol = 2e-4 if scalar in ("float32", "complex64") else 1e-9
                scale = max(np.max(np.abs(exp)), 1e-3)    # inputs are O(1): below 1e-3 the comparison is absolute (tensors that vanish identically)
                if not np.all(np.isfinite(exp)):
                    raise oracle.Unsupported("the oracle's value is not finite for these data")
                err = float(np.max(np.abs(A - exp)) / scale) if A.shape == exp.shape and np.all(np.isfinite(A)) else float("inf")
                if A.shape == exp.shape and np.max(np.abs(exp)) <= 1e-8 and np.max(np.abs(A)) <= 1e-8:
                    err = 0.0      # identically vanishing value: rounding noise on both sides
                worst = max(worst, err)
                if err > tol:
                    kr.update(status="mismatch", entity=ent, permutation_code=code, error=err, observed=[float(x) for x in np.real(A[:12])],
                              expected=[float(x) for x in np.real(exp[:12])])
                    break
            else:
                kr.update(status="agree", error=worst, entities=len(ents), runs=len(runs), nonzero_codes=sum(1 for _, q in runs if q))
        except oracle.Unsupported as e:
            kr.update(status="unsupported", why=str(e))
        except CaseTimeout:
            raise
        except Exception as e:  # noqa: BLE001
            kr.update(status="oracle_error", why=f"{type(e).__name__}: {e}", tb=traceback.format_exc()[-800:])
        out["kernels"].append(kr)
    return out


if __name__ == "__main__":
    main()
