"""Corpus of FFCx inputs: pinned cases (touch every cell / integral type / element kind
once) and a seeded random generator.  A case is {"id", "code"}; see ffx.build_case."""

from __future__ import annotations

import random

CELLS = ["interval", "triangle", "quadrilateral", "tetrahedron", "hexahedron", "prism", "pyramid"]
SIMPLEX = ["interval", "triangle", "tetrahedron"]
TDIM = {"interval": 1, "triangle": 2, "quadrilateral": 2, "tetrahedron": 3, "hexahedron": 3,
        "prism": 3, "pyramid": 3}


def _c(id_, code):
    return {"id": id_, "code": code.strip() + "\n"}


PINNED = [
    _c("mass_tri_p1", '''
m=mesh("triangle"); V=space(m,"P",1); u,v=TrialFunction(V),TestFunction(V)
objs=[inner(u,v)*dx]'''),
    _c("stiff_tri_p2_coef", '''
m=mesh("triangle"); V=space(m,"P",2); u,v=TrialFunction(V),TestFunction(V); f=Coefficient(V); k=Constant(m)
objs=[k*f*inner(grad(u),grad(v))*dx]'''),
    _c("rhs_tet_p2", '''
m=mesh("tetrahedron"); V=space(m,"P",2); v=TestFunction(V); f=Coefficient(V)
objs=[f*v*dx]'''),
    _c("functional_int_p3", '''
m=mesh("interval"); V=space(m,"P",3); f=Coefficient(V)
objs=[f*f*dx]'''),
    _c("mass_quad_q2_nonaffine", '''
m=mesh("quadrilateral",2); V=space(m,"Q",2); u,v=TrialFunction(V),TestFunction(V)
objs=[inner(u,v)*dx]'''),
    _c("stiff_hex_q1", '''
m=mesh("hexahedron"); V=space(m,"Q",1); u,v=TrialFunction(V),TestFunction(V)
objs=[inner(grad(u),grad(v))*dx]'''),
    _c("mass_prism_p1", '''
m=mesh("prism"); V=space(m,"P",1); u,v=TrialFunction(V),TestFunction(V)
objs=[inner(u,v)*dx]'''),
    _c("mass_pyramid_p1", '''
m=mesh("pyramid"); V=space(m,"P",1); u,v=TrialFunction(V),TestFunction(V)
objs=[inner(u,v)*dx]'''),
    _c("vector_tri_elasticity", '''
m=mesh("triangle"); V=space(m,"P",1,shape=(2,)); u,v=TrialFunction(V),TestFunction(V)
objs=[inner(sym(grad(u)),sym(grad(v)))*dx]'''),
    _c("tensor_const_tri", '''
m=mesh("triangle"); V=space(m,"P",1); u,v=TrialFunction(V),TestFunction(V)
K=Constant(m,shape=(2,2)); b=Constant(m,shape=(2,))
objs=[inner(K*grad(u),grad(v))*dx + dot(b,grad(u))*v*dx]'''),
    _c("mixed_tri_th", '''
m=mesh("triangle"); P2=el("P","triangle",2,shape=(2,)); P1=el("P","triangle",1)
W=FunctionSpace(m,basix.ufl.mixed_element([P2,P1]))
(u,p)=TrialFunctions(W); (v,q)=TestFunctions(W)
objs=[inner(grad(u),grad(v))*dx - p*div(v)*dx - q*div(u)*dx]'''),
    _c("n1curl_tet", '''
m=mesh("tetrahedron"); V=space(m,"N1curl",1); u,v=TrialFunction(V),TestFunction(V)
objs=[inner(curl(u),curl(v))*dx + inner(u,v)*dx]'''),
    _c("rt_tri_divdiv", '''
m=mesh("triangle"); V=space(m,"RT",1); u,v=TrialFunction(V),TestFunction(V)
objs=[div(u)*div(v)*dx + inner(u,v)*dx]'''),
    _c("dg0_coef_tri", '''
m=mesh("triangle"); V=space(m,"P",1); D=space(m,"DP",0); u,v=TrialFunction(V),TestFunction(V); k=Coefficient(D)
objs=[k*inner(grad(u),grad(v))*dx]'''),
    _c("ext_facet_tri_normal", '''
m=mesh("triangle"); V=space(m,"P",2); v=TestFunction(V); f=Coefficient(V); n=FacetNormal(m)
objs=[f*dot(grad(v),n)*ds]'''),
    _c("ext_facet_tet_mass", '''
m=mesh("tetrahedron"); V=space(m,"P",1); u,v=TrialFunction(V),TestFunction(V)
objs=[u*v*ds]'''),
    _c("ext_facet_hex", '''
m=mesh("hexahedron"); V=space(m,"Q",1); u,v=TrialFunction(V),TestFunction(V); f=Coefficient(V)
objs=[f*u*v*ds]'''),
    _c("ext_facet_prism", '''
m=mesh("prism"); V=space(m,"P",1); u,v=TrialFunction(V),TestFunction(V)
objs=[u*v*ds]'''),
    _c("int_facet_tri_jump", '''
m=mesh("triangle"); V=space(m,"DP",1); u,v=TrialFunction(V),TestFunction(V); f=Coefficient(V)
objs=[avg(f)*jump(u)*jump(v)*dS]'''),
    _c("int_facet_tet_dg_grad", '''
m=mesh("tetrahedron"); V=space(m,"DP",1); u,v=TrialFunction(V),TestFunction(V); n=FacetNormal(m)
objs=[inner(jump(grad(u)),n('+'))*avg(v)*dS]'''),
    _c("int_facet_quad", '''
m=mesh("quadrilateral"); V=space(m,"DQ",1); u,v=TrialFunction(V),TestFunction(V)
objs=[jump(u)*jump(v)*dS]'''),
    _c("int_facet_hex_q1", '''
m=mesh("hexahedron"); V=space(m,"DQ",1); u,v=TrialFunction(V),TestFunction(V)
objs=[jump(u)*jump(v)*dS]'''),
    _c("int_facet_interval", '''
m=mesh("interval"); V=space(m,"DP",1); u,v=TrialFunction(V),TestFunction(V)
objs=[jump(u)*jump(v)*dS]'''),
    _c("vertex_tri", '''
m=mesh("triangle"); V=space(m,"P",1); v=TestFunction(V); f=Coefficient(V)
objs=[f*v*dP]'''),
    _c("conditional_tri", '''
m=mesh("triangle"); V=space(m,"P",1); v=TestFunction(V); f=Coefficient(V); g=Coefficient(V)
objs=[conditional(gt(f,g),f,g)*sqrt(abs(f)+1.0)*v*dx]'''),
    # conditions at exact ties (both sides are the same expression): the boundary case of every comparison operator,
    # which random data never hits
    _c("condition_ties_tri", '''
m=mesh("triangle"); V=space(m,"P",1); v=TestFunction(V); f=Coefficient(V)
t=lambda c: conditional(c, 1.0, 2.0)
objs=[(t(le(f,f))+3*t(ge(f,f))+5*t(lt(f,f))+7*t(gt(f,f))+11*t(eq(f,f))+13*t(ne(f,f))+17*t(And(le(f,f),ge(f,f)))+19*t(Or(lt(f,f),gt(f,f)))+23*t(Not(le(f,f))))*v*dx]'''),
    # a custom rule on a tiny cut of the cell: every weight is ~1e-13 (tables whose entries are all very small must keep
    # their relative precision in every backend)
    _c("tiny_custom_weights_tri", '''
m=mesh("triangle"); V=space(m,"P",2); u,v=TrialFunction(V),TestFunction(V); f=Coefficient(V)
h=2.0**-21; P=h*np.array([[0.25,0.25],[0.5,0.125],[0.125,0.625]]); W=h*h*np.array([0.171875,0.1640625,0.1640625])
objs=[f*u*v*dx(metadata={"quadrature_rule":"custom","quadrature_points":P,"quadrature_weights":W})]'''),
    # one integral, several kernels (facets of two shapes), with coefficients and constants: per-kernel file-scope objects
    _c("prism_ds_coefficient", '''
m=mesh("prism"); V=space(m,"P",1); u,v=TrialFunction(V),TestFunction(V); f=Coefficient(V); k=Constant(m)
objs=[f*v*ds + k*f*v*dx, f*u*v*ds(1) + u*v*ds(2)]'''),
    _c("pyramid_ds_coefficient", '''
m=mesh("pyramid"); V=space(m,"P",1); v=TestFunction(V); f=Coefficient(V)
objs=[f*f*v*ds]'''),
    # facet integrals with two rules, one of them with a single point (values under the one-point rule stay in its loop)
    _c("two_rules_one_point_ds", '''
m=mesh("triangle"); V=space(m,"P",1); v=TestFunction(V); f=Coefficient(V)
objs=[v*ds(degree=1) + f*v*ds(degree=2) + f.dx(0)*v*ds(degree=1)]'''),
    _c("two_rules_one_point_dS", '''
m=mesh("triangle"); V=space(m,"P",1); v=TestFunction(V); f=Coefficient(V)
objs=[avg(v)*dS(degree=1) + avg(f)*avg(v)*dS(degree=2) + jump(grad(f),FacetNormal(m))*avg(v)*dS(degree=1)]'''),
    _c("two_rules_one_point_tet_ds", '''
m=mesh("tetrahedron"); V=space(m,"P",1); u,v=TrialFunction(V),TestFunction(V); f=Coefficient(V)
objs=[u*v*ds(degree=1) + f*u*v*ds(degree=3)]'''),
    # mixed derivatives of order three (components that differ only in how often each direction occurs), 2D and 3D
    _c("third_derivatives_mixed_tri", '''
m=mesh("triangle"); V=space(m,"P",3); u,v=TrialFunction(V),TestFunction(V); f=Coefficient(V)
objs=[f.dx(0).dx(1).dx(1)*v*dx(degree=2) + f.dx(0).dx(0).dx(1)*v.dx(1)*dx(degree=2), u.dx(1).dx(1).dx(0)*v.dx(0).dx(0).dx(1)*dx(degree=2), grad(grad(grad(f)))[1,1,1]*dx(degree=1)]'''),
    _c("third_derivatives_mixed_tet", '''
m=mesh("tetrahedron"); V=space(m,"P",3); v=TestFunction(V); f=Coefficient(V)
objs=[(f.dx(0).dx(1).dx(2) + 2*f.dx(0).dx(0).dx(1) + 3*f.dx(0).dx(1).dx(1) + 5*f.dx(2).dx(2).dx(0))*v*dx(degree=1)]'''),
    # a coefficient in a real (global constant) space on interior facets, numbered before another coefficient and read on both sides
    _c("real_coefficient_interior_facet", '''
m=mesh("triangle"); R=FunctionSpace(m,basix.ufl.real_element("triangle",())); V=space(m,"DP",1); r=Coefficient(R); f=Coefficient(V); v=TestFunction(V)
objs=[r*jump(f)*avg(v)*dS + r('-')*f('+')*v('-')*dS + r*f*v*dx]'''),
    # several constants (scalar, vector, matrix) used in an interior-facet integral, the later ones included
    _c("constants_interior_facet", '''
m=mesh("triangle"); V=space(m,"DP",1); u,v=TrialFunction(V),TestFunction(V); a=Constant(m); b=Constant(m); M=Constant(m, shape=(2,2)); w=Constant(m, shape=(2,))
objs=[a*u*v*dx + b*jump(u)*jump(v)*dS + inner(M*grad(u)('+'), w)*avg(v)*dS + b*u*v*ds, b*avg(v)*dS + w[1]*v('-')*dS]'''),
    # interior facets with DIFFERENT test and trial spaces (the macro tensor is 2*dim(test) x 2*dim(trial)), both orders
    _c("int_facet_different_test_trial_spaces", '''
m=mesh("triangle"); V2=space(m,"DP",2); V1=space(m,"DP",1); u1,v2=TrialFunction(V1),TestFunction(V2); u2,v1=TrialFunction(V2),TestFunction(V1)
objs=[u1('+')*v2('-')*dS + 2*u1('-')*v2('+')*dS + 3*u1('+')*v2('+')*dS + 5*u1('-')*v2('-')*dS, jump(u2)*avg(v1)*dS + u2('-')*v1('-')*dS]'''),
    _c("mathfun_tri", '''
m=mesh("triangle"); V=space(m,"P",1); f=Coefficient(V)
objs=[exp(f)*sin(f)*dx + ln(f*f+2.0)*dx]'''),
    _c("spatial_coord_tri", '''
m=mesh("triangle"); V=space(m,"P",1); v=TestFunction(V); x=SpatialCoordinate(m)
objs=[x[0]*x[1]*v*dx]'''),
    _c("manifold_tri_3d", '''
m=mesh("triangle",1,3); V=space(m,"P",1); u,v=TrialFunction(V),TestFunction(V)
objs=[inner(grad(u),grad(v))*dx]'''),
    _c("two_rules_tri", '''
m=mesh("triangle"); V=space(m,"P",2); v=TestFunction(V); f=Coefficient(V)
objs=[f*v*dx(degree=2) + f*f*v*dx(degree=4)]'''),
    _c("subdomains_tri", '''
m=mesh("triangle"); V=space(m,"P",1); u,v=TrialFunction(V),TestFunction(V); f=Coefficient(V); g=Coefficient(V)
objs=[f*u*v*dx(1) + g*u*v*dx(2) + u*v*dx + u*v*ds(3)]'''),
    _c("unused_coefficient", '''
m=mesh("triangle"); V=space(m,"P",1); u,v=TrialFunction(V),TestFunction(V); f=Coefficient(V); g=Coefficient(V)
objs=[f*u*v*dx(1) + g*u*v*ds(2)]'''),
    _c("sumfact_hex_q2", '''
m=tpmesh("hexahedron"); V=FunctionSpace(m,tp("hexahedron",2)); u,v=TrialFunction(V),TestFunction(V)
objs=[inner(grad(u),grad(v))*dx]
options={"sum_factorization": True}'''),
    _c("sumfact_quad_coef", '''
m=tpmesh("quadrilateral"); V=FunctionSpace(m,tp("quadrilateral",2)); u,v=TrialFunction(V),TestFunction(V); f=Coefficient(V)
objs=[f*inner(u,v)*dx]
options={"sum_factorization": True}'''),
    _c("diagonal_tri", '''
m=mesh("triangle"); V=space(m,"P",2); u,v=TrialFunction(V),TestFunction(V)
objs=[inner(grad(u),grad(v))*dx]
options={"part": "diagonal"}'''),
    _c("expr_grad_tri", '''
m=mesh("triangle"); V=space(m,"P",2); f=Coefficient(V)
objs=[(grad(f), np.array([[0.25,0.25],[0.5,0.1]]))]'''),
    _c("expr_rank1_tri", '''
m=mesh("triangle"); V=space(m,"P",1); u=TrialFunction(V); k=Constant(m)
objs=[(k*grad(u), np.array([[0.25,0.25],[0.5,0.1],[0.1,0.7]]))]'''),
    _c("expr_facet_tet", '''
m=mesh("tetrahedron"); V=space(m,"P",1); f=Coefficient(V); n=FacetNormal(m)
objs=[(f*n, np.array([[0.25,0.25],[0.5,0.1]]))]'''),
    _c("quadrature_element_tri", '''
m=mesh("triangle"); Q=FunctionSpace(m,basix.ufl.quadrature_element("triangle",degree=2)); V=space(m,"P",1)
q=Coefficient(Q); v=TestFunction(V)
objs=[q*v*dx(metadata={"quadrature_degree":2})]'''),
    _c("real_space_tri", '''
m=mesh("triangle"); V=space(m,"P",1); R=FunctionSpace(m,basix.ufl.real_element("triangle",()))
u=TrialFunction(V); r=TestFunction(R)
objs=[u*r*dx]'''),
    _c("enriched_bubble_tri", '''
m=mesh("triangle"); E=basix.ufl.enriched_element([el("P","triangle",1),el("Bubble","triangle",3)])
V=FunctionSpace(m,E); u,v=TrialFunction(V),TestFunction(V)
objs=[inner(grad(u),grad(v))*dx]'''),
    _c("symmetric_tensor_tri", '''
m=mesh("triangle"); V=space(m,"P",1,shape=(2,2),symmetry=True); S=Coefficient(V); W=space(m,"P",1); v=TestFunction(W)
objs=[tr(S)*v*dx + S[0,1]*v*dx]'''),
    _c("complex_helmholtz_tri", '''
m=mesh("triangle"); V=space(m,"P",1); u,v=TrialFunction(V),TestFunction(V); k=Constant(m); f=Coefficient(V)
objs=[inner(grad(u),grad(v))*dx - k*k*inner(u,v)*dx + 1j*f*inner(u,v)*ds]
options={"scalar_type":"complex128"}'''),
    _c("float32_mass_tri", '''
m=mesh("triangle"); V=space(m,"P",2); u,v=TrialFunction(V),TestFunction(V); f=Coefficient(V)
objs=[f*inner(u,v)*dx]
options={"scalar_type":"float32"}'''),
    _c("cellvolume_circumradius", '''
m=mesh("triangle"); V=space(m,"P",1); v=TestFunction(V)
objs=[CellVolume(m)*v*dx + Circumradius(m)*v*ds + FacetArea(m)*v*ds]'''),
    _c("vertex_scheme_tri", '''
m=mesh("triangle"); V=space(m,"P",1); u,v=TrialFunction(V),TestFunction(V)
objs=[u*v*dx(scheme="vertex",degree=1)]'''),
    _c("expr_literal_components", '''
m=mesh("triangle"); V=space(m,"P",2); f=Coefficient(V); k=Constant(m); x=SpatialCoordinate(m)
objs=[(as_vector((f, k*f, 1.0)), np.array([[0.25,0.25],[0.5,0.125]])), (grad(x), np.array([[0.125,0.5]])), (Identity(2)*f + as_matrix(((0.0,2.0),(x[0],0.5))), np.array([[0.25,0.5]]))]'''),
    _c("expr_condition_ties", '''
m=mesh("triangle"); V=space(m,"P",2); f=Coefficient(V)
t=lambda c: conditional(c, 1.0, 2.0)
objs=[(as_vector((t(le(f,f)), t(lt(f,f)), t(ge(f,f)), t(gt(f,f)), t(eq(f,f)), t(ne(f,f)), t(Not(ge(f,f))))), np.array([[0.25,0.25],[0.5,0.125]]))]'''),
    # constants / coefficients whose UFL counts straddle a power of ten (c_9 | c_10, w_99 | w_100): numeric and textual
    # order of their names differ
    _c("expr_constants_9_10", '''
m=mesh("triangle"); x=SpatialCoordinate(m); a=Constant(m, count=9); b=Constant(m, count=10); s=Constant(m, shape=(2,), count=99); r=Constant(m, count=100)
objs=[(as_vector((a*x[0], b*x[1]+s[1], r*s[0])), np.array([[0.25,0.25],[0.5,0.125]]))]'''),
    _c("form_constants_coefficients_9_10", '''
m=mesh("triangle"); V=space(m,"P",1); W=space(m,"P",2); v=TestFunction(V); a=Constant(m, count=9); b=Constant(m, count=10)
f=Coefficient(V, count=99); g=Coefficient(W, count=100)
objs=[(a*f + b*g*g)*v*dx + b*f*v*ds]'''),
    # expressions in which preprocessing removes a coefficient that is numbered before a surviving one (w holds the survivors only)
    _c("expr_coefficient_eliminated_first", '''
m=mesh("triangle"); D=space(m,"DP",0); V=space(m,"P",2); k=Coefficient(D); g=Coefficient(V); h=Coefficient(V)
objs=[(g + (k+h).dx(0), np.array([[0.25,0.25],[0.5,0.125]])), (as_vector([g*h, grad(k+g)[1]*h]), np.array([[0.125,0.5]]))]'''),
    _c("expr_coefficient_eliminated_by_variable_derivative", '''
m=mesh("triangle"); V=space(m,"P",1); u=Coefficient(V); g=Coefficient(V); h=Coefficient(V); uv=ufl.variable(u)
objs=[(ufl.diff(uv*g + h, uv) + h, np.array([[0.25,0.25],[0.5,0.125]]))]'''),
    # the full Hessian of a coefficient (both mixed components) and of an argument, as expressions
    _c("expr_hessian_tri", '''
m=mesh("triangle"); V=space(m,"P",2); f=Coefficient(V); u=TrialFunction(V)
objs=[(grad(grad(f)), np.array([[0.25,0.25],[0.5,0.125]])), (grad(grad(u))[0,1] + grad(grad(u))[1,0] + f.dx(0).dx(1)*u, np.array([[0.125,0.5]]))]'''),
    _c("expr_literal_rank1", '''
m=mesh("tetrahedron"); V=space(m,"P",1); u=TrialFunction(V); x=SpatialCoordinate(m)
objs=[(as_vector((u, 2.0*u, u.dx(1))), np.array([[0.25,0.25,0.125]])), (grad(x)[0,:]*u, np.array([[0.125,0.5,0.25]]))]'''),
    # parent mesh and sub-mesh of codimension 0 in one integrand (test_submesh.py style)
    _c("submesh_codim0_two_coordinates", '''
m=mesh("triangle"); ms=mesh("triangle"); V=space(m,"P",1); Vs=space(ms,"P",1)
u=TrialFunction(V); v=TestFunction(Vs); x=SpatialCoordinate(m); y=SpatialCoordinate(ms); f=Coefficient(Vs)
objs=[(x[0] + y[0]*y[1])*inner(u,v)*dx(domain=m) + f*inner(grad(u),grad(v))*dx(domain=m)]'''),
    # less common elements, maps, geometric quantities, integral types (added to widen every property's corpus)
    _c("exo_cr_tri", '''
m=mesh("triangle"); V=space(m,"CR",1); u,v=TrialFunction(V),TestFunction(V); f=Coefficient(V)
objs=[f*inner(grad(u),grad(v))*dx + jump(u)*jump(v)*dS]'''),
    _c("exo_regge_tri", '''
m=mesh("triangle"); V=space(m,"Regge",1); u,v=TrialFunction(V),TestFunction(V)
objs=[inner(u,v)*dx]'''),
    _c("exo_hhj_tri", '''
m=mesh("triangle"); V=space(m,"HHJ",1); u,v=TrialFunction(V),TestFunction(V)
objs=[inner(u,v)*dx]'''),
    _c("exo_serendipity_quad", '''
m=mesh("quadrilateral"); V=space(m,"S",2); u,v=TrialFunction(V),TestFunction(V)
objs=[inner(grad(u),grad(v))*dx]'''),
    _c("exo_dpc_quad", '''
m=mesh("quadrilateral"); V=space(m,"DPC",1); u,v=TrialFunction(V),TestFunction(V)
objs=[u*v*dx + jump(u)*jump(v)*dS]'''),
    _c("exo_n2curl_tet", '''
m=mesh("tetrahedron"); V=space(m,"N2curl",1); u,v=TrialFunction(V),TestFunction(V)
objs=[inner(curl(u),curl(v))*dx + inner(u,v)*ds]'''),
    _c("exo_bubble_enriched", '''
m=mesh("triangle"); B=el("Bubble","triangle",3); P=el("P","triangle",1); V=FunctionSpace(m,basix.ufl.enriched_element([P,B])); u,v=TrialFunction(V),TestFunction(V)
objs=[inner(grad(u),grad(v))*dx]'''),
    _c("exo_nested_mixed", '''
m=mesh("triangle"); P1=el("P","triangle",1); P2v=el("P","triangle",2,shape=(2,)); M1=basix.ufl.mixed_element([P2v,P1]); M2=basix.ufl.mixed_element([M1,P1])
W=FunctionSpace(m,M2); w=Coefficient(W); t=TestFunction(W)
objs=[inner(w,t)*dx]'''),
    _c("exo_real_space", '''
m=mesh("triangle"); V=space(m,"P",1); R=FunctionSpace(m,basix.ufl.real_element("triangle",())); u=TrialFunction(V); r=TestFunction(R); c=Coefficient(R)
objs=[u*r*dx, c*u*r*dx]'''),
    _c("exo_third_derivative", '''
m=mesh("interval"); V=space(m,"P",4); u,v=TrialFunction(V),TestFunction(V)
objs=[u.dx(0).dx(0).dx(0)*v.dx(0)*dx]'''),
    _c("exo_geometry_zoo_tet", '''
m=mesh("tetrahedron"); V=space(m,"P",1); v=TestFunction(V)
from ufl.classes import ReferenceCellVolume, ReferenceFacetVolume, JacobianInverse, JacobianDeterminant, Jacobian, CellFacetJacobian, FacetJacobian, FacetJacobianDeterminant, ReferenceNormal, CellOrientation
objs=[ReferenceCellVolume(m)*JacobianDeterminant(m)*v*dx + JacobianInverse(m)[0,1]*Jacobian(m)[1,0]*v*dx, ReferenceFacetVolume(m)*FacetJacobianDeterminant(m)*v*ds + CellFacetJacobian(m)[0,1]*FacetJacobian(m)[2,0]*ReferenceNormal(m)[1]*v*ds]'''),
    _c("exo_manifold_cellnormal", '''
m=mesh("triangle",1,3); V=space(m,"P",1); v=TestFunction(V); n=CellNormal(m)
objs=[n[2]*v*dx]'''),
    _c("exo_derivative_action", '''
m=mesh("triangle"); V=space(m,"P",2); u=Coefficient(V); v=TestFunction(V); du=TrialFunction(V)
F=(1+u*u)*inner(grad(u),grad(v))*dx - sin(u)*v*dx
objs=[derivative(F,u,du), action(derivative(F,u,du),u), adjoint(derivative(F,u,du))]'''),
    _c("exo_p3_geometry_tet", '''
m=mesh("tetrahedron",3); V=space(m,"P",1); u,v=TrialFunction(V),TestFunction(V)
objs=[inner(grad(u),grad(v))*dx + u*v*ds]'''),
    _c("exo_interval_vertex_2d", '''
m=mesh("interval",1,2); V=space(m,"P",2); v=TestFunction(V); f=Coefficient(V)
objs=[f*v*dP + f*v*ds]'''),
    _c("exo_ridge", '''
m=mesh("tetrahedron"); V=space(m,"P",1); v=TestFunction(V); f=Coefficient(V)
objs=[f*v*Measure("dr", domain=m)]'''),
    _c("exo_tensor_constant_shapes", '''
m=mesh("tetrahedron"); V=space(m,"P",1,shape=(3,)); u,v=TrialFunction(V),TestFunction(V); K=Constant(m,shape=(3,3)); b=Constant(m,shape=(3,)); T4=Constant(m,shape=(3,3,3,3))
objs=[inner(K*grad(u)*K.T + outer(b,u), grad(v))*dx + T4[0,1,2,0]*inner(u,v)*dx]'''),
    _c("two_forms_module", '''
m=mesh("triangle"); V=space(m,"P",1); u,v=TrialFunction(V),TestFunction(V); f=Coefficient(V)
objs=[inner(grad(u),grad(v))*dx, f*v*dx, f*f*dx]'''),
    _c("conditional_branches_with_different_arguments", '''
m=mesh("triangle"); V=space(m,"P",2); u,v=TrialFunction(V),TestFunction(V); f=Coefficient(V); g=Coefficient(V)
objs=[conditional(gt(f,0.53125), u*v, u.dx(0)*v)*dx, conditional(lt(f,g), v, 0.0)*g*dx + conditional(gt(f,0.53125), v.dx(1), f*v)*dx,
      conditional(gt(f,0.53125), u, 0.0)*v*ds]'''),
    _c("conditional_upwind_dg", '''
m=mesh("triangle"); V=space(m,"DP",1); u,v=TrialFunction(V),TestFunction(V); f=Coefficient(V); n=FacetNormal(m); b=as_vector([1.0,0.53125])
objs=[conditional(gt(dot(b,n('+')),0.03125), u('+'), u('-'))*jump(v)*dS, conditional(gt(f('+'),f('-')), v('+'), v('-'))*f('+')*dS]'''),
    _c("geometry_both_sides_3d", '''
m=mesh("tetrahedron"); V=space(m,"DP",1); v=TestFunction(V); f=Coefficient(V)
mh=mesh("hexahedron"); Vh=space(mh,"DQ",1); vh=TestFunction(Vh)
objs=[MinFacetEdgeLength(m)('-')*dS + MaxFacetEdgeLength(m)('+')*MaxFacetEdgeLength(m)('-')*f('+')*dS, (CellDiameter(m)('-') + Circumradius(m)('+') + MinCellEdgeLength(m)('-'))*v('+')*dS,
      (MaxFacetEdgeLength(mh)('-') + MinFacetEdgeLength(mh)('+'))*vh('-')*dS]'''),
    _c("exo_iso_macro_element", '''
m=mesh("triangle"); E=basix.ufl.element("iso","triangle",1); V=FunctionSpace(m,E); u,v=TrialFunction(V),TestFunction(V); f=Coefficient(space(m,"P",2))
objs=[f*inner(grad(u),grad(v))*dx + inner(u,v)*dx, f*v*ds]'''),
    _c("exo_lagrange_variants", '''
m=mesh("quadrilateral"); E=basix.ufl.element("P","quadrilateral",2,lagrange_variant=basix.LagrangeVariant.legendre,discontinuous=True); V=FunctionSpace(m,E); u,v=TrialFunction(V),TestFunction(V)
mt=mesh("tetrahedron"); Et=basix.ufl.element("P","tetrahedron",3,lagrange_variant=basix.LagrangeVariant.gll_warped); Vt=FunctionSpace(mt,Et); vt=TestFunction(Vt); ft=Coefficient(Vt)
objs=[inner(u,v)*dx + inner(grad(u),grad(v))*dx, ft*ft*vt*dx + ft*vt*ds]'''),
    _c("exo_bessel_first_second_kind", '''
m=mesh("triangle"); V=space(m,"P",1); v=TestFunction(V); f=Coefficient(V)
objs=[(bessel_J(1,f)+bessel_J(0,2.0*f)+bessel_Y(0,f*f+0.5)+bessel_Y(2,f*f+1.5))*v*dx]'''),
    _c("exo_bubble_enriched_vector", '''
m=mesh("triangle"); E=basix.ufl.blocked_element(basix.ufl.enriched_element([el("P","triangle",1), el("Bubble","triangle",3)]), shape=(2,)); V=FunctionSpace(m,E); u,v=TrialFunction(V),TestFunction(V); f=Coefficient(V)
objs=[inner(grad(u),grad(v))*dx + inner(u,v)*ds, inner(f,v)*ds + div(f)*v[0]*dx]'''),
    _c("exo_symmetric_tensor_3d", '''
m=mesh("tetrahedron"); E=basix.ufl.element("P","tetrahedron",1,shape=(3,3),symmetry=True); V=FunctionSpace(m,E); s=Coefficient(V); t=TestFunction(V); u=TrialFunction(V)
objs=[inner(s,t)*dx + s[0,2]*t[2,0]*ds, inner(u,t)*dx + u[1,2]*t[2,1]*dx]'''),
    _c("exo_serendipity_hex", '''
m=mesh("hexahedron"); V=space(m,"S",2); u,v=TrialFunction(V),TestFunction(V)
objs=[inner(grad(u),grad(v))*dx]'''),
]


# ---------------------------------------------------------------------------
# seeded random generator

FAMILIES = {
    "interval": [("P", 1), ("P", 2), ("P", 3), ("DP", 0), ("DP", 1)],
    "triangle": [("P", 1), ("P", 2), ("P", 3), ("DP", 0), ("DP", 1), ("DP", 2)],
    "quadrilateral": [("Q", 1), ("Q", 2), ("DQ", 0), ("DQ", 1)],
    "tetrahedron": [("P", 1), ("P", 2), ("DP", 0), ("DP", 1)],
    "hexahedron": [("Q", 1), ("Q", 2), ("DQ", 0), ("DQ", 1)],
    "prism": [("P", 1)],
    "pyramid": [("P", 1)],
}
VEC_FAMILIES = {"triangle": [("N1curl", 1), ("RT", 1), ("BDM", 1)],
                "tetrahedron": [("N1curl", 1), ("RT", 1)]}


def random_case(rng: random.Random, n: int):
    cell = rng.choice(CELLS if rng.random() < 0.8 else ["triangle", "tetrahedron", "quadrilateral"])
    tdim = TDIM[cell]
    cdeg = 2 if (rng.random() < 0.2 and cell in ("triangle", "quadrilateral", "tetrahedron", "interval")) else 1
    gdim = tdim + 1 if (rng.random() < 0.1 and tdim < 3) else tdim
    fam, deg = rng.choice(FAMILIES[cell])
    vector = rng.random() < 0.25 and deg >= 1
    piola = (not vector) and cell in VEC_FAMILIES and rng.random() < 0.15 and gdim == tdim
    lines = [f'm=mesh("{cell}",{cdeg},{gdim})']
    if piola:
        pf, pd = rng.choice(VEC_FAMILIES[cell])
        lines.append(f'V=space(m,"{pf}",{pd})')
        valshape = "vec"
    elif vector:
        lines.append(f'V=space(m,"{fam}",{deg},shape=({gdim},))')
        valshape = "vec"
    else:
        lines.append(f'V=space(m,"{fam}",{deg})')
        valshape = "scal"
    arity = rng.choice([0, 1, 1, 2, 2, 2])
    ncoef = rng.choice([0, 1, 1, 2]) if arity > 0 else rng.choice([1, 2])
    nconst = rng.choice([0, 0, 1])
    cfam, cdg = rng.choice(FAMILIES[cell])
    lines.append(f'W=space(m,"{cfam}",{cdg})')
    names = []
    if arity == 2:
        lines.append("u,v=TrialFunction(V),TestFunction(V)")
    elif arity == 1:
        lines.append("v=TestFunction(V)")
    for i in range(ncoef):
        lines.append(f"f{i}=Coefficient(W)")
        names.append(f"f{i}")
    for i in range(nconst):
        lines.append(f"k{i}=Constant(m)")
        names.append(f"k{i}")

    def scalar_factor():
        if not names:
            return "1.0"
        a = rng.choice(names)
        r = rng.random()
        if r < 0.5:
            return a
        if r < 0.6:
            return f"({a}*{rng.choice(names)})"
        if r < 0.7:
            return f"sqrt(abs({a})+1.0)"
        if r < 0.8:
            return f"exp({a})"
        if r < 0.9:
            return f"conditional(gt({a},0.3),{a},2.0)"
        return f"({a}+0.5)/({a}*{a}+1.5)"

    itype = rng.choice(["dx", "dx", "dx", "ds", "dS", "dP"])
    if cell == "prism" and itype == "dS":
        itype = "ds"
    if cell in ("prism", "pyramid") and itype in ("ds", "dP") and rng.random() < 0.5:
        itype = "dx"
    has_grad = deg >= 1 or piola
    terms = []
    nterms = rng.choice([1, 1, 2])
    for _ in range(nterms):
        md = ""
        r = rng.random()
        if r < 0.2:
            md = f"(degree={rng.choice([1,2,3,4])})"
        elif r < 0.3:
            md = f"({rng.choice([1,2,7])})"
        res = "('+')" if itype == "dS" else ""
        resm = "('-')" if itype == "dS" else ""
        sf = scalar_factor()
        if itype == "dS" and sf not in ("1.0",) and not sf.startswith("k") and "f" in sf:
            sf = f"avg({sf})" if rng.random() < 0.7 else f"({sf}){rng.choice([res,resm])}"
        if arity == 2:
            if valshape == "scal":
                opts = [f"u{res}*v{resm}", f"u{resm}*v{resm}"] if itype == "dS" else ["u*v"]
                if has_grad:
                    opts.append(f"inner(grad(u){res},grad(v){resm})" if itype == "dS" else "inner(grad(u),grad(v))")
                if itype == "dS":
                    opts.append("jump(u)*jump(v)")
            else:
                opts = [f"inner(u{res},v{resm})"] if itype == "dS" else ["inner(u,v)"]
                if itype != "dS" and not piola:
                    opts.append("inner(grad(u),grad(v))")
                    opts.append("div(u)*div(v)")
            body = rng.choice(opts)
        elif arity == 1:
            if valshape == "scal":
                opts = [f"v{res}"]
                if itype == "dS":
                    opts.append("jump(v)")
            else:
                opts = [f"v{res}[0]", f"inner(v{res},v{res})" if False else f"v{resm}[{gdim-1}]"]
            body = rng.choice(opts)
        else:
            body = "1.0"
            if sf == "1.0":
                sf = "2.0"
        if itype == "dP" and arity > 0 and valshape != "scal":
            body = "v[0]" if arity == 1 else "u[0]*v[0]"
        terms.append(f"{sf}*{body}*{itype}{md}")
    lines.append("objs=[" + " + ".join(terms) + "]")
    r = rng.random()
    if r < 0.2:
        lines.append('options={"scalar_type":"float32"}')
    return _c(f"rnd{n}", "\n".join(lines))


# ---------------------------------------------------------------------------
# second generator: typed expression grammar over many kinds of terminals (added after several
# seeded changes were missed only because the corpus lacked that KIND of input)

def random_case2(rng: random.Random, n: int):
    cell = rng.choice(["interval", "triangle", "triangle", "quadrilateral", "tetrahedron", "tetrahedron", "hexahedron"])
    tdim = TDIM[cell]
    simplex = cell in SIMPLEX
    gdim = tdim
    lines = [f'm=mesh("{cell}")']
    # argument space
    kind = rng.choice(["scal", "scal", "vec", "piola", "mixed"]) if cell in VEC_FAMILIES else rng.choice(["scal", "scal", "vec"])
    fam, deg = rng.choice([f for f in FAMILIES[cell] if f[1] >= 1])
    itype = rng.choice(["dx", "dx", "dx", "ds", "ds", "dS", "dS", "dP"])
    if itype == "dS":
        fam = {"P": "DP", "Q": "DQ"}.get(fam, fam)
    if itype == "dP" and fam.startswith("D"):
        fam = fam[1:]
    if kind == "scal":
        lines.append(f'V=space(m,"{fam}",{deg})')
    elif kind == "vec":
        lines.append(f'V=space(m,"{fam}",{deg},shape=({gdim},))')
    elif kind == "piola":
        pf, pd = rng.choice(VEC_FAMILIES[cell])
        pd = rng.choice([pd, pd + 1]) if pf != "BDM" else pd
        lines.append(f'V=space(m,"{pf}",{pd})')
        if itype == "dP":
            itype = "dx"
    else:
        lines.append(f'V=FunctionSpace(m,basix.ufl.mixed_element([el("{fam}","{cell}",{deg},shape=({gdim},)), el("{fam}","{cell}",{max(deg-1,1) if not fam.startswith("D") else deg})]))')
    vecarg = kind in ("vec", "piola")
    arity = rng.choice([0, 1, 1, 2, 2])
    if kind == "mixed":
        if arity == 2:
            lines.append("(u,p)=TrialFunctions(V); (v,q)=TestFunctions(V)")
        elif arity == 1:
            lines.append("(v,q)=TestFunctions(V)")
    else:
        if arity == 2:
            lines.append("u,v=TrialFunction(V),TestFunction(V)")
        elif arity == 1:
            lines.append("v=TestFunction(V)")
    # coefficients of several kinds
    cf = []      # (name, kind)
    ncoef = rng.choice([1, 1, 2, 3]) if arity < 2 else rng.choice([0, 1, 1, 2])
    for i in range(ncoef):
        r = rng.random()
        cfam, cdg = rng.choice(FAMILIES[cell])
        if itype == "dP" and cfam.startswith("D"):
            cfam = cfam[1:] if cdg > 0 else "P"
            cdg = max(cdg, 1)
        if r < 0.55:
            lines.append(f'f{i}=Coefficient(space(m,"{cfam}",{cdg}))')
            cf.append((f"f{i}", "scal", cdg))
        elif r < 0.8 and cdg >= 1:
            lines.append(f'f{i}=Coefficient(space(m,"{cfam}",{cdg},shape=({gdim},)))')
            cf.append((f"f{i}", "vec", cdg))
        elif cell in VEC_FAMILIES and itype != "dP":
            pf, pd = rng.choice(VEC_FAMILIES[cell])
            lines.append(f'f{i}=Coefficient(space(m,"{pf}",{pd}))')
            cf.append((f"f{i}", "vec", pd))
        else:
            lines.append(f'f{i}=Coefficient(space(m,"{cfam}",{cdg}))')
            cf.append((f"f{i}", "scal", cdg))
    # coefficient in a mixed space (vector part, scalar part): offsets of sub-elements, on every integral type
    if rng.random() < 0.3 and itype != "dP":
        mf = {"P": "DP", "Q": "DQ"}.get(fam, fam) if itype == "dS" else fam
        lines.append(f'Wm=FunctionSpace(m,basix.ufl.mixed_element([el("{mf}","{cell}",{deg},shape=({gdim},)), el("{mf}","{cell}",1), el("{mf}","{cell}",{deg})]))')
        lines.append("wm=Coefficient(Wm); (ma,mb,mc)=split(wm)")
        cf += [("ma", "vec", deg), ("mb", "scal", 1), ("mc", "scal", deg)]
    # quadrature-element coefficient: fixes the rule of the terms it occurs in (cell integrals of simplices)
    qe = None
    if rng.random() < 0.15 and itype == "dx" and cell in ("triangle", "tetrahedron", "interval"):
        qd = rng.choice([1, 2, 3])
        lines.append(f'sq=Coefficient(FunctionSpace(m,basix.ufl.quadrature_element("{cell}", (), "default", {qd})))')
        qe = ("sq", qd)
    # a global constant (real space)
    if rng.random() < 0.1 and itype != "dP":
        lines.append(f'rr=Coefficient(FunctionSpace(m,basix.ufl.real_element("{cell}",())))')
        cf.append(("rr", "scal", 0))
    consts = []
    if rng.random() < 0.4:
        lines.append("k0=Constant(m)")
        consts.append(("k0", "scal"))
    if rng.random() < 0.2:
        lines.append(f"k1=Constant(m,shape=({gdim},))")
        consts.append(("k1", "vec"))
    if rng.random() < 0.15:
        lines.append(f"k2=Constant(m,shape=({gdim},{gdim}))")
        consts.append(("k2", "ten"))
    lines.append("x=SpatialCoordinate(m); n=FacetNormal(m)")
    facet = itype in ("ds", "dS")

    def side(e, allow_avg=True):
        """restrict a cell-wise quantity on interior facets."""
        if itype != "dS" or not any(ch.isalpha() for ch in e):
            return e
        r = rng.random()
        if allow_avg and r < 0.3:
            return f"avg({e})"
        return f"({e})('{'+' if r < 0.65 else '-'}')"

    def comp():
        return rng.randrange(gdim)

    def scal_atom(depth=0):
        """a scalar cell-wise quantity (unrestricted)."""
        choices = ["lit", "x"]
        if cf:
            choices += ["coef"] * 4
        if consts:
            choices += ["const"]
        if simplex:
            choices += ["geo"]
        c = rng.choice(choices)
        if c == "lit":
            return rng.choice(["0.5", "2.0", "1.25", "(-0.75)"])
        if c == "x":
            return f"x[{comp()}]"
        if c == "const":
            nm, kd = rng.choice(consts)
            return nm if kd == "scal" else (f"{nm}[{comp()}]" if kd == "vec" else f"{nm}[{comp()},{comp()}]")
        if c == "geo":
            g = ["CellVolume(m)", "Circumradius(m)", "CellDiameter(m)", "MinCellEdgeLength(m)"]
            if facet and tdim > 1:
                g += ["FacetArea(m)"]
            return rng.choice(g)
        nm, kd, dg = rng.choice(cf)
        r = rng.random()
        if kd == "scal":
            if r < 0.6 or dg == 0:
                return nm
            if r < 0.85:
                return f"{nm}.dx({comp()})"
            return f"grad(grad({nm}))[{comp()},{comp()}]" if dg >= 2 and simplex and not facet else f"grad({nm})[{comp()}]"
        if r < 0.5:
            return f"{nm}[{comp()}]"
        if r < 0.75:
            return f"grad({nm})[{comp()},{comp()}]"
        if r < 0.9:
            return f"div({nm})"
        return f"curl({nm})" if tdim == 2 else f"curl({nm})[{comp()}]"

    def scal_expr(depth=0):
        r = rng.random()
        if depth >= 2 or r < 0.35:
            return scal_atom(depth)
        a = scal_expr(depth + 1)
        if r < 0.5:
            return f"({a}*{scal_expr(depth + 1)})"
        if r < 0.6:
            return f"({a}+{scal_expr(depth + 1)})"
        if r < 0.65:
            return f"({a}-{scal_expr(depth + 1)})"
        if r < 0.72:
            return rng.choice(["sqrt(abs({0})+1.0)", "exp(0.25*{0})", "sin({0})", "cos({0})", "ln({0}*{0}+1.5)", "tanh({0})", "atan({0})", "abs({0})", "erf({0})"]).format(a)
        if r < 0.78:
            return f"({a})**{rng.choice(['2', '3', '1.5' if False else '2'])}"
        if r < 0.84:
            b = scal_expr(depth + 1)
            # thresholds that no dyadic data value can hit exactly (a discontinuity AT an evaluation point is ambiguous)
            cond = rng.choice([f"gt({a},{b}+0.3)", f"lt({a},0.3)", f"And(ge({a},{b}-0.7),lt({b},1.1))", f"Or(le({a},-0.1),gt({b},0.7))", f"Not(lt({a},{b}+0.1))", f"ne({a},0.3)"])
            return f"conditional({cond},{a},{b})"
        if r < 0.9:
            return rng.choice(["max_value({0},{1}+0.3)", "min_value({0},{1}-0.3)", "atan2({0},{1}*{1}+1.0)"]).format(a, scal_expr(depth + 1))
        if r < 0.95:
            return f"({a}/({scal_expr(depth + 1)}**2+1.25))"
        return f"(-{a})"

    def arg_factor(name, other=None):
        """scalar-valued expression linear in argument `name` (already restricted for dS)."""
        r = rng.random()
        if kind == "mixed":
            sub = rng.choice([name, {"u": "p", "v": "q"}[name]])
            if sub in ("p", "q"):
                e = sub if r < 0.6 else f"{sub}.dx({comp()})"
            else:
                e = rng.choice([f"{sub}[{comp()}]", f"div({sub})", f"grad({sub})[{comp()},{comp()}]"])
        elif vecarg:
            opts = [f"{name}[{comp()}]", f"{name}[{comp()}]"]
            if kind == "vec":
                opts += [f"div({name})", f"grad({name})[{comp()},{comp()}]"]
            else:
                opts += [f"grad({name})[{comp()},{comp()}]", (f"curl({name})" if tdim == 2 else f"curl({name})[{comp()}]"), f"div({name})"]
            if facet:
                opts.append(f"dot({name},n)")
            e = rng.choice(opts)
        else:
            opts = [name, name, f"{name}.dx({comp()})"]
            if facet:
                opts.append(f"dot(grad({name}),n)")
            if deg >= 2 and simplex and itype == "dx":
                opts.append(f"grad(grad({name}))[{comp()},{comp()}]")
            e = rng.choice(opts)
        if itype == "dS":
            rr = rng.random()
            if rr < 0.3:
                return f"jump({e})" if "n)" not in e else f"({e})('+')"
            if rr < 0.45:
                return f"avg({e})"
            return f"({e})('{'+' if rr < 0.75 else '-'}')"
        return e

    terms = []
    for t in range(rng.choice([1, 1, 2, 3])):
        sf = side(scal_expr(), allow_avg=True)
        if facet and rng.random() < 0.3:
            nn = f"n[{comp()}]" if itype == "ds" else f"n('{rng.choice('+-')}')[{comp()}]"
            sf = f"{nn}*{sf}"
        if arity == 2:
            body = f"{arg_factor('u')}*{arg_factor('v')}"
        elif arity == 1:
            body = arg_factor("v")
        else:
            body = side(scal_expr(), allow_avg=False)
        r = rng.random()
        md = []
        with_qe = qe is not None and rng.random() < 0.5
        if with_qe:
            sf = f"sq*{sf}"
            if rng.random() < 0.5:
                md.append(f"degree={qe[1]}")
        elif r < 0.25:
            md.append(f"degree={rng.choice([0, 1, 2, 3, 5])}")
        elif r < 0.32:
            md.append('scheme="vertex", degree=1')
        rr_ = rng.random()
        if rr_ < 0.2:
            md.insert(0, str(rng.choice([1, 2, 5])))
        elif rr_ < 0.35:
            md.insert(0, rng.choice(["(1, 2)", "(2, 5)", "(1, 5, 7)"]))      # tuple ids: may overlap other terms' ids
        mds = f"({', '.join(md)})" if md else ""
        if itype == "dP":
            # vertex integrals: no facet quantities, continuous data only
            terms.append(f"{sf}*{body}*dP{mds if 'degree' not in mds and 'scheme' not in mds else ''}")
        else:
            terms.append(f"{sf}*{body}*{itype}{mds}")
    lines.append("objs=[" + " + ".join(terms) + "]")
    r = rng.random()
    if r < 0.1:
        lines.append('options={"scalar_type":"float32"}')
    return _c(f"rnx{n}", "\n".join(lines))


def random_cases(seed: int, count: int):
    rng = random.Random(seed)
    out = []
    for i in range(count):
        out.append(random_case(rng, i) if i % 2 == 0 else random_case2(rng, i))
    return out


# forms compiled under non-default options (every kernel property must hold for them too)
OPTION_CASES = [
    _c("opt_sf_quad_tp_space_plain_geometry", '''
m=mesh("quadrilateral"); V=FunctionSpace(m,tp("quadrilateral",2)); u,v=TrialFunction(V),TestFunction(V)
objs=[u*v*dx + inner(grad(u),grad(v))*dx]
options={"sum_factorization": True}'''),
    _c("opt_sf_quad_plain_coefficient_and_test", '''
m=tpmesh("quadrilateral"); V=FunctionSpace(m,tp("quadrilateral",2)); W=space(m,"Q",1); u,v=TrialFunction(V),TestFunction(V); f=Coefficient(W); q=TestFunction(W)
objs=[f*u*v*dx, f*v*dx, u*q*dx]
options={"sum_factorization": True}'''),
    _c("opt_sf_hex_tp_space_plain_geometry_dg", '''
m=mesh("hexahedron"); V=FunctionSpace(m,tp("hexahedron",1)); u,v=TrialFunction(V),TestFunction(V); k=Coefficient(space(m,"DQ",1))
objs=[k*u*v*dx]
options={"sum_factorization": True}'''),
    _c("opt_sf_quad_two_rules_one_point", '''
m=tpmesh("quadrilateral"); V=FunctionSpace(m,tp("quadrilateral",1)); u,v=TrialFunction(V),TestFunction(V); f=Coefficient(V)
objs=[f*u*v*dx(degree=1) + u*v*dx(degree=3)]
options={"sum_factorization": True}'''),
    _c("opt_sf_with_facets", '''
m=tpmesh("quadrilateral"); V=FunctionSpace(m,tp("quadrilateral",1)); u,v=TrialFunction(V),TestFunction(V); f=Coefficient(V)
objs=[f*u*v*ds + jump(u)*jump(v)*dS + u*v*dx]
options={"sum_factorization": True}'''),
    _c("opt_diagonal_mixed_and_dS", '''
m=mesh("triangle"); P2=el("P","triangle",2,shape=(2,)); P1=el("P","triangle",1)
W=FunctionSpace(m,basix.ufl.mixed_element([P2,P1])); (u,p)=TrialFunctions(W); (v,q)=TestFunctions(W)
V=space(m,"DP",1); a,b=TrialFunction(V),TestFunction(V)
objs=[inner(sym(grad(u)),sym(grad(v)))*dx - p*div(v)*dx + p*q*dx, jump(a)*jump(b)*dS + a*b*dx]
options={"part": "diagonal"}'''),
    _c("opt_diagonal_saddle_point_empty_diagonal_block", '''
m=mesh("triangle"); P2=el("P","triangle",2,shape=(2,)); P1=el("P","triangle",1)
W=FunctionSpace(m,basix.ufl.mixed_element([P2,P1])); (u,p)=TrialFunctions(W); (v,q)=TestFunctions(W); f=Coefficient(W)
objs=[inner(grad(u),grad(v))*dx - p*div(v)*dx - q*div(u)*dx, p*div(v)*dx + split(f)[1]*q*div(u)*ds]
options={"part": "diagonal"}'''),
    _c("opt_coarse_table_tolerances", '''
m=mesh("triangle"); V=space(m,"P",2); u,v=TrialFunction(V),TestFunction(V); f=Coefficient(V)
objs=[f*inner(grad(u),grad(v))*dx + u*v*ds]
options={"table_rtol": 1e-3, "table_atol": 1e-3}'''),
    _c("opt_complex_two_rules", '''
m=mesh("triangle"); V=space(m,"P",2); u,v=TrialFunction(V),TestFunction(V); f=Coefficient(V)
objs=[f*inner(u,v)*dx(degree=1) + inner(grad(u),grad(v))*dx(degree=2)]
options={"scalar_type": "complex128"}'''),
]


def random_expr_case(rng: random.Random, n: int):
    """random (expression, points) objects: scalar / vector / tensor valued, rank 0 or 1, cell or facet points,
    several coefficients (some eliminated by differentiation), constants, literal components."""
    cell = rng.choice(["interval", "triangle", "triangle", "quadrilateral", "tetrahedron", "hexahedron"])
    tdim = TDIM[cell]
    fam, deg = rng.choice([f for f in FAMILIES[cell] if f[1] >= 1 and not f[0].startswith("D")])
    lines = [f'm=mesh("{cell}",{rng.choice([1, 1, 2]) if cell in ("triangle", "quadrilateral", "interval") else 1})', "x=SpatialCoordinate(m)"]
    names = []
    for i in range(rng.choice([1, 2, 3])):
        r = rng.random()
        if r < 0.5:
            lines.append(f'f{i}=Coefficient(space(m,"{fam}",{deg}))')
            names.append((f"f{i}", "scal", deg))
        elif r < 0.7:
            lines.append(f'f{i}=Coefficient(space(m,"{"DP" if cell in SIMPLEX else "DQ"}",0))')
            names.append((f"f{i}", "scal", 0))
        else:
            lines.append(f'f{i}=Coefficient(space(m,"{fam}",{deg},shape=({tdim},)))')
            names.append((f"f{i}", "vec", deg))
    if rng.random() < 0.5:
        lines.append("k0=Constant(m)")
        names.append(("k0", "const", 0))
    rank1 = rng.random() < 0.3
    if rank1:
        lines.append(f'u=TrialFunction(space(m,"{fam}",{deg}))')

    def c():
        return rng.randrange(tdim)

    def atom():
        nm, kd, dg = rng.choice(names)
        r = rng.random()
        if kd == "const":
            return nm
        if kd == "scal":
            if dg == 0 or r < 0.5:
                return nm
            if r < 0.8:
                return f"{nm}.dx({c()})"
            return f"({nm}+{rng.choice(names)[0] if rng.choice(names)[1] != 'vec' else '0.5'}).dx({c()})"
        return rng.choice([f"{nm}[{c()}]", f"grad({nm})[{c()},{c()}]", f"div({nm})"])

    def scal(depth=0):
        r = rng.random()
        if depth >= 2 or r < 0.4:
            return rng.choice([atom(), atom(), f"x[{c()}]", rng.choice(["1.0", "0.5", "(-2.0)", "0.0"])])
        a, b = scal(depth + 1), scal(depth + 1)
        return rng.choice([f"({a}*{b})", f"({a}+{b})", f"({a}-{b})", f"sqrt({a}*{a}+1.0)", f"sin({a})", f"conditional(gt({a},{b}+0.3),{a},{b})", f"max_value({a},{b}+0.3)", f"({a})**2"])

    shape = rng.choice(["scal", "vec", "vec", "ten"])
    if shape == "scal":
        e = scal()
    elif shape == "vec":
        k = rng.choice([2, 3])
        e = "as_vector((" + ", ".join(scal() for _ in range(k)) + "))"
    else:
        e = "as_matrix(((" + ", ".join(scal() for _ in range(2)) + "), (" + ", ".join(scal() for _ in range(2)) + ")))"
    if rank1:
        e = f"({e})*{rng.choice(['u', f'u.dx({c()})'])}"
    facet = rng.random() < 0.25 and tdim > 1
    pd = tdim - 1 if facet else tdim
    npts = rng.choice([1, 2, 3])
    pts = []
    for _ in range(npts):
        p = [rng.randrange(1, 8) / 16 for _ in range(pd)]        # inside the reference simplex / cube
        pts.append("[" + ",".join(str(v) for v in p) + "]")
    if facet:
        lines.append("n=FacetNormal(m)")
        e = f"({e})*n[{c()}]"
    lines.append(f"objs=[({e}, np.array([{', '.join(pts)}]))]")
    return _c(f"rne{n}", "\n".join(lines))


def random_expr_cases(seed: int, count: int):
    rng = random.Random(seed * 7 + 1)
    return [random_expr_case(rng, i) for i in range(count)]


UNSUPPORTED = [
    _c("unsupported_cell_avg", '''
m=mesh("triangle"); V=space(m,"P",2); v=TestFunction(V); f=Coefficient(V)
objs=[ufl.cell_avg(f)*v*dx]'''),
    _c("unsupported_facet_avg", '''
m=mesh("triangle"); V=space(m,"P",2); v=TestFunction(V); f=Coefficient(V)
objs=[ufl.facet_avg(f)*v*ds]'''),
    _c("custom_integral", '''
m=mesh("triangle"); V=space(m,"P",1); v=TestFunction(V)
objs=[v*Measure("dc", domain=m)]'''),
    _c("cellvolume_nonaffine", '''
m=mesh("quadrilateral"); V=space(m,"Q",1); v=TestFunction(V)
objs=[CellVolume(m)*v*dx]'''),
    _c("prism_interior_facet", '''
m=mesh("prism"); V=space(m,"DP",1); u,v=TrialFunction(V),TestFunction(V)
objs=[jump(u)*jump(v)*dS]'''),
    _c("negative_subdomain", '''
m=mesh("triangle"); V=space(m,"P",1); v=TestFunction(V)
objs=[v*dx(-3)]'''),
    _c("rank3_form", '''
m=mesh("triangle"); V=space(m,"P",1); u,v=TrialFunction(V),TestFunction(V); w=ufl.Argument(V,2)
objs=[u*v*w*dx]'''),
    _c("expr_two_arguments", '''
m=mesh("triangle"); V=space(m,"P",1); u,v=TrialFunction(V),TestFunction(V)
objs=[(u*v, np.array([[0.25,0.25]]))]'''),
    _c("complex_unconjugated", '''
m=mesh("triangle"); V=space(m,"P",1); u,v=TrialFunction(V),TestFunction(V)
objs=[u*v*dx]
options={"scalar_type":"complex128"}'''),
]
