"""Corpus of FFCx inputs: pinned cases (touch every cell / integral type / element kind
once) and a seeded random generator.  A case is {"id", "code"}; see ffx.build_case."""

from __future__ import annotations

import random

CELLS = ["interval", "triangle", "quadrilateral", "tetrahedron", "hexahedron", "prism", "pyramid"]
SIMPLEX = ["interval", "triangle", "tetrahedron"]
TDIM = {"interval": 1, "triangle": 2, "quadrilateral": 2, "tetrahedron": 3, "hexahedron": 3,
        "prism": 3, "pyramid": 3}


def _c(id_, code):
    return {"id": id_, "code": code.strip() + "\n"}


PINNED = [
    _c("mass_tri_p1", '''
m=mesh("triangle"); V=space(m,"P",1); u,v=TrialFunction(V),TestFunction(V)
objs=[inner(u,v)*dx]'''),
    _c("stiff_tri_p2_coef", '''
m=mesh("triangle"); V=space(m,"P",2); u,v=TrialFunction(V),TestFunction(V); f=Coefficient(V); k=Constant(m)
objs=[k*f*inner(grad(u),grad(v))*dx]'''),
    _c("rhs_tet_p2", '''
m=mesh("tetrahedron"); V=space(m,"P",2); v=TestFunction(V); f=Coefficient(V)
objs=[f*v*dx]'''),
    _c("functional_int_p3", '''
m=mesh("interval"); V=space(m,"P",3); f=Coefficient(V)
objs=[f*f*dx]'''),
    _c("mass_quad_q2_nonaffine", '''
m=mesh("quadrilateral",2); V=space(m,"Q",2); u,v=TrialFunction(V),TestFunction(V)
objs=[inner(u,v)*dx]'''),
    _c("stiff_hex_q1", '''
m=mesh("hexahedron"); V=space(m,"Q",1); u,v=TrialFunction(V),TestFunction(V)
objs=[inner(grad(u),grad(v))*dx]'''),
    _c("mass_prism_p1", '''
m=mesh("prism"); V=space(m,"P",1); u,v=TrialFunction(V),TestFunction(V)
objs=[inner(u,v)*dx]'''),
    _c("mass_pyramid_p1", '''
m=mesh("pyramid"); V=space(m,"P",1); u,v=TrialFunction(V),TestFunction(V)
objs=[inner(u,v)*dx]'''),
    _c("vector_tri_elasticity", '''
m=mesh("triangle"); V=space(m,"P",1,shape=(2,)); u,v=TrialFunction(V),TestFunction(V)
objs=[inner(sym(grad(u)),sym(grad(v)))*dx]'''),
    _c("tensor_const_tri", '''
m=mesh("triangle"); V=space(m,"P",1); u,v=TrialFunction(V),TestFunction(V)
K=Constant(m,shape=(2,2)); b=Constant(m,shape=(2,))
objs=[inner(K*grad(u),grad(v))*dx + dot(b,grad(u))*v*dx]'''),
    _c("mixed_tri_th", '''
m=mesh("triangle"); P2=el("P","triangle",2,shape=(2,)); P1=el("P","triangle",1)
W=FunctionSpace(m,basix.ufl.mixed_element([P2,P1]))
(u,p)=TrialFunctions(W); (v,q)=TestFunctions(W)
objs=[inner(grad(u),grad(v))*dx - p*div(v)*dx - q*div(u)*dx]'''),
    _c("n1curl_tet", '''
m=mesh("tetrahedron"); V=space(m,"N1curl",1); u,v=TrialFunction(V),TestFunction(V)
objs=[inner(curl(u),curl(v))*dx + inner(u,v)*dx]'''),
    _c("rt_tri_divdiv", '''
m=mesh("triangle"); V=space(m,"RT",1); u,v=TrialFunction(V),TestFunction(V)
objs=[div(u)*div(v)*dx + inner(u,v)*dx]'''),
    _c("dg0_coef_tri", '''
m=mesh("triangle"); V=space(m,"P",1); D=space(m,"DP",0); u,v=TrialFunction(V),TestFunction(V); k=Coefficient(D)
objs=[k*inner(grad(u),grad(v))*dx]'''),
    _c("ext_facet_tri_normal", '''
m=mesh("triangle"); V=space(m,"P",2); v=TestFunction(V); f=Coefficient(V); n=FacetNormal(m)
objs=[f*dot(grad(v),n)*ds]'''),
    _c("ext_facet_tet_mass", '''
m=mesh("tetrahedron"); V=space(m,"P",1); u,v=TrialFunction(V),TestFunction(V)
objs=[u*v*ds]'''),
    _c("ext_facet_hex", '''
m=mesh("hexahedron"); V=space(m,"Q",1); u,v=TrialFunction(V),TestFunction(V); f=Coefficient(V)
objs=[f*u*v*ds]'''),
    _c("ext_facet_prism", '''
m=mesh("prism"); V=space(m,"P",1); u,v=TrialFunction(V),TestFunction(V)
objs=[u*v*ds]'''),
    _c("int_facet_tri_jump", '''
m=mesh("triangle"); V=space(m,"DP",1); u,v=TrialFunction(V),TestFunction(V); f=Coefficient(V)
objs=[avg(f)*jump(u)*jump(v)*dS]'''),
    _c("int_facet_tet_dg_grad", '''
m=mesh("tetrahedron"); V=space(m,"DP",1); u,v=TrialFunction(V),TestFunction(V); n=FacetNormal(m)
objs=[inner(jump(grad(u)),n('+'))*avg(v)*dS]'''),
    _c("int_facet_quad", '''
m=mesh("quadrilateral"); V=space(m,"DQ",1); u,v=TrialFunction(V),TestFunction(V)
objs=[jump(u)*jump(v)*dS]'''),
    _c("int_facet_hex_q1", '''
m=mesh("hexahedron"); V=space(m,"DQ",1); u,v=TrialFunction(V),TestFunction(V)
objs=[jump(u)*jump(v)*dS]'''),
    _c("int_facet_interval", '''
m=mesh("interval"); V=space(m,"DP",1); u,v=TrialFunction(V),TestFunction(V)
objs=[jump(u)*jump(v)*dS]'''),
    _c("vertex_tri", '''
m=mesh("triangle"); V=space(m,"P",1); v=TestFunction(V); f=Coefficient(V)
objs=[f*v*dP]'''),
    _c("conditional_tri", '''
m=mesh("triangle"); V=space(m,"P",1); v=TestFunction(V); f=Coefficient(V); g=Coefficient(V)
objs=[conditional(gt(f,g),f,g)*sqrt(abs(f)+1.0)*v*dx]'''),
    _c("mathfun_tri", '''
m=mesh("triangle"); V=space(m,"P",1); f=Coefficient(V)
objs=[exp(f)*sin(f)*dx + ln(f*f+2.0)*dx]'''),
    _c("spatial_coord_tri", '''
m=mesh("triangle"); V=space(m,"P",1); v=TestFunction(V); x=SpatialCoordinate(m)
objs=[x[0]*x[1]*v*dx]'''),
    _c("manifold_tri_3d", '''
m=mesh("triangle",1,3); V=space(m,"P",1); u,v=TrialFunction(V),TestFunction(V)
objs=[inner(grad(u),grad(v))*dx]'''),
    _c("two_rules_tri", '''
m=mesh("triangle"); V=space(m,"P",2); v=TestFunction(V); f=Coefficient(V)
objs=[f*v*dx(degree=2) + f*f*v*dx(degree=4)]'''),
    _c("subdomains_tri", '''
m=mesh("triangle"); V=space(m,"P",1); u,v=TrialFunction(V),TestFunction(V); f=Coefficient(V); g=Coefficient(V)
objs=[f*u*v*dx(1) + g*u*v*dx(2) + u*v*dx + u*v*ds(3)]'''),
    _c("unused_coefficient", '''
m=mesh("triangle"); V=space(m,"P",1); u,v=TrialFunction(V),TestFunction(V); f=Coefficient(V); g=Coefficient(V)
objs=[f*u*v*dx(1) + g*u*v*ds(2)]'''),
    _c("sumfact_hex_q2", '''
m=tpmesh("hexahedron"); V=FunctionSpace(m,tp("hexahedron",2)); u,v=TrialFunction(V),TestFunction(V)
objs=[inner(grad(u),grad(v))*dx]
options={"sum_factorization": True}'''),
    _c("sumfact_quad_coef", '''
m=tpmesh("quadrilateral"); V=FunctionSpace(m,tp("quadrilateral",2)); u,v=TrialFunction(V),TestFunction(V); f=Coefficient(V)
objs=[f*inner(u,v)*dx]
options={"sum_factorization": True}'''),
    _c("diagonal_tri", '''
m=mesh("triangle"); V=space(m,"P",2); u,v=TrialFunction(V),TestFunction(V)
objs=[inner(grad(u),grad(v))*dx]
options={"part": "diagonal"}'''),
    _c("expr_grad_tri", '''
m=mesh("triangle"); V=space(m,"P",2); f=Coefficient(V)
objs=[(grad(f), np.array([[0.25,0.25],[0.5,0.1]]))]'''),
    _c("expr_rank1_tri", '''
m=mesh("triangle"); V=space(m,"P",1); u=TrialFunction(V); k=Constant(m)
objs=[(k*grad(u), np.array([[0.25,0.25],[0.5,0.1],[0.1,0.7]]))]'''),
    _c("expr_facet_tet", '''
m=mesh("tetrahedron"); V=space(m,"P",1); f=Coefficient(V); n=FacetNormal(m)
objs=[(f*n, np.array([[0.25,0.25],[0.5,0.1]]))]'''),
    _c("quadrature_element_tri", '''
m=mesh("triangle"); Q=FunctionSpace(m,basix.ufl.quadrature_element("triangle",degree=2)); V=space(m,"P",1)
q=Coefficient(Q); v=TestFunction(V)
objs=[q*v*dx(metadata={"quadrature_degree":2})]'''),
    _c("real_space_tri", '''
m=mesh("triangle"); V=space(m,"P",1); R=FunctionSpace(m,basix.ufl.real_element("triangle",()))
u=TrialFunction(V); r=TestFunction(R)
objs=[u*r*dx]'''),
    _c("enriched_bubble_tri", '''
m=mesh("triangle"); E=basix.ufl.enriched_element([el("P","triangle",1),el("Bubble","triangle",3)])
V=FunctionSpace(m,E); u,v=TrialFunction(V),TestFunction(V)
objs=[inner(grad(u),grad(v))*dx]'''),
    _c("symmetric_tensor_tri", '''
m=mesh("triangle"); V=space(m,"P",1,shape=(2,2),symmetry=True); S=Coefficient(V); W=space(m,"P",1); v=TestFunction(W)
objs=[tr(S)*v*dx + S[0,1]*v*dx]'''),
    _c("complex_helmholtz_tri", '''
m=mesh("triangle"); V=space(m,"P",1); u,v=TrialFunction(V),TestFunction(V); k=Constant(m); f=Coefficient(V)
objs=[inner(grad(u),grad(v))*dx - k*k*inner(u,v)*dx + 1j*f*inner(u,v)*ds]
options={"scalar_type":"complex128"}'''),
    _c("float32_mass_tri", '''
m=mesh("triangle"); V=space(m,"P",2); u,v=TrialFunction(V),TestFunction(V); f=Coefficient(V)
objs=[f*inner(u,v)*dx]
options={"scalar_type":"float32"}'''),
    _c("cellvolume_circumradius", '''
m=mesh("triangle"); V=space(m,"P",1); v=TestFunction(V)
objs=[CellVolume(m)*v*dx + Circumradius(m)*v*ds + FacetArea(m)*v*ds]'''),
    _c("vertex_scheme_tri", '''
m=mesh("triangle"); V=space(m,"P",1); u,v=TrialFunction(V),TestFunction(V)
objs=[u*v*dx(scheme="vertex",degree=1)]'''),
    _c("two_forms_module", '''
m=mesh("triangle"); V=space(m,"P",1); u,v=TrialFunction(V),TestFunction(V); f=Coefficient(V)
objs=[inner(grad(u),grad(v))*dx, f*v*dx, f*f*dx]'''),
]


# ---------------------------------------------------------------------------
# seeded random generator

FAMILIES = {
    "interval": [("P", 1), ("P", 2), ("P", 3), ("DP", 0), ("DP", 1)],
    "triangle": [("P", 1), ("P", 2), ("P", 3), ("DP", 0), ("DP", 1), ("DP", 2)],
    "quadrilateral": [("Q", 1), ("Q", 2), ("DQ", 0), ("DQ", 1)],
    "tetrahedron": [("P", 1), ("P", 2), ("DP", 0), ("DP", 1)],
    "hexahedron": [("Q", 1), ("Q", 2), ("DQ", 0), ("DQ", 1)],
    "prism": [("P", 1)],
    "pyramid": [("P", 1)],
}
VEC_FAMILIES = {"triangle": [("N1curl", 1), ("RT", 1), ("BDM", 1)],
                "tetrahedron": [("N1curl", 1), ("RT", 1)]}


def random_case(rng: random.Random, n: int):
    cell = rng.choice(CELLS if rng.random() < 0.8 else ["triangle", "tetrahedron", "quadrilateral"])
    tdim = TDIM[cell]
    cdeg = 2 if (rng.random() < 0.2 and cell in ("triangle", "quadrilateral", "tetrahedron", "interval")) else 1
    gdim = tdim + 1 if (rng.random() < 0.1 and tdim < 3) else tdim
    fam, deg = rng.choice(FAMILIES[cell])
    vector = rng.random() < 0.25 and deg >= 1
    piola = (not vector) and cell in VEC_FAMILIES and rng.random() < 0.15 and gdim == tdim
    lines = [f'm=mesh("{cell}",{cdeg},{gdim})']
    if piola:
        pf, pd = rng.choice(VEC_FAMILIES[cell])
        lines.append(f'V=space(m,"{pf}",{pd})')
        valshape = "vec"
    elif vector:
        lines.append(f'V=space(m,"{fam}",{deg},shape=({gdim},))')
        valshape = "vec"
    else:
        lines.append(f'V=space(m,"{fam}",{deg})')
        valshape = "scal"
    arity = rng.choice([0, 1, 1, 2, 2, 2])
    ncoef = rng.choice([0, 1, 1, 2]) if arity > 0 else rng.choice([1, 2])
    nconst = rng.choice([0, 0, 1])
    cfam, cdg = rng.choice(FAMILIES[cell])
    lines.append(f'W=space(m,"{cfam}",{cdg})')
    names = []
    if arity == 2:
        lines.append("u,v=TrialFunction(V),TestFunction(V)")
    elif arity == 1:
        lines.append("v=TestFunction(V)")
    for i in range(ncoef):
        lines.append(f"f{i}=Coefficient(W)")
        names.append(f"f{i}")
    for i in range(nconst):
        lines.append(f"k{i}=Constant(m)")
        names.append(f"k{i}")

    def scalar_factor():
        if not names:
            return "1.0"
        a = rng.choice(names)
        r = rng.random()
        if r < 0.5:
            return a
        if r < 0.6:
            return f"({a}*{rng.choice(names)})"
        if r < 0.7:
            return f"sqrt(abs({a})+1.0)"
        if r < 0.8:
            return f"exp({a})"
        if r < 0.9:
            return f"conditional(gt({a},0.5),{a},2.0)"
        return f"({a}+0.5)/({a}*{a}+1.5)"

    itype = rng.choice(["dx", "dx", "dx", "ds", "dS", "dP"])
    if cell == "prism" and itype == "dS":
        itype = "ds"
    if cell in ("prism", "pyramid") and itype in ("ds", "dP") and rng.random() < 0.5:
        itype = "dx"
    has_grad = deg >= 1 or piola
    terms = []
    nterms = rng.choice([1, 1, 2])
    for _ in range(nterms):
        md = ""
        r = rng.random()
        if r < 0.2:
            md = f"(degree={rng.choice([1,2,3,4])})"
        elif r < 0.3:
            md = f"({rng.choice([1,2,7])})"
        res = "('+')" if itype == "dS" else ""
        resm = "('-')" if itype == "dS" else ""
        sf = scalar_factor()
        if itype == "dS" and sf not in ("1.0",) and not sf.startswith("k") and "f" in sf:
            sf = f"avg({sf})" if rng.random() < 0.7 else f"({sf}){rng.choice([res,resm])}"
        if arity == 2:
            if valshape == "scal":
                opts = [f"u{res}*v{resm}", f"u{resm}*v{resm}"] if itype == "dS" else ["u*v"]
                if has_grad:
                    opts.append(f"inner(grad(u){res},grad(v){resm})" if itype == "dS" else "inner(grad(u),grad(v))")
                if itype == "dS":
                    opts.append("jump(u)*jump(v)")
            else:
                opts = [f"inner(u{res},v{resm})"] if itype == "dS" else ["inner(u,v)"]
                if itype != "dS" and not piola:
                    opts.append("inner(grad(u),grad(v))")
                    opts.append("div(u)*div(v)")
            body = rng.choice(opts)
        elif arity == 1:
            if valshape == "scal":
                opts = [f"v{res}"]
                if itype == "dS":
                    opts.append("jump(v)")
            else:
                opts = [f"v{res}[0]", f"inner(v{res},v{res})" if False else f"v{resm}[{gdim-1}]"]
            body = rng.choice(opts)
        else:
            body = "1.0"
            if sf == "1.0":
                sf = "2.0"
        if itype == "dP" and arity > 0 and valshape != "scal":
            body = "v[0]" if arity == 1 else "u[0]*v[0]"
        terms.append(f"{sf}*{body}*{itype}{md}")
    lines.append("objs=[" + " + ".join(terms) + "]")
    r = rng.random()
    if r < 0.2:
        lines.append('options={"scalar_type":"float32"}')
    return _c(f"rnd{n}", "\n".join(lines))


def random_cases(seed: int, count: int):
    rng = random.Random(seed)
    return [random_case(rng, i) for i in range(count)]


UNSUPPORTED = [
    _c("custom_integral", '''
m=mesh("triangle"); V=space(m,"P",1); v=TestFunction(V)
objs=[v*Measure("dc", domain=m)]'''),
    _c("cellvolume_nonaffine", '''
m=mesh("quadrilateral"); V=space(m,"Q",1); v=TestFunction(V)
objs=[CellVolume(m)*v*dx]'''),
    _c("prism_interior_facet", '''
m=mesh("prism"); V=space(m,"DP",1); u,v=TrialFunction(V),TestFunction(V)
objs=[jump(u)*jump(v)*dS]'''),
    _c("negative_subdomain", '''
m=mesh("triangle"); V=space(m,"P",1); v=TestFunction(V)
objs=[v*dx(-3)]'''),
    _c("rank3_form", '''
m=mesh("triangle"); V=space(m,"P",1); u,v=TrialFunction(V),TestFunction(V); w=ufl.Argument(V,2)
objs=[u*v*w*dx]'''),
    _c("expr_two_arguments", '''
m=mesh("triangle"); V=space(m,"P",1); u,v=TrialFunction(V),TestFunction(V)
objs=[(u*v, np.array([[0.25,0.25]]))]'''),
    _c("complex_unconjugated", '''
m=mesh("triangle"); V=space(m,"P",1); u,v=TrialFunction(V),TestFunction(V)
objs=[u*v*dx]
options={"scalar_type":"complex128"}'''),
]
