"""optcorr.py — correspondence of coq/theories/Opt.v with ffcx/codegeneration/optimizer.py.

Every call of optimizer.optimize made while the corpus cases are compiled is captured (deep copy of the
code list before, the returned list after), both lists are converted to Opt.item trees under one flat
identifier map, and Coq evaluates  Opt.optimize temps before  and compares it with `after` node by node
(Opt.opt_matches, vm_compute).  A mismatch names the case and the call."""

from __future__ import annotations

import os
import re

import common
import ffx


def run(cases, tag="Optc", timeout=300):
    """-> {"calls": n, "matched": n, "changed": n, "mismatches": [...], "unsupported": n, "kinds": {...}}"""
    res = common.run_cases(cases, extra={"capture_opt": True})
    common.clean_gen(tag + "_")
    files = {}
    info = {"calls": 0, "matched": 0, "changed": 0, "mismatches": [], "unsupported": 0, "cases": 0,
            "kinds": {"sections_fused": 0, "loops_fused": 0, "products_hoisted": 0}, "errors": []}
    per = 40
    batch, meta = [], []

    def flush():
        if not batch:
            return
        path = os.path.join(common.GEN, f"{tag}_{len(files)}.v")
        t = ("From Coq Require Import ZArith List String Uint63.\nFrom FFCX Require Import LN Enc Opt Footprint OptSound.\n"
             "Import ListNotations.\nOpen Scope string_scope.\n")
        for k, c in enumerate(batch):
            t += f"Definition b{k} : list item :=\n{ffx.coq_items(c['before'])}.\n"
            t += f"Definition a{k} : list item :=\n{ffx.coq_items(c['after'])}.\n"
        t += "Eval vm_compute in [" + "; ".join(
            f"opt_matches [{'; '.join(str(x) for x in c['temps'])}]%positive b{k} a{k}" for k, c in enumerate(batch)) + "].\n"
        t += "Eval vm_compute in (0%nat, [" + "; ".join(f"opt_ok b{k}" for k in range(len(batch))) + "]).\n"
        # Opt.desugar against the exporter's desugaring of the same list (statement lists flattened one level on both sides)
        t += "Definition flat1 (l : list stmt) : list stmt := flat_map (fun s => match s with SList x => x | _ => [s] end) l.\n"
        ds = [k for k, c in enumerate(batch) if "after_body" in c]
        for k in ds:
            t += f"Definition d{k} : list stmt :=\n{ffx.coq_body(batch[k]['after_body'])}.\n"
        t += "Eval vm_compute in (1%nat, [" + "; ".join(f"list_eqb stmt_eqb (flat1 (desugar a{k})) (flat1 d{k})" for k in ds) + "]).\n"
        open(path, "w").write(t)
        files[path] = list(meta)
        batch.clear()
        meta.clear()

    for r in res:
        if r["status"] != "ok":
            if r["status"] in ("harness_error", "timeout"):
                info["errors"].append((r["id"], r.get("error", r["status"])[:200]))
            continue
        info["cases"] += 1
        for ci, c in enumerate(r.get("opt_calls", [])):
            if "unsupported" in c:
                info["unsupported"] += 1
                continue
            info["calls"] += 1
            if c.get("shadowing"):
                info["calls_with_shadowing"] = info.get("calls_with_shadowing", 0) + 1
            if c["before"] != c["after"]:
                info["changed"] += 1
            secs_b = [it for it in c["before"] if it[0] == "ISec"]
            secs_a = [it for it in c["after"] if it[0] == "ISec"]
            if len(secs_a) < len(secs_b):
                info["kinds"]["sections_fused"] += 1
            nfor = lambda secs: sum(1 for it in secs for st in it[2] if st[0] == "SFor")  # noqa: E731
            if nfor([x for x in secs_a if x[1] in ("Coefficient", "Jacobian")]) < nfor([x for x in secs_b if x[1] in ("Coefficient", "Jacobian")]):
                info["kinds"]["loops_fused"] += 1
            tset = set(c["temps"])
            if any(st[0] == "SArrDecl" and st[1] in tset for it in secs_a for st in it[2]):
                info["kinds"]["products_hoisted"] += 1
            batch.append(c)
            meta.append((r["id"], ci))
            if len(batch) >= per:
                flush()
    flush()
    out = common.coqc_many(list(files), timeout=timeout)
    for path, metas in files.items():
        rc, so, se = out[path]
        mm = re.search(r"=\s*\[(.*?)\]\s*:\s*list bool", so, re.S) if rc == 0 else None
        m2 = re.search(r"=\s*\(0%nat,\s*\[(.*?)\]\)", so, re.S) if rc == 0 else None
        m3 = re.search(r"=\s*\(1%nat,\s*\[(.*?)\]\)", so, re.S) if rc == 0 else None
        if m3 and m3.group(1).strip():
            dk = [x.strip() == "true" for x in m3.group(1).split(";")]
            info["desugar_compared"] = info.get("desugar_compared", 0) + len(dk)
            info["desugar_equal"] = info.get("desugar_equal", 0) + sum(dk)
        if m2:
            oks = [x.strip() == "true" for x in m2.group(1).split(";")]
            info["side_condition_true"] = info.get("side_condition_true", 0) + sum(oks)
            info["side_condition_false"] = info.get("side_condition_false", 0) + (len(oks) - sum(oks))
            for ok2, (cid, ci) in zip(oks, metas):
                if not ok2:
                    info.setdefault("side_condition_false_calls", []).append(f"{cid}#{ci}")
        b = [x.strip() == "true" for x in mm.group(1).split(";")] if mm else None
        if b is None or len(b) != len(metas):
            info["errors"].append((os.path.basename(path), (se or so)[-300:]))
            continue
        for ok, (cid, ci) in zip(b, metas):
            if ok:
                info["matched"] += 1
            else:
                info["mismatches"].append({"case": cid, "call": ci})
        for ext in (".vo", ".vok", ".vos", ".glob"):
            try:
                os.remove(path[:-2] + ext)
            except OSError:
                pass
    return info


if __name__ == "__main__":
    import json
    import sys

    import corpus
    n = int(sys.argv[1]) if len(sys.argv) > 1 else 6
    cs = list(corpus.PINNED) + corpus.random_cases(0, n)
    print(json.dumps(run(cs), indent=1)[:3000])
