"""C17 — AST simplifications (operator overloads, float_product) and optimiser passes preserve values."""

from __future__ import annotations

import os
import random
import re
import sys

import numpy as np

import common
import corpus
import execcorr
import optcorr
import ffx
import inputs
import p_c16

sys.path.insert(0, common.REPO)

OPS = [("add_s", lambda a, b: a + b), ("sub_s", lambda a, b: a - b), ("mul_s", lambda a, b: a * b),
       ("div_s", lambda a, b: a / b)]
ROPS = [("radd_s", lambda a, n: n + a), ("rsub_s", lambda a, n: n - a), ("rmul_s", lambda a, n: n * a),
        ("rdiv_s", lambda a, n: n / a)]
RAW = {"add_s": "Add", "sub_s": "Sub", "mul_s": "Mul", "div_s": "Div",
       "radd_s": "Add", "rsub_s": "Sub", "rmul_s": "Mul", "rdiv_s": "Div"}


def operands():
    import ffcx.codegeneration.lnodes as L
    x1 = lambda: L.Symbol("x1", L.DataType.REAL)  # noqa: E731
    x2 = lambda: L.Symbol("x2", L.DataType.INT)  # noqa: E731
    out = [x1, x2, lambda: L.Symbol("x5", L.DataType.REAL)[x2()]]
    for z in (0, 1, -1, 3, -2):
        out.append(lambda z=z: L.LiteralInt(z))
    for f in (0.0, 1.0, -1.0, 0.5, -2.0, -0.0, 1e-9, -4e-10, 1.0000000001):
        out.append(lambda f=f: L.LiteralFloat(f))
    out += [lambda: L.Neg(x1()), lambda: L.Neg(L.Neg(x1())), lambda: L.Neg(L.LiteralFloat(0.5)),
            lambda: L.Add(x1(), x2()), lambda: L.Mul(x1(), L.LiteralFloat(0.5)),
            lambda: L.Sum([x1(), x2()]), lambda: L.MathFunction("sqrt", [x1()])]
    return out


def evaluate(t, env):
    """numeric value of a tuple tree (python floats; None on a trap)."""
    k = t[0]
    try:
        if k == "ELitI":
            return t[1]
        if k == "ELitF":
            return t[1] * 2.0 ** t[2]
        if k == "ESym":
            return env[t[1]]
        if k == "EAcc":
            return env[("acc", t[1])]
        if k == "ENeg":
            return -evaluate(t[1], env)
        if k == "EBin":
            a, b = evaluate(t[2], env), evaluate(t[3], env)
            return {"OAdd": a + b, "OSub": a - b, "OMul": a * b}[t[1]] if t[1] != "ODiv" else a / b
        if k == "ESum":
            return sum(evaluate(a, env) for a in t[1])
        if k == "EProd":
            r = 1
            for a in t[1]:
                r = r * evaluate(a, env)
            return r
        if k == "ECall":
            return abs(evaluate(t[2][0], env)) ** 0.5
    except (ZeroDivisionError, KeyError, TypeError):
        return None
    return None


def run(v, tier, seed, g):
    import ffcx.codegeneration.lnodes as L
    rng = random.Random(seed)
    ops = operands()
    # ---- overloads: real Python result tree vs the translated Gallina function -----------------
    cases = []   # (fname, a_tuple, b_tuple, python result tuple or None)
    for name, f in OPS:
        for a in ops:
            for b in ops:
                try:
                    r = p_c16._conv(f(a(), b()))
                except ValueError:
                    r = None
                cases.append((name, p_c16._conv(a()), p_c16._conv(b()), r))
    nums = [0, 1, -1, 2, 0.0, 1.0, -1.0, 0.5, -2.5, 1e-9, 0.9999999999]
    for name, f in ROPS:
        for a in ops:
            for n in nums:
                try:
                    r = p_c16._conv(f(a(), n))
                except ValueError:
                    r = None
                cases.append((name, p_c16._conv(a()), p_c16._conv(L.as_lexpr(n)), r))
    for a in ops:
        cases.append(("neg_s", p_c16._conv(a()), None, p_c16._conv(-a())))
    # float_product on factor lists
    fp = []
    for _ in range(60 if tier == "quick" else 600):
        fs = [rng.choice(ops)() for _ in range(rng.choice([0, 1, 2, 3, 4]))]
        fp.append(([p_c16._conv(f) for f in fs], p_c16._conv(L.float_product(fs))))
    path = os.path.join(common.GEN, "C17_cases.v")
    txt = ("From Coq Require Import ZArith List String Uint63.\nFrom FFCX Require Import LN Enc SmartBase Render.\n"
           "From FFCXGen Require Import SmartGen.\nImport ListNotations.\nOpen Scope string_scope.\n"
           "Definition oeq (a b : option expr) : bool := match a, b with Some x, Some y => expr_eqb x y | None, None => true | _, _ => false end.\n")
    checks = []
    for name, a, b, r in cases:
        call = f"{name} ({ffx.coq_expr(a)})" + (f" ({ffx.coq_expr(b)})" if b is not None else "")
        want = f"Some ({ffx.coq_expr(r)})" if r is not None else "None"
        checks.append(f"oeq ({call}) ({want})")
    for fs, r in fp:
        checks.append(f"expr_eqb (float_product_s [{'; '.join(ffx.coq_expr(f) for f in fs)}]) ({ffx.coq_expr(r)})")
    txt += "Definition checks : list bool := [\n " + ";\n ".join(checks) + "].\n"
    txt += "Eval vm_compute in checks.\n"
    open(path, "w").write(txt)
    out = common.coqc_many([path], timeout=900)[path]
    verdicts = None
    if out[0] == 0:
        m = re.search(r"=\s*\[(.*?)\]\s*:\s*list bool", out[1], re.S)
        verdicts = [x.strip() == "true" for x in m.group(1).split(";")]
    for ext in (".vo", ".vok", ".vos", ".glob"):
        try:
            os.remove(path[:-2] + ext)
        except OSError:
            pass
    allc = [(c[0], c[1], c[2], c[3]) for c in cases] + [("float_product_s", fs, None, r) for fs, r in fp]
    if verdicts is None or len(verdicts) != len(allc):
        v.oblige(False)
        v.violation("coq-model", "translated overloads could not be evaluated: " + out[2][-300:], {}, no_input=True)
    else:
        for ok, c in zip(verdicts, allc):
            v.oblige(ok)
            if not ok:
                v.violation(f"overload-model:{c[0]}", f"{c[0]}: Python result differs from the translated model on {c[1]} , {c[2]}",
                            {"function": c[0], "a": str(c[1]), "b": str(c[2]), "python_result": str(c[3])}, no_input=True)
    # ---- the same operand pairs, numerically: simplified tree vs unsimplified node (search engine) --
    bad_num = 0
    for name, a, b, r in cases:
        if r is None or b is None:
            continue
        for trial in range(3):
            env = {1: rng.uniform(-2, 2), 2: rng.randint(-3, 3), ("acc", 5): rng.uniform(-2, 2)}
            raw = ("EBin", "O" + RAW[name], a, b) if not name.startswith("r") else ("EBin", "O" + RAW[name], b, a)
            x, y = evaluate(raw, env), evaluate(r, env)
            if x is None or y is None:
                continue
            if not (abs(x - y) <= 1e-12 * (1 + abs(x))):
                bad_num += 1
                v.violation(f"overload-value:{name}", f"{name}: simplified tree has value {y}, the operation {x}",
                            {"function": name, "a": str(a), "b": str(b), "env": str(env), "simplified": str(r)})
                break
    v.oblige(bad_num == 0)
    if len(v.samples) < 4:
        v.samples.extend([{"function": c[0], "a": str(c[1]), "b": str(c[2]), "result": str(c[3])} for c in cases[137:140]])
    # ---- optimiser: kernels generated with the passes disabled vs enabled -------------------------
    # Proof per kernel pair: both kernels are executed SYMBOLICALLY (LN.exec over the free term algebra,
    # Sym.v) and their outputs compared as polynomials over the inputs (SymEq.kernels_equiv, by vm_compute);
    # SymEq.kernels_equiv_sound turns `true` into: same tensor for ALL inputs.  Kernels with data-dependent
    # control flow (conditionals) are compared by exact rational execution on random inputs instead.
    n_cases = 6 if tier == "quick" else 120
    kc = [c for c in corpus.PINNED if c["id"] in ("stiff_tri_p2_coef", "mass_quad_q2_nonaffine", "vector_tri_elasticity",
                                                  "mixed_tri_th", "int_facet_tri_jump", "two_rules_tri", "tensor_const_tri",
                                                  "stiff_hex_q1", "subdomains_tri", "rhs_tet_p2", "ext_facet_tri_normal", "int_facet_quad",
                                                  "n1curl_tet", "rt_tri_divdiv", "mathfun_tri", "conditional_tri")]
    kc += corpus.random_cases(seed, n_cases)
    res_on = common.run_cases(kc)
    res_off = common.run_cases(kc, disable_opt=True)
    common.clean_gen("C17o_")
    common.clean_gen("C17s_")
    files = {}
    sfiles = {}
    nrng = np.random.default_rng(seed)
    changed = 0
    import itertools
    for ron, roff in zip(res_on, res_off):
        if ron["status"] != "ok" or roff["status"] != "ok":
            continue
        for kon, koff in zip(ron["kernels"], roff["kernels"]):
            if "body" not in kon or "body" not in koff or kon["name"] != koff["name"]:
                continue
            if kon["body"] != koff["body"]:
                changed += 1
            con = kon["contract"]
            flops = execcorr.flops_estimate(kon["body"])
            if flops <= (15000 if tier == "quick" else 400000):
                # all admissible entity indices x permutation codes (capped)
                ents = list(itertools.product(range(con["e_range"][0], max(con["e_range"][1], 1)), repeat=con["ne"])) if con["ne"] else [()]
                perms = list(itertools.product(range(con["p_range"][0], max(con["p_range"][1], 1)), repeat=con["np"])) if con["np"] else [()]
                combos = list(itertools.product(ents, perms))
                cap = 8 if tier == "quick" else 200
                exhaustive = len(combos) <= cap
                if not exhaustive:
                    idx = nrng.choice(len(combos), size=cap, replace=False)
                    combos = [combos[i] for i in sorted(idx)]
                path = os.path.join(common.GEN, f"C17s_{len(sfiles)}.v")
                t = ("From Coq Require Import ZArith List String Uint63.\nFrom FFCX Require Import LN Enc Sym SymEq.\n"
                     "Import ListNotations.\nOpen Scope string_scope.\n")
                t += "Definition k_on : list stmt :=\n" + ffx.coq_body(kon["body"]) + ".\n"
                t += "Definition k_off : list stmt :=\n" + ffx.coq_body(koff["body"]) + ".\n"
                t += "Definition combos : list (list Z * list Z) := [" + "; ".join(f"({execcorr.zl(list(e))}, {execcorr.zl(list(p))})" for e, p in combos) + "].\n"
                t += (f"Definition all_equiv : bool := forallb (fun ep => kernels_equiv (sym_inputs {con['w_total']} {con['nc']} {con['nx']} (fst ep) (snd ep)) k_on k_off (sym_A {con['nA']}%nat)) combos.\n")
                t += "Eval vm_compute in (forallb nobr k_on && forallb nobr k_off)%%bool :: map (fun ep => kernels_equiv (sym_inputs %d %d %d (fst ep) (snd ep)) k_on k_off (sym_A %d%%nat)) combos.\n" % (con['w_total'], con['nc'], con['nx'], con['nA'])
                open(path, "w").write(t)
                sfiles[path] = (ron, kon, koff, exhaustive, combos)
    sout = common.coqc_many(list(sfiles), timeout=240 if tier == "quick" else 1200)
    n_sym, n_sym_exh, need_numeric = 0, 0, []
    for path, (ron, kon, koff, exhaustive, combos) in sfiles.items():
        rc, so, se = sout[path]
        mm = re.search(r"=\s*\[(.*?)\]\s*:\s*list bool", so, re.S) if rc == 0 else None
        b = [x.strip() == "true" for x in mm.group(1).split(";")] if mm else None
        ncombo = len(combos)
        if b and len(b) == 1 + ncombo and b[0] and not all(b[1:]):
            # branch-free kernels whose symbolic outputs differ: the passes changed the tensor (or the comparison is
            # too weak): search a concrete input with the first differing entity/permutation combination
            ebad, pbad = combos[b[1:].index(False)]
            need_numeric.append((ron, kon, koff, "symbolic outputs differ", (list(ebad), list(pbad))))
            continue
        if b and len(b) == 1 + ncombo and all(b):
            n_sym += 1
            n_sym_exh += 1 if exhaustive else 0
            v.oblige(True)
            if len(v.samples) < 6 and kon["body"] != koff["body"]:
                v.samples.append({"optimiser": "symbolic equivalence proved", "case": ron["id"], "kernel": kon["name"][:40], "entity_perm_combinations": ncombo, "exhaustive": exhaustive})
        else:
            need_numeric.append((ron, kon, koff, "data-dependent control flow (not in the branch-free fragment)" if b and not b[0] else ("timeout" if se == "TIMEOUT" else se[-120:]), None))
        for ext in (".vo", ".vok", ".vos", ".glob"):
            try:
                os.remove(path[:-2] + ext)
            except OSError:
                pass
    # exact rational execution on random inputs for the rest (search engine / fallback)
    for ron, kon, koff, why, ep in need_numeric:
        numeric_ok = ron.get("scalar_type") == "float64" and execcorr.calls_in(kon["body"]) <= {"abs"} and execcorr.flops_estimate(kon["body"]) <= 6000
        if not numeric_ok:
            if ep is not None:
                v.oblige(False)
                found = c_search(ron, kon["name"], con_of(kon), ep, nrng)
                if found:
                    v.violation(f"optimizer:{ron['id']}", f"kernel {kon['name']} computes a different tensor with the optimiser passes enabled than disabled (compiled C, entity indices {ep[0]}, permutation codes {ep[1]}, relative difference {found['relative_difference']:.3g})",
                                {"case": ron["id"], "code": ron["code"], "kernel": kon["name"], **found})
                    continue
                v.violation(f"optimizer-symbolic:{ron['id']}", f"kernel {kon['name']} with the optimiser passes enabled is not symbolically equal to the kernel without them (entity/permutation {ep})",
                            {"case": ron["id"], "code": ron["code"], "kernel": kon["name"], "entity_perm": ep, "broken_obligation": "SymEq.kernels_equiv"}, no_input=True)
            continue
        con = kon["contract"]
        d = inputs.make(con, nrng, "float64")
        if ep is not None:
            d["e"][:len(ep[0])] = ep[0]
            d["p"][:len(ep[1])] = ep[1]
        path = os.path.join(common.GEN, f"C17o_{len(files)}.v")

        def ql(a):
            return "[" + "; ".join("VF (q_of_lit (%d) (%d))" % ffx.dyadic(float(x)) for x in a) + "]"
        t = ("From Coq Require Import ZArith QArith List String Uint63.\nFrom FFCX Require Import LN Enc Num.\n"
             "Import ListNotations.\nOpen Scope string_scope.\n")
        t += "Definition k_on : list stmt :=\n" + ffx.coq_body(kon["body"]) + ".\n"
        t += "Definition k_off : list stmt :=\n" + ffx.coq_body(koff["body"]) + ".\n"
        t += (f"Definition inp := @inputs_of_lists Q {ql(d['w'])} {ql(d['c'])} {ql(d['x'])} "
              f"{execcorr.zl(d['e'][:con['ne']])} {execcorr.zl(d['p'][:con['np']])}.\n")
        t += f"Definition A0 : list q_val := {ql(d['A'])}.\n"
        t += "Eval vm_compute in q_same (q_run inp k_on A0) (q_run inp k_off A0).\n"
        open(path, "w").write(t)
        files[path] = (ron, kon, why, ep, d)
    out = common.coqc_many(list(files), timeout=150)
    n_same = 0
    n_timeout = 0
    for path, (ron, kon, why, ep, d) in files.items():
        rc, so, se = out[path]
        if se == "TIMEOUT":
            n_timeout += 1   # exact rational execution too slow for this kernel: not counted
            continue
        b = common.parse_bools(so)
        ok = rc == 0 and b == [True]
        if ok and ep is not None:
            # symbolic outputs differ but this input does not show it: still a broken obligation
            v.oblige(False)
            v.violation(f"optimizer-symbolic:{ron['id']}", f"kernel {kon['name']} with the optimiser passes enabled is not symbolically equal to the kernel without them (entity/permutation {ep}); the random input tried gives equal tensors",
                        {"case": ron["id"], "code": ron["code"], "kernel": kon["name"], "entity_perm": ep, "broken_obligation": "SymEq.kernels_equiv"}, no_input=True)
            continue
        v.oblige(ok)
        if ok:
            n_same += 1
        elif b == [False] and ep is not None:
            v.violation(f"optimizer:{ron['id']}", f"kernel {kon['name']} computes a different tensor with the optimiser passes enabled than disabled (entity indices {ep[0]}, permutation codes {ep[1]}; exact rational arithmetic)",
                        {"case": ron["id"], "code": ron["code"], "kernel": kon["name"], "entity_local_index": ep[0], "quadrature_permutation": ep[1],
                         "w": [float(x) for x in d["w"][:16]], "coordinate_dofs": [float(x) for x in d["x"][:18]]})
        else:
            v.violation(f"optimizer:{ron['id']}", f"kernel {kon['name']} computes a different tensor with the optimiser passes enabled than disabled (exact rational arithmetic; symbolic comparison: {why})" if b == [False]
                        else f"optimised/unoptimised kernels of {ron['id']} could not be executed: {se[-200:]}",
                        {"case": ron["id"], "code": ron["code"], "kernel": kon["name"]}, no_input=(b != [False]))
        for ext in (".vo", ".vok", ".vos", ".glob"):
            try:
                os.remove(path[:-2] + ext)
            except OSError:
                pass
    # ---- the optimiser MODEL (Opt.v) against optimizer.py: every captured optimize() call, node by node --------
    oc = optcorr.run(kc + [c for c in (corpus.PINNED[::2] if tier == "quick" else corpus.PINNED) if c not in kc] + corpus.random_cases(seed + 2, 6 if tier == "quick" else 150), "C17m")
    v.oblige(oc["matched"] == oc["calls"] and not oc["errors"] and oc["calls"] > 0, max(oc["calls"], 1))
    for e in oc["errors"][:3]:
        v.violation(f"optimizer-model-harness:{e[0]}", f"the optimiser correspondence could not be evaluated: {e[1]}", {"error": e}, no_input=True)
    opt_viol = {x[1] for x in v.violations if "optimi" in x[1]}
    for mm in oc["mismatches"][:5]:
        # the model (whose structural theorems are props/C17.v) no longer describes optimizer.py on this call; a
        # concrete failing input is what the on/off comparison above reports for the same case, if there is one
        cid = mm["case"]
        if any(cid in t for t in opt_viol):
            continue
        v.violation(f"optimizer-model:{cid}", f"optimizer.optimize returns a different tree than the model Opt.optimize on call {mm['call']} of case {cid}; "
                    "the kernels with the passes on and off were compared and no differing tensor was found",
                    {"case": cid, "call": mm["call"], "broken_obligation": "correspondence Opt.optimize = optimizer.optimize (harness/optcorr.py)"}, no_input=True)
    v.oblige(oc.get("desugar_equal", 0) == oc.get("desugar_compared", 0), max(oc.get("desugar_compared", 0), 1))
    if oc.get("desugar_equal", 0) != oc.get("desugar_compared", 0):
        v.violation("optimizer-model-desugar", "Opt.desugar (Section = declarations ; { statements }) differs from the exporter's desugaring of the same code list",
                    {"compared": oc.get("desugar_compared"), "equal": oc.get("desugar_equal")}, no_input=True)
    v.notes["optimizer_model"] = {k: oc.get(k) for k in ("cases", "calls", "matched", "changed", "unsupported", "kinds", "desugar_compared", "desugar_equal",
                                                         "side_condition_true", "side_condition_false", "side_condition_false_calls", "calls_with_shadowing")}
    v.notes["optimizer_model"]["meaning"] = ("matched: Opt.optimize returns the tree optimizer.optimize returned (node by node); side_condition_true: OptSound.opt_ok holds for the "
                                             "captured input, so section and loop fusion are PROVED to refine it for all inputs (C17_section_and_loop_fusion_preserve_the_kernel_body)")
    # ---- LN.exec itself against gcc (ties the semantics every AST theorem rests on) ------------
    xc = execcorr.run(corpus.PINNED + corpus.random_cases(seed + 1, 10 if tier == "quick" else 200), "C17x", seed)
    v.oblige(xc["agree"] == xc["compared"], max(xc["compared"], 1))
    for d in xc["disagreements"][:5]:
        v.violation(f"exec-vs-gcc:{d['case']}", f"LN.exec and the compiled C disagree on kernel {d['kernel']}: {d['why']}",
                    d, no_input=False)
    v.notes["exec_vs_gcc"] = {k: xc[k] for k in ("compared", "agree", "skipped", "kernels")}
    v.notes["optimizer"] = {"kernel_pairs": len(sfiles), "proved_equivalent_symbolically": n_sym, "of_which_all_entity_perm_combinations": n_sym_exh,
                            "fallback_exact_rational_runs": len(files), "fallback_equal": n_same, "pairs_where_passes_changed_the_ast": changed, "skipped_timeout": n_timeout}
    if not g["ok"] and not v.violations:
        v.violation("gate", "proof obligations no longer check: " + "; ".join(g["broken"]), {"broken": g["broken"]}, no_input=True)
    cov = {
        "checker_cmd": f"./check C17 --tier {tier}",
        "trusted_base": ["Coq kernel + VM", "tr_smart.py (translation of LExpr.__neg__..__rdiv__, is_*_lexpr, float_product)",
                         "exact arithmetic (commutative ring under of_Z): IEEE corner cases 0*inf, -0, 0/0 excluded",
                         "optimiser model Opt.v: hand-written, tied to optimizer.py by node-by-node comparison of Opt.optimize with the real result on every optimize() call of the compiled cases (optcorr.py; exporter ffx.conv_items)", "optimiser passes: per kernel pair (passes on/off) proved equivalent for all inputs by symbolic execution + polynomial normal forms (Sym.v, SymEq.v: Ring_polynom over Z, atoms compared syntactically); kernels with conditionals fall back to exact rational execution on random inputs"],
        "evaluations": len(allc) + len(files) + xc["compared"], "distinct_nontrivial": len(allc),
        "rule": "overloads: every operand kind pair (%d kinds) x 8 binary overloads + neg + float_product lists; optimiser: kernels on/off; exec vs gcc" % len(ops),
        "axioms_under_property_theorems": g.get("axioms", []),
    }
    return v.finish("proof", cov, ["optimiser half: structural/algebraic facts proved for all code lists over the model Opt.v; preservation of the tensor proved per sampled kernel pair, not for the passes as functions on all ASTs; kernels with conditionals only by execution"])


def con_of(k):
    return k["contract"]


def c_search(ron, name, con, ep, nrng):
    """compile the case with and without the optimiser passes and run both C kernels on random inputs with
    the entity/permutation values for which the symbolic outputs differ."""
    import runc
    case = [{"id": ron["id"], "code": ron["code"]}]
    a = common.run_cases(case, want_text=True)[0]
    b = common.run_cases(case, want_text=True, disable_opt=True)[0]
    if a["status"] != "ok" or b["status"] != "ok":
        return None
    ba, bb = runc.CBuild(a["header"], a["source"]), runc.CBuild(b["header"], b["source"])
    if not (ba.ok and bb.ok):
        return None
    for trial in range(5):
        d = inputs.make(con, nrng, a.get("scalar_type", "float64"))
        d["e"][:len(ep[0])] = ep[0]
        d["p"][:len(ep[1])] = ep[1]
        A1, A2 = d["A"].copy(), d["A"].copy()
        runc.call_kernel(ba.kernel(name), A1, d["w"], d["c"], d["x"], d["e"], d["p"])
        runc.call_kernel(bb.kernel(name), A2, d["w"], d["c"], d["x"], d["e"], d["p"])
        scale = max(float(np.max(np.abs(A2))), 1e-3)
        rel = float(np.max(np.abs(A1 - A2))) / scale
        if not (rel <= 1e-9):      # NaN / inf in one of the two results counts as a difference
            return {"entity_local_index": ep[0], "quadrature_permutation": ep[1], "relative_difference": rel,
                    "A_with_passes": [float(np.real(x)) for x in A1[:12]], "A_without_passes": [float(np.real(x)) for x in A2[:12]],
                    "w": [float(np.real(x)) for x in d["w"][:12]], "coordinate_dofs": [float(x) for x in d["x"][:18]]}
    return None


def replay(v, payload):
    print(payload)
    return 1
