"""stmtcorr.py — correspondence of the statement printer model (coq/theories/StmtFmt.v fmtS) with C/formatter.py:
for every kernel of the given cases the text the real Formatter prints is lexed (comments dropped) into the token
alphabet of StmtFmt and compared, inside Coq, with the tokens the model prints for the exported tree (same identifier
numbering, literals as the C text reads them).  Equality is up to what a lexer cannot tell apart (StmtRender.norm_stok)."""
from __future__ import annotations

import os
import re

import common
import cparse
import ffx

KW = {"for", "int", "static", "const", "double", "float", "bool"}
PUNCT = {"(": "XE TLP", ")": "XE TRP", "[": "XE TLB", "]": "XE TRB", ",": "XE TComma", "?": "XE TQ", ":": "XE TColon",
         "-": "XE TMinus", "!": "XE TBang", "{": "XLBrace", "}": "XRBrace", ";": "XSemi", "=": "XAssign", "+=": "XPlusAssign",
         "++": "XIncr", "+": "XE (TOp OAdd)", "*": "XE (TOp OMul)", "/": "XE (TOp ODiv)", "==": "XE (TOp OEQ)", "!=": "XE (TOp ONE)",
         "<": "XE (TOp OLT)", ">": "XE (TOp OGT)", "<=": "XE (TOp OLE)", ">=": "XE (TOp OGE)", "&&": "XE (TOp OAnd)", "||": "XE (TOp OOr)"}
TYNAMES = {"float64": ("double", "double"), "float32": ("float", "float")}


info_neg_zero = [0]


def real_tokens(text, ids, funs):
    """-> list of Coq stok terms, or raises ValueError"""
    text = re.sub(r"//[^\n]*", "", text)
    toks = cparse.lex(text)
    out = []
    for j, (kind, s) in enumerate(toks):
        if kind == "id":
            nxt = toks[j + 1][1] if j + 1 < len(toks) else ""
            if s in KW:
                out.append(f'XKw "{s}"')
            elif nxt == "(" and s in funs:
                out.append('XE (TFun "")')
            elif s in ids:
                out.append(f"XE (TId {ids[s]})")
            else:
                raise ValueError(f"identifier {s} not in the exported tree")
        elif kind == "int":
            out.append(f"XE (TInt {int(s)})")
        elif kind == "float":
            m, e = ffx.dyadic(float(s))
            if m == 0 and out and out[-1] == "XE TMinus" and (len(out) < 2 or out[-2] in ("XLBrace", "XE TComma", "XE TLP", "XE TLB", "XAssign", "XPlusAssign")):
                out.pop()      # "-0.0": the exported tree holds exact rationals, which have no signed zero
                info_neg_zero[0] += 1
            out.append(f"XE (TNum {ffx.cz(m)} {ffx.cz(e)})")
        elif s in PUNCT:
            out.append(PUNCT[s])
        else:
            raise ValueError(f"token {s!r} outside the statement alphabet")
    return out


def run(cases, tag="Stmtc", max_tokens=60000, timeout=600):
    from ffcx.codegeneration.C.formatter import math_table
    funs = set()
    for tab in math_table.values():
        funs.update(tab.values())
        funs.update(tab.keys())
    res = common.run_cases(cases, lit="c_printed", extra={"want_flat": True})
    common.clean_gen(tag + "_")
    files = {}
    info = {"kernels": 0, "equal": 0, "skipped": {}, "mismatches": [], "errors": [], "tokens": 0, "not_wf": 0}

    def skip(why):
        info["skipped"][why] = info["skipped"].get(why, 0) + 1
    for r in res:
        if r["status"] != "ok":
            continue
        st = r.get("scalar_type", "")
        if st not in TYNAMES:
            skip("scalar type " + st)
            continue
        for kd in r["kernels"]:
            if "body_flat" not in kd:
                skip(kd.get("unsupported", "no flat body")[:40])
                continue
            try:
                rt = real_tokens(kd["ktext"], kd["ids_flat"], funs)
            except ValueError as e:
                info["errors"].append((r["id"], str(e)[:120]))
                continue
            if len(rt) > max_tokens:
                skip("large")
                continue
            real, scal = TYNAMES[st][0], TYNAMES[st][1]
            path = os.path.join(common.GEN, f"{tag}_{len(files)}.v")
            t = ("From Coq Require Import ZArith List String Uint63.\nFrom FFCX Require Import LN Enc Tok StmtFmt StmtRender.\n"
                 "Import ListNotations.\nOpen Scope string_scope.\n"
                 f'Definition tyname (d : dtype) : string := match d with DReal => "{real}" | DScalar => "{scal}" | DInt => "int" | DBool => "bool" end.\n')
            t += "Definition body : list stmt :=\n" + ffx.coq_body(kd["body_flat"]) + ".\n"
            t += "Definition real : list stok :=\n [" + "; ".join(rt) + "].\n"
            t += "Eval vm_compute in (first_diff (kernel_tokens tyname body) real 0, forallb (wfS nest_by_shape) body).\n"
            open(path, "w").write(t)
            files[path] = (r["id"], kd["name"], len(rt), rt)
    out = common.coqc_many(list(files), timeout=timeout)
    for path, (cid, kname, n, rt) in files.items():
        rc, so, se = out[path]
        m = re.search(r"=\s*\((None|Some (\d+)(?:%nat)?),\s*(true|false)\)", so) if rc == 0 else None
        if not m:
            info["errors"].append((cid, (se or so)[-200:]))
        else:
            info["kernels"] += 1
            info["tokens"] += n
            if m.group(3) != "true":
                info["not_wf"] += 1
            if m.group(1) == "None":
                info["equal"] += 1
            else:
                k = int(m.group(2))
                info["mismatches"].append({"case": cid, "kernel": kname, "token_index": k, "real_tokens_there": rt[max(0, k - 4):k + 4]})
        for ext in (".vo", ".vok", ".vos", ".glob"):
            try:
                os.remove(path[:-2] + ext)
            except OSError:
                pass
    info["negative_zero_literals_read_as_zero"] = info_neg_zero[0]
    return info


if __name__ == "__main__":
    import json
    import sys

    import corpus
    n = int(sys.argv[1]) if len(sys.argv) > 1 else 4
    r = run(list(corpus.PINNED)[:40] + corpus.random_cases(0, n))
    r["mismatches"] = r["mismatches"][:4]
    r["errors"] = r["errors"][:4]
    print(json.dumps(r, indent=1, default=str)[:4000])
