"""C15 — a failed or killed JIT build never poisons later requests or the process."""
import common
import jitconf
import tr_jit


def run(v, tier, seed, g):
    try:
        restore = tr_jit.generate()
    except tr_jit.TranslationError:
        restore = True      # the gate has recorded the failed translation; the schedules below are the search for a failing input
    n = 160 if tier == "quick" else 4000
    specs = jitconf.schedules(seed, n // 2, faults=True, kills=True, nreq=(2, 5))
    specs += jitconf.schedules(seed + 1, n // 2, faults=True, kills=False, nreq=(3, 6))
    runs, errs = jitconf.run_real(specs)
    for e in errs:
        v.oblige(False)
        v.violation("scheduler-run", "scheduled runs of jit.py did not complete: " + e, {}, no_input=True)
    try:
        model = jitconf.run_model(runs, restore)
    except Exception as e:  # noqa: BLE001
        model = []
        v.oblige(False)
        v.violation("coq-model", str(e), {}, no_input=True)
    jitconf.compare(v, runs, model, "C15")
    nontriv = set()
    kinds = {"fault": 0, "kill": 0}
    for r in runs:
        evs = [jitconf.ev(e) for e in r["events"]]
        nontriv.add(tuple(evs))
        kinds["fault"] += sum(1 for e in r["events"] if e[0] == "Step" and e[2] == "Fault")
        kinds["kill"] += sum(1 for e in r["events"] if e[0] == "Step" and e[2] == "Kill")
        # the property on the real runs
        bad = []
        if "LoadedPartial" in r["outcomes"]:
            bad.append("a request loaded a partially written module")
        for o, s in zip(r["outcomes"], r["swapped"]):
            if s and o != "Dead":
                bad.append(f"root logger handlers not restored in a request that ended with {o}")
                break
        if "RaisedBuild" in r["outcomes"] and not any(e[0] == "Step" and e[2] == "Kill" for e in r["events"]):
            # after a failed build the lock must be gone unless a later builder holds/finished it
            if r["fs"]["c"] and not r["fs"]["cached"] and all(o != "Running" for o in r["outcomes"]) \
                    and r["outcomes"][-1] == "RaisedBuild":
                bad.append("lock file still present after the last build failed")
        v.oblige(not bad)
        if bad:
            v.violation("c15:" + bad[0][:40], bad[0], {"schedule": r["spec"], "events": evs, "outcomes": r["outcomes"],
                                                       "handlers_swapped": r["swapped"], "fs": r["fs"]})
        elif len(v.samples) < 3 and any("Fault" in e or "Kill" in e for e in evs):
            v.samples.append({"events": evs[:40], "outcomes": r["outcomes"], "fs": r["fs"]})
    # the window the safety theorem excludes: a failure while the build log is written into the
    # already created marker.  Scripted: builder 0 up to the log write, fault, rename; builder 1
    # starts compiling; request 2 sees the stale marker.
    script = [("spawn",), (0, "Normal"), (0, "Normal"), (0, "Normal"), (0, "Normal"), (0, "Normal"), (0, "Fault"), (0, "Normal"),
              ("spawn",), (1, "Normal"), (1, "Normal"), (1, "Normal"),
              ("spawn",), (2, "Normal"), (2, "Normal"), (2, "Normal")]
    wruns, werrs = jitconf.run_real([{"seed": 1, "nreq": 3, "faults": True, "kills": False, "window": True, "script": script}])
    if wruns:
        try:
            wmodel = jitconf.run_model(wruns, restore)
            jitconf.compare(v, wruns, wmodel, "C15-window")
        except Exception as e:  # noqa: BLE001
            v.violation("coq-model", str(e), {}, no_input=True)
        r = wruns[0]
        if "LoadedPartial" in r["outcomes"]:
            v.violation("c15-marker-window", "a failure while writing the build log into the already created marker (e.g. ENOSPC) leaves the marker behind: "
                        "the lock is released, the next builder rewrites the shared object under a present marker and a third request loads it half-written; "
                        "every later build of this module then fails at open(marker,'x')",
                        {"events": [jitconf.ev(e) for e in r["events"]], "outcomes": r["outcomes"], "fs": r["fs"]})
    if not g["ok"] and not v.violations and not v.known_hits:
        v.violation("gate", "proof obligations no longer check: " + "; ".join(g["broken"]), {"broken": g["broken"]}, no_input=True)
    cov = {"checker_cmd": f"./check C15 --tier {tier}",
           "trusted_base": ["Coq kernel + VM", "hand model Jit.v (trace conformance under fault/kill injection)",
                            "kill = the process disappears between two file-system calls; faults = the primitive raises",
                            "POSIX atomicity of open('x') / rename; loader replaced by a content check", "tr_jit.py"],
           "evaluations": len(runs), "distinct_nontrivial": len(nontriv), "injected": kinds,
           "states": len(nontriv), "transitions": sum(len(r["events"]) for r in runs), "traces_validated_against_impl": len(runs),
           "rule": "random interleavings of 2-6 requests with faults at code generation / compile start / compile end and kills at any stop; the window between creating the marker and returning is excluded from the safety theorem (refuted there: marker_window_refuted) and from the injected faults",
           "axioms_under_property_theorems": g.get("axioms", [])}
    return v.finish("proof", cov, ["a fault while writing the build log into the already created marker (e.g. ENOSPC) is outside the proved safety statement and recorded as a known finding"])


def replay(v, payload):
    print(payload)
    return 1
