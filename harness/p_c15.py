"""C15 — a failed or killed JIT build never poisons later requests or the process."""
import common
import jitconf
import tr_jit


def run(v, tier, seed, g):
    try:
        restore = tr_jit.generate()
    except tr_jit.TranslationError:
        restore = (True, True)      # the gate has recorded the failed translation; the schedules below are the search for a failing input
    atomic = restore[1]
    n = 160 if tier == "quick" else 4000
    # with atomic publication of the marker a failure is injected at the log write and at the publication too
    specs = jitconf.schedules(seed, n // 2, faults=True, kills=True, nreq=(2, 5), window=atomic)
    specs += jitconf.schedules(seed + 1, n // 2, faults=True, kills=False, nreq=(3, 6), window=atomic)
    runs, errs = jitconf.run_real(specs)
    for e in errs:
        v.oblige(False)
        v.violation("scheduler-run", "scheduled runs of jit.py did not complete: " + e, {}, no_input=True)
    try:
        model = jitconf.run_model(runs, restore)
    except Exception as e:  # noqa: BLE001
        model = []
        v.oblige(False)
        v.violation("coq-model", str(e), {}, no_input=True)
    nontriv = set()
    kinds = {"fault": 0, "kill": 0}
    for r in runs:
        evs = [jitconf.ev(e) for e in r["events"]]
        nontriv.add(tuple(evs))
        kinds["fault"] += sum(1 for e in r["events"] if e[0] == "Step" and e[2] == "Fault")
        kinds["kill"] += sum(1 for e in r["events"] if e[0] == "Step" and e[2] == "Kill")
        # the property on the real runs
        bad = []
        if "LoadedPartial" in r["outcomes"]:
            bad.append("a request loaded a partially written module")
        for o, s in zip(r["outcomes"], r["swapped"]):
            if s and o != "Dead":
                bad.append(f"root logger handlers not restored in a request that ended with {o}")
                break
        if "RaisedBuild" in r["outcomes"] and not any(e[0] == "Step" and e[2] == "Kill" for e in r["events"]):
            # after a failed build the lock must be gone unless a later builder holds/finished it
            if r["fs"]["c"] and not r["fs"]["cached"] and all(o != "Running" for o in r["outcomes"]) \
                    and r["outcomes"][-1] == "RaisedBuild":
                bad.append("lock file still present after the last build failed")
        # only a request whose own build was made to fail may raise a build error
        for pid, o in enumerate(r["outcomes"]):
            if o in ("RaisedBuild", "RaisedNotFound") and not any(e[0] == "Step" and e[1] == pid and e[2] == "Fault" for e in r["events"]):
                bad.append(f"request {pid} raised {(r.get('errors') or {}).get(pid, o)} although nothing failed in it")
                break
        v.oblige(not bad)
        if bad:
            v.violation("c15:" + bad[0][:40], bad[0], {"schedule": r["spec"], "events": evs, "outcomes": r["outcomes"],
                                                       "handlers_swapped": r["swapped"], "fs": r["fs"]})
        elif len(v.samples) < 3 and any("Fault" in e or "Kill" in e for e in evs):
            v.samples.append({"events": evs[:40], "outcomes": r["outcomes"], "fs": r["fs"]})
    # the property on the real runs is reported first (concrete schedules); then the conformance with the model
    jitconf.compare(v, runs, model, "C15")
    # the window an empty-then-filled marker opens: a failure while the build log is written.  Scripted: builder 0 up
    # to the log write, fault, rename; builder 1 starts compiling; request 2 polls the marker.
    if atomic:
        script = [("spawn",), (0, "Normal"), (0, "Normal"), (0, "Normal"), (0, "Normal"), (0, "Fault"), (0, "Normal"),
                  ("spawn",), (1, "Normal"), (1, "Normal"), (1, "Normal"),
                  ("spawn",), (2, "Normal"), (2, "Normal"), (2, "Normal")]
    else:
        script = [("spawn",), (0, "Normal"), (0, "Normal"), (0, "Normal"), (0, "Normal"), (0, "Normal"), (0, "Fault"), (0, "Normal"),
                  ("spawn",), (1, "Normal"), (1, "Normal"), (1, "Normal"),
                  ("spawn",), (2, "Normal"), (2, "Normal"), (2, "Normal")]
    wruns, werrs = jitconf.run_real([{"seed": 1, "nreq": 3, "faults": True, "kills": False, "window": True, "script": script}])
    v.oblige(bool(wruns))
    if not wruns:
        v.violation("scheduler-run", "the scripted log-write failure did not run: " + "; ".join(werrs)[:300], {}, no_input=True)
    if wruns:
        try:
            wmodel = jitconf.run_model(wruns, restore)
            jitconf.compare(v, wruns, wmodel, "C15-window")
        except Exception as e:  # noqa: BLE001
            v.violation("coq-model", str(e), {}, no_input=True)
        r = wruns[0]
        faulted = any(e[0] == "Step" and e[2] == "Fault" for e in r["events"])
        bad = "LoadedPartial" in r["outcomes"] or (r["fs"]["cached"] and r["fs"]["so"] != "SoComplete") or not faulted
        v.oblige(not bad)
        if bad:
            v.violation("c15-marker-window", "a failure while the build log is written for the ready marker (e.g. ENOSPC) leaves the marker behind: "
                        "the lock is released, the next builder rewrites the shared object under a present marker and a third request loads it half-written; "
                        "every later build of this module then fails at the marker" if faulted else "the scripted failure at the log write was not injected",
                        {"events": [jitconf.ev(e) for e in r["events"]], "outcomes": r["outcomes"], "fs": r["fs"]})
    if not g["ok"] and not v.violations and not v.known_hits:
        v.violation("gate", "proof obligations no longer check: " + "; ".join(g["broken"]), {"broken": g["broken"]}, no_input=True)
    cov = {"checker_cmd": f"./check C15 --tier {tier}",
           "trusted_base": ["Coq kernel + VM", "hand model Jit.v (trace conformance under fault/kill injection)",
                            "kill = the process disappears between two file-system calls; faults = the primitive raises",
                            "POSIX atomicity of open('x') / rename; loader replaced by a content check", "tr_jit.py"],
           "evaluations": len(runs), "distinct_nontrivial": len(nontriv), "injected": kinds,
           "states": len(nontriv), "transitions": sum(len(r["events"]) for r in runs), "traces_validated_against_impl": len(runs),
           "rule": "random interleavings of 2-6 requests with faults at code generation / compile start / compile end / log write / marker publication and kills at any stop; plus the scripted log-write failure that used to poison the cache",
           "axioms_under_property_theorems": g.get("axioms", [])}
    return v.finish("proof", cov, ["kill = the process disappears between two file-system calls (no torn writes of the marker: it is published by one rename)"])


def replay(v, payload):
    print(payload)
    return 1
