"""C05 — packing contract / enabled_coefficients truthful."""
import astprops
import corpus
import valprops

EXTRA = [
    corpus._c("c05_derivative_drops_coef", '''
m=mesh("triangle"); V=space(m,"P",1); u,v=TrialFunction(V),TestFunction(V); f=Coefficient(V); g=Coefficient(V)
F=(f*f*g+g)*v*dx
objs=[derivative(F,f,u)]'''),
    corpus._c("c05_constant_vanishes_in_derivative", '''
m=mesh("triangle"); V=space(m,"P",1); u=Coefficient(V); du,v=TrialFunction(V),TestFunction(V)
b=Constant(m); K=Constant(m,shape=(2,2)); s=Constant(m)
F=inner(K*grad(u),grad(v))*dx - b*v*dx + s*u*u*v*ds
objs=[derivative(F,u,du)]'''),
    corpus._c("c05_constants_per_integral", '''
m=mesh("tetrahedron"); V=space(m,"P",1); v=TestFunction(V)
a=Constant(m,shape=(3,)); b=Constant(m); c=Constant(m,shape=(2,2)); d=Constant(m)
objs=[b*v*dx(1) + d*v*dx(2) + a[2]*v*ds + c[1,0]*v*dx(3)]'''),
    corpus._c("c05_cancellation", '''
m=mesh("triangle"); V=space(m,"P",1); v=TestFunction(V); f=Coefficient(V); g=Coefficient(V); h=Coefficient(V)
objs=[(f+g-f)*v*dx + h*v*ds]'''),
    corpus._c("c05_subsets_per_integral", '''
m=mesh("tetrahedron"); V=space(m,"P",1); W=space(m,"P",2); v=TestFunction(V); f=Coefficient(V); g=Coefficient(W); h=Coefficient(V)
K=Constant(m,shape=(3,3)); b=Constant(m,shape=(3,)); s=Constant(m)
objs=[f*v*dx(1) + g*v*dx(2) + h*inner(K*grad(v),b)*ds(1) + s*avg(g)*avg(v)*dS]'''),
    # sub-functions of a mixed coefficient on both sides of an interior facet, next to other coefficients
    corpus._c("c05_mixed_coefficient_both_sides", '''
m=mesh("triangle"); E=basix.ufl.mixed_element([el("P","triangle",2), el("P","triangle",1)]); W=FunctionSpace(m,E); w=Coefficient(W); (q,p)=split(w)
V=space(m,"P",1,shape=(2,)); g=Coefficient(V); f=Coefficient(space(m,"P",1)); v=TestFunction(space(m,"DP",1))
objs=[f*dx + (7*q('+') + 5*p('+') + 3*q('-') + 2*p('-') + 11*g('-')[0] + 13*g('+')[1])*dS, (p('-')*q('+') + f('-'))*v('+')*dS + g[0]*p*v*ds]'''),
    corpus._c("c05_interior_facet_two_coefs", '''
m=mesh("triangle"); V=space(m,"DP",1); W=space(m,"DP",2); u,v=TrialFunction(V),TestFunction(V); f=Coefficient(W); g=Coefficient(V)
objs=[f('-')*g('+')*jump(u)*jump(v)*dS + g*u*v*dx]'''),
]


def slot_values(v, tier, seed):
    """which slot of w each value is read from: the kernels of the cases above against the oracle, which lays w out as
    the contract says (coefficient k at offset_k, on interior facets the '+' block of the whole element, then the '-' block)"""
    more = [c for c in corpus.PINNED if c["id"] in ("real_coefficient_interior_facet", "constants_interior_facet", "form_constants_coefficients_9_10",
                                                    "prism_ds_coefficient", "real_space_tri", "exo_real_space")]
    res = valprops.run_oracle(EXTRA + more, seed, entity_mode="random")
    st = valprops.account(v, res, "c05", what="kernel reads a coefficient / constant value from another slot than the packing contract says")
    return {"slot_layout_vs_oracle": st}


def run(v, tier, seed, g):
    return astprops.run_ast_property(
        v, tier, seed, g, "safe_enabled", "C05", astprops.search_poison_counterexample,
        "kernel reads coefficient storage outside the enabled/packed ranges", extra_pinned=EXTRA, extra_run=slot_values,
        extra_assumptions=["UFL's reduced_coefficients / enabled_coefficients are taken as the form's surviving coefficients"])


def replay(v, payload):
    res, recs = __import__("astcheck").run([{"id": payload["case"], "code": payload["code"]}], "C05r")
    bad = [r for r in recs if not (r["bits"] and r["bits"][1])]
    for r in bad:
        print("still failing:", r["name"], r["bits"])
    return 1 if bad else 0
