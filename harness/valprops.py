"""Shared driver for the value properties decided against the independent oracle
(harness/oracle.py): C01 C02 C04 C09 C10 C11 (and the dispatch half of C06)."""

from __future__ import annotations

import common
import corpus


def run_oracle(cases, seed, entity_mode="random", options_override=None, timeout=400):
    return common.run_cases(cases, script="oraclerun.py", timeout=timeout,
                            extra={"seed": seed, "entity_mode": entity_mode, "options_override": options_override})


def account(v, results, prop_label, types=None, what="kernel output differs from the quadrature sum of the declared integrands"):
    """obligation per compared kernel; returns stats dict."""
    st = {"agree": 0, "mismatch": 0, "unsupported": 0, "oracle_error": 0, "cases": len(results), "rejected": 0,
          "by_type": {}, "unsupported_reasons": {}}
    distinct = set()
    for r in results:
        if r["status"] in ("rejected", "skipped"):
            st["rejected"] += 1
            if r["status"] == "rejected" and not r["id"].startswith(("rnd", "rnx", "rne", "unsupported")) and "mayreject" not in r["id"]:
                # a hand-written case is meant to be accepted: a rejection is either a harness defect (does not even
                # build) or FFCx refusing / crashing on input it used to accept
                v.oblige(False)
                harness = "Error: name " in r.get("error", "") or "SyntaxError" in r.get("error", "")
                v.violation(f"{'harness-case' if harness else 'rejected-case'}:{r['id']}",
                            (f"case {r['id']} does not build: " if harness else f"case {r['id']}, accepted on the pinned tree, is rejected: ") + r.get("error", "")[:160],
                            {"case": r["id"], "code": r["code"]}, no_input=harness)
            continue
        if r["status"] == "timeout" and r["id"].startswith(("rnd", "rnx", "rne")):
            # a randomly generated case on which compilation or the oracle does not finish within the time limit: not compared
            # (counted; a pinned case that times out is still reported)
            st["timeouts"] = st.get("timeouts", 0) + 1
            continue
        if r["status"] != "ok":
            v.oblige(False)
            v.violation(f"oracle-run:{r['id']}", f"case {r['id']}: {r['status']} {r.get('error','')[:200]}",
                        {"case": r["id"], "code": r["code"]}, no_input=(r["status"] != "gcc_failed"))
            continue
        for k in r["kernels"]:
            t = k.get("integral_type")
            if types is not None and k["status"] in ("agree", "mismatch") and t not in types:
                continue
            s = k["status"]
            st[s] = st.get(s, 0) + 1
            if s == "agree":
                v.oblige(True)
                st["by_type"][t] = st["by_type"].get(t, 0) + 1
                distinct.add((r["id"], k["name"]))
                if len(v.samples) < 5:
                    v.samples.append({"case": r["id"], "kernel": k["name"][:40], "type": t, "max_rel_err": k["error"], "entities": k.get("entities")})
            elif s == "mismatch":
                if not v.is_known(f"{prop_label}:{r['id']}:{t}"):     # a listed finding is reported, not counted as an obligation
                    v.oblige(False)
                v.violation(f"{prop_label}:{r['id']}:{t}", f"{what}: case {r['id']}, {t} kernel, local entity {k.get('entity')}, relative error {k['error']:.3g}",
                            {"case": r["id"], "code": r["code"], "kernel": k["name"], "entity": k.get("entity"),
                             "observed": [str(x) for x in k.get("observed", [])], "expected": [str(x) for x in k.get("expected", [])],
                             "relative_error": k["error"]})
            elif s == "unsupported":
                st["unsupported_reasons"][k["why"][:60]] = st["unsupported_reasons"].get(k["why"][:60], 0) + 1
            elif s == "oracle_error":
                v.oblige(False)
                v.violation(f"oracle-error:{r['id']}", f"oracle failed on case {r['id']}: {k.get('why','')[:200]}",
                            {"case": r["id"], "code": r["code"], "trace": k.get("tb", "")}, no_input=True)
    st["distinct"] = len(distinct)
    return st


ORACLE_TRUST = [
    "harness/oracle.py: textbook push-forwards, basix tabulation of reference basis functions and quadrature rules, UFL point evaluation of the original integrand after expand_derivatives + apply_algebra_lowering only",
    "gcc -O0 -ffp-contract=off; comparison tolerance 1e-9 (float64/complex128) or 2e-4 (float32/complex64) relative to the largest entry",
    "random dyadic inputs, non-degenerate perturbed geometries; interior facets: '-' cell = mirror image of '+' with the same local numbering, permutation codes 0",
]
