"""C10 — optimisation options never change the computed tensor."""
import common
import corpus
import valprops

_c = corpus._c

# tensor-product elements: sum_factorization=True must give the tensor of the plain kernel
SUMFACT = [
    _c("c10_sf_hex_q2_stiffness", '''
m=tpmesh("hexahedron"); V=FunctionSpace(m,tp("hexahedron",2)); u,v=TrialFunction(V),TestFunction(V)
objs=[inner(grad(u),grad(v))*dx]'''),
    _c("c10_sf_quad_q2_coef_const", '''
m=tpmesh("quadrilateral"); V=FunctionSpace(m,tp("quadrilateral",2)); u,v=TrialFunction(V),TestFunction(V); f=Coefficient(V); k=Constant(m)
objs=[k*f*inner(grad(u),grad(v))*dx + f*f*u*v*dx]'''),
    _c("c10_sf_quad_q3_rhs_nonlinear", '''
m=tpmesh("quadrilateral"); V=FunctionSpace(m,tp("quadrilateral",3)); v=TestFunction(V); f=Coefficient(V); x=SpatialCoordinate(m)
objs=[sqrt(f*f+1.0)*x[0]*v*dx + dot(grad(f),grad(v))*dx]'''),
    _c("c10_sf_hex_q1_functional", '''
m=tpmesh("hexahedron"); V=FunctionSpace(m,tp("hexahedron",1)); f=Coefficient(V); g=Coefficient(V)
objs=[f*g*dx + dot(grad(f),grad(g))*dx]'''),
    _c("c10_sf_quad_two_degrees", '''
m=tpmesh("quadrilateral"); V=FunctionSpace(m,tp("quadrilateral",2)); u,v=TrialFunction(V),TestFunction(V); f=Coefficient(V)
objs=[f*u*v*dx(degree=2) + inner(grad(u),grad(v))*dx(degree=5)]'''),
    _c("c10_sf_quad_gll", '''
m=tpmesh("quadrilateral"); V=FunctionSpace(m,tp("quadrilateral",2)); u,v=TrialFunction(V),TestFunction(V)
objs=[u*v*dx(scheme="GLL", degree=3)]'''),
    _c("c10_sf_quad_vector", '''
m=tpmesh("quadrilateral"); V=FunctionSpace(m,tp("quadrilateral",2,shape=(2,))); u,v=TrialFunction(V),TestFunction(V)
objs=[inner(grad(u),grad(v))*dx + div(u)*div(v)*dx]'''),
    _c("c10_sf_hex_mixed_degree_spaces", '''
m=tpmesh("hexahedron"); V=FunctionSpace(m,tp("hexahedron",2)); W=FunctionSpace(m,tp("hexahedron",1)); u=TrialFunction(V); q=TestFunction(W)
objs=[u.dx(0)*q*dx]'''),
    # tensor-factorised tables next to tables read through the flattened point index
    _c("c10_sf_quad_tp_space_plain_geometry", '''
m=mesh("quadrilateral"); V=FunctionSpace(m,tp("quadrilateral",2)); u,v=TrialFunction(V),TestFunction(V)
objs=[u*v*dx + inner(grad(u),grad(v))*dx]'''),
    _c("c10_sf_quad_plain_coefficient", '''
m=tpmesh("quadrilateral"); V=FunctionSpace(m,tp("quadrilateral",2)); u,v=TrialFunction(V),TestFunction(V); f=Coefficient(space(m,"Q",1)); x=SpatialCoordinate(m)
objs=[f*u*v*dx + x[0]*x[0]*x[1]*u*v*dx]'''),
    _c("c10_sf_hex_tp_space_plain_geometry_dg_coef", '''
m=mesh("hexahedron"); V=FunctionSpace(m,tp("hexahedron",1)); u,v=TrialFunction(V),TestFunction(V); k=Coefficient(space(m,"DQ",1))
objs=[k*u*v*dx]'''),
    _c("c10_sf_quad_q2_geometry", '''
m=mesh("quadrilateral",2); V=FunctionSpace(m,tp("quadrilateral",1)); u,v=TrialFunction(V),TestFunction(V)
objs=[inner(grad(u),grad(v))*dx]'''),
    _c("c10_sf_quad_one_point_rule", '''
m=tpmesh("quadrilateral"); V=FunctionSpace(m,tp("quadrilateral",1)); u,v=TrialFunction(V),TestFunction(V); f=Coefficient(V)
objs=[f*u*v*dx(degree=1) + u*v*dx(degree=3), f*v*dx(degree=1)]'''),
    _c("c10_sf_hex_degree0", '''
m=tpmesh("hexahedron"); V=FunctionSpace(m,tp("hexahedron",2)); u,v=TrialFunction(V),TestFunction(V); f=Coefficient(V)
objs=[f*inner(grad(u),grad(v))*dx(degree=0)]'''),
    _c("c10_sf_hex_three_rules", '''
m=tpmesh("hexahedron"); V=FunctionSpace(m,tp("hexahedron",1)); v=TestFunction(V); f=Coefficient(V)
objs=[f*v*dx(degree=2) + f*f*v*dx(degree=3) + f*f*f*v*dx(degree=4)]'''),
]

# the option does not apply: facets, vertices, simplices, elements without a tensor-product factorisation
INAPPLICABLE = [
    _c("c10_na_hex_cell_and_facets", '''
m=tpmesh("hexahedron"); V=FunctionSpace(m,tp("hexahedron",1)); u,v=TrialFunction(V),TestFunction(V); f=Coefficient(V)
objs=[f*u*v*ds + u*v*dx]'''),
    _c("c10_na_quad_interior_facet", '''
m=tpmesh("quadrilateral"); V=FunctionSpace(m,tp("quadrilateral",1)); u,v=TrialFunction(V),TestFunction(V)
objs=[jump(u)*jump(v)*dS + u*v*dx]'''),
    _c("c10_na_quad_vertex", '''
m=tpmesh("quadrilateral"); V=FunctionSpace(m,tp("quadrilateral",1)); v=TestFunction(V); f=Coefficient(V)
objs=[f*v*dP]'''),
    _c("c10_na_triangle", '''
m=mesh("triangle"); V=space(m,"P",2); u,v=TrialFunction(V),TestFunction(V); f=Coefficient(V)
objs=[f*inner(grad(u),grad(v))*dx + u*v*ds]'''),
    _c("c10_na_tet", '''
m=mesh("tetrahedron"); V=space(m,"P",1); v=TestFunction(V); f=Coefficient(V)
objs=[f*v*dx]'''),
    _c("c10_na_plain_q_elements_quad", '''
m=mesh("quadrilateral"); V=space(m,"Q",2); u,v=TrialFunction(V),TestFunction(V); f=Coefficient(V)
objs=[f*u*v*dx]'''),
    _c("c10_na_plain_q_elements_hex", '''
m=mesh("hexahedron"); V=space(m,"Q",1); u,v=TrialFunction(V),TestFunction(V)
objs=[inner(grad(u),grad(v))*dx]'''),
    _c("c10_na_prism", '''
m=mesh("prism"); V=space(m,"P",1); u,v=TrialFunction(V),TestFunction(V)
objs=[u*v*dx]'''),
]

# bilinear forms whose diagonal is asked for
DIAGONAL = [
    _c("c10_diag_mass_coef_p2", '''
m=mesh("triangle"); V=space(m,"P",2); u,v=TrialFunction(V),TestFunction(V); f=Coefficient(V)
objs=[f*inner(u,v)*dx]'''),
    _c("c10_diag_elasticity_vector_p1", '''
m=mesh("triangle"); V=space(m,"P",1,shape=(2,)); u,v=TrialFunction(V),TestFunction(V)
objs=[inner(sym(grad(u)),sym(grad(v)))*dx]'''),
    _c("c10_diag_taylor_hood", '''
m=mesh("triangle"); P2=el("P","triangle",2,shape=(2,)); P1=el("P","triangle",1)
W=FunctionSpace(m,basix.ufl.mixed_element([P2,P1]))
(u,p)=TrialFunctions(W); (v,q)=TestFunctions(W)
objs=[inner(grad(u),grad(v))*dx - p*div(v)*dx - q*div(u)*dx + p*q*dx]'''),
    _c("c10_diag_taylor_hood_symgrad", '''
m=mesh("triangle"); P2=el("P","triangle",2,shape=(2,)); P1=el("P","triangle",1)
W=FunctionSpace(m,basix.ufl.mixed_element([P2,P1]))
(u,p)=TrialFunctions(W); (v,q)=TestFunctions(W)
objs=[inner(sym(grad(u)),sym(grad(v)))*dx - p*div(v)*dx - q*div(u)*dx + p*q*dx]'''),
    _c("c10_diag_exterior_facet_tet", '''
m=mesh("tetrahedron"); V=space(m,"P",1); u,v=TrialFunction(V),TestFunction(V); f=Coefficient(V)
objs=[f*u*v*ds]'''),
    _c("c10_diag_interior_facet_jump", '''
m=mesh("triangle"); V=space(m,"DP",1); u,v=TrialFunction(V),TestFunction(V)
objs=[jump(u)*jump(v)*dS]'''),
    _c("c10_diag_interior_facet_avg_grad", '''
m=mesh("triangle"); V=space(m,"DP",2); u,v=TrialFunction(V),TestFunction(V); n=FacetNormal(m)
objs=[avg(u)*avg(v)*dS + inner(jump(grad(u)),n('+'))*inner(jump(grad(v)),n('+'))*dS + u('+')*v('+')*dS]'''),
    _c("c10_diag_advection_p1", '''
m=mesh("triangle"); V=space(m,"P",1); u,v=TrialFunction(V),TestFunction(V); b=Constant(m,shape=(2,))
objs=[dot(b,grad(u))*v*dx + u*v*dx]'''),
    _c("c10_diag_q2_stiffness_quad", '''
m=mesh("quadrilateral",2); V=space(m,"Q",2); u,v=TrialFunction(V),TestFunction(V)
objs=[inner(grad(u),grad(v))*dx]'''),
    _c("c10_diag_rt_tri", '''
m=mesh("triangle"); V=space(m,"RT",1); u,v=TrialFunction(V),TestFunction(V)
objs=[div(u)*div(v)*dx + inner(u,v)*dx]'''),
    _c("c10_diag_n1curl_tet", '''
m=mesh("tetrahedron"); V=space(m,"N1curl",1); u,v=TrialFunction(V),TestFunction(V)
objs=[inner(curl(u),curl(v))*dx + inner(u,v)*dx]'''),
    _c("c10_diag_vector_hex", '''
m=mesh("hexahedron"); V=space(m,"Q",1,shape=(3,)); u,v=TrialFunction(V),TestFunction(V)
objs=[inner(grad(u),grad(v))*dx + div(u)*div(v)*dx]'''),
    _c("c10_diag_with_linear_form_untouched", '''
m=mesh("triangle"); V=space(m,"P",2); u,v=TrialFunction(V),TestFunction(V); f=Coefficient(V)
objs=[inner(grad(u),grad(v))*dx, f*v*dx, f*f*dx]'''),
    _c("c10_diag_two_rules", '''
m=mesh("triangle"); V=space(m,"P",2); u,v=TrialFunction(V),TestFunction(V); f=Coefficient(V)
objs=[f*u*v*dx(degree=1) + f*f*inner(grad(u),grad(v))*dx(degree=4)]'''),
]

# table tolerances: forms whose tables have entries close to -1, 0, 1
TOLFORMS = [c for c in corpus.PINNED if c["id"] in ("stiff_tri_p2_coef", "mass_quad_q2_nonaffine", "n1curl_tet", "ext_facet_tri_normal",
                                                    "int_facet_tri_jump", "rt_tri_divdiv", "mixed_tri_th", "stiff_hex_q1")]


def run(v, tier, seed, g):
    stats = {}
    em = "random" if tier == "quick" else "all"
    extra = [] if tier == "quick" else corpus.random_cases(seed, 60)
    # 1. sum factorisation on tensor-product elements
    r = valprops.run_oracle(SUMFACT, seed, entity_mode=em, options_override={"sum_factorization": True})
    stats["sum_factorization"] = valprops.account(v, r, "c10-sumfact", what="sum_factorization=True changes the element tensor")
    r = valprops.run_oracle(SUMFACT, seed, entity_mode=em, options_override={"sum_factorization": False})
    stats["sum_factorization_off"] = valprops.account(v, r, "c10-plain", what="kernel without sum factorisation differs from the oracle")
    # 2. ... and has no effect where it does not apply
    r = valprops.run_oracle(INAPPLICABLE + extra, seed, entity_mode=em, options_override={"sum_factorization": True})
    st = valprops.account(v, r, "c10-inapplicable", what="sum_factorization=True changes an integral it does not apply to")
    for x in r:
        if x["status"] == "rejected" and x["id"].startswith("c10_na_"):
            v.oblige(False)
            v.violation(f"c10-inapplicable-rejected:{x['id']}", f"sum_factorization=True makes FFCx reject a form it accepts without the option (case {x['id']}): {x.get('error','')[:160]}",
                        {"case": x["id"], "code": x["code"], "options": {"sum_factorization": True}})
        elif x["id"].startswith("c10_na_"):
            v.oblige(True)
    stats["inapplicable"] = st
    # 3. diagonal
    r = valprops.run_oracle(DIAGONAL, seed, entity_mode=em, options_override={"part": "diagonal"})
    stats["diagonal"] = valprops.account(v, r, "c10-diagonal", what="part='diagonal' does not give the diagonal of the full tensor")
    for x in r:
        if x["status"] == "rejected":
            v.oblige(False)
            v.violation(f"c10-diagonal-rejected:{x['id']}", f"part='diagonal' rejected (case {x['id']}): {x.get('error','')[:160]}", {"case": x["id"], "code": x["code"]})
    # 3b. the same statement PROVED per kernel pair for all inputs: symbolic execution of the rank-2 and the
    #     rank-1 kernel from a zero tensor, diagonal of the one against the other (SymEq.diagonal_equiv_sound)
    stats["diagonal_symbolic"] = diagonal_symbolic(v, tier, seed)
    # 4. table tolerances: zero tolerances and coarse tolerances
    r = valprops.run_oracle(TOLFORMS, seed, entity_mode=em, options_override={"table_rtol": 0.0, "table_atol": 0.0})
    stats["tolerance_zero"] = valprops.account(v, r, "c10-tol0", what="table_rtol=table_atol=0 changes the tensor")
    tol = 1e-4
    r = valprops.run_oracle(TOLFORMS, seed, entity_mode=em, options_override={"table_rtol": tol, "table_atol": tol})
    # entries move by at most atol+rtol each (theorem); the tensor is multilinear in the tables, so the relative
    # change is bounded by (number of table factors) * (atol+rtol) * conditioning; 2000*(atol+rtol) is generous
    loose = {"agree": 0, "bad": 0}
    for x in r:
        for k in x.get("kernels", []):
            if k["status"] in ("agree", "mismatch"):
                ok = k["error"] <= 2000 * 2 * tol
                loose["agree" if ok else "bad"] += 1
                v.oblige(ok)
                if not ok:
                    v.violation(f"c10-tol:{x['id']}", f"table_rtol=table_atol={tol} changes the tensor by {k['error']:.3g} (relative), more than the tolerances allow (case {x['id']})",
                                {"case": x["id"], "code": x["code"], "options": {"table_rtol": tol, "table_atol": tol}, "relative_error": k["error"]})
    stats["tolerance_coarse"] = loose
    # 4b. the clamping function itself on generated tables with UNEQUAL tolerances (rtol >> atol and atol >> rtol):
    #     an entry may only move to a target n, and only if |t - n| <= atol + rtol*|n| (what Clamp.v proves of the model);
    #     this is also the search for a failing input when the shape pinned by tr_c10 no longer matches
    import numpy as np
    from ffcx.ir.elementtables import clamp_table_small_numbers
    crng = np.random.default_rng(seed)
    nbad = ncl = 0
    targets = (-1.0, 0.0, 1.0)
    for trial in range(60 if tier == "quick" else 600):
        rt, at = [(0.05, 0.0), (0.0, 0.01), (0.2, 1e-12), (1e-9, 0.125), (1e-6, 1e-9), (0.01, 0.001)][trial % 6]
        base = crng.choice([-1.0, 0.0, 1.0, 0.3, -0.7], size=(2, 3, 4))
        t = base + crng.choice([0.0, 1e-12, 1e-7, 1e-3, 0.008, 0.03, 0.1, 0.18], size=base.shape) * crng.choice([-1.0, 1.0], size=base.shape)
        try:
            out = np.asarray(clamp_table_small_numbers(t.copy(), rtol=rt, atol=at), dtype=float)
        except BaseException as e:  # noqa: BLE001
            v.oblige(False)
            v.violation("c10-clamp-call", f"clamp_table_small_numbers raised {type(e).__name__}: {e}", {"rtol": rt, "atol": at}, no_input=True)
            break
        ncl += 1
        moved = out != t
        okm = np.ones(t.shape, dtype=bool)
        for idx in zip(*np.nonzero(moved)):
            n = out[idx]
            okm[idx] = (n in targets) and abs(t[idx] - n) <= at + rt * abs(n) + 1e-15
        good = bool(okm.all())
        v.oblige(good)
        if not good and nbad < 2:
            nbad += 1
            idx = tuple(int(i) for i in np.argwhere(~okm)[0])
            v.violation("c10-clamp", f"clamp_table_small_numbers(table, rtol={rt}, atol={at}) moves the entry {t[idx]!r} to {out[idx]!r}: further than atol + rtol*|target| allows",
                        {"rtol": rt, "atol": at, "entry": float(t[idx]), "result": float(out[idx]), "table": t.tolist()})
    stats["clamp_function"] = {"tables": ncl, "violations": nbad}
    if not g["ok"] and not v.violations:
        v.violation("gate", "proof obligations no longer check: " + "; ".join(g["broken"]), {"broken": g["broken"]}, no_input=True)
    tot = sum(s.get("agree", 0) + s.get("mismatch", 0) + s.get("bad", 0) for s in stats.values())
    cov = {"checker_cmd": f"./check C10 --tier {tier}", "trusted_base": valprops.ORACLE_TRUST + [
               "Coq kernel (Clamp.v, Diag.v, SumFact.v); tr_c10.py", "ffx.jit_forms: the real compile_forms preprocessing for part='diagonal' is run up to code generation"],
           "programs": sum(s.get("cases", 0) for s in stats.values()), "disagreements_checked": tot, "evaluations": tot,
           "distinct_nontrivial": sum(s.get("distinct", 0) for s in stats.values()), "by_option": stats,
           "rule": "each form compiled under the option and compared with the oracle's tensor of the form as written (diagonal: its diagonal); inapplicable options must neither reject nor change",
           "axioms_under_property_theorems": g.get("axioms", [])}
    return v.finish("proof", cov, ["forms sampled; proved: clamping bound, diagonal kernel = diagonal under FFCx's dof layouts with the guard read off the source, tensor-rule factorisation algebra",
                                   "table classification (zeros/ones/piecewise) uses the default tolerances whatever table_rtol/table_atol say"])


def diagonal_symbolic(v, tier, seed):
    import itertools
    import math
    import os
    import re

    import execcorr
    import ffx
    import numpy as np
    full = common.run_cases(DIAGONAL)
    diag = common.run_cases([dict(c, code=c["code"] + 'options={"part":"diagonal"}\n') for c in DIAGONAL])
    common.clean_gen("C10d_")
    files = {}
    rng = np.random.default_rng(seed)
    for rf, rd in zip(full, diag):
        if rf["status"] != "ok" or rd["status"] != "ok" or len(rf["kernels"]) != len(rd["kernels"]):
            continue
        for kf, kd in zip(rf["kernels"], rd["kernels"]):
            if "body" not in kf or "body" not in kd:
                continue
            cf, cd = kf["contract"], kd["contract"]
            n = cd["nA"]
            if cf["nA"] != n * n or cf["integral_type"] != cd["integral_type"]:
                continue                       # not a bilinear form (rank 0/1 kernels are compared by the oracle run)
            if execcorr.flops_estimate(kf["body"]) > (20000 if tier == "quick" else 200000):
                continue
            ents = list(itertools.product(range(cf["e_range"][0], max(cf["e_range"][1], 1)), repeat=cf["ne"])) if cf["ne"] else [()]
            perms = list(itertools.product(range(cf["p_range"][0], max(cf["p_range"][1], 1)), repeat=cf["np"])) if cf["np"] else [()]
            combos = list(itertools.product(ents, perms))
            cap = 6 if tier == "quick" else 100
            if len(combos) > cap:
                combos = [combos[i] for i in sorted(rng.choice(len(combos), size=cap, replace=False))]
            path = os.path.join(common.GEN, f"C10d_{len(files)}.v")
            t = ("From Coq Require Import ZArith List String Uint63.\nFrom FFCX Require Import LN Enc Sym SymEq.\n"
                 "Import ListNotations.\nOpen Scope string_scope.\n")
            t += "Definition k_full : list stmt :=\n" + ffx.coq_body(kf["body"]) + ".\n"
            t += "Definition k_diag : list stmt :=\n" + ffx.coq_body(kd["body"]) + ".\n"
            t += "Definition combos : list (list Z * list Z) := [" + "; ".join(f"({execcorr.zl(list(e))}, {execcorr.zl(list(p))})" for e, p in combos) + "].\n"
            t += ("Eval vm_compute in map (fun ep => diagonal_equiv (sym_inputs %d %d %d (fst ep) (snd ep)) k_full k_diag %d%%nat) combos.\n"
                  % (cf["w_total"], cf["nc"], cf["nx"], n))
            open(path, "w").write(t)
            files[path] = (rf, kf, combos)
    out = common.coqc_many(list(files), timeout=300 if tier == "quick" else 1500)
    st = {"kernel_pairs": len(files), "proved": 0, "timeout": 0}
    for path, (rf, kf, combos) in files.items():
        rc, so, se = out[path]
        mm = re.search(r"=\s*\[(.*?)\]\s*:\s*list bool", so, re.S) if rc == 0 else None
        b = [x.strip() == "true" for x in mm.group(1).split(";")] if mm else None
        if se == "TIMEOUT":
            st["timeout"] += 1
        elif b and len(b) == len(combos) and all(b):
            st["proved"] += 1
            v.oblige(True)
        else:
            v.oblige(False)
            ep = combos[b.index(False)] if b and False in b else None
            v.violation(f"c10-diagonal-symbolic:{rf['id']}", f"the rank-1 kernel of part='diagonal' is not symbolically the diagonal of the full kernel (case {rf['id']}, kernel {kf['name'][:40]}, entity/permutation {ep}); coqc: {se[-150:]}",
                        {"case": rf["id"], "code": rf["code"], "kernel": kf["name"], "entity_perm": [list(x) for x in ep] if ep else None,
                         "broken_obligation": "SymEq.diagonal_equiv"}, no_input=True)
        for ext in (".vo", ".vok", ".vos", ".glob"):
            try:
                os.remove(path[:-2] + ext)
            except OSError:
                pass
    return st


def replay(v, payload):
    import oraclerun
    r = oraclerun.check_case({"id": payload["case"], "code": payload["code"]}, 1, entity_mode="all", options_override=payload.get("options"))
    bad = [k for k in r["kernels"] if k["status"] == "mismatch"]
    print(r["status"], r.get("error"), [(k["status"], k.get("error")) for k in r["kernels"]])
    return 1 if bad or r["status"] != "ok" else 0
