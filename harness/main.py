"""./check <Cxx> [--tier quick|thorough] [--replay file]"""

from __future__ import annotations

import argparse
import importlib
import json
import os
import sys
import time

HERE = os.path.dirname(os.path.abspath(__file__))
sys.path.insert(0, HERE)
import common  # noqa: E402
import gate  # noqa: E402


def main():
    ap = argparse.ArgumentParser()
    ap.add_argument("prop")
    ap.add_argument("--tier", default=os.environ.get("VERIF_TIER", "quick"))
    ap.add_argument("--replay", default=None)
    a = ap.parse_args()
    seed = int(os.environ.get("VERIF_SEED", "20260923"))
    prop = a.prop.upper()
    tier = "thorough" if a.tier.startswith("t") else "quick"
    # checks share coq/gen, the Makefile targets and /verif/work: two of them at once would race
    import fcntl
    os.makedirs(os.path.join(common.VERIF, "work"), exist_ok=True)
    lock = open(os.path.join(common.VERIF, "work", ".check.lock"), "w")
    fcntl.flock(lock, fcntl.LOCK_EX)
    mod = importlib.import_module(f"p_{prop.lower()}")
    os.environ["VERIF_TIER_EFFECTIVE"] = tier          # translators with tier-dependent bounds read this
    v = common.Verdict(prop, tier, seed)
    # step 1/2 of the protocol: static theories + props file + hygiene scan
    g = gate.run_gate(prop, v)
    if a.replay:
        with open(a.replay) as f:
            payload = json.load(f)
        rc = mod.replay(v, payload)
    else:
        rc = mod.run(v, tier, seed, g)
    sys.exit(rc)


if __name__ == "__main__":
    main()
