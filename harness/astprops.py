"""Shared driver for the properties decided on exported kernel ASTs (C05 C07 C08 C19 C03-flag)."""

from __future__ import annotations

import os
import random

import numpy as np

import astcheck
import common
import corpus
import inputs
import runc

BIT = {"safe_all": 0, "safe_enabled": 1, "accum": 2, "safe_flag": 3}

TRUSTED = [
    "Coq 8.16.1 kernel + bytecode VM (vm_compute); no native_compute",
    "exporter harness/ffx.py (LNodes -> LN.stmt, desugaring of Section/ForRange as C/formatter.py prints them)",
    "contract extents computed by harness/ffx.py:kernel_contract from UFL form data (element dims, constants, cells)",
    "LN.exec as the meaning of the emitted C (validated bit-for-bit against gcc -O0 by ./check C07/C17 exec correspondence)",
]


def cases_for(tier, seed, extra_pinned=()):
    n = 28 if tier == "quick" else 600
    return (list(corpus.PINNED) + list(corpus.OPTION_CASES) + list(extra_pinned) + corpus.random_cases(seed, n)
            + corpus.random_expr_cases(seed, n // 4))


def compile_one(code, want_text=True, lit="exact"):
    res = common.run_cases([{"id": "replay", "code": code}], lit=lit, want_text=want_text)
    return res[0]


def c_kernel_runner(case_result):
    b = runc.CBuild(case_result["header"], case_result["source"])
    return b


def search_accum_counterexample(rec, seed):
    """real C: run the kernel from two different A0; the increments must coincide."""
    r = compile_one(rec["code"])
    if r["status"] != "ok":
        return None
    b = c_kernel_runner(r)
    if not b.ok:
        return None
    rng = np.random.default_rng(seed)
    con = rec["contract"]
    st = r["scalar_type"]
    for trial in range(6):
        d = inputs.make(con, rng, st)
        A1 = np.zeros_like(d["A"])
        A2 = d["A"].copy()
        A0 = A2.copy()
        fn = b.kernel(rec["name"])
        runc.call_kernel(fn, A1, d["w"], d["c"], d["x"], d["e"], d["p"])
        runc.call_kernel(fn, A2, d["w"], d["c"], d["x"], d["e"], d["p"])
        inc = A2 - A0
        scale = np.max(np.abs(A1)) + np.max(np.abs(A0)) + 1e-300
        if not np.allclose(inc, A1, rtol=0, atol=1e-6 * scale if "32" in st else 1e-10 * scale):
            return {"A0": A0.tolist(), "from_zero": A1.tolist(), "increment": inc.tolist(),
                    "e": d["e_used"], "p": d["p_used"], "trial": trial}
    return None


def search_poison_counterexample(rec, seed, which="disabled"):
    """real C: NaN in every w cell outside the enabled ranges must not reach A."""
    r = compile_one(rec["code"])
    if r["status"] != "ok":
        return None
    b = c_kernel_runner(r)
    if not b.ok:
        return None
    rng = np.random.default_rng(seed)
    con = rec["contract"]
    st = r["scalar_type"]
    fn = b.kernel(rec["name"])
    for trial in range(4):
        d = inputs.make(con, rng, st)
        w = d["w"].copy()
        c = d["c"].copy()
        mask = np.ones(len(w), dtype=bool)
        for lo, hi in con["w"]:
            mask[lo:hi] = False
        cmask = np.ones(len(c), dtype=bool)
        for lo, hi in con.get("c_used", [[0, len(c)]]):
            cmask[lo:hi] = False
        if not mask.any() and not cmask.any():
            return None
        A_ref = np.zeros_like(d["A"])
        runc.call_kernel(fn, A_ref, w, c, d["x"], d["e"], d["p"])
        w2 = w.copy()
        w2[mask] = np.nan
        c2 = c.copy()
        c2[cmask] = np.nan
        A_p = np.zeros_like(d["A"])
        runc.call_kernel(fn, A_p, w2, c2, d["x"], d["e"], d["p"])
        if not np.array_equal(A_ref, A_p, equal_nan=False):
            return {"poisoned_w_cells": np.nonzero(mask)[0].tolist(), "poisoned_c_cells": np.nonzero(cmask)[0].tolist(),
                    "A_ref": A_ref.tolist()[:16], "A_poisoned": [str(x) for x in A_p.tolist()[:16]],
                    "e": d["e_used"], "p": d["p_used"]}
    return None


def search_oob_counterexample(rec, seed):
    """ASan/UBSan build of the real C with exact-size heap buffers, all entity/perm values."""
    r = compile_one(rec["code"])
    if r["status"] != "ok":
        return None
    import subprocess
    import tempfile
    import shutil
    con = rec["contract"]
    st = r["scalar_type"]
    ctype = {"float64": "double", "float32": "float", "complex128": "double _Complex",
             "complex64": "float _Complex"}[st]
    rtype = {"float64": "double", "float32": "float", "complex128": "double", "complex64": "float"}[st]
    ents = list(range(con["e_range"][0], max(con["e_range"][1], 1)))
    perms = list(range(con["p_range"][0], max(con["p_range"][1], 1)))
    rng = np.random.default_rng(seed)
    d = inputs.make(con, rng, st)
    tmp = tempfile.mkdtemp(prefix="vfasan_")
    try:
        def arr(name, ty, vals):
            n = len(vals)
            if n == 0:
                return f"{ty}* {name} = NULL;\n"
            if "Complex" in ty:
                init = ", ".join(f"{v.real!r}+{v.imag!r}*I" for v in vals)
            else:
                init = ", ".join(repr(float(v)) for v in vals)
            return (f"{ty}* {name} = malloc({n}*sizeof({ty}));\n"
                    f"{{ {ty} tmp[] = {{{init}}}; memcpy({name}, tmp, sizeof(tmp)); }}\n")
        main = "#include <complex.h>\n#include <stdint.h>\n#include <stdlib.h>\n#include <string.h>\n#include <stdio.h>\n"
        main += '#include "k.h"\n'
        main += (f"void tabulate_tensor_{rec['name']}({ctype}*, const {ctype}*, const {ctype}*, const {rtype}*,"
                 " const int*, const uint8_t*, void*);\n")
        main += "int main(int argc, char** argv) {\n int e0=atoi(argv[1]), e1=atoi(argv[2]), p0=atoi(argv[3]), p1=atoi(argv[4]);\n"
        main += arr("A", ctype, np.zeros(con["nA"]))
        main += arr("w", ctype, d["w"]) + arr("c", ctype, d["c"]) + arr("x", rtype, d["x"])
        main += f" int* e = {'malloc(%d*sizeof(int))' % con['ne'] if con['ne'] else 'NULL'};\n"
        main += f" uint8_t* p = {'malloc(%d)' % con['np'] if con['np'] else 'NULL'};\n"
        if con["ne"] >= 1:
            main += " e[0]=e0;\n"
        if con["ne"] >= 2:
            main += " e[1]=e1;\n"
        if con["np"] >= 1:
            main += " p[0]=p0;\n"
        if con["np"] >= 2:
            main += " p[1]=p1;\n"
        main += f" tabulate_tensor_{rec['name']}(A,w,c,x,e,p,NULL);\n printf(\"ok\\n\"); return 0; }}\n"
        open(os.path.join(tmp, "k.h"), "w").write(r["header"])
        open(os.path.join(tmp, "k.c"), "w").write(r["source"])
        open(os.path.join(tmp, "main.c"), "w").write(main)
        cmd = ["gcc", "-std=c17", "-O0", "-g", "-fsanitize=address,undefined",
               "-fno-sanitize-recover=all", "-I", runc.UFCX_INC, "-I", tmp,
               os.path.join(tmp, "k.c"), os.path.join(tmp, "main.c"), "-o", os.path.join(tmp, "a.out"), "-lm"]
        p = subprocess.run(cmd, capture_output=True, text=True, timeout=600)
        if p.returncode != 0:
            return None
        for e0 in ents:
            for e1 in (ents if con["ne"] >= 2 else [0]):
                for p0 in perms:
                    for p1 in (perms if con["np"] >= 2 else [0]):
                        q = subprocess.run([os.path.join(tmp, "a.out"), str(e0), str(e1), str(p0), str(p1)],
                                           capture_output=True, text=True, timeout=120,
                                           env=dict(os.environ, ASAN_OPTIONS="detect_leaks=0"))
                        if q.returncode != 0:
                            return {"e": [e0, e1], "p": [p0, p1], "sanitizer": q.stderr[:1500]}
        return None
    finally:
        shutil.rmtree(tmp, ignore_errors=True)


def run_ast_property(v, tier, seed, g, bit, tag, search, what, extra_pinned=(), level="proof",
                     extra_assumptions=(), extra_run=None):
    cases = cases_for(tier, seed, extra_pinned)
    results, recs = astcheck.run(cases, tag)
    dist = astcheck.distribution(results, recs)
    bi = BIT[bit]
    nontrivial = set()
    for r in results:
        if r["status"] in ("harness_error", "timeout"):
            v.oblige(False)
            v.violation(f"harness:{r['id']}", f"case {r['id']} could not be processed: {r.get('error','timeout')[:200]}",
                        {"case": r["id"], "code": r["code"]}, no_input=True)
    for rec in recs:
        if rec["unsupported"]:
            # exporter fails closed: outside the modelled AST fragment
            v.oblige(False)
            v.violation(f"unsupported-ast:{rec['case']}",
                        f"kernel {rec['name']} uses an AST shape the model does not cover: {rec['unsupported']}",
                        {"case": rec["case"], "code": rec["code"], "kernel": rec["name"]}, no_input=True)
            continue
        ok = bool(rec["bits"] and rec["bits"][bi] and (rec["qed"] or all(rec["bits"])is False))
        # Qed of the three theorems fails if any bit is false; the bit itself is what counts here
        ok = bool(rec["bits"] and rec["bits"][bi])
        if bit == "safe_enabled" and rec["contract"].get("w_used_not_enabled"):
            # a coefficient occurs in the integrand but is flagged disabled: an assembler would not pack it
            v.oblige(False)
            v.violation(f"enabled-flag:{rec['case']}", f"coefficient(s) {rec['contract']['w_used_not_enabled']} occur in the integrand of {rec['name']} but enabled_coefficients is false",
                        {"case": rec["case"], "code": rec["code"], "kernel": rec["name"]})
        tied = rec["text_tied"] in (True, None)
        v.oblige(ok and tied)
        if ok and tied:
            nontrivial.add((rec["contract"]["integral_type"], rec["contract"].get("cell"), rec["nstmts"]))
            if len(v.samples) < 6:
                v.samples.append({"case": rec["case"], "kernel": rec["name"], "statements": rec["nstmts"],
                                  "contract": {k: rec["contract"][k] for k in ("nA", "w", "nc", "nx", "ne", "e_range", "np", "p_range")},
                                  "verdict": dict(zip(BIT, rec["bits"]))})
            continue
        payload = {"case": rec["case"], "code": rec["code"], "kernel": rec["name"],
                   "contract": rec["contract"], "verdict": rec["bits"], "failing_statement": rec.get("fail_stmt"),
                   "coq_error": rec.get("coq_err", "")}
        if not tied:
            v.violation(f"text-tie:{rec['case']}:{rec['kind']}", f"exported AST of {rec['name']} is not the text that is compiled",
                        payload, no_input=True)
            continue
        if rec["bits"] is None:
            v.violation(f"coq-eval:{rec['case']}", f"checker could not be evaluated on {rec['name']}: {rec.get('coq_err','')[:200]}",
                        payload, no_input=True)
            continue
        found = None
        try:
            found = search(rec, seed) if search else None
        except Exception as e:  # noqa: BLE001
            payload["search_error"] = f"{type(e).__name__}: {e}"
        if found:
            payload["failing_input"] = found
            v.violation(f"{bit}:{rec['case']}:{rec['contract']['integral_type']}", f"{what}: kernel {rec['name']} (case {rec['case']})", payload)
        else:
            payload["broken_obligation"] = f"{bit} verdict of Check.v on kernel {rec['name']}"
            v.violation(f"{bit}:{rec['case']}:{rec['contract']['integral_type']}", f"{what}: checker rejects kernel {rec['name']} (case {rec['case']}, statement #{rec.get('fail_stmt')})",
                        payload, no_input=True)
    extra_cov = extra_run(v, tier, seed) if extra_run else {}
    if not g["ok"] and not v.violations:
        v.violation("gate", "proof obligations no longer check: " + "; ".join(g["broken"]),
                    {"broken": g["broken"]}, no_input=True)
    cov = {
        **extra_cov,
        "checker_cmd": f"./check {v.prop} --tier {tier}  (make theories; coqc props/{v.prop}.v; coqc gen/{tag}_*.v)",
        "trusted_base": TRUSTED + list(extra_assumptions),
        "programs": len(results),
        "kernels_decided": sum(1 for r in recs if r["bits"]),
        "distinct_nontrivial": len(nontrivial),
        "evaluations": len(recs),
        "rule": "one obligation per exported kernel (verdict of the proven-sound checker under the kernel's UFCx contract) plus the property theorems; distinct = (integral type, cell, #statements)",
        "distribution": dist,
        "axioms_under_property_theorems": g.get("axioms", []),
    }
    return v.finish(level, cov, ["forms are sampled (pinned + seeded random corpus); the theorem per kernel is for all inputs",
                                 *extra_assumptions])
