"""Module names the REAL jit entry points use, under a process history.
python jitname_worker.py in.pkl out.pkl     job: {"sequence": [code, code, ...]}  ->  [{"module": name, "kind": "forms"|"expressions"} ...]
Every request is compiled for real (cffi) with DEFAULT arguments into a fresh temporary cache directory."""
import os
import pickle
import shutil
import sys
import tempfile

sys.path.insert(0, os.path.dirname(os.path.abspath(__file__)))
import ffx  # noqa: E402


def main():
    job = pickle.load(open(sys.argv[1], "rb"))
    import ffcx.codegeneration.jit as jit
    out = []
    tmp = tempfile.mkdtemp(prefix="vfjn_")
    try:
        for i, code in enumerate(job["sequence"]):
            objs, options, ns = ffx.build_case(code)
            forms = [o for o in objs if not isinstance(o, tuple)]
            exprs = [o for o in objs if isinstance(o, tuple)]
            d = os.path.join(tmp, f"c{i}")
            r = {}
            try:
                if forms:
                    _, mod, _ = jit.compile_forms(list(forms), options=dict(options or {}), cache_dir=d)
                    r = {"module": mod.__name__, "kind": "forms"}
                else:
                    _, mod, _ = jit.compile_expressions(list(exprs), options=dict(options or {}), cache_dir=d)
                    r = {"module": mod.__name__, "kind": "expressions"}
            except BaseException as e:  # noqa: BLE001
                r = {"error": f"{type(e).__name__}: {e}"[:300]}
            out.append(r)
    finally:
        shutil.rmtree(tmp, ignore_errors=True)
    pickle.dump(out, open(sys.argv[2], "wb"))


if __name__ == "__main__":
    main()
