"""tr_opts: regenerate coq/gen/OptGen.v from ffcx/options.py and ffcx/main.py:
the option keys, which are boolean, the argparse default of options not given on the command
line, and (fail-closed) the shape of the merge in get_options and of priority_options in main."""
import ast
import os
import string
import sys

HERE = os.path.dirname(os.path.abspath(__file__))
sys.path.insert(0, HERE)
import common  # noqa: E402


class TranslationError(Exception):
    pass


def parse_class_regex(pat):
    """A pattern that is one character class (or one literal character), optionally followed by +.
    Returns (kind, code points, plus) with kind 'Fin' (matches the listed) or 'CoFin' (matches all but)."""
    plus = pat.endswith("+") and len(pat) > 1 and not pat.endswith("\\+")
    body = pat[:-1] if plus else pat
    if len(body) == 1 and body not in ".^$*+?{}[]\\|()":
        return "Fin", [ord(body)], plus
    if not (body.startswith("[") and body.endswith("]") and len(body) > 2):
        raise TranslationError(f"sanitise_filename: pattern {pat!r} is not a single character class")
    inner = body[1:-1]
    neg = inner.startswith("^")
    if neg:
        inner = inner[1:]
    if not inner or "[" in inner or "]" in inner or "\\" in inner:
        raise TranslationError(f"sanitise_filename: character class {pat!r} uses escapes or nested brackets")
    cps, i = [], 0
    while i < len(inner):
        if i + 2 < len(inner) and inner[i + 1] == "-":
            lo, hi = ord(inner[i]), ord(inner[i + 2])
            if hi < lo:
                raise TranslationError(f"sanitise_filename: bad range in {pat!r}")
            cps.extend(range(lo, hi + 1))
            i += 3
        else:
            cps.append(ord(inner[i]))
            i += 1
    return ("CoFin" if neg else "Fin"), sorted(set(cps)), plus


def sanitise_steps(mn):
    """main.sanitise_filename as a pipeline of class substitutions (fail-closed on any other shape)."""
    fs = [n for n in ast.walk(mn) if isinstance(n, ast.FunctionDef) and n.name == "sanitise_filename"]
    if len(fs) != 1:
        raise TranslationError("main.py: sanitise_filename not found")
    f = fs[0]
    body = [s_ for s_ in f.body if not (isinstance(s_, ast.Expr) and isinstance(s_.value, ast.Constant))]
    arg = f.args.args[0].arg
    if not body or ast.unparse(body[0]) != f"name_s = pathlib.Path({arg}).stem":
        raise TranslationError("sanitise_filename does not start from pathlib.Path(name).stem")
    steps = []

    def sub_call(e):
        # re.subn(P, R, name_s)[0]  or  re.sub(P, R, name_s)
        if isinstance(e, ast.Subscript) and ast.unparse(e.slice) == "0" and isinstance(e.value, ast.Call) and ast.unparse(e.value.func) == "re.subn":
            c = e.value
        elif isinstance(e, ast.Call) and ast.unparse(e.func) == "re.sub":
            c = e
        else:
            raise TranslationError(f"sanitise_filename: unrecognised step {ast.unparse(e)}")
        if len(c.args) != 3 or c.keywords or ast.unparse(c.args[2]) != "name_s":
            raise TranslationError(f"sanitise_filename: unrecognised substitution {ast.unparse(c)}")
        for n in ast.walk(c.args[0]):
            if isinstance(n, ast.Name) and n.id != "string" or isinstance(n, ast.Attribute) and not (
                    ast.unparse(n) in ("string.ascii_letters", "string.digits", "string.ascii_lowercase", "string.ascii_uppercase")
                    or n.attr == "format"):
                raise TranslationError(f"sanitise_filename: pattern expression {ast.unparse(c.args[0])} not understood")
        pat = eval(compile(ast.Expression(c.args[0]), "<pattern>", "eval"), {"__builtins__": {}, "string": string})  # noqa: S307
        if not (isinstance(c.args[1], ast.Constant) and isinstance(c.args[1].value, str)) or not isinstance(pat, str):
            raise TranslationError("sanitise_filename: pattern / replacement is not a string")
        kind, cps, plus = parse_class_regex(pat)
        rep = c.args[1].value
        if "\\" in rep:
            raise TranslationError("sanitise_filename: replacement uses escapes")
        steps.append((kind, cps, plus, [ord(ch) for ch in rep], pat, rep))

    for s_ in body[1:]:
        if isinstance(s_, ast.Assign) and ast.unparse(s_.targets[0]) == "name_s":
            sub_call(s_.value)
        elif isinstance(s_, ast.Return):
            if ast.unparse(s_.value) != "name_s":
                sub_call(s_.value)
        else:
            raise TranslationError(f"sanitise_filename: unrecognised statement {ast.unparse(s_)}")
    if not isinstance(body[-1], ast.Return):
        raise TranslationError("sanitise_filename does not end in a return")
    src = ast.unparse(mn)
    for need in ("namespaces = [sanitise_filename(name) for name in filenames]", "outfiles = [sanitise_filename(name) for name in filenames]"):
        if need not in src:
            raise TranslationError(f"main.py: expected `{need}`")
    return steps


def check_main_loop():
    """each input file is compiled under ITS namespace and written under ITS output stem: the loop of main() binds the
    three lists in step and hands `namespace` to the compiler, `outfile` to the writer"""
    src = ast.unparse(ast.parse(open(os.path.join(common.REPO, "ffcx/main.py")).read()))
    for frag in ("for filename, namespace, outfile in zip(filenames, namespaces, outfiles):",
                 "namespace=namespace", "formatting.write_code(code, outfile, suffixes, xargs.dir)",
                 "namespaces = [sanitise_filename(name) for name in filenames]", "namespaces = xargs.namespace",
                 "outfiles = [sanitise_filename(name) for name in filenames]", "outfiles = xargs.outfile"):
        if frag not in src:
            raise TranslationError(f"main.py: expected fragment {frag!r} not found (how file name, namespace and output stem are paired)")


def generate():
    check_main_loop()
    opt = ast.parse(open(os.path.join(common.REPO, "ffcx/options.py")).read())
    keys, isbool = [], {}
    for n in opt.body:
        if isinstance(n, ast.Assign) and getattr(n.targets[0], "id", None) == "FFCX_DEFAULT_OPTIONS":
            if not isinstance(n.value, ast.Dict):
                raise TranslationError("FFCX_DEFAULT_OPTIONS is not a dict literal")
            for k, v in zip(n.value.keys, n.value.values):
                if not (isinstance(k, ast.Constant) and isinstance(v, ast.Tuple) and len(v.elts) == 4):
                    raise TranslationError("option entry of unrecognised shape")
                keys.append(k.value)
                d = v.elts[1]
                isbool[k.value] = isinstance(d, ast.Constant) and isinstance(d.value, bool)
    if not keys:
        raise TranslationError("no options found")
    go = [n for n in opt.body if isinstance(n, ast.FunctionDef) and n.name == "get_options"]
    if len(go) != 1:
        raise TranslationError("get_options not found")
    updates = [ast.unparse(c.args[0]) for c in ast.walk(go[0]) if isinstance(c, ast.Call)
               and isinstance(c.func, ast.Attribute) and c.func.attr == "update" and ast.unparse(c.func.value) == "options"]
    if updates != ["user_options", "pwd_options", "priority_options"]:
        raise TranslationError(f"get_options merges {updates}; the model expects user, pwd, priority in that order")
    loads = [ast.unparse(s) for s in ast.walk(go[0]) if isinstance(s, ast.Assign) and "_load_options" in ast.unparse(s)]
    if loads != ["(user_options, pwd_options) = _load_options()"] and loads != ["user_options, pwd_options = _load_options()"]:
        raise TranslationError(f"get_options: unexpected unpacking of _load_options: {loads}")
    mn = ast.parse(open(os.path.join(common.REPO, "ffcx/main.py")).read())
    src = ast.unparse(mn)
    if "priority_options = {k: v for k, v in xargs.__dict__.items() if v is not None}" not in src:
        raise TranslationError("main.py: priority_options is not built from the non-None argparse values")
    if "options = get_options(priority_options)" not in src:
        raise TranslationError("main.py: options are not get_options(priority_options)")
    bool_default_none = None
    other_default_none = None
    for loop in ast.walk(mn):
        if isinstance(loop, ast.For) and "FFCX_DEFAULT_OPTIONS.items()" in ast.unparse(loop.iter):
            ifs = [s for s in loop.body if isinstance(s, ast.If)]
            if len(ifs) != 1 or "isinstance(opt_val, bool)" not in ast.unparse(ifs[0].test):
                raise TranslationError("main.py: option loop of unrecognised shape")
            callb = [c for c in ast.walk(ifs[0].body[0]) if isinstance(c, ast.Call) and getattr(c.func, "attr", "") == "add_argument"]
            callo = [c for c in ast.walk(ifs[0].orelse[0]) if isinstance(c, ast.Call) and getattr(c.func, "attr", "") == "add_argument"]
            if len(callb) != 1 or len(callo) != 1:
                raise TranslationError("main.py: add_argument calls of unrecognised shape")
            kb = {k.arg: ast.unparse(k.value) for k in callb[0].keywords}
            ko = {k.arg: ast.unparse(k.value) for k in callo[0].keywords}
            if kb.get("action") != "'store_true'":
                raise TranslationError("main.py: boolean options are not store_true")
            bool_default_none = kb.get("default") == "None"
            if "default" in kb and kb["default"] != "None":
                raise TranslationError(f"main.py: boolean option default {kb['default']}")
            other_default_none = "default" not in ko or ko["default"] == "None"
    if bool_default_none is None or not other_default_none:
        raise TranslationError("main.py: option loop not found / non-boolean options have a default")
    lines = ["(* generated by harness/tr_opts.py from ffcx/options.py and ffcx/main.py *)",
             "From Coq Require Import List String Bool.", "Import ListNotations.", "Open Scope string_scope.",
             "Definition opt_keys : list string := [" + "; ".join(f'"{k}"' for k in keys) + "].",
             "Definition opt_is_bool (k : string) : bool := existsb (String.eqb k) [" + "; ".join(f'"{k}"' for k in keys if isbool[k]) + "].",
             f"Definition bool_default_none : bool := {'true' if bool_default_none else 'false'}.",
             "(* value a parsed option holds when it is not given on the command line *)",
             'Definition argdefault (k : string) : option string :=',
             '  if opt_is_bool k then (if bool_default_none then None else Some "False") else None.']
    steps = sanitise_steps(mn)
    lines += ["From Coq Require Import NArith.", "From FFCX Require Import Sanit.",
              "(* main.sanitise_filename: " + "; ".join(f"sub({p!r}, {r!r})" for *_, p, r in steps).replace("*)", "* )") + " *)",
              "Definition sanitise_steps : list step := ["]
    lines.append(";\n".join(
        "  {| matcher := %s [%s]%%N; plus := %s; repl := [%s]%%N |}" % (k, "; ".join(map(str, cps)), "true" if pl else "false", "; ".join(map(str, rp)))
        for k, cps, pl, rp, _, _ in steps) + "].")
    os.makedirs(common.GEN, exist_ok=True)
    open(os.path.join(common.GEN, "OptGen.v"), "w").write("\n".join(lines) + "\n")
    return keys, isbool, bool_default_none


if __name__ == "__main__":
    print(generate())
