"""JIT-compile cases through ffcx.codegeneration.jit (cffi) and dump the UFCx descriptors the
compiled module really exposes.  python jit_worker.py in.pkl out.pkl"""

from __future__ import annotations

import os
import pickle
import shutil
import signal
import sys
import tempfile

sys.path.insert(0, os.path.dirname(os.path.abspath(__file__)))
import ffx  # noqa: E402


class CaseTimeout(BaseException):
    pass


def _alarm(s, f):
    raise CaseTimeout()


ITYPES = ["cell", "exterior_facet", "interior_facet", "vertex", "ridge"]


def describe_form(ffi, f, scalar):
    d = {"rank": int(f.rank), "num_coefficients": int(f.num_coefficients),
         "num_constants": int(f.num_constants), "signature": ffi.string(f.signature).decode()}
    d["original_coefficient_positions"] = [int(f.original_coefficient_positions[i]) for i in range(f.num_coefficients)]
    d["coefficient_names"] = [ffi.string(f.coefficient_name_map[i]).decode() for i in range(f.num_coefficients)]
    d["constant_names"] = [ffi.string(f.constant_name_map[i]).decode() for i in range(f.num_constants)]
    d["constant_ranks"] = [int(f.constant_ranks[i]) for i in range(f.num_constants)]
    d["constant_shapes"] = [[int(f.constant_shapes[i][k]) for k in range(f.constant_ranks[i])] for i in range(f.num_constants)]
    d["finite_element_hashes"] = [int(f.finite_element_hashes[i]) for i in range(f.rank + f.num_coefficients)]
    offs = [int(f.form_integral_offsets[i]) for i in range(6)]
    d["offsets"] = offs
    n = offs[5] if all(offs[i] <= offs[i + 1] for i in range(5)) else max(offs)
    d["ids"] = [int(f.form_integral_ids[i]) for i in range(n)]
    ks = []
    for i in range(n):
        k = f.form_integrals[i]
        ks.append({"domain": int(k.domain), "needs_facet_permutations": bool(k.needs_facet_permutations),
                   "enabled": [bool(k.enabled_coefficients[j]) for j in range(f.num_coefficients)] if k.enabled_coefficients != ffi.NULL else [],
                   "coordinate_element_hash": int(k.coordinate_element_hash),
                   "has_kernel": getattr(k, "tabulate_tensor_" + scalar) != ffi.NULL,
                   "ptr": int(ffi.cast("uintptr_t", k))})
    d["kernels"] = ks
    return d


def main():
    job = pickle.load(open(sys.argv[1], "rb"))
    signal.signal(signal.SIGALRM, _alarm)
    out = []
    import numpy as np
    for case in job["cases"]:
        r = {"id": case["id"], "code": case["code"], "status": "ok"}
        tmp = tempfile.mkdtemp(prefix="vfjit_")
        signal.alarm(int(job.get("timeout", 180)))
        try:
            import ffcx.codegeneration.jit as jit
            objs, options, ns = ffx.build_case(case["code"])
            forms = [o for o in objs if not isinstance(o, tuple)]
            exprs = [o for o in objs if isinstance(o, tuple)]
            options = dict(options)
            scalar = np.dtype(options.get("scalar_type", "float64")).name
            r["scalar"] = scalar
            if forms:
                compiled, module, code = jit.compile_forms(list(forms), options=options, cache_dir=tmp,
                                                           cffi_extra_compile_args=["-O0"])
                r["forms"] = [describe_form(module.ffi, f, scalar) for f in compiled]
                r["module"] = module.__name__
            if exprs:
                compiled, module, code = jit.compile_expressions(list(exprs), options=options, cache_dir=tmp,
                                                                 cffi_extra_compile_args=["-O0"])
                ffi = module.ffi
                es = []
                for e in compiled:
                    npts, edim = int(e.num_points), int(e.entity_dimension)
                    es.append({"num_points": npts, "entity_dimension": edim,
                               "points": [float(e.points[i]) for i in range(npts * edim)],
                               "value_shape": [int(e.value_shape[i]) for i in range(e.num_components)],
                               "num_components": int(e.num_components), "rank": int(e.rank),
                               "num_coefficients": int(e.num_coefficients), "num_constants": int(e.num_constants),
                               "original_coefficient_positions": [int(e.original_coefficient_positions[i]) for i in range(e.num_coefficients)],
                               "coefficient_names": [ffi.string(e.coefficient_names[i]).decode() for i in range(e.num_coefficients)],
                               "constant_names": [ffi.string(e.constant_names[i]).decode() for i in range(e.num_constants)],
                               "coordinate_element_hash": int(e.coordinate_element_hash)})
                r["expressions"] = es
        except CaseTimeout:
            r["status"] = "timeout"
        except (KeyboardInterrupt, SystemExit):
            raise
        except BaseException as e:  # noqa: BLE001
            r["status"] = "rejected"
            r["error"] = f"{type(e).__name__}: {e}"[:400]
        finally:
            signal.alarm(0)
            shutil.rmtree(tmp, ignore_errors=True)
        out.append(r)
    pickle.dump(out, open(sys.argv[2], "wb"))


if __name__ == "__main__":
    main()
