"""C03 — interior-facet results do not depend on local vertex numbering; kernels flagged
needs_facet_permutations=false do not depend on the permutation argument at all."""
import numpy as np

import astprops
import corpus
import inputs
import runc

EXTRA = [
    corpus._c("c03_onesided_tri", '''
m=mesh("triangle"); V=space(m,"DP",2); v=TestFunction(V); f=Coefficient(V)
objs=[f('+')*v('+')*dS]'''),
    corpus._c("c03_onesided_custom_rule_tri", '''
m=mesh("triangle"); V=space(m,"DP",2); v=TestFunction(V); f=Coefficient(V)
md={"quadrature_rule":"custom","quadrature_points":np.array([[0.125],[0.5],[0.625]]),"quadrature_weights":np.array([0.25,0.5,0.25])}
objs=[f('+')*f('+')*v('+')*dS(metadata=md)]'''),
    corpus._c("c03_onesided_tet", '''
m=mesh("tetrahedron"); V=space(m,"DP",1); f=Coefficient(V); x=SpatialCoordinate(m)
objs=[f('-')*x[0]('-')*dS]'''),
    corpus._c("c03_twosided_hex", '''
m=mesh("hexahedron"); V=space(m,"DQ",1); u,v=TrialFunction(V),TestFunction(V); f=Coefficient(V)
objs=[avg(f)*jump(u)*jump(v)*dS]'''),
    corpus._c("c03_two_rules_last_onesided", '''
m=mesh("triangle"); V=space(m,"DP",1); u,v=TrialFunction(V),TestFunction(V)
objs=[inner(jump(u),jump(v))*dS(degree=2) + u('+')*v('+')*dS(degree=1)]'''),
    corpus._c("c03_two_rules_first_onesided", '''
m=mesh("tetrahedron"); V=space(m,"DP",1); u,v=TrialFunction(V),TestFunction(V)
objs=[u('-')*v('-')*dS(degree=1) + inner(jump(u),jump(v))*dS(degree=3)]'''),
    corpus._c("c03_constant_only_quad", '''
m=mesh("quadrilateral"); k=Constant(m)
objs=[k*dS]'''),
]


def search_perm_dependence(rec, seed):
    """real C: a kernel flagged needs_facet_permutations=false must give the same A for every
    value of the permutation argument."""
    r = astprops.compile_one(rec["code"])
    if r["status"] != "ok":
        return None
    b = astprops.c_kernel_runner(r)
    if not b.ok:
        return None
    con = rec["contract"]
    st = r["scalar_type"]
    rng = np.random.default_rng(seed)
    fn = b.kernel(rec["name"])
    perms = list(range(con["p_range"][0], max(con["p_range"][1], 1)))
    best = None
    for trial in range(3):
        d = inputs.make(con, rng, st, p=[0, 0][:con["np"]])
        ref = np.zeros_like(d["A"])
        runc.call_kernel(fn, ref, d["w"], d["c"], d["x"], d["e"], np.array([0, 0], dtype=np.uint8))
        scale = float(np.max(np.abs(ref))) + 1e-300
        for p0 in perms:
            for p1 in perms:
                A = np.zeros_like(d["A"])
                runc.call_kernel(fn, A, d["w"], d["c"], d["x"], d["e"], np.array([p0, p1], dtype=np.uint8))
                rel = float(np.max(np.abs(A - ref))) / scale
                if rel > 1e-9 and (best is None or rel > best["relative_difference"]):
                    best = {"perm": [p0, p1], "entity": d["e_used"], "relative_difference": rel,
                            "A_perm00": ref.tolist()[:8], "A_perm": A.tolist()[:8]}
    return best


def run(v, tier, seed, g):
    return astprops.run_ast_property(
        v, tier, seed, g, "safe_flag", "C03", search_perm_dependence,
        "kernel flagged needs_facet_permutations=false reads quadrature_permutation", extra_pinned=EXTRA,
        extra_assumptions=["DOLFINx's computation of the permutation codes is outside FFCx"])


def replay(v, payload):
    res, recs = __import__("astcheck").run([{"id": payload["case"], "code": payload["code"]}], "C03r")
    bad = [r for r in recs if not (r["bits"] and r["bits"][3])]
    for r in bad:
        print("still failing:", r["name"], r["bits"])
    return 1 if bad else 0
