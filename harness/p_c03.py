"""C03 — interior-facet results do not depend on local vertex numbering; kernels flagged
needs_facet_permutations=false do not depend on the permutation argument at all."""
import numpy as np

import astprops
import corpus
import inputs
import runc

EXTRA = [
    corpus._c("c03_onesided_tri", '''
m=mesh("triangle"); V=space(m,"DP",2); v=TestFunction(V); f=Coefficient(V)
objs=[f('+')*v('+')*dS]'''),
    corpus._c("c03_onesided_custom_rule_tri", '''
m=mesh("triangle"); V=space(m,"DP",2); v=TestFunction(V); f=Coefficient(V)
md={"quadrature_rule":"custom","quadrature_points":np.array([[0.125],[0.5],[0.625]]),"quadrature_weights":np.array([0.25,0.5,0.25])}
objs=[f('+')*f('+')*v('+')*dS(metadata=md)]'''),
    corpus._c("c03_both_sides_coupled_tet", '''
m=mesh("tetrahedron"); V=space(m,"DP",1); v=TestFunction(V); f=Coefficient(V)
objs=[f('+')*f('-')*v('-')*dS]'''),
    corpus._c("c03_onesided_tet", '''
m=mesh("tetrahedron"); V=space(m,"DP",1); f=Coefficient(V); x=SpatialCoordinate(m)
objs=[f('-')*x[0]('-')*dS]'''),
    corpus._c("c03_twosided_hex", '''
m=mesh("hexahedron"); V=space(m,"DQ",1); u,v=TrialFunction(V),TestFunction(V); f=Coefficient(V)
objs=[avg(f)*jump(u)*jump(v)*dS]'''),
    corpus._c("c03_two_rules_last_onesided", '''
m=mesh("triangle"); V=space(m,"DP",1); u,v=TrialFunction(V),TestFunction(V)
objs=[inner(jump(u),jump(v))*dS(degree=2) + u('+')*v('+')*dS(degree=1)]'''),
    corpus._c("c03_two_rules_first_onesided", '''
m=mesh("tetrahedron"); V=space(m,"DP",1); u,v=TrialFunction(V),TestFunction(V)
objs=[u('-')*v('-')*dS(degree=1) + inner(jump(u),jump(v))*dS(degree=3)]'''),
    # derivative tables on tensor-product cells: constant along some facets, varying along the others
    corpus._c("c03_gradients_quad", '''
m=mesh("quadrilateral"); V=space(m,"DQ",1); u,v=TrialFunction(V),TestFunction(V); f=Coefficient(space(m,"DQ",2)); n=FacetNormal(m)
objs=[inner(avg(grad(u)), n('+'))*jump(v)*dS + u('+').dx(0)*v('-')*dS + u('-').dx(1)*v('+')*dS, f('+').dx(0)*f('-').dx(1)*dS + inner(jump(grad(f)), n('+'))*dS]'''),
    corpus._c("c03_gradients_hex", '''
m=mesh("hexahedron"); V=space(m,"DQ",1); u,v=TrialFunction(V),TestFunction(V); f=Coefficient(V)
objs=[u('+').dx(0)*v('-').dx(2)*dS + inner(jump(grad(u)),jump(grad(v)))*dS, f('-').dx(1)*f('+').dx(2)*dS]'''),
    corpus._c("c03_constant_only_quad", '''
m=mesh("quadrilateral"); k=Constant(m)
objs=[k*dS]'''),
]


def search_perm_dependence(rec, seed):
    """real C: a kernel flagged needs_facet_permutations=false must give the same A for every
    value of the permutation argument."""
    r = astprops.compile_one(rec["code"])
    if r["status"] != "ok":
        return None
    b = astprops.c_kernel_runner(r)
    if not b.ok:
        return None
    con = rec["contract"]
    st = r["scalar_type"]
    rng = np.random.default_rng(seed)
    fn = b.kernel(rec["name"])
    perms = list(range(con["p_range"][0], max(con["p_range"][1], 1)))
    best = None
    for trial in range(3):
        d = inputs.make(con, rng, st, p=[0, 0][:con["np"]])
        ref = np.zeros_like(d["A"])
        runc.call_kernel(fn, ref, d["w"], d["c"], d["x"], d["e"], np.array([0, 0], dtype=np.uint8))
        scale = float(np.max(np.abs(ref))) + 1e-300
        for p0 in perms:
            for p1 in perms:
                A = np.zeros_like(d["A"])
                runc.call_kernel(fn, A, d["w"], d["c"], d["x"], d["e"], np.array([p0, p1], dtype=np.uint8))
                rel = float(np.max(np.abs(A - ref))) / scale
                if not (rel <= 1e-9) and (best is None or rel > best["relative_difference"]):
                    best = {"perm": [p0, p1], "entity": d["e_used"], "relative_difference": rel,
                            "A_perm00": ref.tolist()[:8], "A_perm": A.tolist()[:8]}
    return best


def renumbering(v, tier, seed):
    """numbering-invariance half, at the value level: the '-' cell gets every kind of valid local numbering
    (random element of the cell's symmetry group / all vertex permutations for simplices); with '+' at code 0
    some code of the '-' side must reproduce the integral computed geometrically (the oracle pulls the
    physical point back into the renumbered '-' cell), and cases with a single matching code must agree on
    it for equal (cell, renumbering, facets)."""
    import common
    import p_c02
    cases = [c for c in corpus.PINNED + p_c02.EXTRA + EXTRA if "dS" in c["code"]]
    rounds = 4 if tier == "quick" else 30
    stats = {"kernel_runs": 0, "no_code_matches": 0, "unique_code": 0, "all_codes": 0, "orientations": 0, "unsupported": 0}
    seen = {}
    orient = set()
    for rnd in range(rounds):
        res = common.run_cases(cases, script="oraclerun.py", timeout=400,
                               extra={"seed": seed + 7919 * rnd, "entity_mode": "random", "affine": True, "renumber": True})
        for r in res:
            if r["status"] != "ok":
                continue
            for k in r["kernels"]:
                if k.get("status") == "unsupported":
                    stats["unsupported"] += 1
                if k.get("integral_type") != "interior_facet" or k["status"] not in ("agree", "mismatch"):
                    continue
                stats["kernel_runs"] += 1
                ok = k["status"] == "agree"
                v.oblige(ok)
                if not ok:
                    stats["no_code_matches"] += 1
                    v.violation(f"c03-renumber:{r['id']}", f"with the '-' cell renumbered no permutation code reproduces the interior-facet integral (case {r['id']}, relative error {k['error']:.3g})",
                                {"case": r["id"], "code": r["code"], "renumbering": k.get("codes"), "seed": seed + 7919 * rnd})
                    continue
                for c in k.get("codes", []):
                    # the code that reproduces the integral must be the one ufcx.h's convention assigns to this pair of numberings
                    conv = c.get("codes_by_convention")
                    if conv and len(c["codes_within_tol"]) == 1:
                        stats["convention_checked"] = stats.get("convention_checked", 0) + 1
                        okc = c["matching_code"] in conv
                        v.oblige(okc)
                        if not okc:
                            v.violation(f"c03-convention:{r['id']}", f"interior-facet kernel of case {r['id']}: for '-' numbering {c['sigma']} (local facets {c['facets']}) the integral is reproduced by "
                                        f"permutation code {c['matching_code']}, but the convention of ufcx.h (rotations = N div 2, then reflections = N mod 2) assigns code {conv} to this pair of numberings",
                                        {"case": r["id"], "code": r["code"], "renumbering": c, "seed": seed + 7919 * rnd})
                for c in k.get("codes", []):
                    cell = r["code"].split('mesh("')[1].split('"')[0] if 'mesh("' in r["code"] else "?"
                    key = (cell, tuple(c["sigma"]), tuple(c["facets"]))
                    orient.add(key)
                    if len(c["codes_within_tol"]) == 1:
                        stats["unique_code"] += 1
                        prev = seen.setdefault(key, (c["matching_code"], r["id"]))
                        same = prev[0] == c["matching_code"]
                        v.oblige(same)
                        if not same:
                            v.violation(f"c03-code-convention:{r['id']}", f"the permutation code that matches a given renumbering differs between kernels: {prev[0]} in {prev[1]}, {c['matching_code']} in {r['id']}",
                                        {"case": r["id"], "code": r["code"], "renumbering": c, "other_case": prev[1]})
                    else:
                        stats["all_codes"] += 1
    stats["orientations"] = len(orient)
    if len(v.samples) < 8 and seen:
        k0 = next(iter(seen))
        v.samples.append({"renumbering": {"cell": k0[0], "sigma": list(k0[1]), "facets": list(k0[2]), "matching_code": seen[k0][0]}})
    return {"renumbering": stats}


def run(v, tier, seed, g):
    return astprops.run_ast_property(
        v, tier, seed, g, "safe_flag", "C03", search_perm_dependence,
        "kernel flagged needs_facet_permutations=false reads quadrature_permutation", extra_pinned=EXTRA,
        extra_assumptions=["DOLFINx's computation of the permutation codes is outside FFCx: the value half shows that for every renumbering SOME code (consistently the same one) reproduces the integral, not that DOLFINx picks it"],
        extra_run=renumbering)


def replay(v, payload):
    res, recs = __import__("astcheck").run([{"id": payload["case"], "code": payload["code"]}], "C03r")
    bad = [r for r in recs if not (r["bits"] and r["bits"][3])]
    for r in bad:
        print("still failing:", r["name"], r["bits"])
    return 1 if bad else 0
