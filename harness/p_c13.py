"""C13 — JIT signatures are stable across processes and separate different inputs."""

from __future__ import annotations

import os
import pickle
import re
import subprocess
import tempfile
import shutil

import common
import corpus

BASE = [c for c in corpus.PINNED if c["id"] in ("stiff_tri_p2_coef", "subdomains_tri", "int_facet_tri_jump", "expr_grad_tri",
                                                "two_forms_module", "mixed_tri_th", "expr_rank1_tri", "complex_helmholtz_tri")]

FORM_A = '''
m=mesh("triangle"); V=space(m,"P",2); u,v=TrialFunction(V),TestFunction(V); f=Coefficient(V)
objs=[f*inner(grad(u),grad(v))*dx]
'''
EXPR = '''
m=mesh("triangle"); V=space(m,"P",2); f=Coefficient(V)
P=np.array([[0.25,0.25],[0.5,0.125]])%s
objs=[(grad(f), P)]
'''
EXPR_VAR = '''
m=mesh("triangle"); V=space(m,"P",1); u=Coefficient(V); g=Coefficient(V); h=Coefficient(V); uv=ufl.variable(u)
objs=[(ufl.diff(uv*uv*g + h, uv) + h, np.array([[0.25,0.25],[0.5,0.125]]))]
'''
FORM_VAR = '''
m=mesh("triangle"); V=space(m,"P",1); u=Coefficient(V); v=TestFunction(V); uv=ufl.variable(u)
objs=[ufl.diff(uv*uv*uv, uv)*v*dx]
'''
BIG = '''
m=mesh("triangle"); V=space(m,"P",1); f=Coefficient(V)
P=np.column_stack([np.linspace(0.01,0.49,700), np.linspace(0.01,0.49,700)])%s
objs=[(f, P)]
'''

# (label, case A, case B): the two requests generate different kernels and must not share a module name
SEPARATE = [
    ("integrand", {"code": FORM_A}, {"code": FORM_A.replace("f*inner", "f*f*inner")}),
    ("scalar_type", {"code": FORM_A}, {"code": FORM_A + 'options={"scalar_type":"float32"}\n'}),
    ("table_rtol", {"code": FORM_A}, {"code": FORM_A + 'options={"table_rtol":1e-3}\n'}),
    ("part", {"code": FORM_A}, {"code": FORM_A + 'options={"part":"diagonal"}\n'}),
    ("compiler_flags", {"code": FORM_A, "cffi_args": ["-O2"]}, {"code": FORM_A, "cffi_args": ["-O0"]}),
    ("compiler_flag_order", {"code": FORM_A, "cffi_args": ["-O0", "-O3"]}, {"code": FORM_A, "cffi_args": ["-O3", "-O0"]}),
    ("compiler_flag_order_expression", {"code": EXPR % "", "cffi_args": ["-O0", "-O3"]}, {"code": EXPR % "", "cffi_args": ["-O3", "-O0"]}),
    ("debug", {"code": FORM_A}, {"code": FORM_A, "debug": True}),
    ("points_far", {"code": EXPR % ""}, {"code": EXPR % "; P[1,1]=0.25"}),
    ("points_10th_digit", {"code": EXPR % ""}, {"code": EXPR % "; P[1,1]+=1e-10"}),
    ("points_large_array_middle", {"code": BIG % ""}, {"code": BIG % "; P[350,0]+=0.125"}),
    ("form_order", {"code": FORM_A.replace("objs=[", "L=f*v*dx\nobjs=[L, ")}, {"code": FORM_A.replace("objs=[", "L=f*v*dx\nobjs=[").replace("*dx]", "*dx, L]")}),
]


def sig_run(cases, seed):
    tmp = tempfile.mkdtemp(prefix="vfsig_")
    try:
        inp, outp = os.path.join(tmp, "in.pkl"), os.path.join(tmp, "out.pkl")
        pickle.dump({"cases": cases}, open(inp, "wb"))
        env = common.env_for_repo()
        env["PYTHONHASHSEED"] = str(seed)
        p = subprocess.run([common.PY, os.path.join(common.HERE, "sig_worker.py"), inp, outp], env=env, cwd=tmp,
                           capture_output=True, text=True, timeout=900)
        if not os.path.exists(outp):
            return [{"id": c["id"], "status": "error", "error": p.stderr[-300:]} for c in cases]
        return pickle.load(open(outp, "rb"))
    finally:
        shutil.rmtree(tmp, ignore_errors=True)


IDENT = re.compile(r"^[A-Za-z_][A-Za-z0-9_]*$")


F_SMALL = '''
m=mesh("interval"); V=space(m,"P",1); u,v=TrialFunction(V),TestFunction(V)
objs=[u*v*dx]
'''
G_SMALL = '''
m=mesh("interval"); V=space(m,"P",1); u,v=TrialFunction(V),TestFunction(V)
objs=[inner(grad(u),grad(v))*dx]
'''
E_SMALL = '''
m=mesh("interval"); V=space(m,"P",1); f=Coefficient(V)
objs=[(f*f, np.array([[0.25],[0.5]]))]
'''


def real_path_names(v):
    """the names the real compile_forms / compile_expressions use (default arguments, real cffi builds), for the
    same request under different histories in one process, and against the name formula the checks model."""
    import pickle
    import shutil
    import subprocess
    import tempfile
    seqs = {"F": [F_SMALL], "G,F": [G_SMALL, F_SMALL], "F,F": [F_SMALL, F_SMALL], "E": [E_SMALL], "G,E,F": [G_SMALL, E_SMALL, F_SMALL]}
    procs = {}
    tmp = tempfile.mkdtemp(prefix="vfjnr_")
    try:
        for k, seq in seqs.items():
            inp, outp = os.path.join(tmp, f"{len(procs)}.in"), os.path.join(tmp, f"{len(procs)}.out")
            pickle.dump({"sequence": seq}, open(inp, "wb"))
            procs[k] = (subprocess.Popen([common.PY, os.path.join(common.HERE, "jitname_worker.py"), inp, outp], env=common.env_for_repo(), cwd=tmp,
                                         stdout=subprocess.PIPE, stderr=subprocess.PIPE, text=True), outp)
        res = {}
        for k, (p, outp) in procs.items():
            so, se = p.communicate(timeout=900)
            res[k] = pickle.load(open(outp, "rb")) if os.path.exists(outp) else [{"error": "worker died: " + se[-200:]}]
    finally:
        shutil.rmtree(tmp, ignore_errors=True)
    formula = {r["id"]: r for r in sig_run([{"id": "F", "code": F_SMALL}, {"id": "E", "code": E_SMALL}], 0)}
    fname = lambda k, i: res[k][i].get("module", "ERR " + res[k][i].get("error", ""))   # noqa: E731
    obs = {"F alone": fname("F", 0), "F after G": fname("G,F", 1), "F second request": fname("F,F", 1), "F after G and E": fname("G,E,F", 2),
           "E alone": fname("E", 0), "E after G": fname("G,E,F", 1)}
    want_f = formula["F"].get("module")
    want_e = formula["E"].get("emodule")
    n = 0
    for k, name in obs.items():
        want = want_f if k.startswith("F") else want_e
        ok = name == want
        n += 1
        v.oblige(ok)
        if not ok:
            v.violation(f"real-path:{k}", f"the module name the real JIT entry point uses for request '{k}' is {name}, the name of the same request in a fresh process / by the name formula is {want}",
                        {"request": k, "observed": name, "expected": want, "all": obs, "code_F": F_SMALL, "code_G": G_SMALL, "code_E": E_SMALL})
    return {"real_jit_requests": n}


def run(v, tier, seed, g):
    real_stats = real_path_names(v)
    seeds = [0, 1, 4242] if tier == "quick" else [0, 1, 2, 3, 17, 4242, 99991, 123456789]
    hists = ["none", "objects", "compile_other"]
    # ---- stability across hash seeds and process histories ------------------------------------------
    base = [dict(c, object_names=True) for c in BASE]
    # an expression / a form with ufl.variable (labels are counted objects too: their counts must not enter the names)
    base += [{"id": "expr_with_variable", "code": EXPR_VAR, "object_names": True}, {"id": "form_with_variable", "code": FORM_VAR, "object_names": True}]
    # requests with several compiler flags (names must not depend on how a collection of flags is ordered/printed)
    manyflags = ["-O2", "-g0", "-Wall", "-fno-math-errno", "-DVF_A=1", "-DVF_B=2"]
    base += [dict(c, id=c["id"] + "+flags", cffi_args=manyflags) for c in BASE[:3]]
    ref = None
    runs = 0
    for s in seeds:
        for h in hists:
            res = sig_run([dict(c, history=h) for c in base], s)
            runs += 1
            names = {r["id"]: (r.get("module"), r.get("emodule"), tuple(r.get("form_names", [])), tuple(r.get("expr_names", [])),
                               tuple(r.get("object_names", []))) for r in res}
            for r in res:
                if r["status"] != "ok":
                    v.oblige(False)
                    v.violation(f"sig-run:{r['id']}", f"names could not be computed: {r.get('error')}", {"case": r["id"]}, no_input=True)
            if ref is None:
                ref = (names, s, h, res)
                continue
            for cid in names:
                same = names[cid] == ref[0][cid]
                v.oblige(same)
                if not same:
                    v.violation(f"unstable:{cid}", f"names of {cid} differ between (seed {ref[1]}, history {ref[2]}) and (seed {s}, history {h})",
                                {"case": cid, "code": [c for c in base if c['id'] == cid][0]["code"], "cffi_args": [c for c in base if c['id'] == cid][0].get("cffi_args"), "a": str(ref[0][cid])[:400], "b": str(names[cid])[:400],
                                 "seed_a": ref[1], "history_a": ref[2], "seed_b": s, "history_b": h})
    # ---- pre-image = the modelled encoding; names valid and distinct ------------------------------
    for r in ref[3] if ref else []:
        if r["status"] != "ok":
            continue
        if "preimage" in r:
            f = r["fields"]
            ok = r["preimage"] == ";".join(f) and all(";" not in x for x in f[:4]) and len(f[0]) % 128 == 0 \
                and re.fullmatch(r"[0-9a-f]*", f[0]) is not None
            v.oblige(ok)
            if not ok:
                v.violation(f"preimage:{r['id']}", "the text hashed by compute_signature is not the modelled encoding (5 fields joined by ';', fixed-length hex object signatures)",
                            {"case": r["id"], "preimage": r["preimage"][:300], "fields": [x[:80] for x in f]}, no_input=True)
        names = list(r.get("object_names", [])) + list(r.get("form_names", [])) + list(r.get("expr_names", []))
        mod = [r.get("module"), r.get("emodule")]
        allnames = list(r.get("object_names", []))
        ok = all(IDENT.match(n) for n in names + [m for m in mod if m]) and len(set(allnames)) == len(allnames)
        v.oblige(ok)
        if not ok:
            v.violation(f"names:{r['id']}", "object names are not distinct valid C identifiers", {"case": r["id"], "names": names[:10]})
        elif len(v.samples) < 4:
            v.samples.append({"case": r["id"], "module": r.get("module") or r.get("emodule"), "objects": allnames[:3]})
    # ---- separation ----------------------------------------------------------------------------------
    flat = []
    for lab, a, b in SEPARATE:
        flat.append(dict(a, id=lab + ":A"))
        flat.append(dict(b, id=lab + ":B"))
    res = {r["id"]: r for r in sig_run(flat, 0)}
    for lab, a, b in SEPARATE:
        ra, rb = res[lab + ":A"], res[lab + ":B"]
        if ra["status"] != "ok" or rb["status"] != "ok":
            v.oblige(False)
            v.violation(f"sig-run:{lab}", f"names could not be computed: {ra.get('error')} {rb.get('error')}", {}, no_input=True)
            continue
        ma, mb = ra.get("module") or ra.get("emodule"), rb.get("module") or rb.get("emodule")
        v.oblige(ma != mb)
        if ma == mb:
            v.violation(f"collision:{lab}", f"two requests that differ in {lab} share the module name {ma}",
                        {"differ_in": lab, "code_a": a["code"], "code_b": b["code"], "args_a": a.get("cffi_args"), "args_b": b.get("cffi_args"), "module": ma})
    if not g["ok"] and not v.violations:
        v.violation("gate", "proof obligations no longer check: " + "; ".join(g["broken"]), {"broken": g["broken"]}, no_input=True)
    cov = {"checker_cmd": f"./check C13 --tier {tier}",
           "trusted_base": ["Coq kernel", "SHA-1 collision-free on the explored pre-images", "UFL signatures renumbering-invariant and separating (ufl.Form.signature, compute_expression_signature)",
                            "tr_naming.py shape check of compute_signature", "Python str() of option/tag tuples separates their components"],
           "real_jit_path": real_stats, "evaluations": runs * len(BASE) + len(SEPARATE), "distinct_nontrivial": len(BASE) * len(seeds) * len(hists),
           "rule": f"{len(BASE)} requests x hash seeds {seeds} x histories {hists}; {len(SEPARATE)} request pairs that must be kept apart",
           "axioms_under_property_theorems": g.get("axioms", [])}
    return v.finish("proof", cov, ["injectivity is proved for the encoding of the pre-image; the digest is assumed injective"])


def replay(v, payload):
    print(payload)
    return 1
