"""C12 — code generation is deterministic and history-independent."""
import difflib
import os
import pickle
import shutil
import subprocess
import tempfile

import common
import corpus

_c = corpus._c
EXTRA = [
    _c("c12_prism_all_facets_and_cells", '''
m=mesh("prism"); V=space(m,"P",1); u,v=TrialFunction(V),TestFunction(V); f=Coefficient(V)
objs=[f*u*v*ds + u*v*dx + avg(u)*avg(v)*dS]'''),
    _c("c12_pyramid_facets", '''
m=mesh("pyramid"); V=space(m,"P",1); v=TestFunction(V); f=Coefficient(V); x=SpatialCoordinate(m)
objs=[f*x[2]*v*ds + f*v*dx]'''),
    _c("c12_many_elements", '''
m=mesh("triangle"); P2=el("P","triangle",2,shape=(2,)); P1=el("P","triangle",1); D0=el("DP","triangle",0); RT=el("RT","triangle",1)
W=FunctionSpace(m,basix.ufl.mixed_element([P2,P1,D0,RT])); w=Coefficient(W); (u,p,d,s)=split(w); (v,q,e,t)=TestFunctions(W)
g=Coefficient(space(m,"P",3)); k=Coefficient(space(m,"DP",1))
objs=[inner(grad(u),grad(v))*dx + p*q*dx + d*e*dx + inner(s,t)*dx + g*k*div(v)*dx + g*q*ds]'''),
    _c("c12_geometry_tables", '''
m=mesh("tetrahedron"); V=space(m,"P",1); v=TestFunction(V); n=FacetNormal(m)
objs=[CellVolume(m)*v*dx + Circumradius(m)*v*ds + FacetArea(m)*v*ds + n[0]*v*ds + avg(CellVolume(m))*avg(v)*dS]'''),
    _c("c12_two_meshes_same_module", '''
m1=mesh("triangle"); m2=mesh("triangle",2); V1=space(m1,"P",1); V2=space(m2,"P",2)
u1,v1=TrialFunction(V1),TestFunction(V1); u2,v2=TrialFunction(V2),TestFunction(V2)
objs=[inner(grad(u1),grad(v1))*dx, inner(grad(u2),grad(v2))*dx, u2*v2*ds]'''),
    # same cell, degree and scheme, different polyset type (macro element) / different element variant:
    # anything cached too coarsely across compilations shows up in the reverse and interleaved histories
    _c("c12_iso_p1_mass_macro_polyset", '''
m=mesh("triangle"); V=FunctionSpace(m,el("iso","triangle",1)); u,v=TrialFunction(V),TestFunction(V)
objs=[u*v*dx]'''),
    _c("c12_p1_mass_after_macro", '''
m=mesh("triangle"); V=space(m,"P",1); u,v=TrialFunction(V),TestFunction(V); f=Coefficient(V)
objs=[u*v*dx, f*v*ds]'''),
    _c("c12_p3_equispaced", '''
m=mesh("triangle"); V=FunctionSpace(m,el("P","triangle",3,lagrange_variant=basix.LagrangeVariant.equispaced)); u,v=TrialFunction(V),TestFunction(V)
objs=[u*v*dx(degree=6)]'''),
    _c("c12_p3_gll_warped", '''
m=mesh("triangle"); V=FunctionSpace(m,el("P","triangle",3,lagrange_variant=basix.LagrangeVariant.gll_warped)); u,v=TrialFunction(V),TestFunction(V)
objs=[u*v*dx(degree=6)]'''),
    # one kernel needing the same reference-geometry table for two cell types (facet integral coupled to a codimension-1 mesh)
    _c("c12_mixed_dimensional_geometry_tables", '''
mt=mesh("triangle"); mi=mesh("interval",1,2); V=space(mt,"P",2); W=space(mi,"P",1); u=TrialFunction(V); q=TestFunction(W); f=Coefficient(V); g=Coefficient(W)
n=FacetNormal(mt)
objs=[CellVolume(mt)*CellVolume(mi)*inner(f*g*grad(u), n*q)*Measure("ds", domain=mt), Circumradius(mt)*CellVolume(mi)*u*q*Measure("ds", domain=mt)]'''),
    _c("c12_expression_several_coefficient_spaces", '''
m=mesh("triangle"); f=Coefficient(space(m,"P",2)); g=Coefficient(space(m,"P",1)); h=Coefficient(space(m,"DP",0)); k=Constant(m); k2=Constant(m,shape=(2,))
objs=[(f*g + grad(f)[0]*h + k, np.array([[0.25,0.25],[0.5,0.125]])), (k2*h*g + grad(g)*k, np.array([[0.125,0.25]]))]'''),
    _c("c12_expression_and_forms", '''
m=mesh("triangle"); V=space(m,"P",2); f=Coefficient(V); g=Coefficient(V); v=TestFunction(V)
objs=[f*g*v*dx, (grad(f)*g, np.array([[0.25,0.25],[0.5,0.125]]))]'''),
]


def run_proc(cases, seed, mode, language="C", keep=()):
    tmp = tempfile.mkdtemp(prefix="vfdet_")
    try:
        inp, outp = os.path.join(tmp, "in.pkl"), os.path.join(tmp, "out.pkl")
        pickle.dump({"cases": cases, "mode": mode, "language": language, "keep_text": list(keep)}, open(inp, "wb"))
        env = common.env_for_repo()
        env["PYTHONHASHSEED"] = str(seed)
        p = subprocess.Popen([common.PY, os.path.join(common.HERE, "detrun.py"), inp, outp], env=env, cwd=tmp,
                             stdout=subprocess.PIPE, stderr=subprocess.PIPE, text=True)
        return p, outp, tmp
    except BaseException:
        shutil.rmtree(tmp, ignore_errors=True)
        raise


def collect(procs):
    res = []
    for (seed, mode, lang), (p, outp, tmp) in procs:
        so, se = p.communicate(timeout=3000)
        r = pickle.load(open(outp, "rb")) if os.path.exists(outp) else {"digests": {}, "errors": {"*": "worker died: " + se[-300:]}, "texts": {}}
        r["key"] = (seed, mode, lang)
        res.append(r)
        shutil.rmtree(tmp, ignore_errors=True)
    return res


def first_diff(a, b):
    for line in difflib.unified_diff(a.splitlines(), b.splitlines(), "baseline", "other", lineterm="", n=0):
        if line.startswith(("+", "-")) and not line.startswith(("+++", "---")):
            return line[:160]
    return ""


def run(v, tier, seed, g):
    cases = list(corpus.PINNED) + EXTRA + (corpus.random_cases(seed, 10 if tier == "quick" else 200))
    cases = [c for c in cases if "numba" not in c["code"]]
    seeds = [0, 1, 2, 3] if tier == "quick" else list(range(0, 12)) + [12345, 999983]
    configs = [(0, "isolated", "C"), (0, "isolated", "numba")] + [(s, "plain", "C") for s in seeds] + [(0, "objects_first", "C"), (1, "reverse", "C"), (2, "interleaved", "C"), (0, "twice", "C"),
                                                   (0, "plain", "numba"), (3, "objects_first", "numba")]
    # counter shifts: the cases that create several counted UFL objects, each generated alone after k unrelated objects
    counted = [c for c in cases if c["code"].count("Coefficient(") + c["code"].count("Constant(") >= 2]
    exprs_first = sorted(counted, key=lambda c: 0 if "np.array" in c["code"] else 1)
    shifted = exprs_first[:(24 if tier == "quick" else 400)]
    shifts = [(0, f"shift:{k}", "C") for k in range(1, 11)]
    configs = configs + shifts
    procs = [(cfg, run_proc(shifted if cfg[1].startswith("shift:") else cases, cfg[0], cfg[1], cfg[2])) for cfg in configs]
    res = collect(procs)
    base = {lang: next(r for r in res if r["key"] == (0, "isolated", lang)) for lang in ("C", "numba")}
    ncmp, ndiff = 0, 0
    differing = {}
    for r in res:
        s, mode, lang = r["key"]
        for cid, msg in r.get("errors", {}).items():
            v.oblige(False)
            v.violation(f"c12-{mode}:{cid}", f"case {cid} ({lang}, seed {s}, {mode}): {msg}", {"case": cid, "config": list(r["key"])})
        if r is base[lang]:
            continue
        for cid, d in r["digests"].items():
            b = base[lang]["digests"].get(cid)
            if b is None or b.startswith("ERR") and d.startswith("ERR"):
                continue
            ncmp += 1
            ok = d == b
            v.oblige(ok)
            if not ok:
                ndiff += 1
                differing.setdefault(cid, []).append(r["key"])
    # replay material: regenerate the first few differing cases with their text and show the first differing line
    for cid, keys in list(differing.items())[:3]:
        code = next(c for c in cases if c["id"] == cid)
        s, mode, lang = keys[0]
        sub = [c for c in cases] if mode in ("reverse", "interleaved") else [code]
        sub = [c for c in cases] if mode in ("reverse", "interleaved", "plain", "objects_first", "twice") else [code]
        if mode.startswith("shift:"):
            sub = [code]
        pr = collect([((0, "plain", lang), run_proc([code], 0, "plain", lang, keep=[cid])), ((s, mode, lang), run_proc(sub, s, mode, lang, keep=[cid]))])
        t0, t1 = pr[0]["texts"].get(cid, ""), pr[1]["texts"].get(cid, "")
        v.violation(f"c12-nondeterministic:{cid}", f"generated {lang} text of case {cid} differs between (PYTHONHASHSEED=0, generated alone in a fresh process) and (PYTHONHASHSEED={s}, {mode}): {first_diff(t0, t1)}",
                    {"case": cid, "code": code["code"], "config": [s, mode, lang], "first_difference": first_diff(t0, t1), "other_configs": [list(k) for k in keys[:6]]})
    if not g["ok"] and not v.violations:
        v.violation("gate", "proof obligations no longer check: " + "; ".join(g["broken"]), {"broken": g["broken"]}, no_input=True)
    cov = {"checker_cmd": f"./check C12 --tier {tier}", "trusted_base": ["Coq kernel (Order.v, site table gen/SitesGen.v)", "tr_sites.py: syntactic scan of ffcx/ for hash-ordered sets and process-global ids, with a justified allow-list",
                                                                          "subprocess runs of ffcx.compiler.compile_ufl_objects under different PYTHONHASHSEED and histories"],
           "programs": len(cases), "configurations": [list(c) for c in configs], "disagreements_checked": ncmp, "evaluations": ncmp, "distinct_nontrivial": len(cases) * (len(configs) - 2),
           "differing": ndiff,
           "rule": "every case generated in one subprocess per configuration (hash seed x history: plain, unrelated UFL objects first, reverse order, another form compiled in between, same form twice; C and numba; and, for the cases with several coefficients / constants, alone after k = 1..10 unrelated UFL objects of every counted kind); digests compared with the text generated for the case alone in a fresh process (seed 0)",
           "axioms_under_property_theorems": g.get("axioms", [])}
    return v.finish("proof", cov, ["forms, seeds and histories sampled; proved: a sorted site is enumeration-independent, and every site found in ffcx/ is Sorted/OrderFree/ListDedup (finite, regenerated)",
                                   "UFL's own ordering functions (sort_elements, renumbering) are outside the scan"])


def replay(v, payload):
    code = {"id": payload["case"], "code": payload["code"]}
    s, mode, lang = payload["config"]
    pr = collect([((0, "plain", lang), run_proc([code], 0, "plain", lang, keep=[code["id"]])), ((s, mode, lang), run_proc([code], s, mode, lang, keep=[code["id"]]))])
    same = pr[0]["digests"] == pr[1]["digests"]
    print("identical" if same else "DIFFERENT", pr[0]["digests"], pr[1]["digests"])
    return 0 if same else 1
