"""seedprompt.py <id> : print the (self-contained) prompt given to a fresh sub-agent that seeds a
property-breaking change in its own scratch worktree /tmp/wt_<id>.  The agent sees only the
property text from properties.jsonl, nothing from /verif."""
import json
import os
import sys

HERE = os.path.dirname(os.path.abspath(__file__))
TEMPLATE = open(os.path.join(HERE, "seedprompt.txt")).read()


def main():
    pid = sys.argv[1]
    for line in open(os.path.join(os.path.dirname(HERE), "properties.jsonl")):
        d = json.loads(line)
        if d["id"] == pid:
            break
    else:
        raise SystemExit("unknown property")
    mech = "\n".join(f"  - {m['name']} ({m['where']})" for m in d["anchors"].get("mechanism", []))
    print(TEMPLATE.format(wt=f"/tmp/wt_{pid}", pid=pid, title=d["title"], statement=d["statement"],
                          qtext=d["quantifier"]["text"], files=", ".join(d["anchors"]["files"]), mech=mech))


if __name__ == "__main__":
    main()
