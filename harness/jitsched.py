"""Deterministic scheduler for the REAL ffcx.codegeneration.jit.compile_forms.

Every request runs the real function in its own Python thread; a baton lets exactly one
thread run at a time and stops it at every file-system primitive of the protocol (rebound in
the jit module's namespace from the outside): open(.c,'x'), os.path.exists(marker), the module
load, code generation, the C compile (a stub writing a once-really-compiled shared object in
two halves), open(marker,'x') + the log write (or: the log write into a temporary file + os.replace onto the
marker), os.replace(.c,.failed).  At each stop the
scheduler decides Normal / Fault (the primitive raises) / Kill (the thread is abandoned).
The sequence of granted stops is the event list replayed through Jit.step in Coq.

python jitsched.py in.pkl out.pkl   (job: {"schedules":[{"seed":..,"nreq":..,"faults":bool,"kills":bool,"window":bool}], "timeout":T})
"""

from __future__ import annotations

import io
import logging
import os
import pickle
import random
import shutil
import sys
import sysconfig
import tempfile
import threading
import types

sys.path.insert(0, os.path.dirname(os.path.abspath(__file__)))
import ffx  # noqa: E402

FORM = '''
m=mesh("triangle"); V=space(m,"P",1); u,v=TrialFunction(V),TestFunction(V)
objs=[inner(grad(u),grad(v))*dx]
'''
SUFFIX = sysconfig.get_config_var("EXT_SUFFIX")


class KillThread(BaseException):
    pass


class World:
    def __init__(self):
        self.cv = threading.Condition()
        self.waiting = {}      # pid -> hook name (thread parked at a stop)
        self.grant = {}        # pid -> choice
        self.done = {}         # pid -> outcome
        self.local = threading.local()
        self.so_bytes = None
        self.cache = None

    # called from request threads
    def stop(self, hook):
        pid = self.local.pid
        with self.cv:
            self.waiting[pid] = hook
            self.cv.notify_all()
            while pid not in self.grant:
                self.cv.wait()
            ch = self.grant.pop(pid)
        if ch == "Kill":
            raise KillThread()
        return ch


W = World()


def so_path(cache, name):
    return os.path.join(str(cache), name + SUFFIX)


def so_state(cache, name):
    p = so_path(cache, name)
    if not os.path.exists(p):
        return "SoAbsent"
    return "SoComplete" if open(p, "rb").read() == W.so_bytes else "SoPartial"


# ---- replacements installed in the jit module's namespace --------------------------------------

class LogFile:
    def __init__(self, f):
        self.f = f

    def write(self, s):
        if W.stop("write_log") == "Fault":
            self.f.close()
            raise OSError(28, "No space left on device (injected)")
        return self.f.write(s)

    def close(self):
        return self.f.close()

    def __enter__(self):
        return self

    def __exit__(self, *a):
        self.f.close()
        return False


def hooked_open(path, mode="r", *a, **k):
    p = str(path)
    if mode == "x" and p.endswith(".c"):
        ch = W.stop("open_c")
        return open(path, mode, *a, **k)
    if mode == "x" and p.endswith(".c.cached"):
        ch = W.stop("marker")
        return LogFile(open(path, mode, *a, **k))
    if mode == "w" and ".c.cached" in os.path.basename(p):
        # temporary file that becomes the marker: the stop is at the write
        return LogFile(open(path, mode, *a, **k))
    return open(path, mode, *a, **k)


class PathProxy:
    def __getattr__(self, n):
        return getattr(os.path, n)

    def exists(self, p):
        if str(p).endswith(".c.cached"):
            W.stop("exists")
        return os.path.exists(p)


class OsProxy:
    path = PathProxy()

    def __getattr__(self, n):
        return getattr(os, n)

    def replace(self, a, b):
        if str(b).endswith(".c.cached"):
            if W.stop("publish") == "Fault":
                raise OSError(5, "Input/output error (injected)")
            return os.replace(a, b)
        W.stop("rename")
        return os.replace(a, b)

    def _extra(self, name, *a, **k):
        if a and str(a[0]).endswith(PROTOCOL_SUFFIXES):
            W.stop("extra:os." + name)
        return getattr(os, name)(*a, **k)

    def open(self, *a, **k):
        return self._extra("open", *a, **k)

    def rename(self, *a, **k):
        return self._extra("rename", *a, **k)

    def remove(self, *a, **k):
        return self._extra("remove", *a, **k)

    def unlink(self, *a, **k):
        return self._extra("unlink", *a, **k)

    def link(self, *a, **k):
        return self._extra("link", *a, **k)

    def mkdir(self, *a, **k):
        return self._extra("mkdir", *a, **k)


class TimeProxy:
    def __getattr__(self, n):
        import time
        return getattr(time, n)

    def sleep(self, s):
        return None


class FakeFFI:
    def set_source(self, name, code, **kw):
        self.name = name

    def cdef(self, decl):
        pass

    def compile(self, tmpdir=None, verbose=False, debug=None):
        target = so_path(tmpdir, self.name)
        if W.stop("compile_start") == "Fault":
            raise RuntimeError("C compiler failed (injected)")
        half = len(W.so_bytes) // 2
        with open(target, "wb") as f:
            f.write(W.so_bytes[:half])
        if W.stop("compile_end") == "Fault":
            raise RuntimeError("linker failed (injected)")
        with open(target, "wb") as f:
            f.write(W.so_bytes)
        W.ncompiles = getattr(W, "ncompiles", 0) + 1


class FakeLib:
    def __getattr__(self, n):
        return ("object", n)


class FakeSpec:
    def __init__(self, path):
        self.path = path
        self.loader = types.SimpleNamespace(exec_module=lambda m: None)


class FakeFinder:
    def __init__(self, d, *a):
        self.d = d

    def invalidate_caches(self):
        pass

    def find_spec(self, name):
        # a real FileFinder looks at the directory listing
        W.local.loading = name
        p = so_path(self.d, name)
        return FakeSpec(p) if os.path.exists(p) else None


def module_from_spec(spec):
    W.stop("load")
    if open(spec.path, "rb").read() != W.so_bytes:
        raise ImportError("file too short (partial shared object)")
    return types.SimpleNamespace(lib=FakeLib(), __name__="fake")


FAKE_IMPORTLIB = types.SimpleNamespace(
    machinery=types.SimpleNamespace(FileFinder=FakeFinder, ExtensionFileLoader=object, EXTENSION_SUFFIXES=[SUFFIX]),
    util=types.SimpleNamespace(module_from_spec=module_from_spec))


def fake_codegen(ufl_objects, namespace=None, options=None, visualise=False):
    if W.stop("codegen") == "Fault":
        raise RuntimeError("code generation failed (injected)")
    return ("/* header */", "/* source */"), (".h", ".c")


PROTOCOL_SUFFIXES = (".c", ".c.cached", ".c.failed")


def hook_pathlib():
    """file-system primitives the protocol does not use today (pathlib methods, os.open, os.rename ...) become stops
    too when they touch a protocol file from a request thread: a rewritten protocol is then still interleaved at
    every file-system call, and the property is judged on the real outcome.  On the unchanged jit.py none fires."""
    import pathlib

    def wrap(cls, name):
        orig = getattr(cls, name)

        def hooked(self, *a, **k):
            if getattr(W.local, "pid", None) is not None and str(self).endswith(PROTOCOL_SUFFIXES):
                W.stop("extra:" + name)
            return orig(self, *a, **k)
        setattr(cls, name, hooked)
    for name in ("exists", "is_file", "touch", "open", "unlink", "rename", "replace", "write_text", "write_bytes", "stat"):
        if hasattr(pathlib.Path, name):
            wrap(pathlib.Path, name)


def hooked_print(*a, **k):
    """the verbose echo of the compiler log (cffi_verbose=True): a write to stdout, which can fail (closed pipe,
    full device).  A Normal pass is not a step of the model (no protocol file is touched); a failure is the
    failure of the step the builder is at."""
    if getattr(W.local, "pid", None) is not None:
        if W.stop("echo") == "Fault":
            raise BrokenPipeError(32, "Broken pipe (injected)")
        return None
    return print(*a, **k)


def install():
    import ffcx.codegeneration.jit as jit
    import ffcx.compiler
    hook_pathlib()
    jit.open = hooked_open
    jit.print = hooked_print
    jit.os = OsProxy()
    jit.time = TimeProxy()
    jit.cffi = types.SimpleNamespace(FFI=FakeFFI)
    jit.importlib = FAKE_IMPORTLIB
    ffcx.compiler.compile_ufl_objects = fake_codegen
    return jit


# hook -> may the scheduler inject a Fault there?  (the primitives that can fail in reality)
FAULTABLE = {"codegen", "compile_start", "compile_end", "write_log", "publish", "echo"}


def run_schedule(jit, forms, spec, timeout):
    rng = random.Random(spec["seed"])
    cache = tempfile.mkdtemp(prefix="vfjitc_")
    W.waiting.clear(); W.grant.clear(); W.done.clear()
    W.ncompiles = 0
    root = logging.getLogger()
    orig_handlers = list(root.handlers)
    events = []          # model events as tuples
    threads = {}
    state = {}           # pid -> "waiter" | "builder" | None
    swapped = {}
    outcomes = {}
    errors = {}

    def request(pid):
        W.local.pid = pid
        try:
            objs, mod, _ = jit.compile_forms(list(forms), cache_dir=cache, timeout=timeout, cffi_verbose=True)
            out = "Loaded"
        except KillThread:
            out = "Dead"
        except TimeoutError:
            out = "RaisedTimeout"
        except ModuleNotFoundError:
            out = "RaisedNotFound"
        except ImportError:
            out = "LoadedPartial"
        except Exception as e:  # noqa: BLE001
            out = "RaisedBuild"
            errors[pid] = f"{type(e).__name__}: {e}"[:200]
        with W.cv:
            W.done[pid] = out
            W.cv.notify_all()

    def spawn():
        pid = len(threads)
        t = threading.Thread(target=request, args=(pid,), daemon=True)
        threads[pid] = t
        state[pid] = None
        events.append(("Spawn",))
        t.start()
        return pid

    def settle():
        # wait until every live thread is parked at a stop or finished
        with W.cv:
            while True:
                live = [p for p in threads if p not in W.done]
                if all(p in W.waiting and p not in W.grant for p in live):
                    return
                W.cv.wait(timeout=30)

    nreq = spec["nreq"]
    script = list(spec.get("script") or [])
    steps = 0
    polls = {}
    while True:
        settle()
        # account for finished threads
        for pid, out in list(W.done.items()):
            if pid not in outcomes:
                outcomes[pid] = out
                if out == "RaisedTimeout":
                    events.append(("Step", pid, "Normal"))      # W timeout -> TimeoutError (no fs call)
                # the root logger is process-global: only the (unique) builder touches it
                if state.get(pid) == "builder":
                    swapped[pid] = root.handlers != orig_handlers
                    root.handlers = list(orig_handlers)          # separate processes have separate loggers
                else:
                    swapped[pid] = False
        runnable = sorted(W.waiting)
        can_spawn = len(threads) < nreq
        if spec.get("script") is not None:
            # scripted schedule: ("spawn",) or (pid, choice); stops when exhausted
            if not script:
                if not runnable:
                    break
                # let everybody still running finish normally
                pid, ch = runnable[0], "Normal"
            else:
                item = script.pop(0)
                if item[0] == "spawn":
                    spawn()
                    continue
                pid, ch = item
                if pid not in W.waiting:
                    continue
            hook = W.waiting[pid]
        else:
            if not runnable and not can_spawn:
                break
            if can_spawn and (not runnable or rng.random() < 0.3):
                spawn()
                continue
            pid = rng.choice(runnable)
            hook = W.waiting[pid]
            ch = "Normal"
            r = rng.random()
            if spec.get("kills") and r < 0.06:
                ch = "Kill"
            elif spec.get("faults") and hook in FAULTABLE and r < 0.25 and (hook != "write_log" or spec.get("window")):
                ch = "Fault"
        if hook == "load" and state.get(pid) == "builder":
            events.append(("Step", pid, "Normal"))               # B7: handlers restored, return (no fs call)
        if not (hook == "echo" and ch == "Normal"):
            events.append(("Step", pid, ch))
        if hook == "open_c":
            state[pid] = "waiter" if os.path.exists(os.path.join(cache, W.module_name + ".c")) else "builder"
        with W.cv:
            W.waiting.pop(pid, None)       # the thread is running again from now on
            W.grant[pid] = ch
            W.cv.notify_all()
        steps += 1
        if steps > 4000:
            break
    settle()
    for pid, out in list(W.done.items()):
        if pid not in outcomes:
            outcomes[pid] = out
            if out == "RaisedTimeout":
                events.append(("Step", pid, "Normal"))
            if state.get(pid) == "builder":
                swapped[pid] = root.handlers != orig_handlers
                root.handlers = list(orig_handlers)
            else:
                swapped[pid] = False
    fsys = {"c": os.path.exists(os.path.join(cache, W.module_name + ".c")),
            "cached": os.path.exists(os.path.join(cache, W.module_name + ".c.cached")),
            "failed": os.path.exists(os.path.join(cache, W.module_name + ".c.failed")),
            "so": so_state(cache, W.module_name)}
    shutil.rmtree(cache, ignore_errors=True)
    return {"seed": spec["seed"], "events": events, "outcomes": [outcomes.get(p, "Running") for p in range(len(threads))],
            "swapped": [bool(swapped.get(p, False)) for p in range(len(threads))], "fs": fsys, "spec": spec,
            "real_compiles": W.ncompiles, "errors": dict(errors)}


def default_module_name(jit, objs):
    """the module name compile_forms itself computes for the scheduled requests (default arguments)"""
    class _Stop(Exception):
        pass
    seen = {}

    def stop(module_name, object_names, cache_dir, timeout):
        seen["m"] = module_name
        raise _Stop()
    saved = jit.get_cached_module
    jit.get_cached_module = stop
    d = tempfile.mkdtemp(prefix="vfjitn_")
    try:
        try:
            jit.compile_forms(list(objs), cache_dir=d, cffi_verbose=True)
        except _Stop:
            pass
    finally:
        jit.get_cached_module = saved
        shutil.rmtree(d, ignore_errors=True)
    return seen["m"]


def main():
    job = pickle.load(open(sys.argv[1], "rb"))
    objs, options, ns = ffx.build_case(FORM)
    import ffcx.codegeneration.jit as realjit
    # one real build gives the bytes of a complete shared object for this module name
    tmp = tempfile.mkdtemp(prefix="vfjitb_")
    compiled, module, _ = realjit.compile_forms(list(objs), cache_dir=tmp, cffi_extra_compile_args=["-O0"])
    W.module_name = module.__name__
    sofile = [f for f in os.listdir(tmp) if f.startswith(module.__name__) and f.endswith(SUFFIX)][0]
    W.so_bytes = open(os.path.join(tmp, sofile), "rb").read()
    shutil.rmtree(tmp, ignore_errors=True)
    # the scheduled runs use default compile args, hence another module name: compute it
    jit = install()
    out = []
    for spec in job["schedules"]:
        # module name under the scheduled run's (default) arguments
        W.module_name = default_module_name(jit, objs)
        out.append(run_schedule(jit, objs, spec, job.get("timeout", 3)))
    pickle.dump(out, open(sys.argv[2], "wb"))


if __name__ == "__main__":
    main()
