"""midxcorr.py — correspondence of coq/theories/MIdx.v (global_index) with lnodes.MultiIndex: the flattened index
expression the real class builds for generated (symbols, sizes) must be the tree the model builds, node by node."""
from __future__ import annotations

import os
import random
import re

import common
import ffx


def run(seed, n=300, tag="MIdxc"):
    import numpy as np

    import ffcx.codegeneration.lnodes as L
    rng = random.Random(seed)
    cases = []
    itn = ffx.FlatInterner()
    for k in range(n):
        dim = rng.choice([0, 1, 1, 2, 2, 3, 3, 4])
        sizes = [rng.choice([1, 1, 2, 3, 4, 6, 7, 10]) for _ in range(dim)]
        if rng.random() < 0.3:
            sizes = [np.int64(s) for s in sizes]
        syms = []
        for d in range(dim):
            r = rng.random()
            syms.append(L.LiteralInt(rng.choice([0, 0, 1, 2, -1])) if r < 0.25 else L.Symbol(f"i{rng.randrange(5)}", L.DataType.INT))
        try:
            gi = L.MultiIndex(list(syms), list(sizes)).global_index
            real = ffx.conv_expr(gi, itn)
        except Exception as e:  # noqa: BLE001
            real = None
        cases.append(([int(s) for s in sizes], [ffx.conv_expr(s, itn) for s in syms], real))
    common.clean_gen(tag)
    path = os.path.join(common.GEN, f"{tag}.v")
    t = ("From Coq Require Import ZArith List String Uint63.\nFrom FFCX Require Import LN Enc Opt MIdx.\nImport ListNotations.\n")
    rows = []
    for sizes, syms, real in cases:
        sz = "[" + "; ".join(ffx.cz(s) for s in sizes) + "]"
        sy = "[" + "; ".join(ffx.coq_expr(s) for s in syms) + "]"
        if real is None:
            rows.append(f"match global_index {sz} {sy} with None => true | Some _ => false end")
        else:
            rows.append(f"match global_index {sz} {sy} with Some e => expr_eqb e ({ffx.coq_expr(real)}) | None => false end")
    t += "Eval vm_compute in [" + ";\n ".join(rows) + "].\n"
    open(path, "w").write(t)
    rc, so, se = common.coqc_many([path], timeout=300)[path]
    for ext in (".vo", ".vok", ".vos", ".glob"):
        try:
            os.remove(path[:-2] + ext)
        except OSError:
            pass
    mm = re.search(r"=\s*\[(.*?)\]\s*:\s*list bool", so, re.S) if rc == 0 else None
    if not mm:
        return {"compared": 0, "equal": 0, "error": (se or so)[-300:], "bad": []}
    b = [x.strip() == "true" for x in mm.group(1).split(";")]
    bad = [{"sizes": cases[i][0], "symbols": str(cases[i][1]), "real": str(cases[i][2])} for i, ok in enumerate(b) if not ok]
    return {"compared": len(b), "equal": sum(b), "bad": bad[:5], "dims": sorted(set(len(c[0]) for c in cases))}


if __name__ == "__main__":
    print(run(0))
