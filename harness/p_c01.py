"""C01 — cell-integral kernels compute the form's element tensor."""
import corpus
import factcorr
import tabcorr
import valprops

EXTRA = [
    corpus._c("c01_p3_tet_coef_nonlinear", '''
m=mesh("tetrahedron"); V=space(m,"P",2); W=space(m,"P",3); v=TestFunction(V); f=Coefficient(W); g=Coefficient(V)
objs=[(f*f+sqrt(g*g+1.0))*dot(grad(f),grad(v))*dx]'''),
    corpus._c("c01_nonaffine_tri_p2geom", '''
m=mesh("triangle",2); V=space(m,"P",2); u,v=TrialFunction(V),TestFunction(V); f=Coefficient(V)
objs=[f*inner(grad(u),grad(v))*dx + u*v*dx]'''),
    corpus._c("c01_hex_nonaffine_vector", '''
m=mesh("hexahedron"); V=space(m,"Q",1,shape=(3,)); u,v=TrialFunction(V),TestFunction(V)
objs=[inner(grad(u),grad(v))*dx + div(u)*div(v)*dx]'''),
    corpus._c("c01_mixed_offsets", '''
m=mesh("triangle"); E=basix.ufl.mixed_element([el("P","triangle",2,shape=(2,)), el("P","triangle",1), el("DP","triangle",0)])
W=FunctionSpace(m,E); w=Coefficient(W); (v,q,r)=TestFunctions(W); (u,p,s)=split(w)
objs=[inner(dot(u,nabla_grad(u)),v)*dx + p*div(v)*dx + s*q*dx + inner(u,u)*r*dx]'''),
    corpus._c("c01_bdm_rt_mixed", '''
m=mesh("triangle"); V=space(m,"BDM",1); Q=space(m,"DP",0); u=TrialFunction(V); q=TestFunction(Q); v=TestFunction(V); f=Coefficient(V)
objs=[div(u)*q*dx, inner(f,v)*dx]'''),
    corpus._c("c01_manifold_interval_2d", '''
m=mesh("interval",1,2); V=space(m,"P",2); u,v=TrialFunction(V),TestFunction(V); x=SpatialCoordinate(m)
objs=[x[1]*inner(grad(u),grad(v))*dx]'''),
    corpus._c("c01_hessian_tri", '''
m=mesh("triangle"); V=space(m,"P",3); v=TestFunction(V); f=Coefficient(V)
objs=[div(grad(f))*v*dx + inner(grad(grad(f)),grad(grad(v)))*dx]'''),
    corpus._c("c01_pyramid_prism_coef", '''
m=mesh("prism"); V=space(m,"P",1); v=TestFunction(V); f=Coefficient(V)
objs=[f*f*v*dx + dot(grad(f),grad(v))*dx]'''),
    corpus._c("c01_quadrature_element_and_plain_terms", '''
m=mesh("triangle"); V=space(m,"P",2); u,v=TrialFunction(V),TestFunction(V); f=Coefficient(V)
QE=basix.ufl.quadrature_element("triangle", (), "default", 2); s=Coefficient(FunctionSpace(m,QE))
objs=[s*v*dx(degree=2) + f*f*v*dx(degree=6), s*u*v*dx(degree=2) + f*u*v*dx(degree=4)]'''),
    # gradients of Piola-mapped functions that are NOT invariant under transposition
    corpus._c("c01_single_curl_n1curl_tri", '''
m=mesh("triangle"); V=space(m,"N1curl",2); Q=space(m,"P",2); u=TrialFunction(V); q=TestFunction(Q); f=Coefficient(V); g=Coefficient(Q)
objs=[curl(u)*q*dx, curl(f)*q*dx, curl(f)*g*dx, grad(u)[0,1]*q*dx]'''),
    corpus._c("c01_single_curl_n1curl_tet", '''
m=mesh("tetrahedron"); V=space(m,"N1curl",1); W=space(m,"P",1,shape=(3,)); u=TrialFunction(V); w=TestFunction(W); f=Coefficient(V)
objs=[inner(curl(u),w)*dx, inner(grad(f)*f,w)*dx]'''),
    corpus._c("c01_rt_gradient_entries_advection", '''
m=mesh("triangle"); V=space(m,"RT",2); Q=space(m,"P",1); b=Coefficient(V); u=TrialFunction(Q); q=TestFunction(Q); w=TestFunction(V)
objs=[grad(b)[1,0]*q*dx, dot(b,grad(u))*q*dx, inner(dot(grad(b),b),w)*dx]'''),
    corpus._c("c01_vector_p2_gradient_entries", '''
m=mesh("tetrahedron"); V=space(m,"P",2,shape=(3,)); Q=space(m,"P",1); u=TrialFunction(V); q=TestFunction(Q); f=Coefficient(V)
objs=[grad(u)[0,2]*q*dx + grad(u)[2,1]*f[0]*q*dx, inner(dot(grad(f),f),f)*dx]'''),
    corpus._c("c01_hessian_offdiagonal_tri", '''
m=mesh("triangle"); V=space(m,"P",3); v=TestFunction(V); f=Coefficient(V); W=space(m,"P",2,shape=(2,)); g=Coefficient(W)
objs=[grad(grad(f))[0,1]*v.dx(0)*dx + grad(grad(g))[1,0,1]*v*dx]'''),
]


# integrands that exercise every handler of the argument factorisation (only their factorisation is compared)
FACT_EXTRA = [
    corpus._c("fact_division_and_conditionals", '''
m=mesh("triangle"); V=space(m,"P",2); u,v=TrialFunction(V),TestFunction(V); f=Coefficient(V); g=Coefficient(V); k=Constant(m)
objs=[(u/(f*f+2))*v*dx + inner(grad(u)/(g+3), grad(v))*dx + u*v/k*ds, conditional(gt(f,g), u, 2*u.dx(0))*v*dx + conditional(lt(f,k), u*v, 0)*ds,
      (v/(f+2) + conditional(ge(g,f), v.dx(1), v)/k)*g*dx, conditional(gt(f,g), conditional(lt(f,k), u, 0), u.dx(1))*v.dx(0)*dx]'''),
    corpus._c("fact_interior_facet_products", '''
m=mesh("triangle"); V=space(m,"DP",1); u,v=TrialFunction(V),TestFunction(V); f=Coefficient(V); n=FacetNormal(m)
objs=[(avg(f)*jump(u)*jump(v) - inner(avg(grad(u)), n('+'))*jump(v)/avg(f*f+1) + conditional(gt(f('+'),f('-')), u('+'), u('-'))*jump(v))*dS]'''),
    corpus._c("fact_mixed_vector_blocks", '''
m=mesh("triangle"); E=basix.ufl.mixed_element([el("P","triangle",2,shape=(2,)), el("P","triangle",1)]); W=FunctionSpace(m,E)
(u,p)=TrialFunctions(W); (v,q)=TestFunctions(W); w=Coefficient(W); (a,b)=split(w)
objs=[inner(dot(a,nabla_grad(u)),v)*dx + inner(dot(u,nabla_grad(a)),v)*dx - p*div(v)*dx - q*div(u)*dx + b*p*q/(b*b+1)*dx]'''),
]


def run(v, tier, seed, g):
    cases = list(corpus.PINNED) + EXTRA + corpus.random_cases(seed, 90 if tier == "quick" else 800)
    res = valprops.run_oracle(cases, seed)
    st = valprops.account(v, res, "c01", types={"cell"})
    # the algebraic core: argument factorisation of every integrand of these forms vs the proved model (Fact.v)
    fst = factcorr.run(v, cases + FACT_EXTRA, seed, "c01")
    # table classification / reduction: the real predicates vs the proved model (Tab.v) on generated tables
    tst = tabcorr.run(v, seed, 500 if tier == "quick" else 6000)
    if not g["ok"] and not v.violations:
        v.violation("gate", "proof obligations no longer check: " + "; ".join(g["broken"]), {"broken": g["broken"]}, no_input=True)
    # the component maps of the value numbering (Indexing.v) against indexing.py on every call the corpus makes
    import idxcorr
    ic = idxcorr.run(list(corpus.PINNED) + corpus.random_cases(seed + 5, 12 if tier == "quick" else 300))
    v.oblige(ic["distinct"] > 0 and ic["equal"] == ic["distinct"] and not ic["errors"] and not ic["export_errors"], max(ic["distinct"], 1))
    for e in ic["errors"][:2]:
        v.violation(f"c01-indexing-harness:{e[0]}", f"the indexing correspondence could not be evaluated: {e[1]}", {"error": e}, no_input=True)
    if ic["export_errors"]:
        v.violation("c01-indexing-export", f"{ic['export_errors']} calls of the indexing functions have inputs the harness cannot read off the UFL object", {}, no_input=True)
    for mm in ic["mismatches"][:2]:
        v.violation(f"c01-indexing:{mm['case']}", f"ffcx/ir/analysis/indexing.py returns a component map that differs from the model Indexing.v (case {mm['case']}): "
                    "the scalar graph then reads a tensor component from the wrong place", mm, no_input=True)
    v.notes["indexing_correspondence"] = {k: ic[k] for k in ("calls", "distinct", "equal", "indexed", "component_tensor", "index_sum", "product", "largest") if k in ic}
    cov = {"checker_cmd": f"./check C01 --tier {tier}", "trusted_base": valprops.ORACLE_TRUST + ["Coq kernel (Flatten.v layout lemmas; Fact.v argument factorisation; Indexing.v component maps; Lookup.v operator table)", "idxcorr.py: inputs of the model read off the UFL objects (shapes, free indices, multi-index) by the harness",
                                                                      "factcorr.py: export of the scalar integrand graph S and of the real factors (argument-free sub-DAGs collapsed to atoms), exact Gaussian-integer evaluation",
                                                                      "UFL's arity checker for the multilinearity hypothesis (checked per exported integrand by Fact.wfb)"],
           "programs": st["cases"], "disagreements_checked": st["agree"] + st["mismatch"], "evaluations": st["agree"] + st["mismatch"],
           "distinct_nontrivial": st["distinct"], "oracle": st, "factorisation_correspondence": fst, "table_classification_correspondence": tst,
           "rule": "pinned + seeded random forms, every integral given an explicit quadrature degree; one comparison per cell kernel against the independent oracle",
           "axioms_under_property_theorems": g.get("axioms", [])}
    return v.finish("proof", cov, ["the end-to-end statement (kernel = quadrature sum for every form) is NOT a theorem: it is decided per sampled form by the oracle; "
                                   "proved are the layout/flattening lemmas (Flatten.v), the soundness of the argument factorisation for every multilinear integrand (Fact.v, tied to factorization.py by exact correspondence on every integrand of the sampled forms) and, per exported kernel, C05/C07/C08/C16/C17/C19"])


def replay(v, payload):
    import oraclerun
    r = oraclerun.check_case({"id": payload["case"], "code": payload["code"]}, 1, entity_mode="all")
    bad = [k for k in r["kernels"] if k["status"] == "mismatch"]
    print(r["status"], [(k["status"], k.get("error")) for k in r["kernels"]])
    return 1 if bad else 0
