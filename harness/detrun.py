"""C12 worker: generate code for every case in THIS process (whose PYTHONHASHSEED the parent
chose) under a given history, and report a digest of the text per case.

python detrun.py in.pkl out.pkl     job: {"cases": [...], "mode": "plain"|"objects_first"|"reverse"|"twice"|"interleaved", "language": "C"|"numba", "keep_text": [ids]}
"""
from __future__ import annotations

import hashlib
import os
import pickle
import sys

sys.path.insert(0, os.path.dirname(os.path.abspath(__file__)))
import ffx  # noqa: E402


def gen(code, language):
    import ffcx.compiler
    import ffcx.options
    objs, opts, ns = ffx.build_case(code)
    o = dict(opts or {})
    o["language"] = language
    text, _ = ffcx.compiler.compile_ufl_objects(list(objs), options=ffcx.options.get_options(o), namespace="det")
    return "\n/*--8<--*/\n".join(text)


def main():
    job = pickle.load(open(sys.argv[1], "rb"))
    mode = job["mode"]
    lang = job.get("language", "C")
    cases = list(job["cases"])
    out = {"hashseed": os.environ.get("PYTHONHASHSEED"), "mode": mode, "digests": {}, "texts": {}, "errors": {}}
    if mode == "objects_first":
        # unrelated UFL objects first: moves every global UFL counter
        import basix.ufl
        import ufl
        for i in range(11):
            m = ufl.Mesh(basix.ufl.element("P", "triangle", 1, shape=(2,)))
            V = ufl.FunctionSpace(m, basix.ufl.element("P", "triangle", 2))
            ufl.Coefficient(V), ufl.Constant(m), ufl.TrialFunction(V)
    if mode == "reverse":
        cases = cases[::-1]
    if mode == "isolated" or mode.startswith("shift:"):
        # every case in a process of its own (forked before anything was compiled): no history at all;
        # shift:k -- k unrelated UFL objects of every counted kind are created first, so that every global UFL
        # counter the case sees is k higher (k = 1..10 moves each pair of neighbouring counts across 9|10 once)
        shift = int(mode.split(":")[1]) if mode.startswith("shift:") else 0
        for c in cases:
            r, w = os.pipe()
            pid = os.fork()
            if pid == 0:
                os.close(r)
                try:
                    if shift:
                        import basix.ufl
                        import ufl
                        for _ in range(shift):
                            m_ = ufl.Mesh(basix.ufl.element("P", "triangle", 1, shape=(2,)))
                            V_ = ufl.FunctionSpace(m_, basix.ufl.element("P", "triangle", 1))
                            ufl.Coefficient(V_), ufl.Constant(m_), ufl.Argument(V_, 0)
                    t = gen(c["code"], lang)
                    msg = hashlib.sha1(t.encode()).hexdigest()
                except BaseException as e:  # noqa: BLE001
                    msg = "ERR " + type(e).__name__ + ": " + str(e)[:100]
                os.write(w, msg.encode())
                os._exit(0)
            os.close(w)
            data = b""
            while True:
                chunk = os.read(r, 4096)
                if not chunk:
                    break
                data += chunk
            os.close(r)
            os.waitpid(pid, 0)
            out["digests"][c["id"]] = data.decode() or "ERR child died"
        pickle.dump(out, open(sys.argv[2], "wb"))
        return
    for i, c in enumerate(cases):
        try:
            if mode == "interleaved" and i > 0:
                try:
                    gen(cases[i - 1]["code"], lang)    # some other form compiled (or rejected) right before
                except BaseException:  # noqa: BLE001
                    pass
            t = gen(c["code"], lang)
            if mode == "twice":
                t2 = gen(c["code"], lang)              # the same source again in the same process
                if t2 != t:
                    out["errors"][c["id"]] = "second generation in the same process differs from the first"
                    out["texts"][c["id"] + "#2"] = t2
                    out["texts"][c["id"]] = t
        except BaseException as e:  # noqa: BLE001
            out["digests"][c["id"]] = "ERR " + type(e).__name__ + ": " + str(e)[:100]
            continue
        out["digests"][c["id"]] = hashlib.sha1(t.encode()).hexdigest()
        if c["id"] in job.get("keep_text", ()):
            out["texts"][c["id"]] = t
    pickle.dump(out, open(sys.argv[2], "wb"))


if __name__ == "__main__":
    main()
