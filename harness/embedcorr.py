"""embedcorr.py — correspondence of coq/theories/Affine.v (embed) with element_interface.map_facet_points /
map_edge_points and representationutils.map_integral_points: for every cell type, every facet (and every edge of the
3D cells), dyadic reference points are mapped by the real functions and by the model (exact rationals; the float
arithmetic of the real functions is exact on these inputs), and must agree coordinate by coordinate."""
from __future__ import annotations

import os
import random
import re
from fractions import Fraction

import common


def q(x) -> str:
    f = Fraction(float(x))
    return f"({f.numerator} # {f.denominator})" if f.numerator >= 0 else f"(({f.numerator}) # {f.denominator})"


def vec(v) -> str:
    return "[" + "; ".join(q(x) for x in v) + "]"


def run(seed, per_entity=6, tag="Embc"):
    import basix
    import numpy as np
    import ufl

    from ffcx.element_interface import map_edge_points, map_facet_points
    from ffcx.ir.representationutils import map_integral_points
    rng = random.Random(seed)
    rows, meta = [], []
    cells = {"interval": 1, "triangle": 2, "quadrilateral": 2, "tetrahedron": 3, "hexahedron": 3, "prism": 3, "pyramid": 3}
    for cellname, tdim in cells.items():
        ct = getattr(basix.CellType, cellname)
        geom = np.asarray(basix.geometry(ct))
        topo = basix.topology(ct)
        for codim, fn, itype in ((1, map_facet_points, "exterior_facet"), (2, map_edge_points, "ridge")):
            edim = tdim - codim
            if edim < 0:
                continue
            if codim == 2 and tdim < 3:
                continue
            for ent, verts in enumerate(topo[edim]):
                for _ in range(per_entity):
                    p = [Fraction(rng.randrange(0, 17), 32) for _ in range(edim)]
                    pts = np.array([[float(x) for x in p]], dtype=np.float64).reshape(1, edim)
                    got = fn(pts, ent, cellname)[0] if edim > 0 or codim == 1 else None
                    if edim == 0:
                        # a vertex as facet of an interval: the point set is empty, the image is the vertex
                        got = fn(np.zeros((1, 0)), ent, cellname)[0]
                    via = map_integral_points(pts if edim > 0 else np.zeros((1, 0)), itype, ufl.Cell(cellname), ent)[0] if itype == "exterior_facet" else got
                    if not np.array_equal(np.asarray(via), np.asarray(got)):
                        return {"compared": 0, "equal": 0, "error": f"map_integral_points and map_facet_points disagree on {cellname} facet {ent}", "bad": []}
                    v0 = geom[verts[0]]
                    vs = [geom[i] for i in verts[1:]]
                    rows.append(f"veqb (embed {vec(v0)} [{'; '.join(vec(v) for v in vs)}] {vec(p)}) {vec(got)}")
                    meta.append((cellname, codim, ent, [str(x) for x in p], [float(x) for x in got]))
    common.clean_gen(tag)
    path = os.path.join(common.GEN, f"{tag}.v")
    t = ("From Coq Require Import QArith List.\nFrom FFCX Require Import Affine.\nImport ListNotations.\nOpen Scope Q_scope.\n"
         "Fixpoint veqb (a b : list Q) : bool := match a, b with [], [] => true | x :: a', y :: b' => Qeq_bool x y && veqb a' b' | _, _ => false end.\n")
    t += "Eval vm_compute in [" + ";\n ".join(rows) + "].\n"
    open(path, "w").write(t)
    rc, so, se = common.coqc_many([path], timeout=300)[path]
    for ext in (".vo", ".vok", ".vos", ".glob"):
        try:
            os.remove(path[:-2] + ext)
        except OSError:
            pass
    mm = re.search(r"=\s*\[(.*?)\]\s*:\s*list bool", so, re.S) if rc == 0 else None
    if not mm:
        return {"compared": 0, "equal": 0, "error": (se or so)[-300:], "bad": []}
    b = [x.strip() == "true" for x in mm.group(1).split(";")]
    bad = [dict(zip(("cell", "codim", "entity", "point", "image"), meta[i])) for i, ok in enumerate(b) if not ok]
    return {"compared": len(b), "equal": sum(b), "bad": bad[:5], "cells": sorted(cells)}


if __name__ == "__main__":
    print(run(0))
