"""C02 — facet and vertex kernels integrate over the indicated local entity."""
import corpus
import valprops

EXTRA = [
    corpus._c("c02_ext_facet_normal_flux_tet", '''
m=mesh("tetrahedron"); V=space(m,"P",2); v=TestFunction(V); f=Coefficient(V); n=FacetNormal(m); x=SpatialCoordinate(m)
objs=[f*dot(grad(v),n)*ds + x[2]*dot(grad(f),n)*v*ds]'''),
    corpus._c("c02_int_facet_asymmetric_tri", '''
m=mesh("triangle"); V=space(m,"DP",2); W=space(m,"DP",1); u,v=TrialFunction(V),TestFunction(V); f=Coefficient(W); n=FacetNormal(m)
objs=[f('-')*u('+')*v('-')*dS + inner(jump(grad(u)),n('+'))*avg(v)*dS + f('+')*inner(grad(u)('-'),n('-'))*v('+')*dS]'''),
    corpus._c("c02_int_facet_tet_vector", '''
m=mesh("tetrahedron"); V=space(m,"DP",1,shape=(3,)); u,v=TrialFunction(V),TestFunction(V); n=FacetNormal(m)
objs=[inner(jump(u,n),jump(v,n))*dS + inner(avg(grad(u))*n('+'),v('-'))*dS]'''),
    corpus._c("c02_int_facet_quad_coef", '''
m=mesh("quadrilateral"); V=space(m,"DQ",1); W=space(m,"DQ",2); v=TestFunction(V); f=Coefficient(W)
objs=[f('+')*v('-')*dS + f('-')*f('-')*v('+')*dS]'''),
    corpus._c("c02_int_facet_hex_normal", '''
m=mesh("hexahedron"); V=space(m,"DQ",1); v=TestFunction(V); f=Coefficient(V); n=FacetNormal(m)
objs=[f('+')*n('+')[2]*v('-')*dS + f('-')*n('-')[0]*v('+')*dS]'''),
    # quantities of the facet as seen from one side (reference facet Jacobian of THAT cell's local facet): '-' and '+'
    corpus._c("c02_facet_geometry_of_each_side_tri", '''
m=mesh("triangle"); V=space(m,"DP",1); u,v=TrialFunction(V),TestFunction(V); f=Coefficient(V)
objs=[FacetArea(m)('-')*f('+')*v('-')*dS + FacetArea(m)('+')*v('+')*dS, (CellVolume(m)('-')/FacetArea(m)('-'))*jump(u)*jump(v)*dS]'''),
    corpus._c("c02_facet_geometry_of_each_side_tet", '''
m=mesh("tetrahedron"); V=space(m,"DP",1); v=TestFunction(V); f=Coefficient(V)
objs=[FacetArea(m)('-')*f('-')*v('+')*dS + avg(CellVolume(m)/FacetArea(m))*avg(v)*dS]'''),
    corpus._c("c02_mayreject_ext_facet_prism_normal", '''
m=mesh("prism"); V=space(m,"P",1); v=TestFunction(V); f=Coefficient(V); n=FacetNormal(m)
objs=[f*n[2]*v*ds + f*n[0]*v*ds]'''),
    corpus._c("c02_ext_facet_pyramid", '''
m=mesh("pyramid"); V=space(m,"P",1); v=TestFunction(V); f=Coefficient(V)
objs=[f*v*ds]'''),
    corpus._c("c02_vertex_tet_quad", '''
m=mesh("tetrahedron"); V=space(m,"P",2); v=TestFunction(V); f=Coefficient(V)
objs=[f*f*v*dP]'''),
    corpus._c("c02_vertex_quad", '''
m=mesh("quadrilateral"); V=space(m,"Q",2); u,v=TrialFunction(V),TestFunction(V)
objs=[u*v*dP]'''),
    corpus._c("c02_ext_facet_quad_nonaffine", '''
m=mesh("quadrilateral"); V=space(m,"Q",2); v=TestFunction(V); f=Coefficient(V); n=FacetNormal(m)
objs=[f*dot(grad(f),n)*v*ds]'''),
    corpus._c("c02_facetarea_cellvolume_tet", '''
m=mesh("tetrahedron"); V=space(m,"P",1); v=TestFunction(V)
objs=[FacetArea(m)*v*ds + CellVolume(m)*v*ds + avg(CellVolume(m))*avg(v)*dS + Circumradius(m)*v*ds]'''),
    # mixed spaces on interior facets: offsets of the '-' side of every sub-element, for arguments and coefficients
    corpus._c("c02_mixed_space_interior_facet", '''
m=mesh("triangle"); W=FunctionSpace(m,basix.ufl.mixed_element([el("DP","triangle",2), el("DP","triangle",1)]))
w=Coefficient(W); (u,p)=split(w); (ut,pt)=TrialFunctions(W); (v,q)=TestFunctions(W)
objs=[(u('+')*p('-') + 2*u('-')*p('+'))*dS, ut('+')*q('-')*dS + pt('-')*v('-')*dS + u('-')*pt('+')*v('-')*dS]'''),
    corpus._c("c02_mixed_vector_scalar_interior_facet_tet", '''
m=mesh("tetrahedron"); W=FunctionSpace(m,basix.ufl.mixed_element([el("DP","tetrahedron",1,shape=(3,)), el("DP","tetrahedron",0), el("DP","tetrahedron",1)]))
w=Coefficient(W); (u,p,r)=split(w); (v,q,t)=TestFunctions(W); n=FacetNormal(m)
objs=[(dot(u('-'),n('+'))*q('+') + p('-')*t('-') + r('+')*dot(v('-'),n('-')) + r('-')*q('-'))*dS]'''),
    # quantities read straight from the vertex coordinates, per side of an interior facet, in 1D/2D/3D
    corpus._c("c02_vertex_geometry_sides_tri", '''
m=mesh("triangle"); V=space(m,"DP",1); v=TestFunction(V); h=CellDiameter(m); r=Circumradius(m)
objs=[h('-')*v('+')*dS + h('+')*v('-')*dS + r('-')*avg(v)*dS + MinCellEdgeLength(m)('-')*v('+')*dS + MaxCellEdgeLength(m)('-')*v('-')*dS]'''),
    corpus._c("c02_vertex_geometry_sides_quad", '''
m=mesh("quadrilateral"); V=space(m,"DQ",1); u,v=TrialFunction(V),TestFunction(V); h=CellDiameter(m)
objs=[avg(h)*jump(u)*jump(v)*dS + MinCellEdgeLength(m)('-')*u('+')*v('-')*dS + h*u*v*ds]'''),
    corpus._c("c02_vertex_geometry_sides_tet_interval", '''
m=mesh("tetrahedron"); V=space(m,"DP",1); v=TestFunction(V); h=CellDiameter(m); r=Circumradius(m)
m1=mesh("interval"); V1=space(m1,"DP",1); v1=TestFunction(V1)
objs=[h('-')*v('+')*dS + r('-')*v('-')*dS + MaxFacetEdgeLength(m)('+')*v('-')*dS + MinFacetEdgeLength(m)*v*ds, CellDiameter(m1)('-')*v1('+')*dS + CellVolume(m1)('-')*v1('-')*dS]'''),
    corpus._c("c02_vertex_geometry_manifold_tri3d", '''
m=mesh("triangle",1,3); V=space(m,"DP",1); v=TestFunction(V); h=CellDiameter(m)
objs=[h('-')*v('+')*dS + h*v*ds]'''),
]


def run(v, tier, seed, g):
    facet_cases = [c for c in corpus.PINNED if any(t in c["code"] for t in ("*ds", "*dS", "*dP"))]
    rnd = [c for c in corpus.random_cases(seed, 300 if tier == "quick" else 2500) if any(t in c["code"] for t in ("*ds", "*dS", "*dP"))]
    cases = facet_cases + EXTRA + rnd[: (70 if tier == "quick" else 900)]
    res = valprops.run_oracle(cases, seed, entity_mode="all")
    st = valprops.account(v, res, "c02", types={"exterior_facet", "interior_facet", "vertex"},
                          what="facet/vertex kernel differs from the integral over the indicated local entity")
    # the two sides of an interior facet with DIFFERENT local facet numbers (the '-' cell renumbered; in the runs above
    # the '-' cell is the mirror image with the same numbering): data of each side must come from that side's entity
    import common
    ds_cases = [c for c in corpus.PINNED + EXTRA if "dS" in c["code"]]
    sides = {"kernel_runs": 0, "mismatch": 0, "unsupported": 0}
    for rnd in range(2 if tier == "quick" else 12):
        res2 = common.run_cases(ds_cases, script="oraclerun.py", timeout=400,
                                extra={"seed": seed + 104729 * (rnd + 1), "entity_mode": "random", "affine": True, "renumber": True})
        for r in res2:
            if r["status"] != "ok":
                continue
            for k in r["kernels"]:
                if k.get("status") == "unsupported":
                    sides["unsupported"] += 1
                if k.get("integral_type") != "interior_facet" or k["status"] not in ("agree", "mismatch"):
                    continue
                sides["kernel_runs"] += 1
                ok = k["status"] == "agree"
                v.oblige(ok)
                if not ok:
                    sides["mismatch"] += 1
                    v.violation(f"c02-sides:{r['id']}", f"interior-facet kernel of case {r['id']}: with different local facet numbers on the two sides no permutation code gives the integral over the shared facet "
                                f"(relative error {k['error']:.3g}): some quantity is not taken from the entity of its own side",
                                {"case": r["id"], "code": r["code"], "renumbering": k.get("codes"), "seed": seed + 104729 * (rnd + 1)})
    v.notes["two_sides_with_different_local_facets"] = sides
    if not g["ok"] and not v.violations:
        v.violation("gate", "proof obligations no longer check: " + "; ".join(g["broken"]), {"broken": g["broken"]}, no_input=True)
    import embedcorr
    ec = embedcorr.run(seed, 6 if tier == "quick" else 40)
    v.oblige(ec["compared"] > 0 and ec["equal"] == ec["compared"], max(ec["compared"], 1))
    if ec.get("error"):
        v.violation("c02-embedding-model", "the sub-entity embedding correspondence could not be evaluated: " + ec["error"], {}, no_input=True)
    for bad in ec["bad"][:2]:
        v.violation(f"c02-embedding:{bad['cell']}:{bad['codim']}:{bad['entity']}",
                    f"the reference point {bad['point']} of local entity {bad['entity']} (codimension {bad['codim']}) of a {bad['cell']} is mapped to {bad['image']}, "
                    "not to the barycentric combination of that entity's vertices (Affine.embed)", bad)
    v.notes["embedding_correspondence"] = {k: ec.get(k) for k in ("compared", "equal", "cells")}
    cov = {"checker_cmd": f"./check C02 --tier {tier}", "trusted_base": valprops.ORACLE_TRUST + ["Coq kernel (Facets.v: embeddings, macro layout)"],
           "programs": st["cases"], "disagreements_checked": st["agree"] + st["mismatch"], "evaluations": st["agree"] + st["mismatch"],
           "distinct_nontrivial": st["distinct"], "oracle": st,
           "rule": "every facet/vertex kernel of the corpus is run for ALL local entity indices of its cell (prisms: both facet types) with different random data on the two sides of interior facets",
           "axioms_under_property_theorems": g.get("axioms", [])}
    return v.finish("proof", cov, ["forms sampled; per kernel all local entities are enumerated; basix geometry/topology taken as data on both sides"])


def replay(v, payload):
    import oraclerun
    r = oraclerun.check_case({"id": payload["case"], "code": payload["code"]}, 1, entity_mode="all")
    print(r["status"], [(k["status"], k.get("error")) for k in r["kernels"]])
    return 1 if any(k["status"] == "mismatch" for k in r["kernels"]) else 0
