"""C09 — all four scalar types compute the same form; complex mode is sesquilinear."""
import common
import corpus
import factcorr
import valprops

# forms that are meaningful in real AND complex mode (test function conjugated through inner)
FORMS = [
    corpus._c("c09_mass", '''
m=mesh("triangle"); V=space(m,"P",2); u,v=TrialFunction(V),TestFunction(V); f=Coefficient(V)
objs=[f*inner(u,v)*dx]'''),
    corpus._c("c09_stiffness_const", '''
m=mesh("tetrahedron"); V=space(m,"P",1); u,v=TrialFunction(V),TestFunction(V); k=Constant(m); K=Constant(m,shape=(3,3))
objs=[k*inner(K*grad(u),grad(v))*dx]'''),
    corpus._c("c09_rhs_mathfun", '''
m=mesh("triangle"); V=space(m,"P",1); v=TestFunction(V); f=Coefficient(V); g=Coefficient(V)
objs=[inner(sqrt(f*f+2.0)*exp(0.25*g) + abs(g)*f, v)*dx]'''),
    corpus._c("c09_mayreject_conj_real_imag", '''
m=mesh("triangle"); V=space(m,"P",2); v=TestFunction(V); f=Coefficient(V); g=Coefficient(V)
objs=[inner(conj(f)*g + real(f)*imag(g) + real(g), v)*dx + inner(f, conj(g)*v)*ds]'''),
    corpus._c("c09_helmholtz_complex_const", '''
m=mesh("triangle"); V=space(m,"P",1); u,v=TrialFunction(V),TestFunction(V); k=Constant(m)
objs=[inner(grad(u),grad(v))*dx - k*k*inner(u,v)*dx + k*inner(u,v)*ds]'''),
    corpus._c("c09_vector_facet", '''
m=mesh("triangle"); V=space(m,"P",1,shape=(2,)); u,v=TrialFunction(V),TestFunction(V); n=FacetNormal(m); f=Coefficient(V)
objs=[inner(dot(u,n)*f, v)*ds + inner(div(u)*f, v)*dx]'''),
    corpus._c("c09_dg_jump", '''
m=mesh("triangle"); V=space(m,"DP",1); u,v=TrialFunction(V),TestFunction(V); f=Coefficient(V)
objs=[avg(f)*inner(jump(u),jump(v))*dS]'''),
    corpus._c("c09_functional_power", '''
m=mesh("interval"); V=space(m,"P",2); f=Coefficient(V)
objs=[(f*conj(f))*dx + abs(f)**2*dx]'''),
    corpus._c("c09_n1curl", '''
m=mesh("triangle"); V=space(m,"N1curl",1); u,v=TrialFunction(V),TestFunction(V); f=Coefficient(space(m,"P",1))
objs=[f*inner(curl(u),curl(v))*dx + inner(u,v)*dx]'''),
]
FORMS += [
    # non-argument factors INSIDE the conjugated slot: constants, literals, geometry, with and without coefficients
    corpus._c("c09_factors_on_the_conjugated_side", '''
m=mesh("triangle"); V=space(m,"P",1); u,v=TrialFunction(V),TestFunction(V); f=Coefficient(V); k=Constant(m); K=Constant(m,shape=(2,2)); x=SpatialCoordinate(m)
objs=[inner(u, k*v)*dx + inner(u, x[0]*K[0,1]*v)*ds, inner(f, k*v)*dx + inner(f, K[1,0]*f*v)*ds + inner(1.0, k*K[0,0]*v)*dx, inner(grad(u), K*grad(v))*dx]'''),
]
COMPLEX_ONLY = [
    corpus._c("c09_literal_on_the_conjugated_side", '''
m=mesh("triangle"); V=space(m,"P",1); u,v=TrialFunction(V),TestFunction(V); f=Coefficient(V); k=Constant(m)
objs=[inner(u, (1+2j)*v)*dx + inner(u, 3j*k*v)*ds, inner(f, (0.5-1j)*v)*dx]'''),
    corpus._c("c09_imag_unit_literal", '''
m=mesh("triangle"); V=space(m,"P",1); u,v=TrialFunction(V),TestFunction(V); f=Coefficient(V)
objs=[(2.0+1j)*f*inner(u,v)*dx + 1j*inner(grad(u),grad(v))*dx + inner(u,v)/(2j)*ds]'''),
    corpus._c("c09_complex_sqrt_ln", '''
m=mesh("triangle"); V=space(m,"P",1); v=TestFunction(V); f=Coefficient(V)
objs=[inner(sqrt(f)+ln(f+3.0)+sin(f)*cosh(f)+f**2.5, v)*dx]'''),
]
COMPLEX_ONLY += [
    # multi-argument math functions with a complex operand next to a real-typed one (float exponent, real base)
    corpus._c("c09_power_mixed_operand_types", '''
m=mesh("triangle"); V=space(m,"P",1); v=TestFunction(V); f=Coefficient(V); g=Coefficient(V)
objs=[inner((f+2.5)**1.5 + g/(f+2.5)**0.5, v)*dx(degree=3), inner(f**0.5*conj(g) + (g*g+1.5)**2.5, v)*ds(degree=2)]'''),
    # complex literals in every syntactic position (divisor, numerator, exponent base, argument), purely imaginary ones included
    corpus._c("c09_imaginary_literal_positions", '''
m=mesh("triangle"); V=space(m,"P",1); v=TestFunction(V); f=Coefficient(V); g=Coefficient(V); k=Constant(m)
objs=[f/(2j)*dx + conj(f)*g/(-4j)*dx + (g/(0.5j)+f)*dx, inner(f/(2j) + k/(0.25j) - (3j)/(g+2.0), v)*dx, inner(f/(1+2j) + (2j)*f - g*(-1.5j), v)*dx]'''),
    # conditionals whose branches have different types (real literal / real() / geometry against a complex coefficient),
    # in both orders, with conditions that are true at some points and false at others
    corpus._c("c09_conditional_branches_of_mixed_type", '''
m=mesh("triangle"); V=space(m,"P",1); v=TestFunction(V); f=Coefficient(V); g=Coefficient(V); x=SpatialCoordinate(m)
objs=[inner(conditional(lt(real(f), 0.25), 2.0, g) + conditional(gt(real(g), 0.125), f, real(g)), v)*dx,
      inner(conditional(lt(x[0]+x[1], 0.6), x[0], g*f) + conditional(ge(real(f), 0.1), real(g), conj(g)), v)*dx(degree=3),
      conditional(lt(real(f), 0.25), 1, g)*dx]'''),
    corpus._c("c09_conj_real_imag_abs", '''
m=mesh("triangle"); V=space(m,"P",1); v=TestFunction(V); f=Coefficient(V); g=Coefficient(V)
objs=[inner(f*conj(g) + real(f)*g + abs(f) + real(f)*imag(g), v)*dx, (f*conj(g) + imag(f))*dx]'''),
]
MUST_REJECT = [
    corpus._c("c09_erf_complex", '''
m=mesh("triangle"); V=space(m,"P",1); v=TestFunction(V); f=Coefficient(V)
objs=[inner(erf(f),v)*dx]'''),
    corpus._c("c09_bessel_complex", '''
m=mesh("triangle"); V=space(m,"P",1); v=TestFunction(V); f=Coefficient(V)
objs=[inner(bessel_J(1,f),v)*dx]'''),
    corpus._c("c09_atan2_complex", '''
m=mesh("triangle"); V=space(m,"P",1); v=TestFunction(V); f=Coefficient(V)
objs=[inner(atan2(f,f),v)*dx]'''),
]
REAL_BESSEL = corpus._c("c09_real_valued_special_functions", '''
m=mesh("triangle"); V=space(m,"P",1); v=TestFunction(V); f=Coefficient(V)
objs=[inner(erf(real(f)) + bessel_J(1,real(f)) + atan2(real(f),2.0), v)*dx]''')


def run(v, tier, seed, g):
    stats = {}
    for st in ("float32", "float64", "complex64", "complex128"):
        cases = FORMS + (COMPLEX_ONLY if st.startswith("complex") else [])
        if tier != "quick":
            cases = cases + [c for c in corpus.PINNED if "inner(" in c["code"] and "options" not in c["code"]][:12]
        res = valprops.run_oracle(cases, seed, entity_mode="random", options_override={"scalar_type": st})
        stats[st] = valprops.account(v, res, f"c09:{st}", what=f"{st} kernel differs from the form evaluated in {'complex' if 'complex' in st else 'real'} arithmetic (test function conjugated)")
    # single and double precision run the SAME program: the exported ASTs are identical (only the C types differ)
    asts = {}
    base_cases = FORMS + COMPLEX_ONLY
    for st in ("float32", "float64", "complex64", "complex128"):
        asts[st] = common.run_cases([dict(c, code=c["code"] + f'options={{"scalar_type":"{st}"}}\n') for c in base_cases])
    same_ast = 0
    for i, c in enumerate(base_cases):
        for lo, hi in (("float32", "float64"), ("complex64", "complex128")):
            a, b = asts[lo][i], asts[hi][i]
            if a["status"] != "ok" and b["status"] != "ok":
                continue
            ok = a["status"] == b["status"] and [k.get("body") for k in a["kernels"]] == [k.get("body") for k in b["kernels"]]
            v.oblige(ok)
            same_ast += 1 if ok else 0
            if not ok:
                v.violation(f"c09-precision-ast:{c['id']}", f"the kernels generated for {lo} and {hi} are different programs (case {c['id']}): precision must only change the C types",
                            {"case": c["id"], "code": c["code"], "types": [lo, hi], "status": [a["status"], b["status"]]})
    stats["same_program_across_precisions"] = same_ast
    # complex operands of functions without a complex implementation must be rejected, not silently truncated
    rej = common.run_cases([dict(c, code=c["code"] + 'options={"scalar_type":"complex128"}\n') for c in MUST_REJECT], want_text=True)
    for r in rej:
        ok = r["status"] == "rejected"
        v.oblige(ok)
        if not ok:
            v.violation(f"complex-silent:{r['id']}", "a complex operand is passed to a real-only C function (imaginary part silently dropped)",
                        {"case": r["id"], "code": r["code"]})
    # ... while the same functions of real-valued operands still work in complex mode
    rb = valprops.run_oracle([REAL_BESSEL], seed, options_override={"scalar_type": "complex128"})
    for r in rb:
        ok = r["status"] == "ok" and all(k["status"] in ("agree", "unsupported") for k in r["kernels"])
        v.oblige(ok)
        if not ok:
            v.violation("real-special-in-complex-mode", f"erf/bessel/atan2 of real-valued operands no longer compile or agree in complex mode: {r.get('error','')[:150]} {[k.get('why', k.get('error')) for k in r.get('kernels', [])]}",
                        {"case": r["id"], "code": r["code"]})
    # sesquilinearity in the algebraic core: in complex mode the integrands carry Conj vertices; the real argument
    # factorisation (handle_conj and friends) against the proved model Fact.v on the same integrands, exact values
    stats["factorisation_correspondence_complex"] = factcorr.run(v, FORMS + COMPLEX_ONLY, seed, "c09", options_override={"scalar_type": "complex128"})
    if not g["ok"] and not v.violations:
        v.violation("gate", "proof obligations no longer check: " + "; ".join(g["broken"]), {"broken": g["broken"]}, no_input=True)
    tot = sum(s["agree"] + s["mismatch"] for s in stats.values() if isinstance(s, dict) and "mismatch" in s)
    cov = {"checker_cmd": f"./check C09 --tier {tier}", "trusted_base": valprops.ORACLE_TRUST + ["Coq kernel + VM (finite theorem over the regenerated math tables)", "tr_math.py",
                                                                                                 "libm / <complex.h> as provided by glibc; bessel/erf values taken from libm on both sides is NOT done: the oracle uses Python's math/cmath"],
           "programs": sum(s["cases"] for s in stats.values() if isinstance(s, dict) and "cases" in s), "disagreements_checked": tot, "evaluations": tot,
           "distinct_nontrivial": sum(s["distinct"] for s in stats.values() if isinstance(s, dict) and "distinct" in s), "oracle_by_scalar_type": stats,
           "rule": "each form compiled for float32/float64/complex64/complex128 and compared with the oracle on data of that type (complex data for complex kernels)",
           "axioms_under_property_theorems": g.get("axioms", [])}
    return v.finish("proof", cov, ["forms sampled; proved: the math-function table selects a function existing for the operand type for every (operator, scalar type)"])


def replay(v, payload):
    print(payload)
    return 1
