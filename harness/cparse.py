"""Independent reading of C text: a maximal-munch lexer for expressions and a pycparser-based
reader of whole kernel bodies, both producing the tuple shapes of ffx.conv_* (with names
instead of interned ids) so they can be compared with the exported AST."""

from __future__ import annotations

import re

from ffx import dyadic

PUNCT = ["<<=", ">>=", "...", "->", "++", "--", "<<", ">>", "<=", ">=", "==", "!=", "&&", "||",
         "+=", "-=", "*=", "/=", "%=", "&=", "^=", "|=",
         "(", ")", "[", "]", "{", "}", ",", "?", ":", ";", "+", "-", "*", "/", "%", "<", ">", "!",
         "=", "&", "|", "^", "~", "."]
NUM = re.compile(r"(?:\d+\.\d*(?:[eE][+-]?\d+)?|\.\d+(?:[eE][+-]?\d+)?|\d+[eE][+-]?\d+|\d+)")
IDENT = re.compile(r"[A-Za-z_]\w*")


def lex(text):
    """maximal munch C lexer (expressions only). Returns list of (kind, text)."""
    out = []
    i = 0
    n = len(text)
    while i < n:
        c = text[i]
        if c.isspace():
            i += 1
            continue
        m = NUM.match(text, i)
        if m and (c.isdigit() or c == "."):
            s = m.group(0)
            kind = "int" if re.fullmatch(r"\d+", s) else "float"
            out.append((kind, s))
            i = m.end()
            continue
        m = IDENT.match(text, i)
        if m:
            out.append(("id", m.group(0)))
            i = m.end()
            continue
        for p in PUNCT:
            if text.startswith(p, i):
                out.append(("punct", p))
                i += len(p)
                break
        else:
            raise ValueError(f"cannot lex {text[i:i+10]!r}")
    return out


BINOPS = {"+", "-", "*", "/", "==", "!=", "<", ">", "<=", ">=", "&&", "||"}


def render_tokens(toks, fun_names):
    """same spelling as Coq's Render.render (identifiers x<n>, f:<name>, i<z>, n<m>e<e>)."""
    out = []
    for j, (kind, s) in enumerate(toks):
        if kind == "id":
            nxt = toks[j + 1][1] if j + 1 < len(toks) else ""
            if nxt == "(" and s in fun_names:
                out.append("f:" + fun_names[s])
            else:
                out.append(s)
        elif kind == "int":
            out.append("i" + str(int(s)))
        elif kind == "float":
            m, e = dyadic(float(s))
            out.append(f"n{m}e{e}")
        else:
            out.append(s)
    return " ".join(out)


# ---------------------------------------------------------------------------
# pycparser reader

OPMAP = {"+": "OAdd", "-": "OSub", "*": "OMul", "/": "ODiv", "==": "OEQ", "!=": "ONE", "<": "OLT",
         ">": "OGT", "<=": "OLE", ">=": "OGE", "&&": "OAnd", "||": "OOr"}


class CReadError(Exception):
    pass


def c_expr(n):
    from pycparser import c_ast as A
    if isinstance(n, A.ID):
        return ("ESym", n.name)
    if isinstance(n, A.Constant):
        if n.type == "int":
            return ("ELitI", int(n.value))
        if n.type in ("double", "float"):
            return ("ELitF",) + dyadic(float(n.value.rstrip("fFlL")))
        raise CReadError(f"constant type {n.type}")
    if isinstance(n, A.UnaryOp):
        if n.op == "-":
            return ("ENeg", c_expr(n.expr))
        if n.op == "!":
            return ("ENot", c_expr(n.expr))
        raise CReadError(f"unary operator {n.op}")
    if isinstance(n, A.BinaryOp):
        if n.op not in OPMAP:
            raise CReadError(f"binary operator {n.op}")
        return ("EBin", OPMAP[n.op], c_expr(n.left), c_expr(n.right))
    if isinstance(n, A.TernaryOp):
        return ("ECond", c_expr(n.cond), c_expr(n.iftrue), c_expr(n.iffalse))
    if isinstance(n, A.ArrayRef):
        idx = []
        while isinstance(n, A.ArrayRef):
            idx.append(c_expr(n.subscript))
            n = n.name
        if not isinstance(n, A.ID):
            raise CReadError("array base is not an identifier")
        return ("EAcc", n.name, list(reversed(idx)))
    if isinstance(n, A.FuncCall):
        if not isinstance(n.name, A.ID):
            raise CReadError("call of a non-identifier")
        return ("ECall", n.name.name, [c_expr(a) for a in (n.args.exprs if n.args else [])])
    raise CReadError(f"expression node {type(n).__name__}")


def _flat_init(n):
    from pycparser import c_ast as A
    if isinstance(n, A.InitList):
        out = []
        for x in n.exprs:
            out.extend(_flat_init(x))
        return out
    return [c_expr(n)]


def _ctype(t):
    from pycparser import c_ast as A
    quals = list(getattr(t, "quals", []) or [])
    while not isinstance(t, A.TypeDecl):
        t = t.type
    quals += list(t.quals or [])
    return " ".join(t.type.names), quals


def c_stmt(n):
    from pycparser import c_ast as A
    if isinstance(n, A.Compound):
        return ("SBlock", [c_stmt(x) for x in (n.block_items or [])])
    if isinstance(n, A.Decl):
        tname, quals = _ctype(n.type)
        storage = list(n.storage or [])
        if isinstance(n.type, A.ArrayDecl):
            dims = []
            t = n.type
            while isinstance(t, A.ArrayDecl):
                dims.append(int(t.dim.value))
                t = t.type
            vals = _flat_init(n.init) if n.init is not None else None
            return ("SArrDecl", n.name, tname, dims, vals, ("const" in quals), ("static" in storage))
        if n.init is None:
            raise CReadError(f"scalar {n.name} declared without initialiser")
        return ("SVarDecl", n.name, tname, c_expr(n.init))
    if isinstance(n, A.Assignment):
        lv = c_expr(n.lvalue)
        lv = ("LVar", lv[1]) if lv[0] == "ESym" else ("LArr", lv[1], lv[2])
        if n.op == "=":
            return ("SAssign", lv, c_expr(n.rvalue))
        if n.op == "+=":
            return ("SAssignAdd", lv, c_expr(n.rvalue))
        raise CReadError(f"assignment operator {n.op}")
    if isinstance(n, A.For):
        if not (isinstance(n.init, A.DeclList) and len(n.init.decls) == 1):
            raise CReadError("for-init is not a single declaration")
        d = n.init.decls[0]
        if _ctype(d.type)[0] != "int" or not isinstance(d.init, A.Constant):
            raise CReadError("for-init is not 'int i = <literal>'")
        i = d.name
        c = n.cond
        if not (isinstance(c, A.BinaryOp) and c.op == "<" and isinstance(c.left, A.ID) and c.left.name == i
                and isinstance(c.right, A.Constant)):
            raise CReadError("for-condition is not 'i < <literal>'")
        nx = n.next
        if not (isinstance(nx, A.UnaryOp) and nx.op == "++" and isinstance(nx.expr, A.ID) and nx.expr.name == i):
            raise CReadError("for-next is not '++i'")
        body = c_stmt(n.stmt)
        if body[0] != "SBlock":
            raise CReadError("for body is not a compound statement")
        return ("SFor", i, int(d.init.value), int(c.right.value), body[1])
    raise CReadError(f"statement node {type(n).__name__}")


PRE = """typedef unsigned char uint8_t; typedef unsigned long uint64_t; typedef _Bool bool;
"""


def read_kernel(source: str, kname: str):
    """parse the function tabulate_tensor_<kname> out of the generated .c text."""
    from pycparser import c_parser
    m = re.search(r"void tabulate_tensor_" + re.escape(kname) + r"\(", source)
    if not m:
        raise CReadError("kernel not found in source")
    start = m.start()
    # find matching brace of the function body
    i = source.index("{", m.end())
    depth = 0
    j = i
    while True:
        ch = source[j]
        if ch == "{":
            depth += 1
        elif ch == "}":
            depth -= 1
            if depth == 0:
                break
        j += 1
    text = source[start:j + 1]
    text = re.sub(r"//[^\n]*", "", text)
    ast = c_parser.CParser().parse(PRE + text)
    fn = ast.ext[-1]
    return c_stmt(fn.body)[1]


def function_ast(source: str, kname: str):
    from pycparser import c_parser
    m = re.search(r"void tabulate_tensor_" + re.escape(kname) + r"\(", source)
    if not m:
        raise CReadError("kernel not found in source")
    i = source.index("{", m.end())
    depth = 0
    j = i
    while True:
        ch = source[j]
        if ch == "{":
            depth += 1
        elif ch == "}":
            depth -= 1
            if depth == 0:
                break
        j += 1
    text = re.sub(r"//[^\n]*", "", source[m.start():j + 1])
    return c_parser.CParser().parse(PRE + text).ext[-1]


def mutable_statics(source: str, kname: str):
    """names declared with static storage duration but without const inside the kernel:
    state that survives a call and is shared between threads."""
    from pycparser import c_ast as A
    fn = function_ast(source, kname)
    bad = []

    class V(A.NodeVisitor):
        def visit_Decl(self, n):
            if "static" in (n.storage or []):
                _, quals = _ctype(n.type)
                if "const" not in quals:
                    bad.append(n.name)
            self.generic_visit(n)
    V().visit(fn.body)
    return bad
