"""C14 — concurrent JIT requests on a shared cache all get one complete, correct module."""
import common
import jitconf
import tr_jit


def run(v, tier, seed, g):
    try:
        restore = tr_jit.generate()
    except tr_jit.TranslationError:
        restore = (True, True)      # the gate has recorded the failed translation; the schedules below are the search for a failing input
    n = 120 if tier == "quick" else 3000
    specs = jitconf.schedules(seed, n, faults=False, kills=False)
    runs, errs = jitconf.run_real(specs)
    for e in errs:
        v.oblige(False)
        v.violation("scheduler-run", "scheduled runs of jit.py did not complete: " + e, {}, no_input=True)
    try:
        model = jitconf.run_model(runs, restore)
    except Exception as e:  # noqa: BLE001
        model = []
        v.oblige(False)
        v.violation("coq-model", str(e), {}, no_input=True)
    # the property itself on the real runs: one compile, nobody loads a partial module, everyone returns
    nontriv = set()
    for r in runs:
        ncomp = sum(1 for e in r["events"] if e[0] == "Step") and None
        ends = r["events"]
        # count real completed compiles = granted compile_end stops with Normal
        ok = "LoadedPartial" not in r["outcomes"] and all(o in ("Loaded", "RaisedTimeout") for o in r["outcomes"]) \
            and r["outcomes"].count("Loaded") >= 1 and r["fs"]["cached"] and r["fs"]["so"] == "SoComplete" \
            and r.get("real_compiles", 1) == 1
        v.oblige(ok)
        nontriv.add(tuple(jitconf.ev(e) for e in r["events"]))
        if not ok:
            v.violation("c14-schedule", f"a fault-free schedule ended with outcomes {r['outcomes']}, {r.get('real_compiles')} compile(s) and files {r['fs']} {r.get('errors') or ''}",
                        {"schedule": r["spec"], "events": [jitconf.ev(e) for e in r["events"]], "outcomes": r["outcomes"], "fs": r["fs"], "compiles": r.get("real_compiles"), "errors": r.get("errors")})
        elif len(v.samples) < 3:
            v.samples.append({"events": [jitconf.ev(e) for e in r["events"]][:40], "outcomes": r["outcomes"], "fs": r["fs"]})
    # the property on the real runs is reported first (concrete schedules); then the conformance with the model
    jitconf.compare(v, runs, model, "C14")
    for m_, r in zip(model, runs):
        v.oblige(m_["compiles"] <= 1)
        if m_["compiles"] > 1:
            v.violation("c14-compiles", "more than one compile in a fault-free schedule", {"events": [jitconf.ev(e) for e in r["events"]]})
    if not g["ok"] and not v.violations:
        v.violation("gate", "proof obligations no longer check: " + "; ".join(g["broken"]), {"broken": g["broken"]}, no_input=True)
    cov = {"checker_cmd": f"./check C14 --tier {tier}",
           "trusted_base": ["Coq kernel + VM", "hand model Jit.v of the file-system protocol of jit.py (tied by trace conformance under harness/jitsched.py)",
                            "POSIX: open(...,'x') is exclusive, rename / replace is atomic, a complete file loads (dlopen) — the loader is replaced by a content check in the scheduled runs",
                            "wall-clock liveness (timeouts) is modelled as a poll counter", "tr_jit.py"],
           "states": len(nontriv), "transitions": sum(len(r["events"]) for r in runs), "traces_validated_against_impl": len(runs),
           "evaluations": len(runs), "distinct_nontrivial": len(nontriv),
           "rule": "random interleavings of 2-5 requests at the granularity of one file-system call each; distinct = distinct event sequences",
           "axioms_under_property_theorems": g.get("axioms", [])}
    return v.finish("proof", cov, ["any number of processes and all interleavings are covered by the invariant proof; the scheduled runs validate the model"])


def replay(v, payload):
    print(payload)
    return 1
