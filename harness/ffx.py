"""Shared harness core: run the *real* FFCx pipeline from /repo on a case and
capture the LNodes ASTs that are formatted into the compiled text.

A *case* is a dict {"id": str, "code": python source}.  The source is executed
in a namespace prepared by PRELUDE and must define `objs` (a list of UFL forms
and/or (expr, points) tuples) and may define `options` (dict of FFCx options).
Cases are therefore exactly replayable from JSON.
"""

from __future__ import annotations

import os
import sys

REPO = os.environ.get("FFCX_REPO", "/repo")
if sys.path[0] != REPO:
    sys.path.insert(0, REPO)

import math  # noqa: E402

import numpy as np  # noqa: E402

PRELUDE = r'''
import numpy as np, ufl, basix, basix.ufl
from ufl import (Mesh, FunctionSpace, TrialFunction, TestFunction, Coefficient, Constant,
    dx, ds, dS, dP, inner, grad, div, curl, dot, outer, jump, avg, conj, real, imag,
    sqrt, exp, sin, cos, ln, erf, conditional, gt, lt, ge, le, eq, ne, And, Or, Not,
    FacetNormal, SpatialCoordinate, CellVolume, FacetArea, CellDiameter, Circumradius,
    as_vector, as_tensor, as_matrix, det, tr, sym, Identity, derivative, action, adjoint,
    max_value, min_value, Measure, TestFunctions, TrialFunctions, split, Dx, nabla_grad,
    elem_mult, cross, perp, transpose, dev, skew, sign, tan, cosh, sinh, tanh, atan, atan2,
    bessel_J, bessel_Y, VectorConstant, TensorConstant, MinCellEdgeLength, MaxCellEdgeLength,
    MinFacetEdgeLength, MaxFacetEdgeLength, FacetArea, CellNormal, bessel_I, bessel_K, pi, exp, ln)
def el(family, cell, deg, shape=None, **kw):
    return basix.ufl.element(family, cell, deg, shape=shape, **kw)
def mesh(cell, deg=1, gdim=None):
    tdim = {"interval":1,"triangle":2,"quadrilateral":2,"tetrahedron":3,"hexahedron":3,"prism":3,"pyramid":3}[cell]
    return Mesh(el("P", cell, deg, shape=(gdim or tdim,)))
def tp(cell, deg, shape=None):
    e = basix.ufl.wrap_element(basix.create_tp_element(basix.ElementFamily.P, getattr(basix.CellType, cell), deg, basix.LagrangeVariant.gll_warped))
    return e if shape is None else basix.ufl.blocked_element(e, shape=shape)
def tpmesh(cell):
    tdim = {"quadrilateral":2,"hexahedron":3}[cell]
    return Mesh(tp(cell, 1, shape=(tdim,)))
def space(m, family, deg, shape=None, **kw):
    return FunctionSpace(m, el(family, m.ufl_cell().cellname, deg, shape=shape, **kw))
'''


def build_case(code: str):
    ns: dict = {}
    exec(PRELUDE, ns)
    exec(code, ns)
    objs = ns["objs"]
    options = dict(ns.get("options", {}))
    return objs, options, ns


class Captured:
    """What one compilation produced."""

    def __init__(self):
        self.kernels = []  # dicts: kind, ir, domain, ast, text
        self.code = None
        self.ir = None
        self.analysis = None
        self.options = None
        self.opt_calls = []  # (input copy, output) of optimizer.optimize


class _Captured(Exception):
    pass


def jit_forms(forms, options):
    """the UFL forms that ffcx.codegeneration.jit.compile_forms really hands to the compiler
    (it rewrites bilinear forms on mixed spaces when part='diagonal'): the real function is
    run up to the point where it would generate code."""
    import shutil
    import tempfile

    import ffcx.codegeneration.jit as jit
    box = {}

    def stop(decl, ufl_objects, *a, **k):
        box["forms"] = list(ufl_objects)
        raise _Captured()

    saved = jit._compile_objects
    jit._compile_objects = stop
    d = tempfile.mkdtemp(prefix="vfjf_")
    try:
        jit.compile_forms(list(forms), options=dict(options or {}), cache_dir=d)
    except _Captured:
        pass
    finally:
        jit._compile_objects = saved
        shutil.rmtree(d, ignore_errors=True)
    return box["forms"]


def scope_log(gen, domain):
    """per rule of this domain (in generation order): the nodes with their status, and which
    definition (rule index, mode) get_var really resolves each active node to."""
    keys = [(cell, rule) for cell, rule in gen.ir.expression.integrand.keys() if cell == domain]
    ids = {}
    defs = getattr(gen, "_vf_defs", {})
    rules, resolved = [], []
    for i, (cell, rule) in enumerate(keys):
        F = gen.ir.expression.integrand[(cell, rule)]["factorization"]
        fact = []
        for _, attr in F.nodes.items():
            v = attr["expression"]
            if v._ufl_is_literal_:
                continue
            vid = ids.setdefault(v, len(ids))
            st = {"piecewise": "Piecewise", "varying": "Varying"}.get(attr["status"], "Inactive")
            fact.append((vid, st))
            if st != "Inactive":
                if v in gen.scopes[(cell, rule)]:
                    who, mode = defs.get(((cell, rule), v), (None, "?"))
                elif v in gen.scopes[(None, None)]:
                    who, mode = defs.get(((None, None), v), (None, "?"))
                else:
                    who, mode = None, "None"
                widx = next((j for j, (c2, r2) in enumerate(keys) if r2 is who), -1)
                resolved.append((i, vid, widx, mode))
        rules.append(fact)
    return {"rules": rules, "resolved": resolved}


def compile_case(objs, options=None, capture_opt=False, prefix="vf", disable_opt=False):
    """analysis -> IR -> code generation through FFCx's own entry points,
    recording the AST object handed to the formatter for every kernel."""
    import copy

    import ffcx.codegeneration.C.expression as cexpr
    import ffcx.codegeneration.C.integral as cint
    import ffcx.codegeneration.integral_generator as ig_mod
    import ffcx.codegeneration.numba.expression as nexpr
    import ffcx.codegeneration.numba.integral as nint
    from ffcx.analysis import analyze_ufl_objects
    from ffcx.codegeneration.codegeneration import generate_code
    from ffcx.codegeneration.expression_generator import ExpressionGenerator
    from ffcx.codegeneration.integral_generator import IntegralGenerator
    from ffcx.formatting import format_code
    from ffcx.ir.representation import compute_ir
    from ffcx.options import get_options

    cap = Captured()
    opts = get_options(dict(options or {}))
    cap.options = opts

    class IG(IntegralGenerator):
        # the scope log feeds the correspondence check of coq/theories/Scopes.v (C11)
        def generate_piecewise_partition(self, quadrature_rule, domain):
            self._vf_cur = quadrature_rule
            return IntegralGenerator.generate_piecewise_partition(self, quadrature_rule, domain)

        def set_var(self, quadrature_rule, domain, v, vaccess):
            if not hasattr(self, "_vf_defs"):
                self._vf_defs = {}
            self._vf_defs[((domain, quadrature_rule), v)] = (getattr(self, "_vf_cur", None), "Varying" if quadrature_rule is not None else "Piecewise")
            return IntegralGenerator.set_var(self, quadrature_rule, domain, v, vaccess)

        def generate(self, domain):
            parts = IntegralGenerator.generate(self, domain)
            cap.kernels.append({"kind": "integral", "ir": self.ir, "domain": domain, "ast": parts,
                                "scopes": scope_log(self, domain)})
            return parts

    class EG(ExpressionGenerator):
        def generate(self):
            parts = ExpressionGenerator.generate(self)
            cap.kernels.append({"kind": "expression", "ir": self.ir, "domain": None, "ast": parts})
            return parts

    saved = (cint.IntegralGenerator, cexpr.ExpressionGenerator, nint.IntegralGenerator,
             nexpr.ExpressionGenerator, ig_mod.optimize)
    cint.IntegralGenerator = IG
    nint.IntegralGenerator = IG
    cexpr.ExpressionGenerator = EG
    nexpr.ExpressionGenerator = EG
    if disable_opt:
        ig_mod.optimize = lambda code, rule: code
    elif capture_opt:
        real_opt = ig_mod.optimize

        def wrapped(code, rule):
            before = copy.deepcopy(code)
            out = real_opt(code, rule)
            cap.opt_calls.append((before, out))
            return out

        ig_mod.optimize = wrapped
    try:
        analysis = analyze_ufl_objects(objs, opts["scalar_type"])
        ir = compute_ir(analysis, {}, prefix, opts, False)
        code, suffixes = generate_code(ir, opts)
        src = format_code(code)
    finally:
        (cint.IntegralGenerator, cexpr.ExpressionGenerator, nint.IntegralGenerator,
         nexpr.ExpressionGenerator, ig_mod.optimize) = saved
    cap.analysis = analysis
    cap.ir = ir
    cap.code = src
    cap.blocks = code
    return cap


# ---------------------------------------------------------------------------
# LNodes -> plain python tuples (the shape of coq/theories/LN.v)

RESERVED = {"A": 1, "w": 2, "c": 3, "coordinate_dofs": 4, "entity_local_index": 5,
            "quadrature_permutation": 6, "I": 7}


class Unsupported(Exception):
    pass


def c_printed(x: float) -> float:
    """the value a C compiler reads from the text C/formatter.py prints for x ('{x:.16}')."""
    return float(f"{x:.16}")


class Interner:
    """C name resolution.  Every *declaration* gets an identifier; a declaration that shadows
    a visible outer declaration (legal C) gets a fresh identifier, a redeclaration in the
    same scope gets the same one (so the Coq checker sees the clash), and uses resolve to the
    innermost visible declaration.  Function parameters live in the outermost scope."""

    def __init__(self, lit=None):
        self.ids = dict(RESERVED)          # base id per name
        self.names = {v: k for k, v in RESERVED.items()}
        self.lit = lit or (lambda x: x)
        self.scopes = [dict(RESERVED)]     # name -> id, innermost last
        self.shadowed = []                 # (name, outer id, new id)

    def _base(self, name):
        if name not in self.ids:
            n = len(self.names) + 1
            self.ids[name] = n
            self.names[n] = name
        return self.ids[name]

    def push(self):
        self.scopes.append({})

    def pop(self):
        self.scopes.pop()

    def declare(self, name: str) -> int:
        cur = self.scopes[-1]
        if name in cur:
            return cur[name]               # same-scope redeclaration: same id
        for sc in reversed(self.scopes[:-1]):
            if name in sc:
                n = len(self.names) + 1    # shadowing: fresh id
                self.names[n] = name
                cur[name] = n
                self.shadowed.append((name, sc[name], n))
                return n
        n = self._base(name)
        cur[name] = n
        return n

    def __call__(self, name: str) -> int:
        for sc in reversed(self.scopes):
            if name in sc:
                return sc[name]
        return self._base(name)            # not declared anywhere visible


def dyadic(x: float):
    """exact (m, e) with x == m * 2**e, m odd or 0."""
    if x != x or x in (float("inf"), float("-inf")):
        raise Unsupported(f"non-finite literal {x}")
    if x == 0.0:
        return (0, 0)
    m, e = math.frexp(x)
    m = int(m * (1 << 53))
    e -= 53
    while m % 2 == 0:
        m //= 2
        e += 1
    return (m, e)


def _dt(L, d):
    return {L.DataType.REAL: "DReal", L.DataType.SCALAR: "DScalar", L.DataType.INT: "DInt",
            L.DataType.BOOL: "DBool"}[d]


BINOPS = {"Add": "OAdd", "Sub": "OSub", "Mul": "OMul", "Div": "ODiv", "EQ": "OEQ", "NE": "ONE",
          "LT": "OLT", "GT": "OGT", "LE": "OLE", "GE": "OGE", "And": "OAnd", "Or": "OOr"}


def conv_expr(e, itn):
    import ffcx.codegeneration.lnodes as L

    t = type(e)
    if t is L.LiteralInt:
        return ("ELitI", int(e.value))
    if t is L.LiteralFloat:
        v = e.value
        if isinstance(v, complex):
            return ("ELitC",) + dyadic(itn.lit(v.real)) + dyadic(itn.lit(v.imag))
        return ("ELitF",) + dyadic(itn.lit(float(v)))
    if t is L.Symbol:
        return ("ESym", itn(e.name))
    if t is L.MultiIndex:
        return conv_expr(e.global_index, itn)
    if t is L.ArrayAccess:
        return ("EAcc", itn(e.array.name), [conv_expr(i, itn) for i in e.indices])
    if t is L.Neg:
        return ("ENeg", conv_expr(e.arg, itn))
    if t is L.Not:
        return ("ENot", conv_expr(e.arg, itn))
    if t.__name__ in BINOPS and isinstance(e, L.BinOp):
        return ("EBin", BINOPS[t.__name__], conv_expr(e.lhs, itn), conv_expr(e.rhs, itn))
    if t is L.Sum:
        return ("ESum", [conv_expr(a, itn) for a in e.args])
    if t is L.Product:
        return ("EProd", [conv_expr(a, itn) for a in e.args])
    if t is L.MathFunction:
        return ("ECall", str(e.function), [conv_expr(a, itn) for a in e.args])
    if t is L.Conditional:
        return ("ECond", conv_expr(e.condition, itn), conv_expr(e.true, itn),
                conv_expr(e.false, itn))
    raise Unsupported(f"expression node {t.__name__}")


def conv_lval(e, itn):
    import ffcx.codegeneration.lnodes as L

    if type(e) is L.Symbol:
        return ("LVar", itn(e.name))
    if type(e) is L.ArrayAccess:
        return ("LArr", itn(e.array.name), [conv_expr(i, itn) for i in e.indices])
    raise Unsupported(f"lvalue {type(e).__name__}")


def _lit_of_number(v, lit):
    if isinstance(v, (bool, np.bool_)):
        raise Unsupported("bool table value")
    if isinstance(v, (int, np.integer)):
        return ("ELitI", int(v))
    if isinstance(v, (complex, np.complexfloating)):
        v = complex(v)
        return ("ELitC",) + dyadic(lit(v.real)) + dyadic(lit(v.imag))
    return ("ELitF",) + dyadic(lit(float(v)))


def conv_stmt(s, itn):
    """Desugar exactly as C/formatter.py prints: Section = decls ; { stmts }."""
    import ffcx.codegeneration.lnodes as L

    t = type(s)
    if t is L.Comment:
        return ("SSkip",)
    if t is L.StatementList:
        return ("SList", [conv_stmt(x, itn) for x in s.statements])
    if t is L.Section:
        decls = [conv_stmt(x, itn) for x in s.declarations]
        if len(s.statements) > 0:
            itn.push()
            decls.append(("SBlock", [conv_stmt(x, itn) for x in s.statements]))
            itn.pop()
        return ("SList", decls)
    if t is L.VariableDecl:
        if s.value is None:
            raise Unsupported("VariableDecl without value")
        x = itn.declare(s.symbol.name)     # C: the scope of a declarator starts before its initialiser
        return ("SVarDecl", x, _dt(L, s.symbol.dtype), conv_expr(s.value, itn))
    if t is L.ArrayDecl:
        if s.values is None:
            raise Unsupported("ArrayDecl without values")
        vals = np.asarray(s.values)
        flat = [_lit_of_number(v, itn.lit) for v in vals.flatten().tolist()] if vals.dtype != object else None
        if flat is None:
            raise Unsupported("object array values")
        sizes = [int(n) for n in s.sizes]
        # C initialiser lists follow the nesting of `values`; a nested list
        # shorter than the declared shape zero-fills *per row*, which the flat
        # model cannot express: require full shape or a single row.
        if tuple(vals.shape) != tuple(sizes) and not (vals.ndim == 1 and len(sizes) == 1):
            raise Unsupported(f"ArrayDecl values shape {vals.shape} vs sizes {sizes}")
        return ("SArrDecl", itn.declare(s.symbol.name), _dt(L, s.symbol.dtype), sizes, flat,
                bool(s.const))
    if t is L.ForRange:
        if type(s.index) is not L.Symbol:
            raise Unsupported("ForRange index is not a Symbol")
        if type(s.begin) is not L.LiteralInt or type(s.end) is not L.LiteralInt:
            raise Unsupported("ForRange bounds not literal")
        itn.push()                          # scope of the for statement (holds the index)
        i = itn.declare(s.index.name)
        itn.push()                          # the body block
        body = [conv_stmt(x, itn) for x in s.body.statements]
        itn.pop()
        itn.pop()
        return ("SFor", i, int(s.begin.value), int(s.end.value), body)
    if t is L.Statement:
        e = s.expr
        if type(e) is L.Assign:
            return ("SAssign", conv_lval(e.lhs, itn), conv_expr(e.rhs, itn))
        if type(e) is L.AssignAdd:
            return ("SAssignAdd", conv_lval(e.lhs, itn), conv_expr(e.rhs, itn))
        raise Unsupported(f"statement expr {type(e).__name__}")
    raise Unsupported(f"statement node {t.__name__}")


def conv_kernel(ast, lit=None):
    """-> (body: list of stmt tuples, interner).  lit: map applied to every float literal
    (identity = the AST's own values; c_printed = what the C text reads back as)."""
    itn = Interner(lit)
    s = conv_stmt(ast, itn)
    body = s[1] if s[0] == "SList" else [s]
    return body, itn


# ---------------------------------------------------------------------------
# Coq text emission

def cz(z: int) -> str:
    return f"({z})" if z < 0 else str(z)


def coq_expr(e) -> str:
    k = e[0]
    if k == "ELitI":
        return f"ELitI {cz(e[1])}"
    if k == "ELitF":
        m, ex = e[1], e[2]
        if abs(m) < 2 ** 62 and abs(ex) < 2 ** 62:
            fn = "L" + ("n" if m < 0 else "p") + ("n" if ex < 0 else "p")
            return f"{fn} {abs(m)}%uint63 {abs(ex)}%uint63"
        return f"ELitF {cz(m)} {cz(ex)}"
    if k == "ELitC":
        return f"ELitC {cz(e[1])} {cz(e[2])} {cz(e[3])} {cz(e[4])}"
    if k == "ESym":
        return f"ESym {e[1]}"
    if k == "EAcc":
        return f"EAcc {e[1]} [{'; '.join(coq_expr(i) for i in e[2])}]"
    if k in ("ENeg", "ENot"):
        return f"{k} ({coq_expr(e[1])})"
    if k == "EBin":
        return f"EBin {e[1]} ({coq_expr(e[2])}) ({coq_expr(e[3])})"
    if k in ("ESum", "EProd"):
        return f"{k} [{'; '.join(coq_expr(i) for i in e[1])}]"
    if k == "ECall":
        return f"ECall \"{e[1]}\" [{'; '.join(coq_expr(i) for i in e[2])}]"
    if k == "ECond":
        return f"ECond ({coq_expr(e[1])}) ({coq_expr(e[2])}) ({coq_expr(e[3])})"
    raise ValueError(k)


def coq_lval(l) -> str:
    if l[0] == "LVar":
        return f"LVar {l[1]}"
    return f"LArr {l[1]} [{'; '.join(coq_expr(i) for i in l[2])}]"


def coq_stmt(s, ind="  ") -> str:
    k = s[0]
    if k == "SSkip":
        return "SSkip"
    if k in ("SList", "SBlock"):
        return f"{k} [" + (";\n" + ind).join(coq_stmt(x, ind + " ") for x in s[1]) + "]"
    if k == "SVarDecl":
        return f"SVarDecl {s[1]} {s[2]} ({coq_expr(s[3])})"
    if k == "SArrDecl":
        shape = "; ".join(cz(n) for n in s[3])
        vals = "; ".join(coq_expr(v) for v in s[4])
        return f"SArrDecl {s[1]} {s[2]} [{shape}] [{vals}] {'true' if s[5] else 'false'}"
    if k in ("SAssign", "SAssignAdd"):
        return f"{k} ({coq_lval(s[1])}) ({coq_expr(s[2])})"
    if k == "SFor":
        body = (";\n" + ind).join(coq_stmt(x, ind + " ") for x in s[4])
        return f"SFor {s[1]} {cz(s[2])} {cz(s[3])} [{body}]"
    raise ValueError(k)


def coq_body(body) -> str:
    return "[" + ";\n ".join(coq_stmt(s) for s in body) + "]"



# ---------------------------------------------------------------------------
# The code list handed to optimizer.optimize (Sections kept) -> coq/theories/Opt.v items

class FlatInterner(Interner):
    """one identifier per name, no scoping: used where two trees are compared node by node"""

    def push(self):
        pass

    def pop(self):
        pass

    def declare(self, name):
        return self._base(name)

    def __call__(self, name):
        return self._base(name)


ANNOTS = {"fuse": "AFuse", "unroll": "AUnroll", "licm": "ALicm", "factorize": "AFactorize"}
N_TEMPS = 800


def conv_items(code, itn):
    """list of LNodes as optimize() sees it -> [("IStmt", stmt) | ("ISec", name, stmts, decls, annots)]"""
    import ffcx.codegeneration.lnodes as L

    items = []
    for n in code:
        if type(n) is L.Section:
            items.append(("ISec", str(n.name), [conv_stmt(x, itn) for x in n.statements],
                          [conv_stmt(x, itn) for x in n.declarations], [ANNOTS[a.name] for a in n.annotations]))
        elif isinstance(n, list):
            # optimize() passes nested lists through untouched
            def conv_l(x):
                return ("SList", [conv_l(y) for y in x]) if isinstance(x, list) else conv_stmt(x, itn)
            items.append(("IStmt", conv_l(n)))
        else:
            items.append(("IStmt", conv_stmt(n, itn)))
    return items


def conv_opt_call(before, after):
    """both code lists of one optimize() call under one flat interner; temp_<k> pre-registered.
    "after_body": the returned list as the kernel exporter desugars it (conv_stmt: Section = declarations ; { statements }),
    against which Opt.desugar is compared."""
    import ffcx.codegeneration.lnodes as L

    itn = FlatInterner()
    temps = [itn._base(f"temp_{k}") for k in range(N_TEMPS)]
    d = {"temps": temps, "before": conv_items(before, itn), "after": conv_items(after, itn)}
    try:
        # does any declaration of the list shadow a visible outer one?  (then one identifier per name would not be C's scoping)
        sitn = Interner()
        conv_items(before, sitn)
        d["shadowing"] = len(sitn.shadowed)
    except Unsupported:
        d["shadowing"] = None
    try:
        flat = [x for x in after if not isinstance(x, list)]
        if len(flat) == len(after) and len(after) != 1:
            s = conv_stmt(L.StatementList(list(after)), itn)
            d["after_body"] = s[1] if s[0] == "SList" else [s]
    except Unsupported:
        pass
    return d


def coq_items(items) -> str:
    out = []
    for it in items:
        if it[0] == "IStmt":
            out.append(f"IStmt ({coq_stmt(it[1])})")
        else:
            st = ";\n  ".join(coq_stmt(x) for x in it[2])
            de = ";\n  ".join(coq_stmt(x) for x in it[3])
            out.append(f'ISec (mkSec "{it[1]}" [{st}] [{de}] [{"; ".join(it[4])}])')
    return "[" + ";\n ".join(out) + "]"

# ---------------------------------------------------------------------------
# The UFCx contract of a kernel, computed from the UFL-level data (form data,
# elements, cells), *not* from the tables FFCx derives from them.

TDIM = {"interval": 1, "triangle": 2, "quadrilateral": 2, "tetrahedron": 3, "hexahedron": 3,
        "prism": 3, "pyramid": 3, "vertex": 0}


def _scalar_dofs(coord_el):
    bs = getattr(coord_el, "block_size", 1)
    return int(coord_el.dim) // int(bs)


def _n_entities(cellname, dim):
    import basix
    ct = getattr(basix.CellType, cellname)
    return len(basix.topology(ct)[dim])


def _nperm(cellname):
    tdim = TDIM[cellname]
    if tdim == 1:
        return 1
    if tdim == 2:
        return 2
    return {"tetrahedron": 6, "hexahedron": 8}.get(cellname, 1)


def integral_owner(cap, ir):
    """(form_data, integral_data) the IntegralIR was computed from (same nested order as
    representation.compute_ir)."""
    n = 0
    for fd in cap.analysis.form_data:
        for itg in fd.integral_data:
            if cap.ir.integrals[n] is ir:
                return fd, itg
            n += 1
    raise KeyError("integral ir not found")


def kernel_contract(cap, k):
    """dict: nA, w (list of [lo,hi) allowed), w_all (all coefficient ranges), w_total, nc, nx,
    ne, e_range, np, p_range, plus descriptive fields."""
    ir = k["ir"]
    ex = ir.expression
    con = {"kind": k["kind"], "integral_type": ex.integral_type, "entity_type": ex.entity_type}
    if k["kind"] == "integral":
        import ufl
        fd, itg = integral_owner(cap, ir)
        domains = ufl.domain.extract_domains(itg.integrals[0].integrand()) if False else None
        cell = itg.domain.ufl_cell().cellname
        width = 2 if ex.integral_type == "interior_facet" else 1
        dims = [int(e.dim) * width for e in fd.argument_elements]
        if ir.part.name == "diagonal" and len(dims) == 2:
            dims = dims[:1]
        con["nA"] = int(np.prod(dims, dtype=int)) if dims else 1
        ranges, off = [], 0
        for coeff, el in zip(fd.reduced_coefficients, fd.coefficient_elements):
            ranges.append([off, off + width * int(el.dim)])
            off += width * int(el.dim)
        enabled = list(itg.enabled_coefficients)
        assert len(enabled) == len(ranges)
        con["w_all"] = ranges
        con["w"] = [r for r, en in zip(ranges, enabled) if en]
        con["enabled"] = [bool(b) for b in enabled]
        con["w_total"] = off
        con["nc"] = int(sum(int(np.prod(c.ufl_shape, dtype=int)) for c in fd.original_form.constants()))
        # constants / coefficients that occur in this integral's (preprocessed) integrands, extracted
        # by the harness itself: a kernel may read only their storage
        from ufl.algorithms.analysis import extract_constants, extract_coefficients
        used_c = set()
        used_w = set()
        for i_ in itg.integrals:
            used_c |= set(extract_constants(i_.integrand()))
            used_w |= set(extract_coefficients(i_.integrand()))
        off_c, cr = 0, []
        for c_ in fd.original_form.constants():
            n_ = int(np.prod(c_.ufl_shape, dtype=int))
            if c_ in used_c:
                cr.append([off_c, off_c + n_])
            off_c += n_
        con["c_used"] = cr
        con["w_used_not_enabled"] = [k for k, cf in enumerate(fd.reduced_coefficients)
                                     if cf in used_w and not enabled[k]]
        meshes = set(d for i in itg.integrals for d in ufl.domain.extract_domains(i.integrand()))
        meshes.add(itg.domain)
        con["mixed_mesh"] = len(meshes) > 1
        con["nx"] = 3 * _scalar_dofs(itg.domain.ufl_coordinate_element()) * width
        tdim = TDIM[cell]
        it = ex.integral_type
        if it == "cell":
            con["ne"], con["e_range"] = 0, [0, 0]
        elif it == "exterior_facet":
            con["ne"], con["e_range"] = 1, [0, _n_entities(cell, tdim - 1)]
        elif it == "interior_facet":
            con["ne"], con["e_range"] = 2, [0, _n_entities(cell, tdim - 1)]
        elif it == "vertex":
            con["ne"], con["e_range"] = 1, [0, _n_entities(cell, 0)]
        elif it == "ridge":
            con["ne"], con["e_range"] = 1, [0, _n_entities(cell, tdim - 2)]
        else:
            raise Unsupported(f"integral type {it}")
        # ufcx.h: "For interior facets the array will have size 2"; otherwise it may be NULL
        if it == "interior_facet":
            con["np"], con["p_range"] = 2, [0, _nperm(cell)]
        elif it == "ridge" and tdim == 3:
            # ridge integrals are younger than the sentence in ufcx.h ("for integrals not on interior facets a null
            # pointer can be passed"): by design (elementtables.py) the tables of cell-based functions are stacked for
            # the two orientations of the edge and indexed by quadrature_permutation[0]
            con["np"], con["p_range"] = 1, [0, 2]
        else:
            con["np"], con["p_range"] = 0, [0, 0]
        con["cell"] = cell
        con["needs_perm"] = bool(ex.needs_facet_permutations)
        # C03: with the flag false the result must not depend on the permutation argument
        con["np_flag"] = con["np"] if con["needs_perm"] else 0
    else:
        import ufl
        n = [i for i, e in enumerate(cap.ir.expressions) if e is ir][0]
        expr, points, original = cap.analysis.expressions[n]
        args = ufl.algorithms.extract_arguments(expr)
        coeffs = ufl.algorithms.extract_coefficients(expr)
        consts = ufl.algorithms.analysis.extract_constants(original)
        comps = int(np.prod(expr.ufl_shape, dtype=int)) if expr.ufl_shape else 1
        adim = int(np.prod([a.ufl_function_space().ufl_element().dim for a in args], dtype=int)) if args else 1
        con["nA"] = int(points.shape[0]) * comps * adim
        ranges, off = [], 0
        for cf in coeffs:
            d = int(cf.ufl_element().dim)
            ranges.append([off, off + d])
            off += d
        con["w_all"] = ranges
        con["w"] = ranges
        con["enabled"] = [True] * len(ranges)
        con["w_total"] = off
        con["nc"] = int(sum(int(np.prod(c.ufl_shape, dtype=int)) for c in consts))
        con["c_used"] = [[0, con["nc"]]] if con["nc"] else []
        con["w_used_not_enabled"] = []
        doms = ufl.domain.extract_domains(expr)
        con["mixed_mesh"] = len(set(doms)) > 1
        if doms:
            dom = max(doms, key=lambda d: d.topological_dimension)
            cell = dom.ufl_cell().cellname
            con["nx"] = 3 * _scalar_dofs(dom.ufl_coordinate_element())
            tdim = TDIM[cell]
            if ex.entity_type == "facet":
                con["ne"], con["e_range"] = 1, [0, _n_entities(cell, tdim - 1)]
                con["np"], con["p_range"] = 1, [0, _nperm(cell)]
            else:
                con["ne"], con["e_range"] = 0, [0, 0]
                con["np"], con["p_range"] = 0, [0, 0]
            con["cell"] = cell
        else:
            con.update(nx=0, ne=0, e_range=[0, 0], np=0, p_range=[0, 0], cell=None)
        con["needs_perm"] = con["np"] > 0
        con["np_flag"] = con["np"]
    return con


def kernel_name(k):
    ex = k["ir"].expression
    if k["kind"] == "integral":
        return f"{ex.name}_{k['domain'].name}"
    return ex.name
