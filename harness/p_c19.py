"""C19 — accepted input always yields valid C; rejected input fails before the compiler."""

from __future__ import annotations

import astcheck
import astprops
import common
import corpus
import runc

EXTRA = [
    corpus._c("c19_custom_same_points_two_weights", '''
m=mesh("triangle"); V=space(m,"P",1); v=TestFunction(V); f=Coefficient(V)
P=np.array([[0.25,0.25],[0.5,0.25],[0.25,0.5]])
md1={"quadrature_rule":"custom","quadrature_points":P,"quadrature_weights":np.array([0.125,0.25,0.125])}
md2={"quadrature_rule":"custom","quadrature_points":P,"quadrature_weights":np.array([0.25,0.125,0.125])}
objs=[f*v*dx(metadata=md1) + f*f*v*dx(metadata=md2)]'''),
    corpus._c("c19_three_rules_tet", '''
m=mesh("tetrahedron"); V=space(m,"P",1); v=TestFunction(V); f=Coefficient(V)
objs=[f*v*dx(degree=1) + f*f*v*dx(degree=3) + f*f*f*v*dx(degree=5) + f*v*ds(degree=2) + f*f*v*ds(degree=4)]'''),
    corpus._c("c19_piecewise_and_varying_jacobian", '''
m=mesh("quadrilateral"); W=space(m,"Q",2); f0=Coefficient(W); k0=Constant(m)
objs=[f0('+')*dS(degree=1) + k0*dS]'''),
]


def form_for_pair(cell, l1, l2):
    def md(label):
        if label == "vertex":
            return 'scheme="vertex",degree=1', "P"
        scheme, deg, ps = label.split(":")
        return f'scheme="{scheme}",degree={deg}', ("iso" if ps == "macroedge" else "P")
    m1, e1 = md(l1)
    m2, e2 = md(l2)
    fam = "iso" if "iso" in (e1, e2) else "P"
    return corpus._c(f"c19_pair_{cell}_{l1}_{l2}".replace(":", "-"), f'''
m=mesh("{cell}"); V=space(m,"{fam}",1); v=TestFunction(V); f=Coefficient(V)
objs=[f*v*dx({m1}) + f*f*v*dx({m2})]''')


def gcc_cases(v, results, label):
    """every accepted case must build with gcc -std=c17 (strict flags)."""
    n_ok = 0
    for r in results:
        if r["status"] != "ok" or "source" not in r:
            continue
        b = runc.CBuild(r["header"], r["source"], strict=True)
        v.oblige(b.ok)
        if b.ok:
            n_ok += 1
        else:
            first = [ln for ln in b.log.splitlines() if "error" in ln][:2]
            v.violation(f"gcc:{r['id']}", f"accepted input produces C that does not compile ({label}): " + " | ".join(first),
                        {"case": r["id"], "code": r["code"], "gcc": b.log[:1500]})
    return n_ok


def run(v, tier, seed, g):
    import tr_rules
    cases = astprops.cases_for(tier, seed, EXTRA)
    # 1. scoping on the exported ASTs
    results, recs = astcheck.run(cases, "C19", want_text=True)
    dist = astcheck.distribution(results, recs)
    nontriv = set()
    for rec in recs:
        if rec["unsupported"]:
            v.oblige(False)
            v.violation(f"unsupported-ast:{rec['case']}", f"AST shape outside the model: {rec['unsupported']}",
                        {"case": rec["case"], "code": rec["code"]}, no_input=True)
            continue
        ok = bool(rec["bits"] and rec["bits"][0])
        v.oblige(ok)
        if ok:
            nontriv.add((rec["contract"]["integral_type"], rec["contract"].get("cell"), rec["nstmts"]))
        else:
            # concrete witness = gcc on the real text (below) — else name the obligation
            v.notes.setdefault("scoping_rejected", []).append(rec["name"])
    # 2. real compiler on every accepted case
    n_gcc = gcc_cases(v, results, "corpus")
    for rec in recs:
        if rec["bits"] and not rec["bits"][0] and not any(rec["case"] in p for p, _, _ in v.violations) \
                and not any(rec["case"] in k for k, _ in v.known_hits):
            v.violation(f"scoping:{rec['case']}", f"scoping/type checker rejects kernel {rec['name']} although gcc accepts the text",
                        {"case": rec["case"], "code": rec["code"], "kernel": rec["name"],
                         "failing_statement": rec.get("fail_stmt"),
                         "broken_obligation": "check_kernel (Check.v) on this kernel"}, no_input=True)
    # 3. rule identifiers: the Coq theorem is in props/C19.v (gate); on failure build the
    #    colliding pairs as forms and hand them to gcc
    groups = tr_rules.enumerate_rules()
    cols = tr_rules.collisions(groups)
    v.notes["rule_table"] = {k: len(r) for k, r in groups.items()}
    v.notes["rule_id_collisions"] = [list(c) for c in cols]
    if cols:
        pair_cases = [form_for_pair(c, l1, l2) for c, rid, l1, l2 in cols]
        pres = common.run_cases(pair_cases, want_text=True)
        for (c, rid, l1, l2), r in zip(cols, pres):
            if r["status"] != "ok":
                v.violation(f"rule-id:{c}:{l1}:{l2}", f"rules {l1} and {l2} on {c} share id {rid}; no form could be built for the pair ({r.get('error','')[:80]})",
                            {"cell": c, "id": rid, "rules": [l1, l2], "broken_obligation": "C19_rule_ids_separate_point_sets"}, no_input=True)
                continue
            b = runc.CBuild(r["header"], r["source"], strict=True)
            v.oblige(b.ok)
            if not b.ok:
                first = [ln for ln in b.log.splitlines() if "error" in ln][:1]
                v.violation(f"rule-id:{c}:{l1}:{l2}", f"rules {l1} and {l2} on {c} share id {rid}: " + " ".join(first),
                            {"case": r["id"], "code": r["code"], "gcc": b.log[:800]})
            else:
                v.violation(f"rule-id:{c}:{l1}:{l2}", f"rules {l1} and {l2} on {c} share id {rid} (gcc accepted the pair form)",
                            {"case": r["id"], "code": r["code"], "broken_obligation": "C19_rule_ids_separate_point_sets"}, no_input=True)
    # 4. unsupported constructs: a Python exception before any compiler, never silent code
    ures = common.run_cases(corpus.UNSUPPORTED, want_text=True)
    rej = {}
    for r in ures:
        if r["status"] == "rejected":
            v.oblige(True)
            rej[r["id"]] = r.get("error", "")[:80]
        elif r["status"] == "ok":
            b = runc.CBuild(r["header"], r["source"], strict=True)
            v.oblige(b.ok)
            v.notes.setdefault("unsupported_stream_accepted", []).append(r["id"])
            if not b.ok:
                v.violation(f"gcc:{r['id']}", "construct outside the supported fragment is accepted and yields invalid C",
                            {"case": r["id"], "code": r["code"], "gcc": b.log[:800]})
        else:
            v.oblige(False)
            v.violation(f"harness:{r['id']}", f"case could not be processed: {r.get('error','')[:120]}",
                        {"case": r["id"], "code": r["code"]}, no_input=True)
    v.notes["rejected_before_compiler"] = rej
    if not g["ok"] and not v.violations and not v.known_hits:
        v.violation("gate", "proof obligations no longer check: " + "; ".join(g["broken"]),
                    {"broken": g["broken"]}, no_input=True)
    v.samples.extend([{"case": r["id"], "status": r["status"]} for r in results[:3]])
    cov = {
        "checker_cmd": f"./check C19 --tier {tier}",
        "trusted_base": astprops.TRUSTED + ["gcc 12 as the arbiter of C17 validity (-std=c17 -Wall -Werror=implicit-function-declaration -Werror=int-conversion)",
                                            "SHA-1 collision-free on the enumerated point sets",
                                            "tr_rules.py (enumerates rules through basix.make_quadrature and ffcx QuadratureRule.id)"],
        "programs": len(results), "compiled_with_gcc": n_gcc, "evaluations": len(recs) + n_gcc,
        "distinct_nontrivial": len(nontriv),
        "rule": "obligations: scoping verdict per kernel, gcc per accepted case, rejection per unsupported case, finite id table theorem",
        "distribution": dist, "axioms_under_property_theorems": g.get("axioms", []),
    }
    return v.finish("proof", cov, ["forms sampled; rule-id table exhaustive over cells x degree 0..30 x schemes x polyset types"])


def replay(v, payload):
    res = common.run_cases([{"id": payload.get("case", "replay"), "code": payload["code"]}], want_text=True)
    r = res[0]
    if r["status"] != "ok":
        print("rejected:", r.get("error"))
        return 0
    b = runc.CBuild(r["header"], r["source"], strict=True)
    print("gcc ok" if b.ok else b.log[:800])
    return 0 if b.ok else 1
