"""C04 — expression kernels evaluate the expression at the given points; descriptor truthful."""
import numpy as np

import common
import corpus
import valprops

EXPRS = [c for c in corpus.PINNED if c["id"].startswith("expr")] + [
    corpus._c("c04_tensor_valued_nonaffine", '''
m=mesh("quadrilateral"); V=space(m,"Q",2,shape=(2,)); f=Coefficient(V); k=Constant(m,shape=(2,2))
objs=[(k*grad(f) + outer(f,f), np.array([[0.25,0.5],[0.75,0.125],[0.5,0.5]]))]'''),
    corpus._c("c04_rank1_vector_tet", '''
m=mesh("tetrahedron"); V=space(m,"P",2,shape=(3,)); u=TrialFunction(V); g=Coefficient(space(m,"P",1))
objs=[(g*div(u)*as_vector([1.0,2.0,0.5]) + curl(u), np.array([[0.25,0.25,0.25],[0.125,0.5,0.25]]))]'''),
    corpus._c("c04_rank1_n1curl", '''
m=mesh("triangle"); V=space(m,"N1curl",1); u=TrialFunction(V)
objs=[(u, np.array([[0.25,0.25],[0.5,0.125],[0.125,0.75]])), (curl(u), np.array([[0.3125,0.25]]))]'''),
    corpus._c("c04_scalar_mathfun", '''
m=mesh("triangle",2); V=space(m,"P",2); f=Coefficient(V); x=SpatialCoordinate(m)
objs=[(sqrt(f*f+1.0)*x[0] + conditional(gt(f,0.25),f,x[1]), np.array([[0.125,0.25],[0.5,0.375]]))]'''),
    corpus._c("c04_facet_points_all_facets_tri", '''
m=mesh("triangle"); V=space(m,"P",2); f=Coefficient(V); n=FacetNormal(m)
objs=[(dot(grad(f),n)*n, np.array([[0.25],[0.75]]))]'''),
    corpus._c("c04_facet_points_hex", '''
m=mesh("hexahedron"); V=space(m,"Q",1); f=Coefficient(V); n=FacetNormal(m)
objs=[(f*n, np.array([[0.25,0.5],[0.75,0.125]]))]'''),
    corpus._c("c04_rank1_facet_points_tri", '''
m=mesh("triangle"); V=space(m,"P",2); v=TestFunction(V); f=Coefficient(V); x=SpatialCoordinate(m)
objs=[(v, np.array([[0.125],[0.25],[0.625],[0.9375]])), (as_vector([f*v, x[0]*v.dx(1)]), np.array([[0.125],[0.75]]))]'''),
    corpus._c("c04_rank1_facet_points_tet_hex", '''
m=mesh("tetrahedron"); V=space(m,"P",2); v=TestFunction(V); f=Coefficient(V); n=FacetNormal(m)
mh=mesh("hexahedron"); Vh=space(mh,"Q",1); vh=TestFunction(Vh); fh=Coefficient(Vh)
objs=[(f*v + dot(grad(v),n), np.array([[0.125,0.25],[0.5,0.125],[0.0625,0.75]])), (fh*vh, np.array([[0.125,0.25],[0.75,0.375]]))]'''),
    # gradients on the facets of tensor-product cells: tables that are constant along some facets and vary along others
    corpus._c("c04_facet_points_quad_gradients", '''
m=mesh("quadrilateral"); V=space(m,"Q",1); f=Coefficient(V); u=TrialFunction(V); W=space(m,"Q",2); g=Coefficient(W)
objs=[(grad(f), np.array([[0.125],[0.5],[0.8125]])), (grad(u), np.array([[0.25],[0.6875]])), (grad(grad(g)), np.array([[0.125],[0.5],[0.8125]])), (f.dx(0)*g.dx(1), np.array([[0.0625],[0.9375]]))]'''),
    corpus._c("c04_facet_points_hex_gradients", '''
m=mesh("hexahedron"); V=space(m,"Q",1); f=Coefficient(V); u=TrialFunction(V); R=space(m,"RTCF",1) if False else space(m,"Q",2); g=Coefficient(R)
objs=[(grad(f), np.array([[0.125,0.25],[0.5,0.75],[0.8125,0.0625]])), (u.dx(0)*f.dx(2), np.array([[0.25,0.125],[0.6875,0.5]])), (grad(g)[1]*f.dx(0), np.array([[0.125,0.875],[0.75,0.25]]))]'''),
    corpus._c("c04_interval_p3", '''
m=mesh("interval"); V=space(m,"P",3); f=Coefficient(V); u=TrialFunction(V)
objs=[(f.dx(0)*f, np.array([[0.125],[0.5],[0.875]])), (u.dx(0), np.array([[0.25],[0.75]]))]'''),
    corpus._c("c04_coefficient_eliminated_first", '''
m=mesh("triangle"); D=space(m,"DP",0); V=space(m,"P",2); k=Coefficient(D); g=Coefficient(V); h=Coefficient(V)
objs=[(g + (k+h).dx(0), np.array([[0.25,0.25],[0.5,0.125]])), (as_vector([g*h, grad(k+g)[1]*h]), np.array([[0.125,0.5]]))]'''),
    corpus._c("c04_coefficient_eliminated_middle", '''
m=mesh("triangle"); D=space(m,"DP",0); V=space(m,"P",2); g=Coefficient(V); k=Coefficient(D); h=Coefficient(V); c=Constant(m)
objs=[(grad(k+g)[1]*h + c*g, np.array([[0.25,0.25],[0.5,0.125],[0.125,0.625]]))]'''),
    corpus._c("c04_three_coefficients_all_kept", '''
m=mesh("tetrahedron"); D=space(m,"DP",0); V=space(m,"P",1); k=Coefficient(D); g=Coefficient(V); h=Coefficient(space(m,"P",2))
objs=[(k*g + g*h, np.array([[0.25,0.25,0.125]])), (k*grad(h), np.array([[0.125,0.25,0.5]]))]'''),
    # not linear in the argument: either rejected or the value with the argument replaced by each basis function
    corpus._c("c04_mayreject_affine_in_argument", '''
m=mesh("triangle"); V=space(m,"P",1); u=TrialFunction(V); f=Coefficient(V)
objs=[(u + 1.0, np.array([[0.25,0.25],[0.5,0.125]]))]'''),
    corpus._c("c04_mayreject_argument_plus_coefficient", '''
m=mesh("triangle"); V=space(m,"P",2); u=TrialFunction(V); f=Coefficient(V)
objs=[(f*u + f, np.array([[0.25,0.25]])), (as_vector([u.dx(0), f]), np.array([[0.5,0.125]]))]'''),
    corpus._c("c04_mixed_coefficient", '''
m=mesh("triangle"); E=basix.ufl.mixed_element([el("P","triangle",2,shape=(2,)), el("P","triangle",1)])
W=FunctionSpace(m,E); w=Coefficient(W); (uu,pp)=split(w); k=Constant(m)
objs=[(k*pp*uu + grad(pp), np.array([[0.25,0.25],[0.5,0.25]]))]'''),
]


def run(v, tier, seed, g):
    exprs = EXPRS + corpus.random_expr_cases(seed, 60 if tier == "quick" else 800)
    res = common.run_cases(exprs, script="oraclerun.py", timeout=400, extra={"seed": seed, "expressions": True})
    st = valprops.account(v, res, "c04", what="expression kernel differs from the expression evaluated at the points")
    # descriptor: what the compiled ufcx_expression says vs the expression
    import ffx
    import ufl
    jres = common.run_cases(EXPRS, script="jit_worker.py", timeout=300)
    ndesc = 0
    for r in jres:
        if r["status"] != "ok" and "mayreject" in r["id"]:
            continue        # an input outside the supported set may be refused
        if r["status"] != "ok":
            v.oblige(False)
            v.violation(f"jit:{r['id']}", f"expression could not be JIT-compiled: {r.get('error','')[:200]}", {"case": r["id"], "code": r["code"]}, no_input=True)
            continue
        objs, opts, ns = ffx.build_case(r["code"])
        for (expr, pts), d in zip(objs, r.get("expressions", [])):
            ndesc += 1
            pts = np.asarray(pts, dtype=float)
            coeffs = ufl.algorithms.extract_coefficients(expr)
            problems = []
            if d["num_points"] != pts.shape[0] or d["entity_dimension"] != pts.shape[1] or not np.array_equal(np.array(d["points"]), pts.reshape(-1)):
                problems.append(f"points {d['num_points']}x{d['entity_dimension']} {d['points'][:4]} vs {pts.shape}")
            if d["value_shape"] != list(expr.ufl_shape):
                problems.append(f"value_shape {d['value_shape']} vs {list(expr.ufl_shape)}")
            if d["rank"] != len(ufl.algorithms.extract_arguments(expr)):
                problems.append(f"rank {d['rank']}")
            # coefficients that survive differentiation (UFL's own expand_derivatives), at their positions in the expression as written
            kept = ufl.algorithms.extract_coefficients(ufl.algorithms.expand_derivatives(expr))
            want_pos = [coeffs.index(c) for c in kept]
            if d["num_coefficients"] != len(kept) or d["original_coefficient_positions"] != want_pos:
                problems.append(f"coefficients {d['num_coefficients']} {d['original_coefficient_positions']} vs {len(kept)} {want_pos}")
            if d["num_constants"] != len(ufl.algorithms.analysis.extract_constants(expr)):
                problems.append(f"constants {d['num_constants']}")
            v.oblige(not problems)
            if problems:
                v.violation(f"descriptor:{r['id']}", "ufcx_expression disagrees with the expression: " + "; ".join(problems),
                            {"case": r["id"], "code": r["code"], "descriptor": {k: d[k] for k in d if k != "points"}})
    if not g["ok"] and not v.violations:
        v.violation("gate", "proof obligations no longer check: " + "; ".join(g["broken"]), {"broken": g["broken"]}, no_input=True)
    import midxcorr
    mc = midxcorr.run(seed, 300 if tier == "quick" else 3000)
    v.oblige(mc["compared"] > 0 and mc["equal"] == mc["compared"], max(mc["compared"], 1))
    if mc.get("error"):
        v.violation("c04-multiindex-model", "the MultiIndex correspondence could not be evaluated: " + mc["error"], {}, no_input=True)
    for bad in mc["bad"][:2]:
        v.violation(f"c04-multiindex:{bad['sizes']}", f"lnodes.MultiIndex(symbols, sizes={bad['sizes']}).global_index is not the index expression of the model MIdx.global_index "
                    "(whose value is proved to be the row-major position)", bad, no_input=True)
    v.notes["multiindex_correspondence"] = {k: mc.get(k) for k in ("compared", "equal", "dims")}
    cov = {"checker_cmd": f"./check C04 --tier {tier}", "trusted_base": valprops.ORACLE_TRUST + ["Coq kernel (Flatten.v, MIdx.v)", "tr_smart.py + midxcorr.py (MultiIndex construction through the translated overloads)", "cffi/gcc for reading the compiled descriptor"],
           "programs": st["cases"], "disagreements_checked": st["agree"] + st["mismatch"], "evaluations": st["agree"] + st["mismatch"] + ndesc,
           "distinct_nontrivial": st["distinct"], "oracle": st, "descriptors": ndesc,
           "rule": "expressions of rank 0/1, scalar/vector/tensor shape, cell points and facet points with every local facet index, affine and non-affine geometry",
           "axioms_under_property_theorems": g.get("axioms", [])}
    return v.finish("proof", cov, ["expressions sampled; the A[point][component][dof] position is the row-major flattening proved in Flatten.v"])


def replay(v, payload):
    import oraclerun
    r = oraclerun.check_expression_case({"id": payload["case"], "code": payload["code"]}, 1)
    print(r["status"], [(k["status"], k.get("error")) for k in r["kernels"]])
    return 1 if any(k["status"] == "mismatch" for k in r["kernels"]) else 0
