#!/bin/sh
# seedrun2.sh <seed dir name> <check ids...> : like seedrun.sh but without touching /repo's working tree: the patch is
# applied in a scratch worktree of /repo's HEAD and the checks run with FFCX_REPO pointing there (used while other checks run
# against /repo).  Evidence files of the checks run are saved and put back.
set -u
d=/verif/seeded/$1; shift
wt=$(mktemp -d /tmp/wt_seedrun.XXXXXX); rmdir "$wt"
git -C /repo worktree add --detach "$wt" HEAD -q || exit 2
git -C "$wt" apply "$d/patch.diff" || { echo "patch does not apply"; git -C /repo worktree remove --force "$wt"; exit 2; }
sav=$(mktemp -d /tmp/vf_evid.XXXXXX)
for c in "$@"; do cp /verif/evidence/$c.json "$sav"/ 2>/dev/null; done
for c in "$@"; do
  echo "=== check $c with $(basename $d) applied (scratch worktree)"
  FFCX_REPO="$wt" /verif/check $c --tier quick 2>&1 | grep "^VIOLATION\|^OK\|^KNOWN\|violation detail" | head -6
done
cp "$sav"/*.json /verif/evidence/ 2>/dev/null; rm -rf "$sav"
git -C /repo worktree remove --force "$wt"; git -C /repo worktree prune
