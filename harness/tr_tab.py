"""tr_tab: read the table classification / reduction of ffcx/ir/elementtables.py and the index choice of
codegeneration/access.py table_access off the source and emit coq/gen/TabGen.v; props/C01.v states that what was
read is what Tab.v models.  Fail-closed: a shape that is not recognised raises."""
import ast
import os
import sys

HERE = os.path.dirname(os.path.abspath(__file__))
sys.path.insert(0, HERE)
import common  # noqa: E402


class TranslationError(Exception):
    pass


def _fn(tree, name):
    fs = [n for n in ast.walk(tree) if isinstance(n, ast.FunctionDef) and n.name == name]
    if len(fs) != 1:
        raise TranslationError(f"{name} not found (or defined twice)")
    return fs[0]


def _body(f):
    return [s for s in f.body if not (isinstance(s, ast.Expr) and isinstance(s.value, ast.Constant))]


def _slices(sub):
    """table[a, b, c, d] -> ['a','b','c','d']"""
    if not (isinstance(sub, ast.Subscript) and ast.unparse(sub.value) == "table" and isinstance(sub.slice, ast.Tuple)):
        raise TranslationError(f"expected table[...]: {ast.unparse(sub)}")
    return [ast.unparse(e) for e in sub.slice.elts]


def all_over_axis(f, negated=False):
    """return all(np.allclose(table[A], table[B], rtol=rtol, atol=atol) for i in range(1, table.shape[K]))"""
    b = _body(f)
    if len(b) != 1 or not isinstance(b[0], ast.Return):
        raise TranslationError(f"{f.name}: not a single return")
    e = b[0].value
    if negated:
        if not (isinstance(e, ast.UnaryOp) and isinstance(e.op, ast.Not)):
            raise TranslationError(f"{f.name}: expected `not all(...)`")
        e = e.operand
    if not (isinstance(e, ast.Call) and ast.unparse(e.func) == "all" and len(e.args) == 1 and isinstance(e.args[0], ast.GeneratorExp)):
        raise TranslationError(f"{f.name}: expected all(<generator>)")
    g = e.args[0]
    if len(g.generators) != 1 or g.generators[0].ifs or ast.unparse(g.generators[0].target) != "i":
        raise TranslationError(f"{f.name}: generator of unrecognised shape")
    it = g.generators[0].iter
    if not (isinstance(it, ast.Call) and ast.unparse(it.func) == "range" and len(it.args) == 2 and ast.unparse(it.args[0]) == "1"
            and ast.unparse(it.args[1]).startswith("table.shape[")):
        raise TranslationError(f"{f.name}: range of unrecognised shape: {ast.unparse(it)}")
    axis = int(ast.unparse(it.args[1])[len("table.shape["):-1])
    c = g.elt
    if not (isinstance(c, ast.Call) and ast.unparse(c.func) == "np.allclose" and len(c.args) == 2
            and {k.arg: ast.unparse(k.value) for k in c.keywords} == {"rtol": "rtol", "atol": "atol"}):
        raise TranslationError(f"{f.name}: comparison is not np.allclose(a, b, rtol=rtol, atol=atol)")
    return _slices(c.args[0]), _slices(c.args[1]), axis


def generate():
    et = ast.parse(open(os.path.join(common.REPO, "ffcx/ir/elementtables.py")).read())
    tuples = {}
    for n in et.body:
        if isinstance(n, ast.Assign) and len(n.targets) == 1 and getattr(n.targets[0], "id", "") in ("piecewise_ttypes", "uniform_ttypes"):
            if not (isinstance(n.value, ast.Tuple) and all(isinstance(e, ast.Constant) for e in n.value.elts)):
                raise TranslationError("ttype tuple of unrecognised shape")
            tuples[n.targets[0].id] = [e.value for e in n.value.elts]
    if set(tuples) != {"piecewise_ttypes", "uniform_ttypes"}:
        raise TranslationError("piecewise_ttypes / uniform_ttypes not found")
    pw = all_over_axis(_fn(et, "is_piecewise_table"))
    un = all_over_axis(_fn(et, "is_uniform_table"))
    pm = all_over_axis(_fn(et, "is_permuted_table"), negated=True)
    # zeros / ones / quadrature: pinned as text (whole-table comparisons)
    want = {"is_zeros_table": "return np.prod(table.shape) == 0 or np.allclose(table, np.zeros(table.shape), rtol=rtol, atol=atol)",
            "is_ones_table": "return np.allclose(table, np.ones(table.shape), rtol=rtol, atol=atol)",
            "is_quadrature_table": "_, num_entities, num_points, num_dofs = table.shape\nId = np.eye(num_points)\nreturn num_points == num_dofs and all((np.allclose(table[0, i, :, :], Id, rtol=rtol, atol=atol) for i in range(num_entities)))"}
    for name, txt in want.items():
        got = "\n".join(ast.unparse(s) for s in _body(_fn(et, name)))
        if got != txt:
            raise TranslationError(f"{name} is no longer the comparison the model has:\n{got}")
    # analyse_table_type: zeros, ones, quadrature, then the 2x2 of piecewise/uniform
    an = _body(_fn(et, "analyse_table_type"))
    chain, node = [], an[0]
    while isinstance(node, ast.If) and isinstance(node.test, ast.Call):
        if len(node.body) != 1 or ast.unparse(node.body[0].targets[0]) != "ttype":
            raise TranslationError("analyse_table_type: branch of unrecognised shape")
        chain.append((ast.unparse(node.test.func), node.body[0].value.value))
        if len(node.orelse) == 1 and isinstance(node.orelse[0], ast.If) and isinstance(node.orelse[0].test, ast.Call):
            node = node.orelse[0]
        else:
            rest = node.orelse
            break
    if chain != [("is_zeros_table", "zeros"), ("is_ones_table", "ones"), ("is_quadrature_table", "quadrature")]:
        raise TranslationError(f"analyse_table_type: decision chain {chain}")
    rest_txt = "\n".join(ast.unparse(s) for s in rest)
    want_rest = ("piecewise = is_piecewise_table(table, rtol=rtol, atol=atol)\nuniform = is_uniform_table(table, rtol=rtol, atol=atol)\n"
                 "if piecewise and uniform:\n    ttype = 'fixed'\nelif piecewise:\n    ttype = 'piecewise'\nelif uniform:\n    ttype = 'uniform'\nelse:\n    ttype = 'varying'")
    if rest_txt != want_rest or ast.unparse(an[-1]) != "return ttype" or len(an) != 2:
        raise TranslationError("analyse_table_type: piecewise/uniform combination of unrecognised shape")
    # the slicing in build_optimized_tables
    bo = _fn(et, "build_optimized_tables")
    src = ast.unparse(bo)
    block = ("tabletype = analyse_table_type(tbl)\n        if tabletype in piecewise_ttypes:\n            tbl = tbl[:, :, :1, :]\n        if tabletype in uniform_ttypes:\n            tbl = tbl[:, :1, :, :]\n"
             "        is_permuted = is_permuted_table(tbl)\n        if not is_permuted:\n            tbl = tbl[:1, :, :, :]")
    if block not in src:
        raise TranslationError("build_optimized_tables: the reduction of the table after its classification is not the one the model has")
    for frag in ("ttype=tabletype", "is_permuted=is_permuted", "values=tbl"):
        if frag not in src:
            raise TranslationError(f"build_optimized_tables: {frag} not recorded in the table reference")
    cls = [n for n in et.body if isinstance(n, ast.ClassDef) and n.name == "UniqueTableReferenceT"]
    ctxt = ast.unparse(cls[0]) if cls else ""
    for frag in ("return self.ttype in piecewise_ttypes", "return self.ttype in uniform_ttypes"):
        if frag not in ctxt:
            raise TranslationError("UniqueTableReferenceT.is_piecewise / is_uniform of unrecognised shape")
    # the index the generated code reads
    ac = ast.parse(open(os.path.join(common.REPO, "ffcx/codegeneration/access.py")).read())
    ta = ast.unparse(_fn(ac, "table_access"))
    for frag in ("qp = 0", "if tabledata.is_uniform:\n        entity = L.LiteralInt(0)", "if tabledata.is_piecewise:\n        iq_global_index = L.LiteralInt(0)",
                 "if tabledata.is_permuted:\n        qp = self.symbols.quadrature_permutation[0]\n        if restriction == '-':\n            qp = self.symbols.quadrature_permutation[1]",
                 "self.symbols.element_tables[tabledata.name][qp][entity][iq_global_index][ic_global_index]"):
        if frag not in ta:
            raise TranslationError(f"table_access: expected fragment not found: {frag!r}")

    def lst(xs):
        return "[" + "; ".join(f'"{x}"' for x in xs) + "]"
    lines = ["(* generated by harness/tr_tab.py from ffcx/ir/elementtables.py and ffcx/codegeneration/access.py *)",
             "From Coq Require Import List String.", "Import ListNotations.", "Open Scope string_scope.",
             f"Definition gen_piecewise_ttypes : list string := {lst(tuples['piecewise_ttypes'])}.",
             f"Definition gen_uniform_ttypes : list string := {lst(tuples['uniform_ttypes'])}.",
             "(* all(np.allclose(table[lhs], table[rhs]) for i in range(1, table.shape[axis])) *)",
             f"Definition gen_is_piecewise : list string * list string * nat := ({lst(pw[0])}, {lst(pw[1])}, {pw[2]}%nat).",
             f"Definition gen_is_uniform : list string * list string * nat := ({lst(un[0])}, {lst(un[1])}, {un[2]}%nat).",
             f"Definition gen_is_permuted_negated : list string * list string * nat := ({lst(pm[0])}, {lst(pm[1])}, {pm[2]}%nat)."]
    os.makedirs(common.GEN, exist_ok=True)
    open(os.path.join(common.GEN, "TabGen.v"), "w").write("\n".join(lines) + "\n")
    return tuples, pw, un, pm


if __name__ == "__main__":
    print(generate())
