"""tr_prec: regenerate coq/gen/PrecGen.v from /repo's lnodes.py and the two formatters:
 - the PRECEDENCE table and each node class's precedence / op attribute
 - the comparator that guards parentheses in every operator handler
Fail-closed: any shape the translator does not recognise raises."""

from __future__ import annotations

import ast
import os
import sys

HERE = os.path.dirname(os.path.abspath(__file__))
sys.path.insert(0, HERE)
import common  # noqa: E402

KIND_OF_CLASS = {
    "LiteralFloat": "KLit", "LiteralInt": "KLit", "Symbol": "KSym", "ArrayAccess": "KAcc",
    "Neg": "KNeg", "Not": "KNot", "Sum": "KSum", "Product": "KProd", "MathFunction": "KCall",
    "Conditional": "KCond",
    "Add": "KBin OAdd", "Sub": "KBin OSub", "Mul": "KBin OMul", "Div": "KBin ODiv",
    "EQ": "KBin OEQ", "NE": "KBin ONE", "LT": "KBin OLT", "GT": "KBin OGT", "LE": "KBin OLE",
    "GE": "KBin OGE", "And": "KBin OAnd", "Or": "KBin OOr",
}
EXPECTED_OP = {"Neg": "-", "Not": "!", "Add": "+", "Sub": "-", "Mul": "*", "Div": "/", "EQ": "==",
               "NE": "!=", "LT": "<", "GT": ">", "LE": "<=", "GE": ">=", "And": "&&", "Or": "||",
               "Sum": "+", "Product": "*"}


class TranslationError(Exception):
    pass


def parse_lnodes(path):
    tree = ast.parse(open(path).read())
    table = None
    classes = {}
    for node in tree.body:
        if isinstance(node, ast.ClassDef) and node.name == "PRECEDENCE":
            table = {}
            for st in node.body:
                if isinstance(st, ast.Assign) and len(st.targets) == 1 and isinstance(st.targets[0], ast.Name) \
                        and isinstance(st.value, ast.Constant) and isinstance(st.value.value, int):
                    table[st.targets[0].id] = st.value.value
                elif isinstance(st, ast.Expr) and isinstance(st.value, ast.Constant):
                    continue
                else:
                    raise TranslationError(f"lnodes.py:{st.lineno}: unrecognised statement in PRECEDENCE")
        elif isinstance(node, ast.ClassDef):
            info = {"bases": [b.id for b in node.bases if isinstance(b, ast.Name)]}
            for st in node.body:
                tgt = None
                if isinstance(st, ast.Assign) and len(st.targets) == 1 and isinstance(st.targets[0], ast.Name):
                    tgt, val = st.targets[0].id, st.value
                elif isinstance(st, ast.AnnAssign) and isinstance(st.target, ast.Name) and st.value is not None:
                    tgt, val = st.target.id, st.value
                if tgt == "precedence":
                    if not (isinstance(val, ast.Attribute) and isinstance(val.value, ast.Name)
                            and val.value.id == "PRECEDENCE"):
                        raise TranslationError(f"lnodes.py:{st.lineno}: precedence is not PRECEDENCE.<NAME>")
                    info["precedence"] = val.attr
                if tgt == "op" and isinstance(val, ast.Constant):
                    info["op"] = val.value
            classes[node.name] = info
    if table is None:
        raise TranslationError("class PRECEDENCE not found")
    return table, classes


def resolve(classes, name, attr):
    seen = set()
    while name in classes and name not in seen:
        seen.add(name)
        if attr in classes[name]:
            return classes[name][attr]
        bases = classes[name]["bases"]
        if not bases:
            break
        name = bases[0]
    return None


CMP = {ast.GtE: "fun child parent => Nat.leb parent child",
       ast.Gt: "fun child parent => Nat.ltb parent child"}


def handler_comparators(path):
    """for each operator handler of a Formatter class: list of comparator lambdas in
    source order. Handlers are recognised by the L.<Type> they are registered for."""
    tree = ast.parse(open(path).read())
    fmt = [n for n in tree.body if isinstance(n, ast.ClassDef) and n.name == "Formatter"]
    if len(fmt) != 1:
        raise TranslationError(f"{path}: class Formatter not found")
    out = {}
    for fn in fmt[0].body:
        if not isinstance(fn, ast.FunctionDef) or fn.name != "_":
            continue
        types = set()
        for d in fn.decorator_list:
            if isinstance(d, ast.Call) and d.args:
                a = d.args[0]
                if isinstance(a, ast.Attribute):
                    types.add(a.attr)
        for a in fn.args.args[1:2]:
            ann = a.annotation
            for sub in ast.walk(ann) if ann is not None else []:
                if isinstance(sub, ast.Attribute) and isinstance(sub.value, ast.Name) and sub.value.id == "L":
                    types.add(sub.attr)
        key = None
        if "NaryOp" in types:
            key = "nary"
        elif "BinOp" in types:
            key = "bin"
        elif types & {"Neg", "Not"}:
            key = "un"
        elif "Conditional" in types:
            key = "cond"
        elif types & {"And", "Or"}:
            key = "andor"
        if key is None:
            continue
        cmps = []
        for sub in ast.walk(fn):
            if isinstance(sub, ast.Compare) and len(sub.ops) == 1 and \
                    isinstance(sub.left, ast.Attribute) and sub.left.attr == "precedence" and \
                    isinstance(sub.comparators[0], ast.Attribute) and sub.comparators[0].attr == "precedence":
                if type(sub.ops[0]) not in CMP:
                    raise TranslationError(f"{path}:{sub.lineno}: comparator {type(sub.ops[0]).__name__} not modelled")
                # left must be the child, right the parent (the handler's own node)
                par = fn.args.args[1].arg
                right = sub.comparators[0].value
                if not (isinstance(right, ast.Name) and right.id == par):
                    raise TranslationError(f"{path}:{sub.lineno}: comparison is not child.precedence <op> {par}.precedence")
                cmps.append((sub.lineno, sub.col_offset, CMP[type(sub.ops[0])]))
        cmps.sort()
        out[key] = [c[2] for c in cmps]
        if key == "un":
            # optional extra guard:  ... or arg.startswith(oper.op)
            guards = [sub for sub in ast.walk(fn) if isinstance(sub, ast.Call)
                      and isinstance(sub.func, ast.Attribute) and sub.func.attr == "startswith"]
            ok_guard = False
            for gcall in guards:
                a0 = gcall.args[0] if gcall.args else None
                if isinstance(a0, ast.Attribute) and a0.attr == "op" and isinstance(a0.value, ast.Name) \
                        and a0.value.id == fn.args.args[1].arg:
                    # must be or-ed with the precedence comparison in the same if
                    for sub in ast.walk(fn):
                        if isinstance(sub, ast.BoolOp) and isinstance(sub.op, ast.Or) and gcall in sub.values \
                                and any(isinstance(x, ast.Compare) for x in sub.values) and len(sub.values) == 2:
                            ok_guard = True
                else:
                    raise TranslationError(f"{path}:{gcall.lineno}: startswith guard of unrecognised shape")
            if guards and not ok_guard:
                raise TranslationError(f"{path}: startswith guard not or-ed with the precedence comparison")
            out["un_guard"] = ok_guard
    want = {"nary": 1, "bin": 2, "un": 1, "cond": 3}
    for k, n in want.items():
        if k == "un_guard":
            continue
        if len(out.get(k, [])) != n:
            raise TranslationError(f"{path}: handler '{k}' has {len(out.get(k, []))} precedence comparisons, expected {n}")
    if "andor" in out and len(out["andor"]) != 2:
        raise TranslationError(f"{path}: And/Or handler has {len(out['andor'])} comparisons, expected 2")
    return out


def check_format_number(path):
    """C/formatter.py _format_number must be exactly:
         complex -> f"({x.real:.16}+I*{x.imag:.16})" ; float -> f"{x:.16}" ; else str(x)"""
    tree = ast.parse(open(path).read())
    fmt = [n for n in tree.body if isinstance(n, ast.ClassDef) and n.name == "Formatter"][0]
    fn = [n for n in fmt.body if isinstance(n, ast.FunctionDef) and n.name == "_format_number"]
    if len(fn) != 1:
        raise TranslationError(f"{path}: _format_number not found")
    body = [st for st in fn[0].body if not (isinstance(st, ast.Expr) and isinstance(st.value, ast.Constant))]
    src = [ast.unparse(st) for st in body]
    want = ["if isinstance(x, complex):\n    return f'({x.real:.16}+I*{x.imag:.16})'\nelif isinstance(x, float):\n    return f'{x:.16}'",
            "return str(x)"]
    if src != want:
        raise TranslationError(f"{path}:{fn[0].lineno}: _format_number has a shape the printer model does not cover: {src!r}")


def check_numba_shapes(path):
    """numba/formatter.py: the handlers whose output shape PyFmt.fmtPy models must have exactly these forms."""
    tree = ast.parse(open(path).read())
    fmt = [n for n in tree.body if isinstance(n, ast.ClassDef) and n.name == "Formatter"][0]
    src = {}
    for fn in fmt.body:
        if not isinstance(fn, ast.FunctionDef) or fn.name != "_":
            continue
        types = set()
        for d in fn.decorator_list:
            if isinstance(d, ast.Call) and d.args and isinstance(d.args[0], ast.Attribute):
                types.add(d.args[0].attr)
        for a in fn.args.args[1:2]:
            for sub in ast.walk(a.annotation) if a.annotation is not None else []:
                if isinstance(sub, ast.Attribute) and isinstance(sub.value, ast.Name) and sub.value.id == "L":
                    types.add(sub.attr)
        body = "\n".join(ast.unparse(st) for st in fn.body if not (isinstance(st, ast.Expr) and isinstance(st.value, ast.Constant)))
        for t in types:
            src[t] = body
    need = {
        "Not": ["if isinstance(oper, L.Not):\n    return f'(not ({arg}))'", "return f'{oper.op}({arg})'", "return f'{oper.op}{arg}'"],
        "Conditional": ["return f'({t} if {c} else {f})'"],
        "And": ["opstr = {'||': 'or', '&&': 'and'}[oper.op]", "return f'{lhs} {opstr} {rhs}'"],
        "ArrayAccess": ["idx = ', '.join((self(ix) for ix in arr.indices))", "return f'{array}[{idx}]'"],
        "NaryOp": ["return f' {oper.op} '.join(args)"],
        "BinOp": ["return f'{lhs} {oper.op} {rhs}'"],
        "LiteralFloat": ["return f'{val.value}'"],
        "LiteralInt": ["return f'{val.value}'"],
        "Symbol": ["return f'{s.name}'"],
    }
    for cls, frags in need.items():
        if cls not in src:
            raise TranslationError(f"{path}: no handler for {cls}")
        for fr in frags:
            if fr not in src[cls]:
                raise TranslationError(f"{path}: handler for {cls} has a shape the Python printer model does not cover (expected {fr!r})")


def generate():
    repo = common.REPO
    check_numba_shapes(os.path.join(repo, "ffcx/codegeneration/numba/formatter.py"))
    check_format_number(os.path.join(repo, "ffcx/codegeneration/C/formatter.py"))
    table, classes = parse_lnodes(os.path.join(repo, "ffcx/codegeneration/lnodes.py"))
    kinds = {}
    for cls, kind in KIND_OF_CLASS.items():
        pn = resolve(classes, cls, "precedence")
        if pn is None or pn not in table:
            raise TranslationError(f"no precedence for class {cls}")
        v = table[pn]
        if kind in kinds and kinds[kind] != v:
            raise TranslationError(f"classes of kind {kind} disagree on precedence")
        kinds[kind] = v
        if cls in EXPECTED_OP:
            op = resolve(classes, cls, "op")
            if op != EXPECTED_OP[cls]:
                raise TranslationError(f"class {cls}: op is {op!r}, the token model expects {EXPECTED_OP[cls]!r}")
    c = handler_comparators(os.path.join(repo, "ffcx/codegeneration/C/formatter.py"))
    py = handler_comparators(os.path.join(repo, "ffcx/codegeneration/numba/formatter.py"))
    lines = ["(* generated by harness/tr_prec.py from lnodes.py, C/formatter.py, numba/formatter.py *)",
             "From Coq Require Import Arith.", "From FFCX Require Import LN Tok.", "",
             "Definition prec_k (k : kind) : nat :=", "  match k with"]
    for kind in ["KLit", "KSym", "KAcc", "KNeg", "KNot", "KSum", "KProd", "KCall", "KCond"]:
        lines.append(f"  | {kind} => {kinds[kind]}")
    for op in ["OAdd", "OSub", "OMul", "ODiv", "OEQ", "ONE", "OLT", "OGT", "OLE", "OGE", "OAnd", "OOr"]:
        lines.append(f"  | KBin {op} => {kinds['KBin ' + op]}")
    lines.append("  end.\n")

    def emit(prefix, d):
        lines.append(f"Definition {prefix}_cmp_nary : nat -> nat -> bool := {d['nary'][0]}.")
        lines.append(f"Definition {prefix}_cmp_bin_l : nat -> nat -> bool := {d['bin'][0]}.")
        lines.append(f"Definition {prefix}_cmp_bin_r : nat -> nat -> bool := {d['bin'][1]}.")
        lines.append(f"Definition {prefix}_cmp_un : nat -> nat -> bool := {d['un'][0]}.")
        lines.append(f"Definition {prefix}_un_guard : bool := {'true' if d.get('un_guard') else 'false'}.")
        lines.append(f"Definition {prefix}_cmp_cond_c : nat -> nat -> bool := {d['cond'][0]}.")
        lines.append(f"Definition {prefix}_cmp_cond_t : nat -> nat -> bool := {d['cond'][1]}.")
        lines.append(f"Definition {prefix}_cmp_cond_f : nat -> nat -> bool := {d['cond'][2]}.")
        ao = d.get("andor", d["bin"])
        lines.append(f"Definition {prefix}_cmp_andor_l : nat -> nat -> bool := {ao[0]}.")
        lines.append(f"Definition {prefix}_cmp_andor_r : nat -> nat -> bool := {ao[1]}.")
    emit("c", c)
    emit("py", py)
    os.makedirs(common.GEN, exist_ok=True)
    with open(os.path.join(common.GEN, "PrecGen.v"), "w") as f:
        f.write("\n".join(lines) + "\n")
    return kinds, c, py


if __name__ == "__main__":
    print(generate())
