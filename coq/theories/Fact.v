(* Fact.v — C01..C04: argument factorisation (ffcx/ir/analysis/factorization.py).
   The scalar integrand, a DAG over modified terminals, is rewritten as
        sum over argkeys  factor(argkey) * product of the argument components in argkey
   by one handler per operator.  Model: the handlers as functions on association lists
   (Python dicts: assignment overwrites), keys = sorted tuples of argument-component indices.
   Theorem: for every integrand that is multilinear in the sense UFL's arity checker enforces
   (a sum never adds an argument-free term to an argument-dependent one; the two operands of a
   product mention different arguments) the factorisation has the value of the integrand, in any
   commutative ring with an additive and multiplicative conjugation that fixes the argument values
   (basis functions are real). *)
From Coq Require Import List Arith Bool Lia Ring Permutation Sorted.
Import ListNotations.

Inductive sx :=
| XArg (i : nat)
| XAtom (k : nat)
| XLit0 | XLit1
| XSum (a b : sx) | XProd (a b : sx) | XConj (a : sx) | XDiv (a b : sx)
| XCond (c a b : sx)
| XOp1 (o : nat) (a : sx) | XOp2 (o : nat) (a b : sx).

Definition key := list nat.
Definition fac := list (key * sx).

Definition keqb (a b : key) : bool := if list_eq_dec Nat.eq_dec a b then true else false.
Lemma keqb_eq a b : keqb a b = true <-> a = b.
Proof. unfold keqb. destruct (list_eq_dec Nat.eq_dec a b); split; intros; auto; discriminate. Qed.
Lemma keqb_refl a : keqb a a = true.
Proof. apply keqb_eq. reflexivity. Qed.

Fixpoint kget (k : key) (m : fac) : option sx :=
  match m with [] => None | (k', v) :: r => if keqb k k' then Some v else kget k r end.

(* d[k] = v *)
Fixpoint kset (k : key) (v : sx) (m : fac) : fac :=
  match m with
  | [] => [(k, v)]
  | (k', v') :: r => if keqb k k' then (k', v) :: r else (k', v') :: kset k v r
  end.

Definition dict_of (l : list (key * sx)) : fac := fold_left (fun acc kv => kset (fst kv) (snd kv) acc) l [].

Definition kmem (k : key) (l : list key) : bool := existsb (keqb k) l.

(* sorted(k0 + k1) *)
Fixpoint ins (x : nat) (l : list nat) : list nat :=
  match l with [] => [x] | y :: r => if x <=? y then x :: l else y :: ins x r end.
Fixpoint isort (l : list nat) : list nat := match l with [] => [] | x :: r => ins x (isort r) end.

Definition keys_union (m0 m1 : fac) : list key :=
  map fst m0 ++ filter (fun k => negb (kmem k (map fst m0))) (map fst m1).

Definition is_nil {A} (l : list A) : bool := match l with [] => true | _ => false end.

Definition h_sum (m0 m1 : fac) : option fac :=
  let ks := keys_union m0 m1 in
  match ks with
  | [] => None
  | k0 :: _ =>
      if forallb (fun k => length k =? length k0) ks then
        Some (map (fun k => (k, match kget k m0, kget k m1 with
                                | Some f0, Some f1 => XSum f0 f1
                                | Some f0, None => f0
                                | None, Some f1 => f1
                                | None, None => XLit0
                                end)) ks)
      else None
  end.

Definition h_prod (m0 : fac) (e0 : sx) (m1 : fac) (e1 : sx) : option fac :=
  if is_nil m0 && is_nil m1 then None
  else if is_nil m0 then Some (map (fun kf => (fst kf, XProd e0 (snd kf))) m1)
  else if is_nil m1 then Some (map (fun kf => (fst kf, XProd e1 (snd kf))) m0)
  else Some (dict_of (flat_map (fun kf0 => map (fun kf1 => (isort (fst kf0 ++ fst kf1), XProd (snd kf0) (snd kf1))) m1) m0)).

Definition h_conj (m0 : fac) : option fac :=
  if is_nil m0 then None else Some (map (fun kf => (fst kf, XConj (snd kf))) m0).

Definition h_div (m0 m1 : fac) (e1 : sx) : option fac :=
  if is_nil m1 then (if is_nil m0 then None else Some (map (fun kf => (fst kf, XDiv (snd kf) e1)) m0))
  else None.

Definition is_zero (e : sx) : bool := match e with XLit0 => true | _ => false end.

Definition h_cond (m0 m1 m2 : fac) (c e1 e2 : sx) : option fac :=
  if negb (is_nil m0) then None
  else if is_nil m1 && is_nil m2 then None
  else if negb (negb (is_nil m1) || is_zero e1) then None
  else if negb (negb (is_nil m2) || is_zero e2) then None
  else
    let ks := keys_union m1 m2 in
    Some (map (fun k => (k, XCond c (match kget k m1 with Some f => f | None => XLit0 end)
                                    (match kget k m2 with Some f => f | None => XLit0 end))) ks).

Definition bind {A B} (o : option A) (f : A -> option B) : option B := match o with Some x => f x | None => None end.

(* compute_argument_factorization on one vertex: operands first, "entirely scalar" vertices get {} *)
Fixpoint factorize (e : sx) : option fac :=
  match e with
  | XArg i => Some [([i], XLit1)]
  | XAtom _ | XLit0 | XLit1 => Some []
  | XSum a b => bind (factorize a) (fun fa => bind (factorize b) (fun fb =>
                  if is_nil fa && is_nil fb then Some [] else h_sum fa fb))
  | XProd a b => bind (factorize a) (fun fa => bind (factorize b) (fun fb =>
                  if is_nil fa && is_nil fb then Some [] else h_prod fa a fb b))
  | XConj a => bind (factorize a) (fun fa => if is_nil fa then Some [] else h_conj fa)
  | XDiv a b => bind (factorize a) (fun fa => bind (factorize b) (fun fb =>
                  if is_nil fa && is_nil fb then Some [] else h_div fa fb b))
  | XCond c a b => bind (factorize c) (fun fc => bind (factorize a) (fun fa => bind (factorize b) (fun fb =>
                  if is_nil fc && is_nil fa && is_nil fb then Some [] else h_cond fc fa fb c a b)))
  | XOp1 _ a => bind (factorize a) (fun fa => if is_nil fa then Some [] else None)
  | XOp2 _ a b => bind (factorize a) (fun fa => bind (factorize b) (fun fb =>
                  if is_nil fa && is_nil fb then Some [] else None))
  end.

(* ------------------------------------------------------------------ *)
Section Sem.
Variable R : Type.
Variables (r0 r1 : R) (radd rmul rsub : R -> R -> R) (ropp rinv rconj : R -> R).
Hypothesis Rth : ring_theory r0 r1 radd rmul rsub ropp (@eq R).
Add Ring Rring : Rth.
Hypothesis conj_add : forall x y, rconj (radd x y) = radd (rconj x) (rconj y).
Hypothesis conj_mul : forall x y, rconj (rmul x y) = rmul (rconj x) (rconj y).
Hypothesis conj_0 : rconj r0 = r0.
Hypothesis conj_1 : rconj r1 = r1.
Variable truth : R -> bool.
Variables (aval atom : nat -> R) (op1 : nat -> R -> R) (op2 : nat -> R -> R -> R).
(* argument values are basis-function values: real *)
Hypothesis args_real : forall i, rconj (aval i) = aval i.

Fixpoint eval (e : sx) : R :=
  match e with
  | XArg i => aval i
  | XAtom k => atom k
  | XLit0 => r0
  | XLit1 => r1
  | XSum a b => radd (eval a) (eval b)
  | XProd a b => rmul (eval a) (eval b)
  | XConj a => rconj (eval a)
  | XDiv a b => rmul (eval a) (rinv (eval b))
  | XCond c a b => if truth (eval c) then eval a else eval b
  | XOp1 o a => op1 o (eval a)
  | XOp2 o a b => op2 o (eval a) (eval b)
  end.

Definition kprod (k : key) : R := fold_right (fun i acc => rmul (aval i) acc) r1 k.
Definition term (kf : key * sx) : R := rmul (eval (snd kf)) (kprod (fst kf)).
Definition fsum (m : fac) : R := fold_right (fun kf acc => radd (term kf) acc) r0 m.

Lemma fsum_app a b : fsum (a ++ b) = radd (fsum a) (fsum b).
Proof. induction a as [|x a IH]; simpl; [ring|]. rewrite IH. ring. Qed.

Lemma kprod_app a b : kprod (a ++ b) = rmul (kprod a) (kprod b).
Proof. induction a as [|x a IH]; simpl; [ring|]. rewrite IH. ring. Qed.

Lemma kprod_perm a b : Permutation a b -> kprod a = kprod b.
Proof.
  induction 1; simpl; try ring.
  - rewrite IHPermutation. reflexivity.
  - congruence.
Qed.

Lemma kprod_conj k : rconj (kprod k) = kprod k.
Proof. induction k as [|i k IH]; simpl; [exact conj_1|]. rewrite conj_mul, args_real, IH. reflexivity. Qed.

(* value of key k in dict m, 0 when absent *)
Definition gv (k : key) (m : fac) : R := match kget k m with Some f => eval f | None => r0 end.
Definition ksum (g : key -> R) (ks : list key) : R := fold_right (fun k acc => radd (rmul (g k) (kprod k)) acc) r0 ks.

Lemma ksum_ext g h ks : (forall k, In k ks -> g k = h k) -> ksum g ks = ksum h ks.
Proof.
  induction ks as [|k ks IH]; intros H; simpl; [reflexivity|].
  rewrite (H k (or_introl eq_refl)), IH; [reflexivity|]. intros k' Hk'. apply H. right. exact Hk'.
Qed.

Lemma ksum_add g h ks : ksum (fun k => radd (g k) (h k)) ks = radd (ksum g ks) (ksum h ks).
Proof. induction ks as [|k ks IH]; simpl; [ring|]. rewrite IH. ring. Qed.

Lemma ksum_zero ks : ksum (fun _ => r0) ks = r0.
Proof. induction ks as [|k ks IH]; simpl; [reflexivity|]. rewrite IH. ring. Qed.

Lemma fsum_map_ksum (F : key -> sx) ks : fsum (map (fun k => (k, F k)) ks) = ksum (fun k => eval (F k)) ks.
Proof. induction ks as [|k ks IH]; simpl; [reflexivity|]. rewrite IH. reflexivity. Qed.

Lemma kget_notin k m : ~ In k (map fst m) -> kget k m = None.
Proof.
  induction m as [|[k' v] m IH]; simpl; intros H; [reflexivity|].
  destruct (keqb k k') eqn:E; [apply keqb_eq in E; subst; exfalso; apply H; left; reflexivity|].
  apply IH. intros X. apply H. right. exact X.
Qed.

Lemma kget_in k m : In k (map fst m) -> exists v, kget k m = Some v.
Proof.
  induction m as [|[k' v] m IH]; simpl; intros H; [contradiction|].
  destruct (keqb k k') eqn:E; [eexists; reflexivity|].
  destruct H as [H|H]; [subst; rewrite keqb_refl in E; discriminate|]. apply IH. exact H.
Qed.

(* one key singled out of a duplicate-free enumeration *)
Lemma ksum_single k0 a g ks :
  NoDup ks -> In k0 ks -> g k0 = r0 ->
  ksum (fun k => if keqb k k0 then a else g k) ks = radd (rmul a (kprod k0)) (ksum g ks).
Proof.
  induction ks as [|k ks IH]; intros ND Hin Hg; [contradiction|].
  inversion ND as [|? ? Hnk ND']; subst. simpl.
  destruct (keqb k k0) eqn:E.
  - apply keqb_eq in E. subst k. rewrite Hg.
    rewrite (ksum_ext (fun k => if keqb k k0 then a else g k) g).
    + ring.
    + intros k' Hk'. destruct (keqb k' k0) eqn:E'; [apply keqb_eq in E'; subst; contradiction|reflexivity].
  - destruct Hin as [Hin|Hin]; [subst; rewrite keqb_refl in E; discriminate|].
    rewrite (IH ND' Hin Hg). ring.
Qed.

Lemma fsum_lookup m : forall ks,
  NoDup (map fst m) -> NoDup ks -> incl (map fst m) ks ->
  ksum (fun k => gv k m) ks = fsum m.
Proof.
  induction m as [|[k0 f0] m IH]; intros ks NDm NDk Hincl.
  - simpl. apply ksum_zero.
  - simpl in NDm. inversion NDm as [|? ? Hn NDm']; subst.
    rewrite (ksum_ext (fun k => gv k ((k0, f0) :: m)) (fun k => if keqb k k0 then eval f0 else gv k m)).
    + rewrite ksum_single; [| exact NDk | apply Hincl; left; reflexivity
                            | unfold gv; rewrite (kget_notin _ _ Hn); reflexivity].
      rewrite IH; [reflexivity | exact NDm' | exact NDk | intros x Hx; apply Hincl; right; exact Hx].
    + intros k _. unfold gv. simpl. destruct (keqb k k0); reflexivity.
Qed.

(* ---- sorting ---- *)
Definition srt (l : list nat) : Prop := StronglySorted le l.

Lemma ins_perm x l : Permutation (x :: l) (ins x l).
Proof.
  induction l as [|y r IH]; simpl; [apply Permutation_refl|].
  destruct (x <=? y); [apply Permutation_refl|].
  eapply Permutation_trans; [apply perm_swap|]. apply perm_skip. exact IH.
Qed.

Lemma isort_perm l : Permutation l (isort l).
Proof.
  induction l as [|x r IH]; simpl; [constructor|].
  eapply Permutation_trans; [apply perm_skip; exact IH|]. apply ins_perm.
Qed.

Lemma ins_srt x l : srt l -> srt (ins x l).
Proof.
  unfold srt. induction l as [|y r IH]; intros H; simpl.
  - constructor; constructor.
  - destruct (x <=? y) eqn:E.
    + apply Nat.leb_le in E. constructor; [exact H|].
      inversion H as [|? ? Hr Hy]; subst. constructor; [exact E|].
      eapply Forall_impl; [|exact Hy]. intros a Ha. simpl in Ha. lia.
    + apply Nat.leb_gt in E. inversion H as [|? ? Hr Hy]; subst.
      constructor; [apply IH; exact Hr|].
      eapply Permutation_Forall; [apply ins_perm|]. constructor; [lia|exact Hy].
Qed.

Lemma isort_srt l : srt (isort l).
Proof. induction l as [|x r IH]; simpl; [constructor|apply ins_srt; exact IH]. Qed.

Lemma srt_perm_eq l1 : forall l2, srt l1 -> srt l2 -> Permutation l1 l2 -> l1 = l2.
Proof.
  induction l1 as [|x r IH]; intros l2 S1 S2 P.
  - apply Permutation_nil in P. subst. reflexivity.
  - destruct l2 as [|y s]; [apply Permutation_sym, Permutation_nil in P; discriminate|].
    inversion S1 as [|? ? Sr Hx]; subst. inversion S2 as [|? ? Ss Hy]; subst.
    assert (Iy : In y (x :: r)) by (eapply Permutation_in; [apply Permutation_sym; exact P|left; reflexivity]).
    assert (Ix : In x (y :: s)) by (eapply Permutation_in; [exact P|left; reflexivity]).
    assert (x = y).
    { destruct Iy as [->|Iy]; [reflexivity|]. destruct Ix as [->|Ix]; [reflexivity|].
      rewrite Forall_forall in Hx, Hy. pose proof (Hx y Iy). pose proof (Hy x Ix). lia. }
    subst y. f_equal. apply IH; try assumption. eapply Permutation_cons_inv; exact P.
Qed.

Lemma kprod_isort k : kprod (isort k) = kprod k.
Proof. apply kprod_perm. apply Permutation_sym. apply isort_perm. Qed.

(* ---- which arguments an expression mentions; what UFL's arity checker guarantees ---- *)
Variable argn : nat -> nat.      (* argument number (test = 0, trial = 1, ...) of an argument component *)

Fixpoint nums (e : sx) : list nat :=
  match e with
  | XArg i => [argn i]
  | XAtom _ | XLit0 | XLit1 => []
  | XSum a b | XProd a b | XDiv a b | XOp2 _ a b => nums a ++ nums b
  | XConj a | XOp1 _ a => nums a
  | XCond c a b => nums c ++ nums a ++ nums b
  end.

Definition hasargs (e : sx) : bool := negb (is_nil (nums e)).

Fixpoint wf (e : sx) : Prop :=
  match e with
  | XSum a b => wf a /\ wf b /\ hasargs a = hasargs b
  | XProd a b => wf a /\ wf b /\ (forall n, In n (nums a) -> In n (nums b) -> False)
  | XDiv a b | XOp2 _ a b => wf a /\ wf b
  | XConj a | XOp1 _ a => wf a
  | XCond c a b => wf c /\ wf a /\ wf b
  | _ => True
  end.

Definition keys_ok (e : sx) (m : fac) : Prop :=
  NoDup (map fst m) /\
  (forall k, In k (map fst m) -> srt k /\ forall i, In i k -> In (argn i) (nums e)) /\
  is_nil m = is_nil (nums e).

Lemma is_nil_map {A B} (f : A -> B) l : is_nil (map f l) = is_nil l.
Proof. destruct l; reflexivity. Qed.

Lemma is_nil_app {A} (a b : list A) : is_nil (a ++ b) = is_nil a && is_nil b.
Proof. destruct a; reflexivity. Qed.

Lemma map_fst_map {A} (g : key * A -> A) (m : list (key * A)) :
  map fst (map (fun kf => (fst kf, g kf)) m) = map fst m.
Proof. induction m as [|x m IH]; simpl; [reflexivity|]. rewrite IH. reflexivity. Qed.

Lemma fsum_scale_l (c : sx) m : fsum (map (fun kf => (fst kf, XProd c (snd kf))) m) = rmul (eval c) (fsum m).
Proof. induction m as [|[k f] m IH]; simpl; [ring|]. rewrite IH. unfold term. simpl. ring. Qed.

Lemma fsum_conj m : fsum (map (fun kf => (fst kf, XConj (snd kf))) m) = rconj (fsum m).
Proof.
  induction m as [|[k f] m IH]; simpl; [symmetry; exact conj_0|].
  rewrite IH, conj_add. unfold term. simpl. rewrite conj_mul, kprod_conj. reflexivity.
Qed.

Lemma fsum_div (d : sx) m : fsum (map (fun kf => (fst kf, XDiv (snd kf) d)) m) = rmul (fsum m) (rinv (eval d)).
Proof. induction m as [|[k f] m IH]; simpl; [ring|]. rewrite IH. unfold term. simpl. ring. Qed.

(* ---- keys_union ---- *)
Lemma kmem_in k l : kmem k l = true <-> In k l.
Proof.
  unfold kmem. rewrite existsb_exists. split.
  - intros [x [Hx E]]. apply keqb_eq in E. subst. exact Hx.
  - intros H. exists k. split; [exact H|apply keqb_refl].
Qed.

Lemma keys_union_in k m0 m1 : In k (keys_union m0 m1) <-> In k (map fst m0) \/ In k (map fst m1).
Proof.
  unfold keys_union. rewrite in_app_iff, filter_In. split.
  - intros [H|[H _]]; auto.
  - intros [H|H]; [left; exact H|].
    destruct (kmem k (map fst m0)) eqn:E; [left; apply kmem_in; exact E|right; split; [exact H|reflexivity]].
Qed.

Lemma NoDup_filter {A} (f : A -> bool) l : NoDup l -> NoDup (filter f l).
Proof.
  induction 1 as [|x l Hx ND IH]; simpl; [constructor|].
  destruct (f x); [constructor; [rewrite filter_In; tauto|exact IH]|exact IH].
Qed.

Lemma NoDup_app_intro {A} (a b : list A) :
  NoDup a -> NoDup b -> (forall x, In x a -> In x b -> False) -> NoDup (a ++ b).
Proof.
  induction a as [|x a IH]; intros Na Nb Hd; simpl; [exact Nb|].
  inversion Na as [|? ? Hx Na']; subst. constructor.
  - rewrite in_app_iff. intros [H|H]; [contradiction|]. apply (Hd x); [left; reflexivity|exact H].
  - apply IH; [exact Na'|exact Nb|]. intros y Ha Hb. apply (Hd y); [right; exact Ha|exact Hb].
Qed.

Lemma keys_union_nodup m0 m1 : NoDup (map fst m0) -> NoDup (map fst m1) -> NoDup (keys_union m0 m1).
Proof.
  intros N0 N1. unfold keys_union. apply NoDup_app_intro; [exact N0|apply NoDup_filter; exact N1|].
  intros x H0 H1. apply filter_In in H1. destruct H1 as [_ H1].
  apply kmem_in in H0. rewrite H0 in H1. discriminate.
Qed.

Lemma map_fst_pair (F : key -> sx) ks : map fst (map (fun k => (k, F k)) ks) = ks.
Proof. induction ks as [|k ks IH]; simpl; [reflexivity|]. rewrite IH. reflexivity. Qed.

Lemma gv_some k m f : kget k m = Some f -> gv k m = eval f.
Proof. unfold gv. intros ->. reflexivity. Qed.
Lemma gv_none k m : kget k m = None -> gv k m = r0.
Proof. unfold gv. intros ->. reflexivity. Qed.

Lemma h_sum_sound m0 m1 m :
  NoDup (map fst m0) -> NoDup (map fst m1) -> h_sum m0 m1 = Some m ->
  fsum m = radd (fsum m0) (fsum m1) /\ map fst m = keys_union m0 m1.
Proof.
  intros N0 N1 H. unfold h_sum in H.
  set (F := fun k => match kget k m0, kget k m1 with
                     | Some f0, Some f1 => XSum f0 f1 | Some f0, None => f0
                     | None, Some f1 => f1 | None, None => XLit0 end) in *.
  assert (Hm : m = map (fun k => (k, F k)) (keys_union m0 m1)).
  { destruct (keys_union m0 m1) as [|k0 ks']; [discriminate|].
    destruct (forallb _ _); [|discriminate]. injection H as <-. reflexivity. }
  subst m. split; [|apply map_fst_pair].
  rewrite fsum_map_ksum.
  rewrite (ksum_ext _ (fun k => radd (gv k m0) (gv k m1))).
  - rewrite ksum_add.
    assert (NDk : NoDup (keys_union m0 m1)) by (apply keys_union_nodup; assumption).
    rewrite (fsum_lookup m0), (fsum_lookup m1); try assumption; try reflexivity.
    + intros x Hx. apply keys_union_in. right. exact Hx.
    + intros x Hx. apply keys_union_in. left. exact Hx.
  - intros k _. unfold gv, F. destruct (kget k m0), (kget k m1); simpl; ring.
Qed.

Lemma h_cond_sound m0 m1 m2 c e1 e2 m :
  NoDup (map fst m1) -> NoDup (map fst m2) -> h_cond m0 m1 m2 c e1 e2 = Some m ->
  m0 = [] /\ (is_nil m1 = true -> e1 = XLit0) /\ (is_nil m2 = true -> e2 = XLit0) /\
  is_nil m = is_nil m1 && is_nil m2 /\
  map fst m = keys_union m1 m2 /\
  fsum m = if truth (eval c) then fsum m1 else fsum m2.
Proof.
  intros N1 N2 H. unfold h_cond in H.
  destruct m0 as [|x m0]; simpl in H; [|discriminate].
  destruct (is_nil m1 && is_nil m2) eqn:Eb; [discriminate|].
  destruct (negb (is_nil m1) || is_zero e1) eqn:E1; simpl in H; [|discriminate].
  destruct (negb (is_nil m2) || is_zero e2) eqn:E2; simpl in H; [|discriminate].
  inversion H; subst m; clear H.
  split; [reflexivity|]. split; [|split; [|split; [|split]]].
  - intros X. rewrite X in E1. simpl in E1. destruct e1; try discriminate. reflexivity.
  - intros X. rewrite X in E2. simpl in E2. destruct e2; try discriminate. reflexivity.
  - rewrite is_nil_map. unfold keys_union. rewrite is_nil_app.
    destruct m1 as [|a m1]; simpl; [|reflexivity]. destruct m2 as [|b m2]; [simpl in Eb; discriminate|reflexivity].
  - apply map_fst_pair.
  - rewrite (fsum_map_ksum (fun k => XCond c match kget k m1 with Some f => f | None => XLit0 end
                                              match kget k m2 with Some f => f | None => XLit0 end)).
    assert (NDk : NoDup (keys_union m1 m2)) by (apply keys_union_nodup; assumption).
    destruct (truth (eval c)) eqn:Et.
    + rewrite (ksum_ext _ (fun k => gv k m1)).
      * apply fsum_lookup; try assumption. intros x Hx. apply keys_union_in. left. exact Hx.
      * intros k _. simpl. rewrite Et. unfold gv. destruct (kget k m1); reflexivity.
    + rewrite (ksum_ext _ (fun k => gv k m2)).
      * apply fsum_lookup; try assumption. intros x Hx. apply keys_union_in. right. exact Hx.
      * intros k _. simpl. rewrite Et. unfold gv. destruct (kget k m2); reflexivity.
Qed.

(* ---- product of two argument-dependent operands ---- *)
Lemma kset_fresh k v acc : ~ In k (map fst acc) -> kset k v acc = acc ++ [(k, v)].
Proof.
  induction acc as [|[k' v'] acc IH]; simpl; intros H; [reflexivity|].
  destruct (keqb k k') eqn:E; [apply keqb_eq in E; subst; exfalso; apply H; left; reflexivity|].
  rewrite IH; [reflexivity|]. intros X. apply H. right. exact X.
Qed.

Lemma dict_of_nodup_gen l : forall acc,
  NoDup (map fst (acc ++ l)) ->
  fold_left (fun acc kv => kset (fst kv) (snd kv) acc) l acc = acc ++ l.
Proof.
  induction l as [|[k v] l IH]; intros acc ND; simpl; [rewrite app_nil_r; reflexivity|].
  rewrite kset_fresh.
  - rewrite IH; [rewrite <- app_assoc; reflexivity|]. rewrite <- app_assoc. exact ND.
  - rewrite map_app in ND. simpl in ND. apply NoDup_remove_2 in ND.
    intros X. apply ND. rewrite in_app_iff. left. exact X.
Qed.

Lemma dict_of_nodup l : NoDup (map fst l) -> dict_of l = l.
Proof. intros H. unfold dict_of. rewrite dict_of_nodup_gen; [reflexivity|exact H]. Qed.

Definition pairs (m0 m1 : fac) : list (key * sx) :=
  flat_map (fun kf0 => map (fun kf1 => (isort (fst kf0 ++ fst kf1), XProd (snd kf0) (snd kf1))) m1) m0.

Lemma fsum_pairs m0 m1 : fsum (pairs m0 m1) = rmul (fsum m0) (fsum m1).
Proof.
  induction m0 as [|[k0 f0] m0 IH]; [simpl; ring|].
  assert (E : fsum (map (fun kf1 => (isort (k0 ++ fst kf1), XProd f0 (snd kf1))) m1)
              = rmul (term (k0, f0)) (fsum m1)).
  { clear IH. induction m1 as [|[k1 f1] m1 IH1]; simpl; [ring|].
    rewrite IH1. unfold term. simpl. rewrite kprod_isort, kprod_app. ring. }
  change (pairs ((k0, f0) :: m0) m1) with
    (map (fun kf1 => (isort (k0 ++ fst kf1), XProd f0 (snd kf1))) m1 ++ pairs m0 m1).
  rewrite fsum_app, IH, E. simpl. ring.
Qed.

Lemma perm_filter (f : nat -> bool) l l' : Permutation l l' -> Permutation (filter f l) (filter f l').
Proof.
  induction 1; simpl.
  - constructor.
  - destruct (f x); [constructor|]; assumption.
  - destruct (f x), (f y); try apply Permutation_refl. apply perm_swap.
  - eapply Permutation_trans; eassumption.
Qed.

Lemma filter_all (f : nat -> bool) l : (forall x, In x l -> f x = true) -> filter f l = l.
Proof.
  induction l as [|x l IH]; intros H; simpl; [reflexivity|].
  rewrite (H x (or_introl eq_refl)), IH; [reflexivity|]. intros y Hy. apply H. right. exact Hy.
Qed.

Lemma filter_none (f : nat -> bool) l : (forall x, In x l -> f x = false) -> filter f l = [].
Proof.
  induction l as [|x l IH]; intros H; simpl; [reflexivity|].
  rewrite (H x (or_introl eq_refl)), IH; [reflexivity|]. intros y Hy. apply H. right. exact Hy.
Qed.

Definition nmem (n : nat) (l : list nat) : bool := existsb (Nat.eqb n) l.
Lemma nmem_in n l : nmem n l = true <-> In n l.
Proof.
  unfold nmem. rewrite existsb_exists. split.
  - intros [x [Hx E]]. apply Nat.eqb_eq in E. subst. exact Hx.
  - intros H. exists n. split; [exact H|apply Nat.eqb_refl].
Qed.

(* merged keys determine their two halves when the halves mention different arguments *)
Lemma merge_inj (A B : list nat) k0 k0' k1 k1' :
  (forall n, In n A -> In n B -> False) ->
  srt k0 -> srt k0' -> srt k1 -> srt k1' ->
  (forall i, In i k0 -> In (argn i) A) -> (forall i, In i k0' -> In (argn i) A) ->
  (forall i, In i k1 -> In (argn i) B) -> (forall i, In i k1' -> In (argn i) B) ->
  isort (k0 ++ k1) = isort (k0' ++ k1') -> k0 = k0' /\ k1 = k1'.
Proof.
  intros Hd S0 S0' S1 S1' A0 A0' B1 B1' E.
  assert (P : Permutation (k0 ++ k1) (k0' ++ k1')).
  { eapply Permutation_trans; [apply isort_perm|]. rewrite E. apply Permutation_sym, isort_perm. }
  set (inA := fun i => nmem (argn i) A).
  assert (FA : forall k k', (forall i, In i k -> In (argn i) A) -> (forall i, In i k' -> In (argn i) B) ->
                            filter inA (k ++ k') = k /\ filter (fun i => negb (inA i)) (k ++ k') = k').
  { intros k k' Hk Hk'. rewrite !filter_app. split.
    - rewrite (filter_all inA k), (filter_none inA k'); [apply app_nil_r| |].
      + intros x Hx. unfold inA. destruct (nmem (argn x) A) eqn:X; [|reflexivity].
        apply nmem_in in X. exfalso. apply (Hd (argn x)); [exact X|apply Hk'; exact Hx].
      + intros x Hx. apply nmem_in. apply Hk. exact Hx.
    - rewrite (filter_none _ k), (filter_all _ k'); [reflexivity| |].
      + intros x Hx. unfold inA. destruct (nmem (argn x) A) eqn:X; [|reflexivity].
        apply nmem_in in X. exfalso. apply (Hd (argn x)); [exact X|apply Hk'; exact Hx].
      + intros x Hx. unfold inA. assert (X : nmem (argn x) A = true) by (apply nmem_in; apply Hk; exact Hx).
        rewrite X. reflexivity. }
  destruct (FA k0 k1 A0 B1) as [F1 F2]. destruct (FA k0' k1' A0' B1') as [F1' F2'].
  split.
  - apply srt_perm_eq; try assumption. rewrite <- F1, <- F1'. apply perm_filter. exact P.
  - apply srt_perm_eq; try assumption. rewrite <- F2, <- F2'. apply perm_filter. exact P.
Qed.

Lemma NoDup_pairs {X Y Z} (f : X -> Y -> Z) la lb :
  NoDup la -> NoDup lb ->
  (forall a a' b b', In a la -> In a' la -> In b lb -> In b' lb -> f a b = f a' b' -> a = a' /\ b = b') ->
  NoDup (flat_map (fun a => map (f a) lb) la).
Proof.
  intros Na Nb Inj. induction la as [|a la IH]; simpl; [constructor|].
  inversion Na as [|? ? Ha Na']; subst.
  apply NoDup_app_intro.
  - clear IH. induction lb as [|b lb IHb]; simpl; [constructor|].
    inversion Nb as [|? ? Hb Nb']; subst. constructor.
    + intros X0. apply in_map_iff in X0. destruct X0 as [b' [E Hb']].
      destruct (Inj a a b' b) as [_ Eb]; [left; reflexivity|left; reflexivity|right; exact Hb'|left; reflexivity|exact E|].
      subst. contradiction.
    + apply IHb; [exact Nb'|]. intros a1 a2 b1 b2 H1 H2 H3 H4. apply Inj; try assumption; right; assumption.
  - apply IH; [exact Na'|]. intros a1 a2 b1 b2 H1 H2. apply Inj; right; assumption.
  - intros z Hz1 Hz2. apply in_map_iff in Hz1. destruct Hz1 as [b [E1 Hb]].
    apply in_flat_map in Hz2. destruct Hz2 as [a' [Ha' Hz2]]. apply in_map_iff in Hz2. destruct Hz2 as [b' [E2 Hb']].
    destruct (Inj a a' b b') as [Ea _]; [left; reflexivity|right; exact Ha'|exact Hb|exact Hb'|congruence|].
    subst. contradiction.
Qed.

Lemma pairs_cons k0 f0 m0 m1 :
  pairs ((k0, f0) :: m0) m1 = map (fun kf1 => (isort (k0 ++ fst kf1), XProd f0 (snd kf1))) m1 ++ pairs m0 m1.
Proof. reflexivity. Qed.

Lemma map_fst_pairs m0 m1 :
  map fst (pairs m0 m1) = flat_map (fun k0 => map (fun k1 => isort (k0 ++ k1)) (map fst m1)) (map fst m0).
Proof.
  induction m0 as [|[k0 f0] m0 IH]; [reflexivity|].
  rewrite pairs_cons, map_app. simpl. f_equal; [rewrite !map_map; reflexivity | exact IH].
Qed.

(* decidable form of [wf], evaluated on every integrand exported from the real pipeline *)
Fixpoint wfb (e : sx) : bool :=
  match e with
  | XSum a b => wfb a && wfb b && Bool.eqb (hasargs a) (hasargs b)
  | XProd a b => wfb a && wfb b && forallb (fun n => negb (nmem n (nums b))) (nums a)
  | XDiv a b | XOp2 _ a b => wfb a && wfb b
  | XConj a | XOp1 _ a => wfb a
  | XCond c a b => wfb c && wfb a && wfb b
  | _ => true
  end.

Lemma wfb_wf e : wfb e = true -> wf e.
Proof.
  induction e as [i|k| | |a IHa b IHb|a IHa b IHb|a IHa|a IHa b IHb|c IHc a IHa b IHb|o a IHa|o a IHa b IHb];
    simpl; intros H; try exact I; repeat rewrite andb_true_iff in H.
  - destruct H as [[Ha Hb] He]. split; [auto|]. split; [auto|]. apply Bool.eqb_prop. exact He.
  - destruct H as [[Ha Hb] He]. split; [auto|]. split; [auto|].
    intros n Hna Hnb. rewrite forallb_forall in He. specialize (He n Hna).
    apply negb_true_iff in He. apply nmem_in in Hnb. congruence.
  - auto.
  - destruct H as [Ha Hb]. auto.
  - destruct H as [[Hc Ha] Hb]. auto.
  - auto.
  - destruct H as [Ha Hb]. auto.
Qed.

Lemma is_nil_pairs m0 m1 : is_nil m0 = false -> is_nil m1 = false -> is_nil (pairs m0 m1) = false.
Proof. destruct m0 as [|[k0 f0] m0], m1 as [|[k1 f1] m1]; simpl; intros; try discriminate. reflexivity. Qed.

Lemma in_isort i l : In i (isort l) -> In i l.
Proof. intros H. eapply Permutation_in; [apply Permutation_sym, isort_perm|exact H]. Qed.

Lemma is_nil_keys_union m0 m1 : is_nil (keys_union m0 m1) = is_nil m0 && is_nil m1.
Proof. destruct m0 as [|a m0]; [|reflexivity]. destruct m1 as [|b m1]; reflexivity. Qed.

Lemma is_nil_of_keys (m : fac) ks : map fst m = ks -> is_nil m = is_nil ks.
Proof. intros <-. destruct m; reflexivity. Qed.

Lemma nodup_pairs_keys a b fa fb :
  (forall n, In n (nums a) -> In n (nums b) -> False) ->
  keys_ok a fa -> keys_ok b fb -> NoDup (map fst (pairs fa fb)).
Proof.
  intros Hd [Na [Ka _]] [Nb [Kb _]]. rewrite map_fst_pairs.
  apply NoDup_pairs; [exact Na|exact Nb|].
  intros k0 k0' k1 k1' H0 H0' H1 H1' E.
  destruct (Ka k0 H0) as [S0 A0]. destruct (Ka k0' H0') as [S0' A0'].
  destruct (Kb k1 H1) as [S1 B1]. destruct (Kb k1' H1') as [S1' B1'].
  eapply merge_inj; eauto.
Qed.

Lemma keys_ok_nil e : is_nil (@nil (key * sx)) = is_nil (nums e) -> keys_ok e [].
Proof. intros H. split; [simpl; constructor|]. split; [intros k []|exact H]. Qed.

Ltac nil_tac :=
  simpl; rewrite ?is_nil_map, ?is_nil_app; simpl;
  repeat match goal with
         | H : _ = is_nil (nums ?a) |- context [is_nil (nums ?a)] => rewrite <- H
         end;
  repeat match goal with
         | H : is_nil ?l = _ |- context [is_nil ?l] => rewrite H
         end;
  try reflexivity.

Theorem factorize_sound : forall e m,
  wf e -> factorize e = Some m ->
  keys_ok e m /\ (is_nil m = false -> eval e = fsum m).
Proof.
  induction e as [i|k| | |a IHa b IHb|a IHa b IHb|a IHa|a IHa b IHb|c IHc a IHa b IHb|o a IHa|o a IHa b IHb];
    intros m W H; simpl in H.
  - (* argument *)
    injection H as <-. split.
    + split; [constructor; [intros []|constructor]|]. split; [|reflexivity].
      intros k [<-|[]]. split; [repeat constructor|]. intros j [<-|[]]. left. reflexivity.
    + intros _. simpl. unfold term. simpl. ring.
  - injection H as <-. split; [apply keys_ok_nil; reflexivity|discriminate].
  - injection H as <-. split; [apply keys_ok_nil; reflexivity|discriminate].
  - injection H as <-. split; [apply keys_ok_nil; reflexivity|discriminate].
  - (* sum *)
    destruct W as [Wa [Wb Wab]].
    destruct (factorize a) as [fa|]; [|discriminate]. destruct (factorize b) as [fb|]; [|discriminate]. simpl in H.
    destruct (IHa fa Wa eq_refl) as [[Na [Ka Za]] Ea]. destruct (IHb fb Wb eq_refl) as [[Nb [Kb Zb]] Eb].
    assert (Zab : is_nil fa = is_nil fb).
    { rewrite Za, Zb. unfold hasargs in Wab. destruct (is_nil (nums a)), (is_nil (nums b)); simpl in Wab; congruence. }
    destruct (is_nil fa && is_nil fb) eqn:Eb2.
    + injection H as <-. apply andb_true_iff in Eb2. destruct Eb2 as [X Y].
      split; [|discriminate]. apply keys_ok_nil.
      simpl. rewrite is_nil_app. rewrite <- Za, <- Zb, X, Y. reflexivity.
    + assert (Fa : is_nil fa = false) by (destruct (is_nil fa), (is_nil fb); simpl in *; congruence).
      assert (Fb : is_nil fb = false) by congruence.
      destruct (h_sum_sound fa fb m Na Nb H) as [Es Ks].
      split.
      * split; [rewrite Ks; apply keys_union_nodup; assumption|]. split.
        -- intros k Hk. rewrite Ks in Hk. apply keys_union_in in Hk. simpl.
           destruct Hk as [Hk|Hk]; [destruct (Ka k Hk) as [S I0]|destruct (Kb k Hk) as [S I0]];
             (split; [exact S|]); intros j Hj; rewrite in_app_iff; [left|right]; apply I0; exact Hj.
        -- rewrite (is_nil_of_keys m _ Ks), is_nil_keys_union. simpl. rewrite is_nil_app, <- Za, <- Zb. reflexivity.
      * intros _. simpl. rewrite Es, (Ea Fa), (Eb Fb). reflexivity.
  - (* product *)
    destruct W as [Wa [Wb Wab]].
    destruct (factorize a) as [fa|]; [|discriminate]. destruct (factorize b) as [fb|]; [|discriminate]. simpl in H.
    pose proof (IHa fa Wa eq_refl) as [KOa Ea]. pose proof (IHb fb Wb eq_refl) as [KOb Eb].
    pose proof KOa as [Na [Ka Za]]. pose proof KOb as [Nb [Kb Zb]].
    destruct (is_nil fa && is_nil fb) eqn:Eb2.
    + injection H as <-. apply andb_true_iff in Eb2. destruct Eb2 as [X Y].
      split; [|discriminate]. apply keys_ok_nil.
      simpl. rewrite is_nil_app. rewrite <- Za, <- Zb, X, Y. reflexivity.
    + unfold h_prod in H. rewrite Eb2 in H.
      destruct (is_nil fa) eqn:Fa.
      * (* non-arg * arg *)
        simpl in Eb2. injection H as <-. split.
        -- split; [rewrite map_fst_map; exact Nb|]. split.
           ++ intros k Hk. rewrite map_fst_map in Hk. destruct (Kb k Hk) as [S I0]. split; [exact S|].
              intros j Hj. simpl. rewrite in_app_iff. right. apply I0. exact Hj.
           ++ nil_tac.
        -- intros _. simpl. rewrite fsum_scale_l, (Eb Eb2). reflexivity.
      * destruct (is_nil fb) eqn:Fb.
        -- (* arg * non-arg *)
           injection H as <-. split.
           ++ split; [rewrite map_fst_map; exact Na|]. split.
              ** intros k Hk. rewrite map_fst_map in Hk. destruct (Ka k Hk) as [S I0]. split; [exact S|].
                 intros j Hj. simpl. rewrite in_app_iff. left. apply I0. exact Hj.
              ** nil_tac.
           ++ intros _. simpl. rewrite fsum_scale_l, (Ea eq_refl). ring.
        -- (* arg * arg *)
           injection H as <-.
           assert (ND : NoDup (map fst (pairs fa fb))) by (eapply nodup_pairs_keys; eauto).
           fold (pairs fa fb). rewrite (dict_of_nodup _ ND). split.
           ++ split; [exact ND|]. split.
              ** intros k Hk. rewrite map_fst_pairs in Hk. apply in_flat_map in Hk. destruct Hk as [k0 [H0 Hk]].
                 apply in_map_iff in Hk. destruct Hk as [k1 [<- H1]].
                 split; [apply isort_srt|]. intros j Hj. apply in_isort in Hj. simpl. rewrite in_app_iff in *.
                 destruct Hj as [Hj|Hj]; [left; apply (proj2 (Ka k0 H0)); exact Hj|right; apply (proj2 (Kb k1 H1)); exact Hj].
              ** rewrite (is_nil_pairs _ _ Fa Fb). nil_tac.
           ++ intros _. simpl. rewrite fsum_pairs, (Ea eq_refl), (Eb eq_refl). reflexivity.
  - (* conj *)
    destruct (factorize a) as [fa|]; [|discriminate]. simpl in H.
    destruct (IHa fa W eq_refl) as [[Na [Ka Za]] Ea].
    destruct (is_nil fa) eqn:Fa.
    + injection H as <-. split; [|discriminate]. apply keys_ok_nil. simpl. rewrite <- Za. reflexivity.
    + unfold h_conj in H. rewrite Fa in H. injection H as <-. split.
      * split; [rewrite map_fst_map; exact Na|]. split.
        -- intros k Hk. rewrite map_fst_map in Hk. exact (Ka k Hk).
        -- nil_tac.
      * intros _. simpl. rewrite fsum_conj, (Ea eq_refl). reflexivity.
  - (* division *)
    destruct W as [Wa Wb].
    destruct (factorize a) as [fa|]; [|discriminate]. destruct (factorize b) as [fb|]; [|discriminate]. simpl in H.
    destruct (IHa fa Wa eq_refl) as [[Na [Ka Za]] Ea]. destruct (IHb fb Wb eq_refl) as [[Nb [Kb Zb]] Eb].
    destruct (is_nil fa && is_nil fb) eqn:Eb2.
    + injection H as <-. apply andb_true_iff in Eb2. destruct Eb2 as [X Y].
      split; [|discriminate]. apply keys_ok_nil.
      simpl. rewrite is_nil_app. rewrite <- Za, <- Zb, X, Y. reflexivity.
    + unfold h_div in H. destruct (is_nil fb) eqn:Fb; [|discriminate].
      destruct (is_nil fa) eqn:Fa; [discriminate|]. injection H as <-. split.
      * split; [rewrite map_fst_map; exact Na|]. split.
        -- intros k Hk. rewrite map_fst_map in Hk. destruct (Ka k Hk) as [S I0]. split; [exact S|].
           intros j Hj. simpl. rewrite in_app_iff. left. apply I0. exact Hj.
        -- nil_tac.
      * intros _. simpl. rewrite fsum_div, (Ea eq_refl). reflexivity.
  - (* conditional *)
    destruct W as [Wc [Wa Wb]].
    destruct (factorize c) as [fc|]; [|discriminate]. destruct (factorize a) as [fa|]; [|discriminate].
    destruct (factorize b) as [fb|]; [|discriminate]. simpl in H.
    destruct (IHc fc Wc eq_refl) as [[Nc [Kc Zc]] Ec].
    destruct (IHa fa Wa eq_refl) as [[Na [Ka Za]] Ea]. destruct (IHb fb Wb eq_refl) as [[Nb [Kb Zb]] Eb].
    destruct (is_nil fc && is_nil fa && is_nil fb) eqn:Eb3.
    + injection H as <-. apply andb_true_iff in Eb3. destruct Eb3 as [XY Z]. apply andb_true_iff in XY. destruct XY as [X Y].
      split; [|discriminate]. apply keys_ok_nil.
      simpl. rewrite !is_nil_app. rewrite <- Zc, <- Za, <- Zb, X, Y, Z. reflexivity.
    + destruct (h_cond_sound fc fa fb c a b m Na Nb H) as [C0 [Z1 [Z2 [Zm [Ks Es]]]]]. subst fc.
      split.
      * split; [rewrite Ks; apply keys_union_nodup; assumption|]. split.
        -- intros k Hk. rewrite Ks in Hk. apply keys_union_in in Hk. simpl.
           destruct Hk as [Hk|Hk]; [destruct (Ka k Hk) as [S I0]|destruct (Kb k Hk) as [S I0]];
             (split; [exact S|]); intros j Hj; rewrite !in_app_iff; [right; left|right; right]; apply I0; exact Hj.
        -- rewrite Zm. simpl. rewrite !is_nil_app, <- Zc, <- Za, <- Zb. reflexivity.
      * intros _. simpl. rewrite Es. destruct (truth (eval c)).
        -- destruct (is_nil fa) eqn:Fa; [|apply Ea; reflexivity].
           rewrite (Z1 eq_refl). destruct fa; [reflexivity|discriminate].
        -- destruct (is_nil fb) eqn:Fb; [|apply Eb; reflexivity].
           rewrite (Z2 eq_refl). destruct fb; [reflexivity|discriminate].
  - (* other unary operator *)
    destruct (factorize a) as [fa|]; [|discriminate]. simpl in H.
    destruct (IHa fa W eq_refl) as [[Na [Ka Za]] Ea].
    destruct (is_nil fa) eqn:Fa; [|discriminate].
    injection H as <-. split; [|discriminate]. apply keys_ok_nil. simpl. rewrite <- Za. reflexivity.
  - (* other binary operator *)
    destruct W as [Wa Wb].
    destruct (factorize a) as [fa|]; [|discriminate]. destruct (factorize b) as [fb|]; [|discriminate]. simpl in H.
    destruct (IHa fa Wa eq_refl) as [[Na [Ka Za]] Ea]. destruct (IHb fb Wb eq_refl) as [[Nb [Kb Zb]] Eb].
    destruct (is_nil fa && is_nil fb) eqn:Eb2; [|discriminate].
    injection H as <-. apply andb_true_iff in Eb2. destruct Eb2 as [X Y].
    split; [|discriminate]. apply keys_ok_nil.
    simpl. rewrite is_nil_app. rewrite <- Za, <- Zb, X, Y. reflexivity.
Qed.

End Sem.

(* ---- instances: integers (conjugation = identity) and Gaussian integers (used by the correspondence runs) ---- *)
From Coq Require Import ZArith.

Definition Zinst_eval := eval Z 0%Z 1%Z Z.add Z.mul (fun x => x) (fun x => x) (fun x => Z.ltb 0 x).
Definition Zinst_fsum := fsum Z 0%Z 1%Z Z.add Z.mul (fun x => x) (fun x => x) (fun x => Z.ltb 0 x).

(* the hypothesis [wf] cannot be dropped: an argument-free summand next to an argument-dependent one is
   lost by handle_sum (UFL's arity checker refuses such integrands; FFCx applies it to forms and, since
   fix 844e201, to expressions) *)
Example sum_drops_the_argument_free_term :
  let e := XSum (XArg 0) XLit1 in
  let env_a := fun _ : nat => 5%Z in let env_t := fun _ : nat => 0%Z in
  exists m, factorize e = Some m /\
            Zinst_eval env_a env_t (fun _ x => x) (fun _ x _ => x) e = 6%Z /\
            Zinst_fsum env_a env_t (fun _ x => x) (fun _ x _ => x) m = 5%Z.
Proof. eexists. split; [reflexivity|]. split; vm_compute; reflexivity. Qed.

(* and a product whose operands mention the same argument overwrites a dictionary entry *)
Example product_of_same_argument_overwrites :
  let e := XProd (XSum (XProd (XAtom 0) (XArg 0)) (XProd (XAtom 1) (XArg 1)))
                 (XSum (XProd (XAtom 2) (XArg 0)) (XProd (XAtom 3) (XArg 1))) in
  let env_a := fun i : nat => Z.of_nat (i + 2) in let env_t := fun k : nat => Z.of_nat (k + 1) in
  exists m, factorize e = Some m /\
            Zinst_eval env_a env_t (fun _ x => x) (fun _ x _ => x) e <>
            Zinst_fsum env_a env_t (fun _ x => x) (fun _ x _ => x) m.
Proof. eexists. split; [reflexivity|]. vm_compute. discriminate. Qed.

(* non-vacuity: a bilinear integrand  (f*u + g*du) * conj(h*v) / d  with a conditional factor *)
Definition sample_bilinear : sx :=
  XDiv (XProd (XSum (XProd (XAtom 0) (XArg 0)) (XProd (XAtom 1) (XArg 1)))
              (XConj (XProd (XAtom 2) (XCond (XAtom 5) (XArg 2) (XProd (XAtom 4) (XArg 3))))))
       (XAtom 3).
Definition sample_argn (i : nat) : nat := if Nat.ltb i 2 then 1 else 0.

Example sample_bilinear_is_wf : wf sample_argn sample_bilinear.
Proof.
  simpl. repeat split; try reflexivity; simpl; intros n H1 H2;
    repeat (destruct H1 as [H1|H1]; [subst; simpl in H2; intuition discriminate|]); contradiction.
Qed.

Example sample_bilinear_factorizes :
  option_map (map fst) (factorize sample_bilinear) = Some [[0; 2]; [0; 3]; [1; 2]; [1; 3]].
Proof. vm_compute. reflexivity. Qed.

(* Gaussian integers: an exact ring with a non-trivial conjugation.  Division is x * inv y for an arbitrary
   total function inv with inv 1 = 1 (the correspondence runs use the same function on the Python side) *)
Open Scope Z_scope.
Definition G := (Z * Z)%type.
Definition gadd (x y : G) : G := (fst x + fst y, snd x + snd y).
Definition gmul (x y : G) : G := (fst x * fst y - snd x * snd y, fst x * snd y + snd x * fst y).
Definition gconj (x : G) : G := (fst x, - snd x).
Definition ginv (y : G) : G := gadd (gadd (gmul y (gmul y y)) (- fst y, - snd y)) (1, 0).
Definition gtruth (x : G) : bool := 0 <? fst x.

Fixpoint alookup (k : nat) (l : list (nat * G)) : G :=
  match l with [] => (0, 0) | (k', v) :: r => if Nat.eqb k k' then v else alookup k r end.

Definition Geval (args atoms : list (nat * G)) : sx -> G :=
  eval G (0, 0) (1, 0) gadd gmul ginv gconj gtruth (fun i => alookup i args) (fun k => alookup k atoms)
       (fun _ x => x) (fun _ x _ => x).

(* the model on one integrand: argkeys with the value of their factor, and the value of the whole integrand *)
Definition run_case (args atoms : list (nat * G)) (e : sx) : option (list (key * G)) :=
  option_map (map (fun kf => (fst kf, Geval args atoms (snd kf)))) (factorize e).
Close Scope Z_scope.
