(* RuleIds.v — quadrature-rule identifiers: within one integration cell, equal
   identifiers must mean equal point sets (identified by the full SHA-1 of
   the points, assumed collision-free), because weights_<id>, sv_<id>, sp_<id>,
   FE.._Q<id> are the only thing that keeps two rules' symbols apart. *)
From Coq Require Import NArith List Bool String.
Import ListNotations.
Open Scope N_scope.

Definition row := (N * N * N * string)%type.
Definition rid (r : row) : N * N := let '(a, b, _, _) := r in (a, b).
Definition dig (r : row) : N := let '(_, _, c, _) := r in c.

Definition row_ok (r1 r2 : row) : bool :=
  if N.eqb (fst (rid r1)) (fst (rid r2)) && N.eqb (snd (rid r1)) (snd (rid r2))
  then N.eqb (dig r1) (dig r2) else true.

Definition group_ok (g : list row) : bool := forallb (fun r1 => forallb (row_ok r1) g) g.

Definition groups_ok (gs : list (string * list row)) : bool :=
  forallb (fun cg => group_ok (snd cg)) gs.

Lemma group_ok_spec g :
  group_ok g = true ->
  forall r1 r2, In r1 g -> In r2 g -> rid r1 = rid r2 -> dig r1 = dig r2.
Proof.
  unfold group_ok. intros H r1 r2 H1 H2 E.
  rewrite forallb_forall in H. specialize (H r1 H1).
  rewrite forallb_forall in H. specialize (H r2 H2).
  unfold row_ok in H. rewrite E in H. rewrite !N.eqb_refl in H. simpl in H.
  apply N.eqb_eq. exact H.
Qed.

Lemma groups_ok_spec gs :
  groups_ok gs = true ->
  forall cell g r1 r2, In (cell, g) gs -> In r1 g -> In r2 g -> rid r1 = rid r2 -> dig r1 = dig r2.
Proof.
  unfold groups_ok. intros H cell g r1 r2 Hg. rewrite forallb_forall in H.
  specialize (H (cell, g) Hg). simpl in H. apply group_ok_spec. exact H.
Qed.

(* the colliding pairs, for the failing-input search *)
Definition collisions (g : list row) : list (row * row) :=
  flat_map (fun r1 => map (fun r2 => (r1, r2)) (filter (fun r2 => negb (row_ok r1 r2)) g)) g.
