(* MathTab.v — C09 / C19: the per-type math function tables of the C formatter, as regenerated
   from the source (gen/MathTabGen.v).  For every UFL math operator lnodes can emit and every
   scalar type: the selected C function exists for that operand type — in particular a complex
   operand is never handed to a real-only libm function (which C would accept silently,
   dropping the imaginary part); a function with no complex counterpart must be rejected. *)
From Coq Require Import List String Bool.
From FFCXGen Require Import MathTabGen.
Import ListNotations.
Open Scope string_scope.

Fixpoint assoc (k : string) (l : list (string * string)) : option string :=
  match l with
  | [] => None
  | (k', v) :: r => if String.eqb k k' then Some v else assoc k r
  end.

Fixpoint assoc_tab (k : string) (l : list (string * list (string * string))) : option (list (string * string)) :=
  match l with
  | [] => None
  | (k', v) :: r => if String.eqb k k' then Some v else assoc_tab k r
  end.

(* <complex.h> functions taking a complex argument (double / float variants), plus
   fmax/fmin: UFL's comparison checker only lets real-valued operands reach max/min *)
Definition complex_capable : list string :=
  ["csqrt"; "cabs"; "ccos"; "csin"; "ctan"; "cacos"; "casin"; "catan"; "ccosh"; "csinh"; "ctanh";
   "cacosh"; "casinh"; "catanh"; "cpow"; "cexp"; "clog"; "creal"; "cimag"; "conj";
   "csqrtf"; "cabsf"; "ccosf"; "csinf"; "ctanf"; "cacosf"; "casinf"; "catanf"; "ccoshf"; "csinhf";
   "ctanhf"; "cacoshf"; "casinhf"; "catanhf"; "cpowf"; "cexpf"; "clogf"; "crealf"; "cimagf"; "conjf";
   "fmax"; "fmin"; "fmaxf"; "fminf"].

(* real libm functions a bare UFL handler name may fall back to *)
Definition libm_bare : list string := ["atan2"].
(* operators UFL removes in real mode (remove_complex_nodes) *)
Definition complex_only : list string := ["conj"; "real"; "imag"].

Definition mem (s : string) (l : list string) : bool := existsb (String.eqb s) l.

Definition is_complex_type (t : string) : bool := mem t ["complex64"; "complex128"].

Definition entry_ok (t name : string) : bool :=
  match assoc_tab t c_math_table with
  | None => false
  | Some tab =>
      match assoc name tab with
      | Some fn => if is_complex_type t then mem fn complex_capable || mem fn c_complex_rejected else true
      | None =>
          if is_complex_type t then c_missing_complex_raises
          else mem name complex_only || mem name libm_bare
      end
  end.

Definition table_ok : bool :=
  forallb (fun t => forallb (entry_ok t) ufl_math_names) scalar_types.

Lemma table_ok_spec :
  table_ok = true -> forall t name, In t scalar_types -> In name ufl_math_names -> entry_ok t name = true.
Proof.
  unfold table_ok. intros H t name Ht Hn.
  rewrite forallb_forall in H. specialize (H t Ht). rewrite forallb_forall in H. exact (H name Hn).
Qed.

(* which entries fail, for the failing-input search *)
Definition failing : list (string * string) :=
  flat_map (fun t => map (fun n => (t, n)) (filter (fun n => negb (entry_ok t n)) ufl_math_names)) scalar_types.
