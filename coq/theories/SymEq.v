(* SymEq.v — deciding that two symbolic outputs are the same polynomial (C17, optimiser half).
   Terms are read as polynomials with integer coefficients over ATOMS: input cells, literals,
   quotients and function applications (compared syntactically).  Equality of the normal forms
   computed by Coq's ring normaliser (Ring_polynom, instance Z) implies equality of the values
   for every assignment of integers to the atoms — hence, a polynomial with integer coefficients
   that vanishes on all integer points being zero, in every commutative ring.
   Together with Sym.run_hom:  kernels_equiv k1 k2 = true  ->  k1 and k2 compute the same tensor
   for all inputs, all interpretations of literals, division and math functions. *)
From Coq Require Import ZArith List Bool String FMapPositive Lia ZArithRing Ring_polynom BinList.
From FFCX Require Import LN Sym.
Import ListNotations.
Open Scope Z_scope.

(* ---- syntactic equality of terms ---- *)
Fixpoint sx_eqb (a b : sx) : bool :=
  match a, b with
  | SIn x i, SIn y j => Pos.eqb x y && Z.eqb i j
  | SZc x, SZc y => Z.eqb x y
  | SLitc m e, SLitc m' e' => Z.eqb m m' && Z.eqb e e'
  | SCLitc a1 b1 c1 d1, SCLitc a2 b2 c2 d2 => Z.eqb a1 a2 && Z.eqb b1 b2 && Z.eqb c1 c2 && Z.eqb d1 d2
  | SAdd x y, SAdd x' y' | SSub x y, SSub x' y' | SMul x y, SMul x' y' | SDiv x y, SDiv x' y'
  | SCons x y, SCons x' y' => sx_eqb x x' && sx_eqb y y'
  | SNeg x, SNeg x' => sx_eqb x x'
  | SFn f x, SFn g x' => String.eqb f g && sx_eqb x x'
  | SNil, SNil => true
  | _, _ => false
  end.

Lemma sx_eqb_eq : forall t u, sx_eqb t u = true -> t = u.
Proof.
  induction t; intros u H; destruct u; simpl in H; try discriminate;
    repeat match goal with
           | H : _ && _ = true |- _ => apply andb_true_iff in H; destruct H
           | H : Pos.eqb _ _ = true |- _ => apply Pos.eqb_eq in H; subst
           | H : Z.eqb _ _ = true |- _ => apply Z.eqb_eq in H; subst
           | H : String.eqb _ _ = true |- _ => apply String.eqb_eq in H; subst
           end;
    try reflexivity;
    repeat match goal with
           | IH : forall u, sx_eqb ?x u = true -> ?x = u, H : sx_eqb ?x _ = true |- _ => apply IH in H; subst
           end; reflexivity.
Qed.

(* ---- BinList.nth is List.nth ---- *)
Lemma skipn_skipn' {A} : forall n m (l : list A), skipn n (skipn m l) = skipn (m + n) l.
Proof.
  intros n m. revert n. induction m as [|m IH]; intros n l; simpl; [reflexivity|].
  destruct l as [|a l]; [destruct n; reflexivity|]. apply IH.
Qed.

Lemma jump_skipn {A} : forall p (l : list A), jump p l = skipn (Pos.to_nat p) l.
Proof.
  induction p as [p IH|p IH|]; intros l; cbn [jump].
  - rewrite !IH. rewrite skipn_skipn'. rewrite Pos2Nat.inj_xI.
    destruct l as [|a l]; [rewrite !skipn_nil; reflexivity|].
    cbn [tl]. replace (S (2 * Pos.to_nat p)) with (S (Pos.to_nat p + Pos.to_nat p)) by lia. reflexivity.
  - rewrite !IH. rewrite skipn_skipn'. rewrite Pos2Nat.inj_xO. f_equal. lia.
  - destruct l; reflexivity.
Qed.

Lemma hd_skipn {A} (d : A) : forall k l, hd d (skipn k l) = List.nth k l d.
Proof. induction k as [|k IH]; intros [|a l]; simpl; try reflexivity. apply IH. Qed.

Lemma binnth_nth {A} (d : A) : forall p l, BinList.nth d p l = List.nth (Pos.to_nat p - 1) l d.
Proof.
  induction p as [p IH|p IH|]; intros l; cbn [BinList.nth].
  - rewrite IH, jump_skipn. rewrite <- hd_skipn. rewrite skipn_skipn'. rewrite <- hd_skipn.
    rewrite Pos2Nat.inj_xI. destruct l as [|a l]; [rewrite !skipn_nil; reflexivity|].
    cbn [tl]. replace (S (2 * Pos.to_nat p) - 1)%nat with (S (Pos.to_nat p + (Pos.to_nat p - 1)))%nat by lia. reflexivity.
  - rewrite IH, jump_skipn. rewrite <- hd_skipn. rewrite skipn_skipn'. rewrite <- hd_skipn.
    rewrite Pos2Nat.inj_xO. f_equal. f_equal. lia.
  - destruct l; reflexivity.
Qed.

(* position (1-based) of an atom in the table *)
Fixpoint index_of (t : sx) (tab : list sx) (k : positive) : option positive :=
  match tab with
  | [] => None
  | u :: r => if sx_eqb t u then Some k else index_of t r (Pos.succ k)
  end.

Lemma index_of_nth t : forall tab k p, index_of t tab k = Some p ->
  (Pos.to_nat k <= Pos.to_nat p)%nat /\ List.nth_error tab (Pos.to_nat p - Pos.to_nat k) = Some t.
Proof.
  induction tab as [|u r IH]; intros k p H; simpl in H; [discriminate|].
  destruct (sx_eqb t u) eqn:E.
  - inversion H; subst. apply sx_eqb_eq in E. subst. rewrite Nat.sub_diag. split; [lia|reflexivity].
  - destruct (IH _ _ H) as [Hle Hn]. rewrite Pos2Nat.inj_succ in *. split; [lia|].
    replace (Pos.to_nat p - Pos.to_nat k)%nat with (S (Pos.to_nat p - S (Pos.to_nat k)))%nat by lia. exact Hn.
Qed.

Section Z.
(* interpretations left arbitrary *)
Variable of_lit : Z -> Z -> Z.
Variable of_clit : Z -> Z -> Z -> Z -> Z.
Variable tdiv : Z -> Z -> Z.
Variable teqb tltb tleb : Z -> Z -> bool.
Variable tfn : string -> list Z -> Z.
Variable rho : ident -> Z -> Z.

Notation denZ := (den Z (fun z => z) of_lit of_clit Z.add Z.sub Z.mul tdiv Z.opp tfn rho).
Notation vmapZ := (vmap Z (fun z => z) of_lit of_clit Z.add Z.sub Z.mul tdiv Z.opp tfn rho).
Notation imapZ := (imap Z (fun z => z) of_lit of_clit Z.add Z.sub Z.mul tdiv Z.opp tfn rho).
Notation z_run := (@run_kernel Z (fun z => z) of_lit of_clit Z.add Z.sub Z.mul tdiv Z.opp teqb tltb tleb tfn).
Notation pe_eval := (PEeval 0 1 Z.add Z.mul Z.sub Z.opp (IDphi (R:=Z)) Z.of_N Z.pow).

Fixpoint toPE (tab : list sx) (t : sx) : option (PExpr Z) :=
  match t with
  | SZc z => Some (PEc z)
  | SAdd a b => match toPE tab a, toPE tab b with Some p, Some q => Some (PEadd p q) | _, _ => None end
  | SSub a b => match toPE tab a, toPE tab b with Some p, Some q => Some (PEsub p q) | _, _ => None end
  | SMul a b => match toPE tab a, toPE tab b with Some p, Some q => Some (PEmul p q) | _, _ => None end
  | SNeg a => match toPE tab a with Some p => Some (PEopp p) | None => None end
  | _ => match index_of t tab 1 with Some k => Some (PEX Z k) | None => None end
  end.

Lemma atom_sound tab t k : index_of t tab 1 = Some k -> pe_eval (map denZ tab) (PEX Z k) = denZ t.
Proof.
  intros H. simpl. rewrite binnth_nth. destruct (index_of_nth t tab 1 k H) as [_ Hn].
  change (Pos.to_nat 1) with 1%nat in Hn.
  rewrite (nth_error_nth (map denZ tab) (Pos.to_nat k - 1) 0 (x := denZ t)); [reflexivity|].
  rewrite nth_error_map, Hn. reflexivity.
Qed.

Lemma toPE_sound tab : forall t pe, toPE tab t = Some pe -> pe_eval (map denZ tab) pe = denZ t.
Proof.
  induction t; intros pe H; simpl in H;
    try (destruct (index_of _ tab 1) as [k|] eqn:E; [|discriminate]; inversion H; subst; apply atom_sound; exact E).
  - inversion H. reflexivity.
  - destruct (toPE tab t1) as [p|]; [|discriminate]. destruct (toPE tab t2) as [q|]; [|discriminate].
    inversion H; subst. simpl. rewrite (IHt1 p eq_refl), (IHt2 q eq_refl). reflexivity.
  - destruct (toPE tab t1) as [p|]; [|discriminate]. destruct (toPE tab t2) as [q|]; [|discriminate].
    inversion H; subst. simpl. rewrite (IHt1 p eq_refl), (IHt2 q eq_refl). reflexivity.
  - destruct (toPE tab t1) as [p|]; [|discriminate]. destruct (toPE tab t2) as [q|]; [|discriminate].
    inversion H; subst. simpl. rewrite (IHt1 p eq_refl), (IHt2 q eq_refl). reflexivity.
  - destruct (toPE tab t) as [p|]; [|discriminate]. inversion H; subst. simpl. rewrite (IHt p eq_refl). reflexivity.
Qed.

Definition pnorm (pe : PExpr Z) := norm_subst 0 1 Z.add Z.mul Z.sub Z.opp Zeq_bool Z.quotrem 0 [] pe.

Definition term_equal (tab : list sx) (a b : sx) : bool :=
  match toPE tab a, toPE tab b with
  | Some p, Some q => Peq Zeq_bool (pnorm p) (pnorm q)
  | _, _ => false
  end.

Lemma term_equal_sound tab a b : term_equal tab a b = true -> denZ a = denZ b.
Proof.
  unfold term_equal. destruct (toPE tab a) as [p|] eqn:Ea; [|discriminate].
  destruct (toPE tab b) as [q|] eqn:Eb; [|discriminate]. intros H.
  rewrite <- (toPE_sound tab a p Ea), <- (toPE_sound tab b q Eb).
  apply (Zr_ring_lemma1 0 (map denZ tab) [] p q I). exact H.
Qed.

Definition val_equal (tab : list sx) (v1 v2 : @val sx) : bool :=
  match v1, v2 with
  | VF a, VF b => term_equal tab a b
  | VI x, VI y => Z.eqb x y
  | VB x, VB y => Bool.eqb x y
  | _, _ => false
  end.

Fixpoint vals_equal (tab : list sx) (l1 l2 : list (@val sx)) : bool :=
  match l1, l2 with
  | [], [] => true
  | a :: r1, b :: r2 => val_equal tab a b && vals_equal tab r1 r2
  | _, _ => false
  end.

Lemma vals_equal_sound tab : forall l1 l2, vals_equal tab l1 l2 = true -> map vmapZ l1 = map vmapZ l2.
Proof.
  induction l1 as [|a r1 IH]; intros [|b r2] H; simpl in H; try discriminate; [reflexivity|].
  apply andb_true_iff in H. destruct H as [Hv Hr]. simpl. f_equal; [|apply IH; exact Hr].
  destruct a, b; simpl in Hv; try discriminate.
  - apply Z.eqb_eq in Hv. subst. reflexivity.
  - simpl. f_equal. apply term_equal_sound with (tab := tab). exact Hv.
  - apply Bool.eqb_prop in Hv. subst. reflexivity.
Qed.

(* the atoms occurring in a term, without repetition *)
Fixpoint atoms_of (t : sx) (acc : list sx) : list sx :=
  match t with
  | SZc _ => acc
  | SAdd a b | SSub a b | SMul a b => atoms_of b (atoms_of a acc)
  | SNeg a => atoms_of a acc
  | _ => match index_of t acc 1 with Some _ => acc | None => acc ++ [t] end
  end.

Definition atoms_of_vals (l : list (@val sx)) (acc : list sx) : list sx :=
  fold_left (fun acc v => match v with VF a => atoms_of a acc | _ => acc end) l acc.

Definition kernels_equiv (inp : @inputs sx) (k1 k2 : list stmt) (A0 : list (@val sx)) : bool :=
  forallb nobr k1 && forallb nobr k2 &&
  match s_run inp k1 A0, s_run inp k2 A0 with
  | Some r1, Some r2 => vals_equal (atoms_of_vals r2 (atoms_of_vals r1 [])) r1 r2
  | _, _ => false
  end.

Theorem kernels_equiv_sound inp k1 k2 A0 :
  kernels_equiv inp k1 k2 A0 = true ->
  exists r, z_run (imapZ inp) k1 (map vmapZ A0) = Some r /\ z_run (imapZ inp) k2 (map vmapZ A0) = Some r.
Proof.
  unfold kernels_equiv. intros H.
  apply andb_true_iff in H. destruct H as [H H3]. apply andb_true_iff in H. destruct H as [H1 H2].
  destruct (s_run inp k1 A0) as [r1|] eqn:E1; [|discriminate].
  destruct (s_run inp k2 A0) as [r2|] eqn:E2; [|discriminate].
  exists (map vmapZ r1). split.
  - apply (run_hom Z (fun z => z) of_lit of_clit Z.add Z.sub Z.mul tdiv Z.opp teqb tltb tleb tfn rho inp k1 A0 r1 H1 E1).
  - rewrite (vals_equal_sound _ r1 r2 H3).
    apply (run_hom Z (fun z => z) of_lit of_clit Z.add Z.sub Z.mul tdiv Z.opp teqb tltb tleb tfn rho inp k2 A0 r2 H2 E2).
Qed.
End Z.

(* symbolic inputs of a kernel: real arrays are variables on their extents, integer arrays are given *)
Definition sym_inputs (nw nc nx : Z) (e p : list Z) : @inputs sx :=
  fun a k =>
    if Pos.eqb a id_w then (if (0 <=? k) && (k <? nw) then Some (VF (SIn a k)) else None)
    else if Pos.eqb a id_c then (if (0 <=? k) && (k <? nc) then Some (VF (SIn a k)) else None)
    else if Pos.eqb a id_x then (if (0 <=? k) && (k <? nx) then Some (VF (SIn a k)) else None)
    else if Pos.eqb a id_e then (if 0 <=? k then option_map (@VI sx) (nth_error e (Z.to_nat k)) else None)
    else if Pos.eqb a id_p then (if 0 <=? k then option_map (@VI sx) (nth_error p (Z.to_nat k)) else None)
    else None.

Definition sym_A (n : nat) : list (@val sx) := map (fun k => VF (SIn id_A (Z.of_nat k))) (seq 0 n).

(* ---- part='diagonal' (C10): the rank-1 kernel against the diagonal of the rank-2 kernel ---- *)
Fixpoint diag_of {A} (n : nat) (k : nat) (l : list A) : list A :=
  (* entries k*(n+1) for k = 0 .. n-1 of a row-major n x n list: take the head, drop n+1 *)
  match k with
  | O => []
  | S k' => match l with
            | [] => []
            | a :: _ => a :: diag_of n k' (skipn (S n) l)
            end
  end.

Definition s_zeros (n : nat) : list (@val sx) := repeat (VF (SZc 0)) n.

Definition diagonal_equiv (inp : @inputs sx) (k_full k_diag : list stmt) (n : nat) : bool :=
  forallb nobr k_full && forallb nobr k_diag &&
  match s_run inp k_full (s_zeros (n * n)), s_run inp k_diag (s_zeros n) with
  | Some rf, Some rd =>
      let df := diag_of n n rf in
      Nat.eqb (List.length df) n && vals_equal (atoms_of_vals rd (atoms_of_vals df [])) df rd
  | _, _ => false
  end.

Section ZDiag.
Variable of_lit : Z -> Z -> Z.
Variable of_clit : Z -> Z -> Z -> Z -> Z.
Variable tdiv : Z -> Z -> Z.
Variable teqb tltb tleb : Z -> Z -> bool.
Variable tfn : string -> list Z -> Z.
Variable rho : ident -> Z -> Z.

Notation vmapZ := (vmap Z (fun z => z) of_lit of_clit Z.add Z.sub Z.mul tdiv Z.opp tfn rho).
Notation imapZ := (imap Z (fun z => z) of_lit of_clit Z.add Z.sub Z.mul tdiv Z.opp tfn rho).
Notation z_run := (@run_kernel Z (fun z => z) of_lit of_clit Z.add Z.sub Z.mul tdiv Z.opp teqb tltb tleb tfn).

Lemma diag_of_map {A B} (f : A -> B) n : forall k l, diag_of n k (map f l) = map f (diag_of n k l).
Proof.
  induction k as [|k IH]; intros l; simpl; [reflexivity|].
  destruct l as [|a l]; simpl; [reflexivity|]. f_equal.
  rewrite <- IH. f_equal. rewrite <- skipn_map. reflexivity.
Qed.

Lemma map_s_zeros n : map vmapZ (s_zeros n) = repeat (VF 0) n.
Proof. unfold s_zeros. induction n as [|n IH]; simpl; [reflexivity|]. rewrite IH. reflexivity. Qed.

Theorem diagonal_equiv_sound inp k_full k_diag n :
  diagonal_equiv inp k_full k_diag n = true ->
  exists rf rd,
    z_run (imapZ inp) k_full (repeat (VF 0) (n * n)) = Some rf /\
    z_run (imapZ inp) k_diag (repeat (VF 0) n) = Some rd /\
    rd = diag_of n n rf /\ List.length rd = n.
Proof.
  unfold diagonal_equiv. intros H.
  apply andb_true_iff in H. destruct H as [H H3]. apply andb_true_iff in H. destruct H as [H1 H2].
  destruct (s_run inp k_full (s_zeros (n * n))) as [rf|] eqn:E1; [|discriminate].
  destruct (s_run inp k_diag (s_zeros n)) as [rd|] eqn:E2; [|discriminate].
  apply andb_true_iff in H3. destruct H3 as [Hl Hv]. apply Nat.eqb_eq in Hl.
  exists (map vmapZ rf), (map vmapZ rd). rewrite <- !map_s_zeros. split; [|split; [|split]].
  - apply (run_hom Z (fun z => z) of_lit of_clit Z.add Z.sub Z.mul tdiv Z.opp teqb tltb tleb tfn rho inp k_full _ rf H1 E1).
  - apply (run_hom Z (fun z => z) of_lit of_clit Z.add Z.sub Z.mul tdiv Z.opp teqb tltb tleb tfn rho inp k_diag _ rd H2 E2).
  - rewrite diag_of_map. symmetry. apply (vals_equal_sound of_lit of_clit tdiv tfn rho _ _ _ Hv).
  - rewrite <- (vals_equal_sound of_lit of_clit tdiv tfn rho _ _ _ Hv). rewrite map_length. exact Hl.
Qed.
End ZDiag.
