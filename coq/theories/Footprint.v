(* Footprint.v — footprints of LN.exec and the commutation of statements that do not interfere.

   For every statement s, every numeric domain and every store:
     exec_agree      two stores that agree on the names occurring in s are taken to stores that agree on them
                     (and s runs on one iff it runs on the other);
     exec_frame_out  names that do not occur in s keep their cell;
     exec_pres       a name for which the syntactic test [pres] succeeds (never assigned or declared by s;
                     being the index of a loop of s is allowed) keeps its cell — the loop index is absent
                     before the loop (freshness is checked by exec) and absent after it;
     exec_equiv      exec respects extensional equality of stores;
     commute         if every name shared by s1 and s2 passes [pres] in both, then  s1 ; s2  and  s2 ; s1
                     trap on the same stores and otherwise end in extensionally equal stores.
   These are the semantic facts the optimiser passes rely on when they move statements (OptSound.v). *)

From Coq Require Import ZArith List Bool String FMapPositive Lia.
From FFCX Require Import LN Check SoundExpr SoundStmt Opt.
Import ListNotations.
Open Scope Z_scope.

(* ---------- syntactic footprints (model; evaluated by vm_compute) ---------- *)

Section Syn.
Variable V : ident -> bool.

Fixpoint e_in (e : expr) : bool :=
  match e with
  | ELitI _ | ELitF _ _ | ELitC _ _ _ _ => true
  | ESym y => V y
  | EAcc a idx => V a && forallb e_in idx
  | ENeg a | ENot a => e_in a
  | EBin _ l r => e_in l && e_in r
  | ESum args | EProd args | ECall _ args => forallb e_in args
  | ECond c t f => e_in c && e_in t && e_in f
  end.

Definition l_in (l : lval) : bool :=
  match l with LVar x => V x | LArr a idx => V a && forallb e_in idx end.

Fixpoint s_in (s : stmt) : bool :=
  match s with
  | SSkip => true
  | SVarDecl x _ e => V x && e_in e
  | SArrDecl x _ _ vals _ => V x && forallb e_in vals
  | SAssign l e | SAssignAdd l e => l_in l && e_in e
  | SFor i _ _ body => V i && forallb s_in body
  | SBlock body | SList body => forallb s_in body
  end.
End Syn.

Definition ltarget (l : lval) : ident := match l with LVar y => y | LArr a _ => a end.

(* s leaves the cell of x alone *)
Fixpoint pres (x : ident) (s : stmt) : bool :=
  match s with
  | SSkip => true
  | SVarDecl y _ _ | SArrDecl y _ _ _ _ => negb (Pos.eqb x y)
  | SAssign l _ | SAssignAdd l _ => negb (Pos.eqb x (ltarget l))
  | SFor i _ _ body => Pos.eqb x i || forallb (pres x) body
  | SBlock body | SList body => forallb (pres x) body
  end.

(* the names occurring in a statement *)
Fixpoint e_names (e : expr) : list ident :=
  match e with
  | ELitI _ | ELitF _ _ | ELitC _ _ _ _ => []
  | ESym y => [y]
  | EAcc a idx => a :: flat_map e_names idx
  | ENeg a | ENot a => e_names a
  | EBin _ l r => e_names l ++ e_names r
  | ESum args | EProd args | ECall _ args => flat_map e_names args
  | ECond c t f => e_names c ++ e_names t ++ e_names f
  end.

Definition l_names (l : lval) : list ident :=
  match l with LVar x => [x] | LArr a idx => a :: flat_map e_names idx end.

Fixpoint s_names (s : stmt) : list ident :=
  match s with
  | SSkip => []
  | SVarDecl x _ e => x :: e_names e
  | SArrDecl x _ _ vals _ => x :: flat_map e_names vals
  | SAssign l e | SAssignAdd l e => l_names l ++ e_names e
  | SFor i _ _ body => i :: flat_map s_names body
  | SBlock body | SList body => flat_map s_names body
  end.

Definition memb (l : list ident) (x : ident) : bool := existsb (Pos.eqb x) l.

(* decidable side condition of [commute] *)
Definition indep (s1 s2 : stmt) : bool :=
  let n1 := s_names s1 in
  let n2 := s_names s2 in
  s_in (memb n1) s1 && s_in (memb n2) s2
  && forallb (fun x => negb (memb n2 x) || (pres x s1 && pres x s2)) n1.

(* ---------- semantics ---------- *)

Section FP.
Set Default Proof Using "All".

Variable T : Type.
Variable of_Z : Z -> T.
Variable of_lit : Z -> Z -> T.
Variable of_clit : Z -> Z -> Z -> Z -> T.
Variable tadd tsub tmul tdiv : T -> T -> T.
Variable tneg : T -> T.
Variable teqb tltb tleb : T -> T -> bool.
Variable tfn : string -> list T -> T.

Notation val := (@val T).
Notation cell := (@cell T).
Notation store := (@store T).
Notation inputs := (@inputs T).
Notation eval := (@eval T of_Z of_lit of_clit tadd tsub tmul tdiv tneg teqb tltb tleb tfn).
Notation evals := (@evals T of_Z of_lit of_clit tadd tsub tmul tdiv tneg teqb tltb tleb tfn).
Notation exec := (@exec T of_Z of_lit of_clit tadd tsub tmul tdiv tneg teqb tltb tleb tfn).
Notation exec_list := (@exec_list T of_Z of_lit of_clit tadd tsub tmul tdiv tneg teqb tltb tleb tfn).
Notation write := (@write T of_Z of_lit of_clit tadd tsub tmul tdiv tneg teqb tltb tleb tfn).
Notation loop_gen := (@loop_gen T).

Definition agree (V : ident -> bool) (s1 s2 : store) : Prop :=
  forall x, V x = true -> PositiveMap.find x s1 = PositiveMap.find x s2.

Definition sequiv (s1 s2 : store) : Prop :=
  forall x, PositiveMap.find x s1 = PositiveMap.find x s2.

Lemma sequiv_refl s : sequiv s s.
Proof. intros x; reflexivity. Qed.

Lemma sequiv_sym s1 s2 : sequiv s1 s2 -> sequiv s2 s1.
Proof. intros H x; symmetry; apply H. Qed.

Lemma sequiv_trans s1 s2 s3 : sequiv s1 s2 -> sequiv s2 s3 -> sequiv s1 s3.
Proof. intros H1 H2 x; rewrite H1; apply H2. Qed.

Lemma sequiv_agree s1 s2 : sequiv s1 s2 <-> agree (fun _ => true) s1 s2.
Proof. split; [intros H x _; apply H | intros H x; apply H; reflexivity]. Qed.

Lemma opt_map_ext' {A B} (f g : A -> option B) l :
  Forall (fun a => f a = g a) l -> opt_map f l = opt_map g l.
Proof. induction 1 as [|a l Ha Hl IH]; simpl; [reflexivity|]. rewrite Ha, IH. reflexivity. Qed.

Lemma eval_agree V inp st1 st2 :
  agree V st1 st2 -> forall e, e_in V e = true -> eval inp st1 e = eval inp st2 e.
Proof.
  intros Hag e. induction e using expr_ind'; intros Hno; simpl in *; try reflexivity.
  - rewrite (Hag x Hno). reflexivity.
  - apply andb_true_iff in Hno. destruct Hno as [Ha Hidx].
    assert (E : opt_map (eval inp st1) idx = opt_map (eval inp st2) idx).
    { apply opt_map_ext'. rewrite forallb_forall in Hidx. rewrite Forall_forall in *.
      intros e He. apply H; auto. }
    rewrite E, (Hag a Ha). reflexivity.
  - rewrite IHe; auto.
  - rewrite IHe; auto.
  - apply andb_true_iff in Hno. destruct Hno as [H1 H2]. rewrite IHe1, IHe2; auto.
  - assert (E : opt_map (eval inp st1) args = opt_map (eval inp st2) args).
    { apply opt_map_ext'. rewrite forallb_forall in Hno. rewrite Forall_forall in *.
      intros e He. apply H; auto. }
    rewrite E. reflexivity.
  - assert (E : opt_map (eval inp st1) args = opt_map (eval inp st2) args).
    { apply opt_map_ext'. rewrite forallb_forall in Hno. rewrite Forall_forall in *.
      intros e He. apply H; auto. }
    rewrite E. reflexivity.
  - assert (E : opt_map (eval inp st1) args = opt_map (eval inp st2) args).
    { apply opt_map_ext'. rewrite forallb_forall in Hno. rewrite Forall_forall in *.
      intros e He. apply H; auto. }
    rewrite E. reflexivity.
  - apply andb_true_iff in Hno. destruct Hno as [Hno H3].
    apply andb_true_iff in Hno. destruct Hno as [H1 H2].
    rewrite IHe1, IHe2, IHe3; auto.
Qed.

Lemma evals_agree V inp st1 st2 :
  agree V st1 st2 -> forall l, forallb (e_in V) l = true -> evals inp st1 l = evals inp st2 l.
Proof.
  intros Hag l Hno. unfold LN.evals. apply opt_map_ext'.
  rewrite forallb_forall in Hno. apply Forall_forall. intros e He.
  apply eval_agree with (V := V); auto.
Qed.

Lemma agree_add V st1 st2 x c :
  agree V st1 st2 -> agree V (PositiveMap.add x c st1) (PositiveMap.add x c st2).
Proof.
  intros H y Hy. destruct (Pos.eq_dec y x) as [->|Hne].
  - rewrite !PositiveMap.gss. reflexivity.
  - rewrite !PositiveMap.gso by exact Hne. auto.
Qed.

Lemma agree_remove V st1 st2 x :
  agree V st1 st2 -> agree V (PositiveMap.remove x st1) (PositiveMap.remove x st2).
Proof.
  intros H y Hy. destruct (Pos.eq_dec y x) as [->|Hne].
  - rewrite !PositiveMap.grs. reflexivity.
  - rewrite !PositiveMap.gro by congruence. auto.
Qed.

Lemma agree_remove_all V xs : forall st1 st2,
  agree V st1 st2 -> agree V (remove_all xs st1) (remove_all xs st2).
Proof.
  unfold remove_all. induction xs as [|x xs IH]; intros st1 st2 H; simpl; [exact H|].
  apply IH. apply agree_remove. exact H.
Qed.

Lemma agree_fresh V st1 st2 x : V x = true -> agree V st1 st2 -> fresh x st1 = fresh x st2.
Proof. intros Hx H. unfold LN.fresh. rewrite (H x Hx). reflexivity. Qed.

Lemma write_agree V inp st1 st2 l f st1' :
  agree V st1 st2 -> l_in V l = true ->
  write inp st1 l f = Some st1' ->
  exists st2', write inp st2 l f = Some st2' /\ agree V st1' st2'.
Proof.
  intros HR Hl E.
  destruct l as [x|a idx]; simpl in *.
  - rewrite <- (HR x Hl).
    destruct (PositiveMap.find x st1) as [[ty [|] v|]|]; try discriminate.
    destruct (f ty v) as [v'|]; [|discriminate]. inversion E; subst.
    eexists. split; [reflexivity|]. apply agree_add. exact HR.
  - apply andb_true_iff in Hl. destruct Hl as [Ha Hidx].
    rewrite <- (evals_agree V inp st1 st2 HR idx Hidx).
    destruct (LN.evals T of_Z of_lit of_clit tadd tsub tmul tdiv tneg teqb tltb tleb tfn inp st1 idx)
      as [vs|]; [|discriminate].
    destruct (opt_map as_int vs) as [is|]; [|discriminate].
    rewrite <- (HR a Ha).
    destruct (PositiveMap.find a st1) as [[|ty [|] shape data]|]; try discriminate.
    destruct (flat_index shape is 0) as [k|]; [|discriminate].
    destruct (nth_error data (Z.to_nat k)) as [v|]; [|discriminate].
    destruct (f ty v) as [v'|]; [|discriminate]. inversion E; subst.
    eexists. split; [reflexivity|]. apply agree_add. exact HR.
Qed.

Lemma seq_agree V inp (l : list stmt) :
  Forall (fun s => forall st1 st2 st1',
            s_in V s = true -> agree V st1 st2 -> exec inp s st1 = Some st1' ->
            exists st2', exec inp s st2 = Some st2' /\ agree V st1' st2') l ->
  forallb (s_in V) l = true ->
  forall st1 st2 st1', agree V st1 st2 -> seq_gen (exec inp) l st1 = Some st1' ->
  exists st2', seq_gen (exec inp) l st2 = Some st2' /\ agree V st1' st2'.
Proof.
  induction 1 as [|s l Hs Hl IHl]; intros Hal s1 s2 s1' HR' E'; simpl in *.
  - inversion E'; subst. eauto.
  - apply andb_true_iff in Hal. destruct Hal as [Ha Hal].
    destruct (exec inp s s1) as [s1m|] eqn:E1; [|discriminate].
    destruct (Hs s1 s2 s1m Ha HR' E1) as [s2m [E2 HRm]]. rewrite E2.
    eapply IHl; eauto.
Qed.

Theorem exec_agree V inp :
  forall s st1 st2 st1',
    s_in V s = true -> agree V st1 st2 -> exec inp s st1 = Some st1' ->
    exists st2', exec inp s st2 = Some st2' /\ agree V st1' st2'.
Proof.
  intros s. induction s using stmt_ind'; intros st1 st2 st1' Hin HR E; simpl in *.
  - inversion E; subst. eauto.
  - (* SVarDecl *)
    apply andb_true_iff in Hin. destruct Hin as [Hx He].
    rewrite <- (agree_fresh V st1 st2 x Hx HR).
    destruct (fresh x st1) eqn:Hf; [|discriminate].
    rewrite <- (eval_agree V inp st1 st2 HR e He).
    destruct (eval inp st1 e) as [v|]; [|discriminate].
    destruct (coerce T of_Z ty v) as [v'|]; [|discriminate]. inversion E; subst.
    eexists. split; [reflexivity|]. apply agree_add; assumption.
  - (* SArrDecl *)
    apply andb_true_iff in Hin. destruct Hin as [Hx He].
    rewrite <- (agree_fresh V st1 st2 x Hx HR).
    destruct (fresh x st1 && forallb (fun n => 0 <? n) shape &&
              (Z.of_nat (List.length vals) <=? prodZ shape)); [|discriminate].
    rewrite <- (evals_agree V inp st1 st2 HR vals He).
    destruct (LN.evals T of_Z of_lit of_clit tadd tsub tmul tdiv tneg teqb tltb tleb tfn inp st1 vals)
      as [vs|]; [|discriminate].
    destruct (opt_map (coerce T of_Z ty) vs) as [vs'|]; [|discriminate]. inversion E; subst.
    eexists. split; [reflexivity|]. apply agree_add; assumption.
  - (* SAssign *)
    apply andb_true_iff in Hin. destruct Hin as [Hl He].
    rewrite <- (eval_agree V inp st1 st2 HR e He).
    destruct (eval inp st1 e) as [v|]; [|discriminate].
    eapply write_agree; eauto.
  - (* SAssignAdd *)
    apply andb_true_iff in Hin. destruct Hin as [Hl He].
    rewrite <- (eval_agree V inp st1 st2 HR e He).
    destruct (eval inp st1 e) as [v|]; [|discriminate].
    eapply write_agree; eauto.
  - (* SFor *)
    apply andb_true_iff in Hin. destruct Hin as [Hi Hb].
    rewrite <- (agree_fresh V st1 st2 i Hi HR).
    destruct (fresh i st1); [|discriminate].
    revert E. generalize (Z.to_nat (e - b)) as n. generalize b as k.
    intros k n. revert k st1 st2 st1' HR.
    induction n as [|n IHn]; intros k s1 s2 s1' HR' E'; simpl in *.
    + inversion E'; subst. eauto.
    + destruct (seq_gen (exec inp) body (PositiveMap.add i (CScalar DInt true (VI k)) s1))
        as [s1m|] eqn:E1; [|discriminate].
      destruct (seq_agree V inp body H Hb _ _ _
                  (agree_add V s1 s2 i (CScalar DInt true (VI k)) HR') E1) as [s2m [E2 HRm]].
      rewrite E2. eapply IHn; [|exact E']. apply agree_remove. apply agree_remove_all. exact HRm.
  - (* SBlock *)
    destruct (seq_gen (exec inp) body st1) as [s1m|] eqn:E1; [|discriminate].
    destruct (seq_agree V inp body H Hin _ _ _ HR E1) as [s2m [E2 HRm]]. rewrite E2.
    inversion E; subst. eexists. split; [reflexivity|].
    apply agree_remove_all. exact HRm.
  - (* SList *)
    eapply seq_agree; eauto.
Qed.

(* ---------- names outside the statement are not touched ---------- *)

Lemma find_remove_all_other xs : forall (st : store) x,
  ~ In x xs -> PositiveMap.find x (remove_all xs st) = PositiveMap.find x st.
Proof.
  unfold remove_all. induction xs as [|y xs IH]; intros st x Hn; simpl; [reflexivity|].
  rewrite IH by (intro; apply Hn; right; assumption).
  apply PositiveMap.gro. intros ->. apply Hn. left. reflexivity.
Qed.

Lemma find_remove_all_in xs : forall (st : store) x,
  In x xs -> PositiveMap.find x (remove_all xs st) = None.
Proof.
  unfold remove_all. induction xs as [|y xs IH]; intros st x Hin; simpl; [contradiction|].
  destruct (in_dec Pos.eq_dec x xs) as [Hx|Hx].
  - apply IH. exact Hx.
  - destruct Hin as [->|Hin]; [|contradiction].
    change (PositiveMap.find x (remove_all xs (PositiveMap.remove x st)) = None).
    rewrite find_remove_all_other by exact Hx. apply PositiveMap.grs.
Qed.

Lemma s_in_declared V s : s_in V s = true -> forall x, In x (declared s) -> V x = true.
Proof.
  induction s using stmt_ind'; simpl; intros Hin y Hy; try contradiction.
  - apply andb_true_iff in Hin. destruct Hy as [<-|[]]. apply Hin.
  - apply andb_true_iff in Hin. destruct Hy as [<-|[]]. apply Hin.
  - apply in_flat_map in Hy. destruct Hy as [s [Hs Hy]].
    rewrite forallb_forall in Hin. rewrite Forall_forall in H. eapply H; eauto.
Qed.

Lemma s_in_declared_list V l : forallb (s_in V) l = true ->
  forall x, In x (declared_list l) -> V x = true.
Proof. intros H. apply (s_in_declared V (SList l)). exact H. Qed.

Lemma write_frame inp st l f st' x :
  write inp st l f = Some st' -> x <> ltarget l -> PositiveMap.find x st' = PositiveMap.find x st.
Proof.
  intros E Hx. destruct l as [y|a idx]; simpl in *.
  - destruct (PositiveMap.find y st) as [[ty [|] v|]|]; try discriminate.
    destruct (f ty v); [|discriminate]. inversion E; subst. apply PositiveMap.gso. exact Hx.
  - destruct (LN.evals T of_Z of_lit of_clit tadd tsub tmul tdiv tneg teqb tltb tleb tfn inp st idx);
      [|discriminate].
    destruct (opt_map as_int l); [|discriminate].
    destruct (PositiveMap.find a st) as [[|ty [|] shape data]|]; try discriminate.
    destruct (flat_index shape l0 0); [|discriminate].
    destruct (nth_error data (Z.to_nat z)); [|discriminate].
    destruct (f ty v); [|discriminate]. inversion E; subst. apply PositiveMap.gso. exact Hx.
Qed.

Lemma l_in_target V l : l_in V l = true -> V (ltarget l) = true.
Proof. destruct l; simpl; intros H; [exact H|]. apply andb_true_iff in H. apply H. Qed.

Lemma seq_frame (P : stmt -> bool) inp x (l : list stmt) :
  Forall (fun s => forall st st', P s = true -> exec inp s st = Some st' ->
                                  PositiveMap.find x st' = PositiveMap.find x st) l ->
  forallb P l = true ->
  forall st st', seq_gen (exec inp) l st = Some st' -> PositiveMap.find x st' = PositiveMap.find x st.
Proof.
  induction 1 as [|s l Hs Hl IHl]; intros Hal st st' E; simpl in *.
  - inversion E; subst. reflexivity.
  - apply andb_true_iff in Hal. destruct Hal as [Ha Hal].
    destruct (exec inp s st) as [sm|] eqn:E1; [|discriminate].
    rewrite (IHl Hal _ _ E). eapply Hs; eauto.
Qed.

Theorem exec_frame_out V inp x : V x = false ->
  forall s st st', s_in V s = true -> exec inp s st = Some st' ->
    PositiveMap.find x st' = PositiveMap.find x st.
Proof.
  intros Hx s. induction s using stmt_ind'; intros st st' Hin E; simpl in *.
  - inversion E; subst. reflexivity.
  - apply andb_true_iff in Hin. destruct Hin as [Hy _].
    destruct (fresh x0 st); [|discriminate].
    destruct (eval inp st e); [|discriminate].
    destruct (coerce T of_Z ty v); [|discriminate]. inversion E; subst.
    apply PositiveMap.gso. intros ->. congruence.
  - apply andb_true_iff in Hin. destruct Hin as [Hy _].
    destruct (fresh x0 st && forallb (fun n => 0 <? n) shape &&
              (Z.of_nat (List.length vals) <=? prodZ shape)); [|discriminate].
    destruct (LN.evals T of_Z of_lit of_clit tadd tsub tmul tdiv tneg teqb tltb tleb tfn inp st vals);
      [|discriminate].
    destruct (opt_map (coerce T of_Z ty) l); [|discriminate]. inversion E; subst.
    apply PositiveMap.gso. intros ->. congruence.
  - apply andb_true_iff in Hin. destruct Hin as [Hl _].
    destruct (eval inp st e); [|discriminate].
    eapply write_frame; eauto. intros ->. apply l_in_target in Hl. congruence.
  - apply andb_true_iff in Hin. destruct Hin as [Hl _].
    destruct (eval inp st e); [|discriminate].
    eapply write_frame; eauto. intros ->. apply l_in_target in Hl. congruence.
  - (* SFor *)
    apply andb_true_iff in Hin. destruct Hin as [Hi Hb].
    destruct (fresh i st); [|discriminate].
    assert (Hxi : x <> i) by (intros ->; congruence).
    assert (Hxd : ~ In x (declared_list body)).
    { intros Hd. rewrite (s_in_declared_list V body Hb x Hd) in Hx. discriminate. }
    revert E. generalize (Z.to_nat (e - b)) as n. generalize b as k.
    intros k n. revert k st.
    induction n as [|n IHn]; intros k s1 E'; simpl in *.
    + inversion E'; subst. reflexivity.
    + destruct (seq_gen (exec inp) body (PositiveMap.add i (CScalar DInt true (VI k)) s1))
        as [s1m|] eqn:E1; [|discriminate].
      rewrite (IHn _ _ E'). rewrite PositiveMap.gro by congruence.
      rewrite find_remove_all_other by exact Hxd.
      rewrite (seq_frame (s_in V) inp x body H Hb _ _ E1). apply PositiveMap.gso. exact Hxi.
  - (* SBlock *)
    destruct (seq_gen (exec inp) body st) as [sm|] eqn:E1; [|discriminate].
    inversion E; subst.
    rewrite find_remove_all_other.
    + eapply seq_frame; eauto.
    + intros Hd. rewrite (s_in_declared_list V body Hin x Hd) in Hx. discriminate.
  - eapply seq_frame; eauto.
Qed.

(* ---------- names that the statement preserves ---------- *)

Lemma pres_declared x s : pres x s = true -> ~ In x (declared s).
Proof.
  induction s using stmt_ind'; simpl; intros Hp Hin; try contradiction.
  - destruct Hin as [->|[]]. rewrite Pos.eqb_refl in Hp. discriminate.
  - destruct Hin as [->|[]]. rewrite Pos.eqb_refl in Hp. discriminate.
  - apply in_flat_map in Hin. destruct Hin as [s [Hs Hin]].
    rewrite forallb_forall in Hp. rewrite Forall_forall in H. exact (H s Hs (Hp s Hs) Hin).
Qed.

Lemma pres_declared_list x l : forallb (pres x) l = true -> ~ In x (declared_list l).
Proof. intros H. apply (pres_declared x (SList l)). exact H. Qed.

Lemma fresh_none x (st : store) : fresh x st = true -> PositiveMap.find x st = None.
Proof.
  unfold LN.fresh. intros H. apply andb_true_iff in H. destruct H as [_ H].
  destruct (PositiveMap.find x st); [discriminate | reflexivity].
Qed.

Theorem exec_pres inp x :
  forall s st st', pres x s = true -> exec inp s st = Some st' ->
    PositiveMap.find x st' = PositiveMap.find x st.
Proof.
  intros s. induction s using stmt_ind'; intros st st' Hp E; simpl in *.
  - inversion E; subst. reflexivity.
  - destruct (fresh x0 st); [|discriminate].
    destruct (eval inp st e); [|discriminate].
    destruct (coerce T of_Z ty v); [|discriminate]. inversion E; subst.
    apply PositiveMap.gso. intros ->. rewrite Pos.eqb_refl in Hp. discriminate.
  - destruct (fresh x0 st && forallb (fun n => 0 <? n) shape &&
              (Z.of_nat (List.length vals) <=? prodZ shape)); [|discriminate].
    destruct (LN.evals T of_Z of_lit of_clit tadd tsub tmul tdiv tneg teqb tltb tleb tfn inp st vals);
      [|discriminate].
    destruct (opt_map (coerce T of_Z ty) l); [|discriminate]. inversion E; subst.
    apply PositiveMap.gso. intros ->. rewrite Pos.eqb_refl in Hp. discriminate.
  - destruct (eval inp st e); [|discriminate].
    eapply write_frame; eauto. intros ->. rewrite Pos.eqb_refl in Hp. discriminate.
  - destruct (eval inp st e); [|discriminate].
    eapply write_frame; eauto. intros ->. rewrite Pos.eqb_refl in Hp. discriminate.
  - (* SFor *)
    destruct (fresh i st) eqn:Hf; [|discriminate].
    destruct (Pos.eqb x i) eqn:Hxi; simpl in Hp.
    + (* the loop index itself: absent before, absent after *)
      apply Pos.eqb_eq in Hxi. subst i.
      rewrite (fresh_none x st Hf).
      assert (G : forall n k (s1 : store) s1', PositiveMap.find x s1 = None ->
                loop_gen (seq_gen (exec inp) body) x (declared_list body) n k s1 = Some s1' ->
                PositiveMap.find x s1' = None).
      { induction n as [|n IHn]; intros k s1 s1' Hn E'; simpl in E'.
        - inversion E'; subst. exact Hn.
        - destruct (seq_gen (exec inp) body (PositiveMap.add x (CScalar DInt true (VI k)) s1));
            [|discriminate].
          eapply IHn; [|exact E']. apply PositiveMap.grs. }
      eapply G; [|exact E]. apply fresh_none. exact Hf.
    + apply Pos.eqb_neq in Hxi.
      assert (Hxd : ~ In x (declared_list body)) by (apply pres_declared_list; exact Hp).
      revert E. generalize (Z.to_nat (e - b)) as n. generalize b as k.
      clear Hf. intros k n. revert k st.
      induction n as [|n IHn]; intros k s1 E'; simpl in *.
      * inversion E'; subst. reflexivity.
      * destruct (seq_gen (exec inp) body (PositiveMap.add i (CScalar DInt true (VI k)) s1))
          as [s1m|] eqn:E1; [|discriminate].
        rewrite (IHn _ _ E'). rewrite PositiveMap.gro by congruence.
        rewrite find_remove_all_other by exact Hxd.
        rewrite (seq_frame (pres x) inp x body H Hp _ _ E1). apply PositiveMap.gso. exact Hxi.
  - (* SBlock *)
    destruct (seq_gen (exec inp) body st) as [sm|] eqn:E1; [|discriminate].
    inversion E; subst.
    rewrite find_remove_all_other by (apply pres_declared_list; exact Hp).
    eapply seq_frame; eauto.
  - eapply seq_frame; eauto.
Qed.

(* ---------- exec respects extensional equality ---------- *)

Lemma e_in_all e : e_in (fun _ => true) e = true.
Proof.
  induction e using expr_ind'; simpl; try reflexivity; auto.
  - apply forallb_forall. rewrite Forall_forall in H. auto.
  - rewrite IHe1, IHe2. reflexivity.
  - apply forallb_forall. rewrite Forall_forall in H. auto.
  - apply forallb_forall. rewrite Forall_forall in H. auto.
  - apply forallb_forall. rewrite Forall_forall in H. auto.
  - rewrite IHe1, IHe2, IHe3. reflexivity.
Qed.

Lemma s_in_all s : s_in (fun _ => true) s = true.
Proof.
  induction s using stmt_ind'; simpl; try reflexivity.
  - apply e_in_all.
  - apply forallb_forall. intros; apply e_in_all.
  - rewrite e_in_all. destruct l; simpl; [reflexivity|].
    rewrite andb_true_r. apply forallb_forall. intros; apply e_in_all.
  - rewrite e_in_all. destruct l; simpl; [reflexivity|].
    rewrite andb_true_r. apply forallb_forall. intros; apply e_in_all.
  - apply forallb_forall. rewrite Forall_forall in H. auto.
  - apply forallb_forall. rewrite Forall_forall in H. auto.
  - apply forallb_forall. rewrite Forall_forall in H. auto.
Qed.

Theorem exec_equiv inp s st1 st2 st1' :
  sequiv st1 st2 -> exec inp s st1 = Some st1' ->
  exists st2', exec inp s st2 = Some st2' /\ sequiv st1' st2'.
Proof.
  intros HR E. apply sequiv_agree in HR.
  destruct (exec_agree _ inp s st1 st2 st1' (s_in_all s) HR E) as [st2' [E2 H2]].
  exists st2'. split; [exact E2 | apply sequiv_agree; exact H2].
Qed.

Theorem exec_list_equiv inp l : forall st1 st2 st1',
  sequiv st1 st2 -> exec_list inp l st1 = Some st1' ->
  exists st2', exec_list inp l st2 = Some st2' /\ sequiv st1' st2'.
Proof.
  unfold LN.exec_list.
  induction l as [|s l IH]; intros st1 st2 st1' HR E; simpl in *.
  - inversion E; subst. eauto.
  - destruct (exec inp s st1) as [m1|] eqn:E1; [|discriminate].
    destruct (exec_equiv inp s st1 st2 m1 HR E1) as [m2 [E2 Hm]]. rewrite E2.
    eapply IH; eauto.
Qed.

(* ---------- commutation ---------- *)

Lemma memb_false l x : memb l x = false -> ~ In x l.
Proof.
  unfold memb. intros H Hin.
  assert (existsb (Pos.eqb x) l = true).
  { apply existsb_exists. exists x. split; [exact Hin | apply Pos.eqb_refl]. }
  congruence.
Qed.

Theorem commute inp s1 s2 : indep s1 s2 = true ->
  forall st st1 st12,
    exec inp s1 st = Some st1 -> exec inp s2 st1 = Some st12 ->
    exists st2 st21, exec inp s2 st = Some st2 /\ exec inp s1 st2 = Some st21 /\ sequiv st12 st21.
Proof.
  unfold indep. intros Hind st st1 st12 E1 E12.
  apply andb_true_iff in Hind. destruct Hind as [Hind Hsh].
  apply andb_true_iff in Hind. destruct Hind as [Hin1 Hin2].
  set (V1 := memb (s_names s1)) in *. set (V2 := memb (s_names s2)) in *.
  rewrite forallb_forall in Hsh.
  assert (Hshared : forall x, V1 x = true -> V2 x = true -> pres x s1 = true /\ pres x s2 = true).
  { intros x H1 H2. unfold V1, memb in H1. apply existsb_exists in H1.
    destruct H1 as [y [Hy Hxy]]. apply Pos.eqb_eq in Hxy. subst y.
    specialize (Hsh x Hy). rewrite H2 in Hsh. simpl in Hsh. apply andb_true_iff in Hsh. exact Hsh. }
  (* s1 leaves every name of s2 alone *)
  assert (A1 : agree V2 st1 st).
  { intros x H2. destruct (V1 x) eqn:H1.
    - exact (exec_pres inp x s1 st st1 (proj1 (Hshared x H1 H2)) E1).
    - eapply exec_frame_out; eauto. }
  destruct (exec_agree V2 inp s2 st1 st st12 Hin2 A1 E12) as [st2 [E2 A12]].
  assert (A2 : agree V1 st st2).
  { intros x H1. symmetry. destruct (V2 x) eqn:H2.
    - exact (exec_pres inp x s2 st st2 (proj2 (Hshared x H1 H2)) E2).
    - eapply exec_frame_out; eauto. }
  destruct (exec_agree V1 inp s1 st st2 st1 Hin1 A2 E1) as [st21 [E21 A21]].
  exists st2, st21. split; [exact E2|]. split; [exact E21|].
  intros x. destruct (V1 x) eqn:H1; destruct (V2 x) eqn:H2.
  - destruct (Hshared x H1 H2) as [P1 P2].
    rewrite (exec_pres inp x s2 st1 st12 P2 E12), (exec_pres inp x s1 st st1 P1 E1).
    rewrite (exec_pres inp x s1 st2 st21 P1 E21), (exec_pres inp x s2 st st2 P2 E2). reflexivity.
  - rewrite (exec_frame_out V2 inp x H2 s2 st1 st12 Hin2 E12). apply A21. exact H1.
  - rewrite (A12 x H2). symmetry. eapply exec_frame_out; eauto.
  - rewrite (exec_frame_out V2 inp x H2 s2 st1 st12 Hin2 E12).
    rewrite (exec_frame_out V1 inp x H1 s1 st st1 Hin1 E1).
    rewrite (exec_frame_out V1 inp x H1 s1 st2 st21 Hin1 E21).
    rewrite (exec_frame_out V2 inp x H2 s2 st st2 Hin2 E2). reflexivity.
Qed.

(* ------------------------------------------------------------------ *)
(* refinement of statement lists: whenever the left one runs, the right one runs too and ends in an
   extensionally equal store (from extensionally equal stores) *)

Definition lref inp (l1 l2 : list stmt) : Prop :=
  forall st1 st2 st1', sequiv st1 st2 -> exec_list inp l1 st1 = Some st1' ->
    exists st2', exec_list inp l2 st2 = Some st2' /\ sequiv st1' st2'.

Lemma exec_list_app inp l1 l2 st :
  exec_list inp (l1 ++ l2) st
  = match exec_list inp l1 st with Some m => exec_list inp l2 m | None => None end.
Proof.
  unfold LN.exec_list. revert st. induction l1 as [|s l1 IH]; intros st; simpl; [reflexivity|].
  destruct (exec inp s st); [apply IH | reflexivity].
Qed.

Lemma lref_refl inp l : lref inp l l.
Proof. intros st1 st2 st1' H E. eapply exec_list_equiv; eauto. Qed.

Lemma lref_trans inp l1 l2 l3 : lref inp l1 l2 -> lref inp l2 l3 -> lref inp l1 l3.
Proof.
  intros H12 H23 st1 st3 st1' H E.
  destruct (H12 st1 st1 st1' (sequiv_refl st1) E) as [m [E2 Hm]].
  destruct (H23 st1 st3 m H E2) as [r [E3 Hr]].
  exists r. split; [exact E3 | eapply sequiv_trans; eauto].
Qed.

Lemma lref_app inp a a' b b' : lref inp a a' -> lref inp b b' -> lref inp (a ++ b) (a' ++ b').
Proof.
  intros Ha Hb st1 st2 st1' H E. rewrite exec_list_app in E.
  destruct (exec_list inp a st1) as [m|] eqn:Ea; [|discriminate].
  destruct (Ha st1 st2 m H Ea) as [m' [Ea' Hm]].
  destruct (Hb m m' st1' Hm E) as [r [Eb' Hr]].
  exists r. rewrite exec_list_app, Ea'. split; assumption.
Qed.

Lemma lref_eq inp l1 l2 : (forall st, exec_list inp l1 st = exec_list inp l2 st) -> lref inp l1 l2.
Proof.
  intros Heq st1 st2 st1' H E. rewrite Heq in E. eapply exec_list_equiv; eauto.
Qed.

Lemma lref_swap inp s1 s2 : indep s1 s2 = true -> lref inp [s1; s2] [s2; s1].
Proof.
  intros Hi st1 st2 st1' H E. unfold LN.exec_list in E. simpl in E.
  destruct (exec inp s1 st1) as [m1|] eqn:E1; [|discriminate].
  destruct (exec inp s2 m1) as [m12|] eqn:E12; [|discriminate]. inversion E; subst.
  destruct (commute inp s1 s2 Hi st1 m1 st1' E1 E12) as [m2 [m21 [E2 [E21 Heq]]]].
  assert (EL : exec_list inp [s2; s1] st1 = Some m21).
  { unfold LN.exec_list. simpl. rewrite E2, E21. reflexivity. }
  destruct (exec_list_equiv inp [s2; s1] st1 st2 m21 H EL) as [r [Er Hr]].
  exists r. split; [exact Er | eapply sequiv_trans; eauto].
Qed.

(* a statement moved to the front over statements it is independent of *)
Lemma lref_move_left inp s : forall ms,
  forallb (fun m => indep m s) ms = true -> lref inp (ms ++ [s]) (s :: ms).
Proof.
  induction ms as [|m ms IH]; intros H; simpl in *.
  - apply lref_refl.
  - apply andb_true_iff in H. destruct H as [Hm Hms].
    apply lref_trans with (l2 := [m] ++ (s :: ms)).
    + apply (lref_app inp [m] [m]); [apply lref_refl | apply IH; exact Hms].
    + change ([m] ++ s :: ms) with ([m; s] ++ ms). change (s :: m :: ms) with ([s; m] ++ ms).
      apply lref_app; [apply lref_swap; exact Hm | apply lref_refl].
Qed.

(* ... and to the back *)
Lemma lref_move_right inp s : forall ms,
  forallb (fun m => indep s m) ms = true -> lref inp (s :: ms) (ms ++ [s]).
Proof.
  induction ms as [|m ms IH]; intros H; simpl in *.
  - apply lref_refl.
  - apply andb_true_iff in H. destruct H as [Hm Hms].
    apply lref_trans with (l2 := [m] ++ (s :: ms)).
    + change (s :: m :: ms) with ([s; m] ++ ms). change ([m] ++ s :: ms) with ([m; s] ++ ms).
      apply lref_app; [apply lref_swap; exact Hm | apply lref_refl].
    + apply (lref_app inp [m] [m]); [apply lref_refl | apply IH; exact Hms].
Qed.

(* ---------- a verified checker for reorderings ---------- *)

(* l' is obtained from l by repeatedly taking some statement of l that is independent of everything
   in front of it and putting it next *)
Fixpoint take (eqb : stmt -> stmt -> bool) (s : stmt) (l : list stmt) : option (list stmt * list stmt) :=
  match l with
  | [] => None
  | x :: r => if eqb x s then Some ([], r)
              else match take eqb s r with
                   | Some (pre, post) => Some (x :: pre, post)
                   | None => None
                   end
  end.

Lemma take_spec eqb (Heqb : forall a b, eqb a b = true -> a = b) s : forall l pre post,
  take eqb s l = Some (pre, post) -> l = pre ++ s :: post.
Proof.
  induction l as [|x r IH]; simpl; intros pre post H; [discriminate|].
  destruct (eqb x s) eqn:E.
  - inversion H; subst. apply Heqb in E. subst. reflexivity.
  - destruct (take eqb s r) as [[p q]|]; [|discriminate]. inversion H; subst.
    simpl. f_equal. apply IH. reflexivity.
Qed.

Fixpoint reorder_ok (eqb : stmt -> stmt -> bool) (l l' : list stmt) : bool :=
  match l' with
  | [] => match l with [] => true | _ => false end
  | s :: r' =>
      match take eqb s l with
      | Some (pre, post) => forallb (fun m => indep m s) pre && reorder_ok eqb (pre ++ post) r'
      | None => false
      end
  end.

Theorem reorder_sound inp eqb (Heqb : forall a b, eqb a b = true -> a = b) : forall l' l,
  reorder_ok eqb l l' = true -> lref inp l l'.
Proof.
  induction l' as [|s r' IH]; intros l H; simpl in H.
  - destruct l; [apply lref_refl | discriminate].
  - destruct (take eqb s l) as [[pre post]|] eqn:Et; [|discriminate].
    apply andb_true_iff in H. destruct H as [Hind Hrest].
    rewrite (take_spec eqb Heqb s l pre post Et).
    apply lref_trans with (l2 := (s :: pre) ++ post).
    + change (pre ++ s :: post) with (pre ++ [s] ++ post). rewrite app_assoc.
      apply lref_app; [apply lref_move_left; exact Hind | apply lref_refl].
    + change ((s :: pre) ++ post) with ([s] ++ (pre ++ post)). change (s :: r') with ([s] ++ r').
      apply lref_app; [apply lref_refl | apply IH; exact Hrest].
Qed.

(* ---------- blocks ---------- *)

Lemma sequiv_remove_all d1 d2 (st1 st2 : store) :
  (forall x, In x d1 <-> In x d2) -> sequiv st1 st2 -> sequiv (remove_all d1 st1) (remove_all d2 st2).
Proof.
  intros Hd H x. destruct (in_dec Pos.eq_dec x d1) as [Hin|Hn].
  - rewrite find_remove_all_in by exact Hin.
    rewrite find_remove_all_in by (apply Hd; exact Hin). reflexivity.
  - rewrite find_remove_all_other by exact Hn.
    rewrite find_remove_all_other by (intro; apply Hn; apply Hd; assumption). apply H.
Qed.

Lemma exec_list_single inp s st : exec_list inp [s] st = exec inp s st.
Proof. unfold LN.exec_list. simpl. destruct (exec inp s st); reflexivity. Qed.

Theorem lref_block inp l l' :
  lref inp l l' -> (forall x, In x (declared_list l) <-> In x (declared_list l')) ->
  lref inp [SBlock l] [SBlock l'].
Proof.
  intros Hl Hd st1 st2 st1' H E. rewrite exec_list_single in E. simpl in E.
  change (seq_gen (exec inp) l st1) with (exec_list inp l st1) in E.
  destruct (exec_list inp l st1) as [m|] eqn:El; [|discriminate]. inversion E; subst.
  destruct (Hl st1 st2 m H El) as [m' [El' Hm]].
  exists (remove_all (declared_list l') m'). split.
  - rewrite exec_list_single. simpl.
    change (seq_gen (exec inp) l' st2) with (exec_list inp l' st2). rewrite El'. reflexivity.
  - apply sequiv_remove_all; assumption.
Qed.

(* two blocks in a row, the first without declarations of its own, are one block *)
Theorem lref_block_merge inp l1 l2 :
  declared_list l1 = [] -> lref inp [SBlock l1; SBlock l2] [SBlock (l1 ++ l2)].
Proof.
  intros Hd. apply lref_eq. intros st. unfold LN.exec_list. simpl.
  change (seq_gen (exec inp) (l1 ++ l2) st) with (exec_list inp (l1 ++ l2) st).
  rewrite exec_list_app. unfold LN.exec_list.
  destruct (seq_gen (exec inp) l1 st) as [m|]; [|reflexivity].
  rewrite Hd. unfold remove_all at 1. simpl.
  destruct (seq_gen (exec inp) l2 m) as [r|]; [|reflexivity].
  unfold declared_list in *. rewrite flat_map_app, Hd. reflexivity.
Qed.

(* ---------- read-only scalars (loop indices) survive every statement ---------- *)

Lemma write_ro inp st l f st' x ty v :
  write inp st l f = Some st' -> PositiveMap.find x st = Some (CScalar ty true v) ->
  PositiveMap.find x st' = Some (CScalar ty true v).
Proof.
  intros E Hx. destruct (Pos.eq_dec x (ltarget l)) as [Heq|Hne].
  - exfalso. destruct l as [y|a idx]; simpl in *; subst.
    + rewrite Hx in E. discriminate.
    + destruct (LN.evals T of_Z of_lit of_clit tadd tsub tmul tdiv tneg teqb tltb tleb tfn inp st idx);
        [|discriminate].
      destruct (opt_map as_int l); [|discriminate].
      rewrite Hx in E. discriminate.
  - rewrite (write_frame inp st l f st' x E Hne). exact Hx.
Qed.

Lemma seq_ro inp x ty v (l : list stmt) :
  Forall (fun s => forall st st', exec inp s st = Some st' ->
                     PositiveMap.find x st = Some (CScalar ty true v) ->
                     PositiveMap.find x st' = Some (CScalar ty true v) /\ ~ In x (declared s)) l ->
  forall st st', seq_gen (exec inp) l st = Some st' ->
    PositiveMap.find x st = Some (CScalar ty true v) ->
    PositiveMap.find x st' = Some (CScalar ty true v) /\ ~ In x (declared_list l).
Proof.
  induction 1 as [|s l Hs Hl IHl]; intros st st' E Hx; simpl in *.
  - inversion E; subst. split; [exact Hx | intros []].
  - destruct (exec inp s st) as [m|] eqn:E1; [|discriminate].
    destruct (Hs st m E1 Hx) as [Hm Hd].
    destruct (IHl m st' E Hm) as [Hr Hdl].
    split; [exact Hr|]. unfold declared_list in *. simpl. intros Hin.
    apply in_app_or in Hin. destruct Hin; contradiction.
Qed.

Lemma fresh_neq x y (st : store) c :
  fresh y st = true -> PositiveMap.find x st = Some c -> x <> y.
Proof. intros Hf Hx ->. rewrite (fresh_none y st Hf) in Hx. discriminate. Qed.

Theorem exec_ro inp x ty v :
  forall s st st', exec inp s st = Some st' ->
    PositiveMap.find x st = Some (CScalar ty true v) ->
    PositiveMap.find x st' = Some (CScalar ty true v) /\ ~ In x (declared s).
Proof.
  intros s. induction s using stmt_ind'; intros st st' E Hx; simpl in *.
  - inversion E; subst. split; [exact Hx | intros []].
  - destruct (fresh x0 st) eqn:Hf; [|discriminate].
    destruct (eval inp st e); [|discriminate].
    destruct (coerce T of_Z ty0 v0); [|discriminate]. inversion E; subst.
    assert (Hne : x <> x0) by (eapply fresh_neq; eauto).
    split; [rewrite PositiveMap.gso by exact Hne; exact Hx | intros [->|[]]; congruence].
  - destruct (fresh x0 st) eqn:Hf; simpl in E; [|discriminate].
    destruct (forallb (fun n => 0 <? n) shape && (Z.of_nat (List.length vals) <=? prodZ shape));
      [|discriminate].
    destruct (LN.evals T of_Z of_lit of_clit tadd tsub tmul tdiv tneg teqb tltb tleb tfn inp st vals);
      [|discriminate].
    destruct (opt_map (coerce T of_Z ty0) l); [|discriminate]. inversion E; subst.
    assert (Hne : x <> x0) by (eapply fresh_neq; eauto).
    split; [rewrite PositiveMap.gso by exact Hne; exact Hx | intros [->|[]]; congruence].
  - destruct (eval inp st e); [|discriminate].
    split; [eapply write_ro; eauto | intros []].
  - destruct (eval inp st e); [|discriminate].
    split; [eapply write_ro; eauto | intros []].
  - (* SFor *)
    split; [|intros []].
    destruct (fresh i st) eqn:Hf; [|discriminate].
    assert (Hne : x <> i) by (eapply fresh_neq; eauto). clear Hf.
    revert E Hx. generalize (Z.to_nat (e - b)) as n. generalize b as k.
    intros k n. revert k st.
    induction n as [|n IHn]; intros k s1 E' Hx; simpl in *.
    + inversion E'; subst. exact Hx.
    + destruct (seq_gen (exec inp) body (PositiveMap.add i (CScalar DInt true (VI k)) s1))
        as [s1m|] eqn:E1; [|discriminate].
      assert (Hx1 : PositiveMap.find x (PositiveMap.add i (CScalar DInt true (VI k)) s1)
                    = Some (CScalar ty true v)) by (rewrite PositiveMap.gso by exact Hne; exact Hx).
      destruct (seq_ro inp x ty v body H _ _ E1 Hx1) as [Hm Hd].
      eapply IHn; [exact E'|].
      rewrite PositiveMap.gro by congruence. rewrite find_remove_all_other by exact Hd. exact Hm.
  - (* SBlock *)
    split; [|intros []].
    destruct (seq_gen (exec inp) body st) as [sm|] eqn:E1; [|discriminate]. inversion E; subst.
    destruct (seq_ro inp x ty v body H _ _ E1 Hx) as [Hm Hd].
    rewrite find_remove_all_other by exact Hd. exact Hm.
  - eapply seq_ro; eauto.
Qed.

(* ---------- loops as sequences of iterations ---------- *)

Definition ro_idx (k : Z) : cell := CScalar DInt true (VI k).

Lemma iter_exec inp i k body st :
  exec inp (SFor i k (k + 1) body) st
  = if fresh i st then
      match exec_list inp body (PositiveMap.add i (ro_idx k) st) with
      | Some m => Some (PositiveMap.remove i (remove_all (declared_list body) m))
      | None => None
      end
    else None.
Proof.
  simpl. replace (Z.to_nat (k + 1 - k)) with 1%nat by lia. simpl.
  unfold LN.exec_list, ro_idx.
  destruct (fresh i st); [|reflexivity].
  destruct (seq_gen (exec inp) body (PositiveMap.add i (CScalar DInt true (VI k)) st)); reflexivity.
Qed.

Lemma fresh_after_remove i (st m : store) :
  fresh i st = true -> fresh i (PositiveMap.remove i m) = true.
Proof.
  unfold LN.fresh. intros H. apply andb_true_iff in H. destruct H as [H _].
  rewrite H, PositiveMap.grs. reflexivity.
Qed.

Lemma exec_list_two inp a b st :
  exec_list inp [a; b] st = match exec inp a st with Some m => exec inp b m | None => None end.
Proof.
  unfold LN.exec_list. simpl. destruct (exec inp a st) as [m|]; [|reflexivity].
  destruct (exec inp b m); reflexivity.
Qed.

Lemma for_unroll inp i b e body st : b < e ->
  exec inp (SFor i b e body) st
  = exec_list inp [SFor i b (b + 1) body; SFor i (b + 1) e body] st.
Proof.
  intros Hlt. rewrite exec_list_two, iter_exec.
  simpl. destruct (fresh i st) eqn:Hf; [|reflexivity].
  replace (Z.to_nat (e - b)) with (S (Z.to_nat (e - (b + 1)))) by lia. simpl.
  unfold LN.exec_list, ro_idx.
  destruct (seq_gen (exec inp) body (PositiveMap.add i (CScalar DInt true (VI b)) st)) as [m|];
    [|reflexivity].
  rewrite (fresh_after_remove i st _ Hf). reflexivity.
Qed.

Lemma for_empty inp i b e body st : e <= b ->
  exec inp (SFor i b e body) st = if fresh i st then Some st else None.
Proof.
  intros Hle. simpl. replace (Z.to_nat (e - b)) with 0%nat by lia. reflexivity.
Qed.

Lemma declared_wrap_body X : declared (wrap_body X) = declared_list X.
Proof.
  destruct X as [|x [|y r]]; try reflexivity.
  unfold declared_list. simpl. rewrite app_nil_r. reflexivity.
Qed.

(* ---------- fusing loops over the same range ---------- *)

Lemma exec_list_cons inp a l st :
  exec_list inp (a :: l) st = match exec inp a st with Some m => exec_list inp l m | None => None end.
Proof. reflexivity. Qed.

Lemma exec_wrap inp body st : exec inp (wrap_body body) st = exec_list inp body st.
Proof.
  destruct body as [|x [|y r]]; try reflexivity.
  unfold LN.exec_list. simpl. destruct (exec inp x st); reflexivity.
Qed.

Lemma sequiv_add (st1 st2 : store) x c :
  sequiv st1 st2 -> sequiv (PositiveMap.add x c st1) (PositiveMap.add x c st2).
Proof.
  intros H y. destruct (Pos.eq_dec y x) as [->|Hne].
  - rewrite !PositiveMap.gss. reflexivity.
  - rewrite !PositiveMap.gso by exact Hne. apply H.
Qed.

Lemma sequiv_fresh (st1 st2 : store) x : sequiv st1 st2 -> fresh x st1 = fresh x st2.
Proof. intros H. unfold LN.fresh. rewrite (H x). reflexivity. Qed.

Lemma merge_iter_gen inp i k : forall Bs st m r,
  Forall (fun X => declared_list X = []) Bs ->
  fresh i st = true -> sequiv (PositiveMap.add i (ro_idx k) st) m ->
  exec_list inp (map (fun X => SFor i k (k + 1) X) Bs) st = Some r ->
  exists m', exec_list inp (map wrap_body Bs) m = Some m' /\ sequiv r (PositiveMap.remove i m').
Proof.
  induction Bs as [|X Bs IH]; intros st m r HF Hf Hm E; cbn [map] in *.
  - unfold LN.exec_list in *. simpl in *. inversion E; subst. exists m. split; [reflexivity|].
    intros x. destruct (Pos.eq_dec x i) as [->|Hne].
    + rewrite PositiveMap.grs. apply fresh_none. exact Hf.
    + rewrite PositiveMap.gro by congruence. rewrite <- (Hm x).
      rewrite PositiveMap.gso by exact Hne. reflexivity.
  - inversion HF as [|? ? HdX HF']; subst.
    rewrite exec_list_cons, iter_exec, Hf in E.
    destruct (exec_list inp X (PositiveMap.add i (ro_idx k) st)) as [mA|] eqn:EA; [|discriminate].
    rewrite HdX in E. unfold remove_all at 1 in E. simpl in E.
    destruct (exec_list_equiv inp X _ m mA Hm EA) as [mA' [EA' HmA]].
    rewrite exec_list_cons, exec_wrap, EA'.
    apply (IH (PositiveMap.remove i mA) mA' r HF'); [eapply fresh_after_remove; eauto | | exact E].
    assert (Hi : PositiveMap.find i mA = Some (CScalar DInt true (VI k))).
    { apply (exec_ro inp i DInt (VI k) (SList X) (PositiveMap.add i (ro_idx k) st) mA EA).
      apply PositiveMap.gss. }
    intros x. destruct (Pos.eq_dec x i) as [->|Hne].
    + rewrite PositiveMap.gss. rewrite <- (HmA i), Hi. reflexivity.
    + rewrite PositiveMap.gso by exact Hne. rewrite PositiveMap.gro by congruence. apply HmA.
Qed.

Lemma declared_list_wraps Bs :
  Forall (fun X => declared_list X = []) Bs -> declared_list (map wrap_body Bs) = [].
Proof.
  unfold declared_list at 2. induction 1 as [|X Bs HX HF IH]; simpl; [reflexivity|].
  rewrite declared_wrap_body, HX, IH. reflexivity.
Qed.

Theorem lref_merge_iters inp i k Bs :
  Bs <> [] -> Forall (fun X => declared_list X = []) Bs ->
  lref inp (map (fun X => SFor i k (k + 1) X) Bs) [SFor i k (k + 1) (map wrap_body Bs)].
Proof.
  intros Hne HF st1 st2 r H E.
  assert (Hf : fresh i st1 = true).
  { destruct Bs as [|X Bs]; [congruence|]. cbn [map] in E. rewrite exec_list_cons, iter_exec in E.
    destruct (fresh i st1); [reflexivity | discriminate]. }
  destruct (merge_iter_gen inp i k Bs st1 (PositiveMap.add i (ro_idx k) st2) r HF Hf
              (sequiv_add st1 st2 i (ro_idx k) H) E) as [m' [Em Hr]].
  exists (PositiveMap.remove i m'). split; [|exact Hr].
  rewrite exec_list_single, iter_exec, <- (sequiv_fresh st1 st2 i H), Hf, Em.
  rewrite (declared_list_wraps Bs HF). reflexivity.
Qed.

Fixpoint pairwise {A} (R : A -> A -> bool) (l : list A) : bool :=
  match l with [] => true | x :: r => forallb (R x) r && pairwise R r end.

Lemma forallb_map' {A B} (f : A -> B) (p : B -> bool) l : forallb p (map f l) = forallb (fun x => p (f x)) l.
Proof. induction l as [|a l IH]; simpl; [reflexivity | rewrite IH; reflexivity]. Qed.

Lemma lref_sort inp (F G : list stmt -> stmt) : forall Bs,
  pairwise (fun X Y => indep (G X) (F Y)) Bs = true ->
  lref inp (flat_map (fun X => [F X; G X]) Bs) (map F Bs ++ map G Bs).
Proof.
  induction Bs as [|X r IH]; intros Hp; simpl in *; [apply lref_refl|].
  apply andb_true_iff in Hp. destruct Hp as [HX Hr].
  apply lref_trans with (l2 := [F X] ++ ((G X :: map F r) ++ map G r)).
  - change (F X :: G X :: flat_map (fun X0 => [F X0; G X0]) r)
      with ([F X] ++ ([G X] ++ flat_map (fun X0 => [F X0; G X0]) r)).
    apply lref_app; [apply lref_refl|].
    change ((G X :: map F r) ++ map G r) with ([G X] ++ (map F r ++ map G r)).
    apply lref_app; [apply lref_refl | apply IH; exact Hr].
  - change (F X :: map F r ++ G X :: map G r) with ([F X] ++ (map F r ++ [G X] ++ map G r)).
    apply lref_app; [apply lref_refl|]. rewrite app_assoc.
    apply lref_app; [|apply lref_refl].
    apply lref_move_right. rewrite forallb_map'. exact HX.
Qed.

Lemma exec_list_flat_map inp (F : list stmt -> stmt) (G : list stmt -> list stmt) :
  (forall X st, exec inp (F X) st = exec_list inp (G X) st) ->
  forall Bs st, exec_list inp (map F Bs) st = exec_list inp (flat_map G Bs) st.
Proof.
  intros HFG. induction Bs as [|X r IH]; intros st; cbn [map flat_map]; [reflexivity|].
  rewrite exec_list_cons, exec_list_app, HFG.
  destruct (exec_list inp (G X) st); [apply IH | reflexivity].
Qed.

Lemma indep_for_bounds i j b1 e1 b2 e2 b1' e1' b2' e2' X Y :
  indep (SFor i b1 e1 X) (SFor j b2 e2 Y) = indep (SFor i b1' e1' X) (SFor j b2' e2' Y).
Proof. reflexivity. Qed.

Lemma pairwise_ext {A} (R R' : A -> A -> bool) : (forall x y, R x y = R' x y) ->
  forall l, pairwise R l = pairwise R' l.
Proof.
  intros H. induction l as [|x r IH]; simpl; [reflexivity|]. rewrite IH. f_equal.
  clear IH. induction r as [|y r IHr]; simpl; [reflexivity|]. rewrite H, IHr. reflexivity.
Qed.

Definition loops_indep (i : ident) (Bs : list (list stmt)) : bool :=
  pairwise (fun X Y => indep (SFor i 0 0 X) (SFor i 0 0 Y)) Bs.

Lemma empty_loops inp i b e : e <= b -> forall Bs st,
  exec_list inp (map (fun X => SFor i b e X) Bs) st
  = match Bs with [] => Some st | _ => if fresh i st then Some st else None end.
Proof.
  intros Hle. induction Bs as [|X r IH]; intros st; cbn [map]; [reflexivity|].
  rewrite exec_list_cons, for_empty by exact Hle.
  destruct (fresh i st) eqn:Hf; [|reflexivity].
  rewrite IH. destruct r; [reflexivity|]. rewrite Hf. reflexivity.
Qed.

Theorem lref_fuse_loops inp i e Bs :
  Bs <> [] -> Forall (fun X => declared_list X = []) Bs -> loops_indep i Bs = true ->
  forall n b, Z.to_nat (e - b) = n ->
    lref inp (map (fun X => SFor i b e X) Bs) [SFor i b e (map wrap_body Bs)].
Proof.
  intros Hne HF Hind. induction n as [|n IHn]; intros b Hn.
  - apply lref_eq. intros st. rewrite empty_loops by lia.
    rewrite exec_list_single, for_empty by lia. destruct Bs; [congruence | reflexivity].
  - assert (Hlt : b < e) by lia.
    apply lref_trans with (l2 := flat_map (fun X => [SFor i b (b + 1) X; SFor i (b + 1) e X]) Bs).
    { apply lref_eq. intros st. apply exec_list_flat_map. intros X st'. apply for_unroll. exact Hlt. }
    apply lref_trans with (l2 := map (fun X => SFor i b (b + 1) X) Bs ++ map (fun X => SFor i (b + 1) e X) Bs).
    { apply (lref_sort inp (fun X => SFor i b (b + 1) X) (fun X => SFor i (b + 1) e X)).
      unfold loops_indep in Hind. rewrite <- Hind. apply pairwise_ext. intros X Y. reflexivity. }
    apply lref_trans with (l2 := [SFor i b (b + 1) (map wrap_body Bs)] ++ [SFor i (b + 1) e (map wrap_body Bs)]).
    { apply lref_app; [apply lref_merge_iters; assumption | apply IHn; lia]. }
    apply lref_eq. intros st. cbn [app]. rewrite exec_list_single. symmetry. apply for_unroll. exact Hlt.
Qed.

End FP.
