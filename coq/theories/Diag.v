(* Diag.v — part='diagonal' (C10): the rank-1 kernel equals the diagonal of the full tensor.
   A dof block addresses A through positions  bs*i + off  (off: component, sub-element or
   restriction offset).  The full kernel adds f i j at (pos0 i, pos1 j) for every block; the
   diagonal kernel runs both argument loops with one index, A[pos0 i] += f i i.
   Whether blocks whose two arguments address different dofs are skipped is read off
   integral_generator.py (gen/DiagGen.v).

   Theorem (blocks skipped): for every list of blocks whose two position families are either
   the same family or disjoint (FFCx's dof layouts: Flatten.blocked_layout_bijective, disjoint
   sub-element and restriction ranges), the diagonal kernel computes A[k][k] for every k.
   Without the skip the statement is refuted by a two-component block. *)
From Coq Require Import ZArith List Lia Bool.
Import ListNotations.
Open Scope Z_scope.

Record block := Block {
  off0 : Z; bs0 : Z; n0 : nat;        (* test-function argument *)
  off1 : Z; bs1 : Z; n1 : nat;        (* trial-function argument *)
  val : nat -> nat -> Z }.            (* integrated contribution for loop indices (i, j) *)

Definition pos (off bs : Z) (i : nat) : Z := bs * Z.of_nat i + off.

Fixpoint sum_to (n : nat) (g : nat -> Z) : Z :=
  match n with O => 0 | S k => sum_to k g + g k end.

Definition ind (b : bool) (x : Z) : Z := if b then x else 0.

(* entry (r, c) of the full rank-2 tensor *)
Definition full_block (b : block) (r c : Z) : Z :=
  sum_to (n0 b) (fun i => sum_to (n1 b) (fun j =>
    ind (Z.eqb (pos (off0 b) (bs0 b) i) r && Z.eqb (pos (off1 b) (bs1 b) j) c) (val b i j))).

Definition full (bl : list block) (r c : Z) : Z := fold_right (fun b acc => full_block b r c + acc) 0 bl.

Definition same_dofs (b : block) : bool :=
  Z.eqb (off0 b) (off1 b) && Z.eqb (bs0 b) (bs1 b).

(* entry k of the rank-1 tensor written by the diagonal kernel *)
Definition diag_block (skip : bool) (b : block) (k : Z) : Z :=
  if skip && negb (same_dofs b) then 0
  else sum_to (n0 b) (fun i => ind (Z.eqb (pos (off0 b) (bs0 b) i) k) (val b i i)).

Definition diag (skip : bool) (bl : list block) (k : Z) : Z :=
  fold_right (fun b acc => diag_block skip b k + acc) 0 bl.

(* layout hypothesis on one block *)
Definition well_laid (b : block) : Prop :=
  0 < bs0 b /\ 0 < bs1 b /\
  ((off0 b = off1 b /\ bs0 b = bs1 b /\ n0 b = n1 b) \/
   ((off0 b <> off1 b \/ bs0 b <> bs1 b) /\
    forall i j, (i < n0 b)%nat -> (j < n1 b)%nat -> pos (off0 b) (bs0 b) i <> pos (off1 b) (bs1 b) j)).

Lemma sum_to_ext n g h : (forall i, (i < n)%nat -> g i = h i) -> sum_to n g = sum_to n h.
Proof.
  induction n as [|n IH]; intros H; simpl; [reflexivity|].
  rewrite IH by (intros; apply H; lia). rewrite H by lia. reflexivity.
Qed.

Lemma sum_to_zero n g : (forall i, (i < n)%nat -> g i = 0) -> sum_to n g = 0.
Proof.
  induction n as [|n IH]; intros H; simpl; [reflexivity|].
  rewrite IH by (intros; apply H; lia). rewrite H by lia. reflexivity.
Qed.

(* an indicator sum over an injective address picks out exactly one term *)
Lemma sum_to_pick n (a : nat -> Z) (g : nat -> Z) i :
  (i < n)%nat -> (forall j, (j < n)%nat -> a j = a i -> j = i) ->
  sum_to n (fun j => ind (Z.eqb (a j) (a i)) (g j)) = g i.
Proof.
  induction n as [|n IH]; intros Hi Hinj; [lia|]. simpl.
  destruct (Nat.eq_dec i n) as [->|Hne].
  - rewrite Z.eqb_refl. simpl. rewrite sum_to_zero; [lia|].
    intros j Hj. destruct (Z.eqb (a j) (a n)) eqn:E; [|reflexivity].
    apply Z.eqb_eq in E. apply Hinj in E; lia.
  - assert (Hi' : (i < n)%nat) by lia.
    assert (Hinj' : forall j, (j < n)%nat -> a j = a i -> j = i) by (intros j Hj E; apply Hinj; [lia | exact E]).
    rewrite (IH Hi' Hinj').
    destruct (Z.eqb (a n) (a i)) eqn:E; [|simpl; lia].
    apply Z.eqb_eq in E. apply Hinj in E; lia.
Qed.

Lemma pos_inj off bs i j : 0 < bs -> pos off bs i = pos off bs j -> i = j.
Proof. unfold pos. intros H E. nia. Qed.

Lemma block_diagonal b k : well_laid b -> diag_block true b k = full_block b k k.
Proof.
  intros (H0 & H1 & [(Eo & Eb & En) | (Hd & Hdis)]).
  - unfold diag_block, full_block, same_dofs. rewrite Eo, Eb, !Z.eqb_refl. simpl. rewrite En.
    apply sum_to_ext. intros i Hi.
    destruct (Z.eqb (pos (off1 b) (bs1 b) i) k) eqn:E.
    + apply Z.eqb_eq in E. subst k. simpl.
      symmetry. apply (sum_to_pick (n1 b) (pos (off1 b) (bs1 b)) (fun j => val b i j) i Hi).
      intros j _ E. apply (pos_inj (off1 b) (bs1 b)); assumption.
    + simpl. symmetry. apply sum_to_zero. reflexivity.
  - unfold diag_block, same_dofs.
    assert (S : Z.eqb (off0 b) (off1 b) && Z.eqb (bs0 b) (bs1 b) = false).
    { apply andb_false_iff. destruct Hd as [Hd|Hd]; [left|right]; apply Z.eqb_neq; exact Hd. }
    rewrite S. simpl. symmetry. unfold full_block.
    apply sum_to_zero. intros i Hi. apply sum_to_zero. intros j Hj.
    destruct (Z.eqb (pos (off0 b) (bs0 b) i) k) eqn:E1; [|reflexivity].
    destruct (Z.eqb (pos (off1 b) (bs1 b) j) k) eqn:E2; [|reflexivity].
    apply Z.eqb_eq in E1, E2. exfalso. apply (Hdis i j Hi Hj). congruence.
Qed.

Theorem diagonal_kernel_is_diagonal bl k :
  Forall well_laid bl -> diag true bl k = full bl k k.
Proof.
  induction 1 as [|b bl Hb _ IH]; simpl; [reflexivity|].
  rewrite IH. rewrite block_diagonal by exact Hb. reflexivity.
Qed.

(* the hypothesis is met by a component-coupled vector block list, and the conclusion is about
   something: two components of a blocked element, all four couplings *)
Definition vec_blocks : list block :=
  [Block 0 2 3 0 2 3 (fun i j => Z.of_nat (1 + i + 2 * j));
   Block 0 2 3 1 2 3 (fun i j => Z.of_nat (10 + i * j));
   Block 1 2 3 0 2 3 (fun i j => Z.of_nat (20 + i + j));
   Block 1 2 3 1 2 3 (fun i j => Z.of_nat (3 + 2 * i + j))].

Example vec_blocks_well_laid : Forall well_laid vec_blocks.
Proof.
  unfold vec_blocks. repeat apply Forall_cons; try apply Forall_nil;
    unfold well_laid; simpl; (split; [lia|split; [lia|]]).
  - left. repeat split; reflexivity.
  - right. split; [left; lia|]. intros i j _ _. unfold pos. lia.
  - right. split; [left; lia|]. intros i j _ _. unfold pos. lia.
  - left. repeat split; reflexivity.
Qed.

(* without the skip the rank-1 kernel is not the diagonal *)
Example no_skip_refuted :
  exists bl k, Forall well_laid bl /\ diag false bl k <> full bl k k.
Proof.
  exists vec_blocks, 0. split; [exact vec_blocks_well_laid|]. vm_compute. discriminate.
Qed.
