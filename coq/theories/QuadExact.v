(* QuadExact.v — exactness of quadrature rules, decided for a finite table by exact integer
   arithmetic (C11).  A rule is a list of points; coordinates and weights are given as integers
   scaled by 2^K (they are dyadic: IEEE doubles).  For a multi-index alpha,
       wsum pts alpha = sum_p W_p * prod_i X_{p,i}^alpha_i            (an integer)
   is the quadrature sum of the monomial x^alpha times 2^(K (1+|alpha|)).  The reference-cell
   integral of the monomial is the closed form ref_num/ref_den below (Dirichlet integrals).
   check_rule computes all sums for all alpha with |alpha| <= q in BigZ (machine-word bignums,
   only used as a faster evaluation of the integer expressions: every BigZ operation is rewritten
   to its Z meaning by the library's spec lemmas) and compares.  Soundness: if check_rule says
   true then every monomial of total degree <= q is integrated to within 2^-40. *)
From Coq Require Import ZArith List Lia Bool Arith.
From Bignums Require Import BigZ.
Import ListNotations.
Local Open Scope Z_scope.

Inductive cellkind := Interval | Triangle | Quadrilateral | Tetrahedron | Hexahedron | Prism | Pyramid.
Definition tdim (c : cellkind) : nat :=
  match c with Interval => 1 | Triangle | Quadrilateral => 2 | _ => 3 end%nat.

(* ---- the mathematical side, over Z ------------------------------------------------------- *)

Fixpoint factZ (n : nat) : Z := match n with O => 1 | S k => Z.of_nat n * factZ k end.
Definition sumn (l : list nat) : nat := fold_right Nat.add 0%nat l.

(* exact integral of X^alpha over the reference cell, as num/den (den > 0) *)
Definition ref_num (c : cellkind) (al : list nat) : Z :=
  match c, al with
  | (Interval | Quadrilateral | Hexahedron), _ => 1
  | (Triangle | Tetrahedron), _ => fold_right (fun a acc => factZ a * acc) 1 al
  | Prism, [a; b; _] => factZ a * factZ b
  | Pyramid, [a; b; c] => factZ c * factZ (a + b + 2)
  | _, _ => 0
  end.
Definition ref_den (c : cellkind) (al : list nat) : Z :=
  match c, al with
  | (Interval | Quadrilateral | Hexahedron), _ => fold_right (fun a acc => Z.of_nat (S a) * acc) 1 al
  | (Triangle | Tetrahedron), _ => factZ (sumn al + length al)
  | Prism, [a; b; c] => factZ (a + b + 2) * Z.of_nat (S c)
  | Pyramid, [a; b; c] => Z.of_nat (S a) * Z.of_nat (S b) * factZ (a + b + c + 3)
  | _, _ => 1
  end.

Fixpoint monoZ (xs : list Z) (al : list nat) : Z :=
  match xs, al with
  | x :: xr, a :: ar => x ^ Z.of_nat a * monoZ xr ar
  | _, _ => 1
  end.

Definition point := (list Z * Z)%type.       (* scaled coordinates, scaled weight *)

Definition wsumZ (pts : list point) (al : list nat) : Z :=
  fold_right (fun p acc => snd p * monoZ (fst p) al + acc) 0 pts.

(* |a/b - n/d| <= 1/tol  with b, d, tol > 0, cleared of denominators *)
Definition within (a b n d tol : Z) : Prop := Z.abs (a * d - n * b) * tol <= b * d.

Definition scale (K : Z) (al : list nat) : Z := 2 ^ (K * (1 + Z.of_nat (sumn al))).
Definition tolerance : Z := 2 ^ 40.

(* ---- all multi-indices of length d with sum <= q ------------------------------------------ *)

Fixpoint monos (d q : nat) : list (list nat) :=
  match d with
  | O => [[]]
  | S d' => flat_map (fun a => map (cons a) (monos d' (q - a))) (seq 0 (S q))
  end.

Lemma monos_S d q : monos (S d) q = flat_map (fun a => map (cons a) (monos d (q - a))) (seq 0 (S q)).
Proof. reflexivity. Qed.

Lemma monos_complete : forall d q al, length al = d -> (sumn al <= q)%nat -> In al (monos d q).
Proof.
  induction d as [|d IH]; intros q al Hl Hs.
  - destruct al; [left; reflexivity | discriminate].
  - destruct al as [|a ar]; [discriminate|]. simpl in Hl, Hs. rewrite monos_S.
    apply (proj2 (in_flat_map (fun a => map (cons a) (monos d (q - a))) (seq 0 (S q)) (a :: ar))).
    exists a. split.
    + apply in_seq. lia.
    + apply in_map. apply IH; [lia | lia].
Qed.

Lemma monos_bound : forall d q al, In al (monos d q) -> Forall (fun a => (a <= q)%nat) al /\ length al = d.
Proof.
  induction d as [|d IH]; intros q al H.
  - simpl in H. destruct H as [<-|[]]. split; constructor.
  - rewrite monos_S in H.
    apply (proj1 (in_flat_map (fun a => map (cons a) (monos d (q - a))) (seq 0 (S q)) al)) in H. destruct H as [a [Ha H]]. apply in_seq in Ha.
    apply in_map_iff in H. destruct H as [ar [<- Har]].
    destruct (IH _ _ Har) as [F L]. split; [|simpl; lia].
    constructor; [lia|]. eapply Forall_impl; [|exact F]. intros x Hx. simpl in Hx. lia.
Qed.

(* ---- evaluation with power tables, over Z -------------------------------------------------- *)

Fixpoint powersZ (x : Z) (n : nat) (acc : Z) : list Z :=
  match n with O => [acc] | S k => acc :: powersZ x k (acc * x) end.

Lemma powersZ_nth : forall n x acc a, (a <= n)%nat -> nth a (powersZ x n acc) 0 = acc * x ^ Z.of_nat a.
Proof.
  induction n as [|n IH]; intros x acc a H.
  - assert (a = 0)%nat by lia. subst. simpl. ring.
  - destruct a as [|a]; [simpl; ring|].
    simpl nth. rewrite IH by lia. rewrite Nat2Z.inj_succ, Z.pow_succ_r by lia. ring.
Qed.

Fixpoint prod_nthZ (tabs : list (list Z)) (al : list nat) : Z :=
  match tabs, al with
  | t :: tr, a :: ar => nth a t 0 * prod_nthZ tr ar
  | _, _ => 1
  end.

Lemma prod_nth_powers q : forall xs al, Forall (fun a => (a <= q)%nat) al ->
  prod_nthZ (map (fun x => powersZ x q 1) xs) al = monoZ xs al.
Proof.
  induction xs as [|x xr IH]; intros al F; [reflexivity|].
  destruct al as [|a ar]; [reflexivity|]. inversion F; subst. simpl.
  rewrite powersZ_nth by assumption. rewrite IH by assumption. ring.
Qed.

(* ---- the same evaluation in BigZ ------------------------------------------------------------ *)

Local Notation bz := BigZ.t.
Local Notation "[[ x ]]" := (BigZ.to_Z x).

Fixpoint powersB (x : bz) (n : nat) (acc : bz) : list bz :=
  match n with O => [acc] | S k => acc :: powersB x k (BigZ.mul acc x) end.

Lemma powersB_spec : forall n x acc, map BigZ.to_Z (powersB x n acc) = powersZ [[x]] n [[acc]].
Proof.
  induction n as [|n IH]; intros x acc; simpl; [reflexivity|].
  rewrite IH, BigZ.spec_mul. reflexivity.
Qed.

Fixpoint prod_nthB (tabs : list (list bz)) (al : list nat) : bz :=
  match tabs, al with
  | t :: tr, a :: ar => BigZ.mul (nth a t BigZ.zero) (prod_nthB tr ar)
  | _, _ => BigZ.one
  end.

Lemma prod_nthB_spec : forall tabs al, [[prod_nthB tabs al]] = prod_nthZ (map (map BigZ.to_Z) tabs) al.
Proof.
  induction tabs as [|t tr IH]; intros al; [simpl; apply BigZ.spec_1|].
  destruct al as [|a ar]; [simpl; apply BigZ.spec_1|]. simpl.
  rewrite BigZ.spec_mul, IH. f_equal.
  rewrite <- BigZ.spec_0. symmetry. apply (map_nth BigZ.to_Z).
Qed.

Definition wsumB (tabs : list (list (list bz) * bz)) (al : list nat) : bz :=
  fold_right (fun p acc => BigZ.add (BigZ.mul (snd p) (prod_nthB (fst p) al)) acc) BigZ.zero tabs.

Definition tables (q : nat) (pts : list point) : list (list (list bz) * bz) :=
  map (fun p => (map (fun x => powersB (BigZ.of_Z x) q BigZ.one) (fst p), BigZ.of_Z (snd p))) pts.

Lemma wsumB_spec q : forall pts al, Forall (fun a => (a <= q)%nat) al ->
  [[wsumB (tables q pts) al]] = wsumZ pts al.
Proof.
  induction pts as [|p pr IH]; intros al F; simpl; [apply BigZ.spec_0|].
  rewrite BigZ.spec_add, BigZ.spec_mul, IH by exact F. f_equal. f_equal.
  - apply BigZ.spec_of_Z.
  - rewrite prod_nthB_spec. rewrite map_map.
    rewrite (map_ext _ (fun x => powersZ x q 1)).
    + apply prod_nth_powers. exact F.
    + intros x. rewrite powersB_spec, BigZ.spec_of_Z, BigZ.spec_1. reflexivity.
Qed.

Definition testB (K : Z) (c : cellkind) (al : list nat) (S : bz) : bool :=
  let b := BigZ.of_Z (scale K al) in
  let n := BigZ.of_Z (ref_num c al) in
  let d := BigZ.of_Z (ref_den c al) in
  BigZ.leb (BigZ.mul (BigZ.abs (BigZ.sub (BigZ.mul S d) (BigZ.mul n b))) (BigZ.of_Z tolerance)) (BigZ.mul b d).

Lemma testB_spec K c al S : testB K c al S = true -> within [[S]] (scale K al) (ref_num c al) (ref_den c al) tolerance.
Proof.
  unfold testB, within. rewrite BigZ.spec_leb. intros H. apply Z.leb_le in H.
  rewrite !BigZ.spec_mul, BigZ.spec_abs, BigZ.spec_sub, !BigZ.spec_mul, !BigZ.spec_of_Z in H. exact H.
Qed.

Definition check_rule (K : Z) (c : cellkind) (q : nat) (pts : list point) : bool :=
  let tabs := tables q pts in
  forallb (fun al => testB K c al (wsumB tabs al)) (monos (tdim c) q).

Theorem check_rule_sound K c q pts :
  check_rule K c q pts = true ->
  forall al, length al = tdim c -> (sumn al <= q)%nat ->
    within (wsumZ pts al) (scale K al) (ref_num c al) (ref_den c al) tolerance.
Proof.
  unfold check_rule. intros H al Hl Hs. rewrite forallb_forall in H.
  pose proof (monos_complete _ _ _ Hl Hs) as Hin.
  pose proof (H al Hin) as Ht. apply testB_spec in Ht.
  destruct (monos_bound _ _ _ Hin) as [F _].
  rewrite (wsumB_spec q pts al F) in Ht. exact Ht.
Qed.

(* a whole table *)
Definition check_table (K : Z) (t : list (cellkind * nat * list point)) : bool :=
  forallb (fun r => check_rule K (fst (fst r)) (snd (fst r)) (snd r)) t.

Theorem check_table_sound K t :
  check_table K t = true ->
  forall c q pts, In (c, q, pts) t ->
  forall al, length al = tdim c -> (sumn al <= q)%nat ->
    within (wsumZ pts al) (scale K al) (ref_num c al) (ref_den c al) tolerance.
Proof.
  unfold check_table. intros H c q pts Hin. rewrite forallb_forall in H.
  apply (check_rule_sound K c q pts). exact (H (c, q, pts) Hin).
Qed.

(* not vacuous: the midpoint rule on the interval (K = 4: X = 8/16, W = 16/16) is exact for degree 1
   and the checker refuses it for degree 2 *)
Example midpoint_deg1 : check_rule 4 Interval 1 [([8], 16)] = true.
Proof. vm_compute. reflexivity. Qed.
Example midpoint_deg2_refused : check_rule 4 Interval 2 [([8], 16)] = false.
Proof. vm_compute. reflexivity. Qed.
