(* Fmt.v — model of the C expression printer (C/formatter.py) as a token printer,
   parameterised by the precedence table and the parenthesisation comparators
   that tr_prec.py regenerates from the source (gen/PrecGen.v), and the proof
   that the printed tokens derive, under the C grammar of Tok.v, the tree
   [canon e] (n-ary sums/products read left-nested, negative literals read as
   unary minus applied to the magnitude).  *)

From Coq Require Import ZArith List Bool String Lia Arith.
From FFCX Require Import LN Tok SoundExpr.
From FFCXGen Require Import PrecGen.
Import ListNotations.
Local Open Scope nat_scope.

Arguments prec_k : simpl never.
Arguments c_cmp_nary : simpl never.
Arguments c_cmp_bin_l : simpl never.
Arguments c_cmp_bin_r : simpl never.
Arguments c_cmp_un : simpl never.
Arguments c_cmp_cond_c : simpl never.
Arguments c_cmp_cond_t : simpl never.
Arguments c_cmp_cond_f : simpl never.

Definition prec (e : expr) : nat := prec_k (kind_of e).

Definition wrap (b : bool) (ts : list tok) : list tok := if b then TLP :: ts ++ [TRP] else ts.

Definition join (sep : list tok) (l : list (list tok)) : list tok :=
  match l with
  | [] => []
  | x :: r => x ++ flat_map (fun y => sep ++ y) r
  end.

Definition starts_with (t : tok) (ts : list tok) : bool :=
  match t, ts with
  | TMinus, TMinus :: _ => true
  | TBang, TBang :: _ => true
  | _, _ => false
  end.

Definition fmt_lit (m x : Z) : list tok :=
  if (m <? 0)%Z then [TMinus; TNum (- m) x] else [TNum m x].

Fixpoint fmtC (e : expr) : list tok :=
  match e with
  | ELitI z => if (z <? 0)%Z then [TMinus; TInt (- z)] else [TInt z]
  | ELitF m x => if (m <? 0)%Z then [TMinus; TNum (- m) x] else [TNum m x]
  | ELitC a b c d =>
      TLP :: (fmt_lit a b ++ [TOp OAdd] ++ ([TId id_I] ++ [TOp OMul] ++ fmt_lit c d)) ++ [TRP]
  | ESym x => [TId x]
  | EAcc a idx => TId a :: flat_map (fun i => TLB :: fmtC i ++ [TRB]) idx
  | ENeg a => TMinus :: wrap (c_cmp_un (prec a) (prec_k KNeg) || (c_un_guard && starts_with TMinus (fmtC a)))
                            (fmtC a)
  | ENot a => TBang :: wrap (c_cmp_un (prec a) (prec_k KNot) || (c_un_guard && starts_with TBang (fmtC a)))
                           (fmtC a)
  | EBin op l r =>
      wrap (c_cmp_bin_l (prec l) (prec_k (KBin op))) (fmtC l) ++ [TOp op] ++
      wrap (c_cmp_bin_r (prec r) (prec_k (KBin op))) (fmtC r)
  | ESum args =>
      join [TOp OAdd] (map (fun a => wrap (c_cmp_nary (prec a) (prec_k KSum)) (fmtC a)) args)
  | EProd args =>
      join [TOp OMul] (map (fun a => wrap (c_cmp_nary (prec a) (prec_k KProd)) (fmtC a)) args)
  | ECall f args => TFun f :: TLP :: join [TComma] (map fmtC args) ++ [TRP]
  | ECond c t f =>
      wrap (c_cmp_cond_c (prec c) (prec_k KCond)) (fmtC c) ++ [TQ] ++
      wrap (c_cmp_cond_t (prec t) (prec_k KCond)) (fmtC t) ++ [TColon] ++
      wrap (c_cmp_cond_f (prec f) (prec_k KCond)) (fmtC f)
  end.

Definition nest (op : binop) (l : list expr) : expr :=
  match l with
  | [] => ESum []
  | a :: r => fold_left (EBin op) r a
  end.

Definition canon_lit (m x : Z) : expr :=
  if (m <? 0)%Z then ENeg (ELitF (- m) x) else ELitF m x.

Fixpoint canon (e : expr) : expr :=
  match e with
  | ELitI z => if (z <? 0)%Z then ENeg (ELitI (- z)) else e
  | ELitF m x => if (m <? 0)%Z then ENeg (ELitF (- m) x) else e
  | ELitC a b c d => EBin OAdd (canon_lit a b) (EBin OMul (ESym id_I) (canon_lit c d))
  | ESym _ => e
  | EAcc a idx => EAcc a (map canon idx)
  | ENeg a => ENeg (canon a)
  | ENot a => ENot (canon a)
  | EBin op l r => EBin op (canon l) (canon r)
  | ESum args => nest OAdd (map canon args)
  | EProd args => nest OMul (map canon args)
  | ECall f args => ECall f (map canon args)
  | ECond c t f => ECond (canon c) (canon t) (canon f)
  end.

Definition is_neg_lit (e : expr) : bool :=
  match e with
  | ELitI z => (z <? 0)%Z
  | ELitF m _ => (m <? 0)%Z
  | _ => false
  end.

Definition nonempty {A} (l : list A) : bool := match l with [] => false | _ => true end.

(* trees the printer is meant for: no empty n-ary nodes / subscripts / calls,
   *)
Fixpoint wfG (e : expr) : bool :=
  match e with
  | ELitI _ | ELitF _ _ | ESym _ | ELitC _ _ _ _ => true
  | EAcc _ idx => nonempty idx && forallb wfG idx
  | ENeg a | ENot a => wfG a
  | EBin _ l r => wfG l && wfG r
  | ESum args | EProd args | ECall _ args => nonempty args && forallb wfG args
  | ECond c t f => wfG c && wfG t && wfG f
  end.

(* the level at which the printed text of e sits in the C grammar *)
Definition clev (e : expr) : nat := if is_neg_lit e then 2 else clevel_k (kind_of e).

Definition worst (k : kind) : nat := match k with KLit => 2 | _ => clevel_k k end.

Lemma clev_worst e : clev e <= worst (kind_of e).
Proof. unfold clev. destruct e; simpl; try lia; destruct (_ <? _)%Z; lia. Qed.

(* a parent position is consistent when every child kind that is NOT
   parenthesised there sits at a C level the position accepts *)
Definition pos_ok (cmp : nat -> nat -> bool) (kp : kind) (R : nat) : Prop :=
  forall kc, cmp (prec_k kc) (prec_k kp) = false -> worst kc <= R.

Ltac pos_tac :=
  intros kc; destruct kc as [ | | | | | op | | | | ]; try destruct op;
  vm_compute; intros H; try discriminate H; lia.

Lemma pos_neg : pos_ok c_cmp_un KNeg 2.  Proof. pos_tac. Qed.
Lemma pos_not : pos_ok c_cmp_un KNot 2.  Proof. pos_tac. Qed.
Lemma pos_sum : pos_ok c_cmp_nary KSum 3.  Proof. pos_tac. Qed.
Lemma pos_prod : pos_ok c_cmp_nary KProd 2.  Proof. pos_tac. Qed.
Lemma pos_cond_c : pos_ok c_cmp_cond_c KCond 8.  Proof. pos_tac. Qed.
Lemma pos_cond_t : pos_ok c_cmp_cond_t KCond 9.  Proof. pos_tac. Qed.
Lemma pos_cond_f : pos_ok c_cmp_cond_f KCond 9.  Proof. pos_tac. Qed.
Lemma pos_bin_l op : pos_ok c_cmp_bin_l (KBin op) (lvl_of_op op).
Proof. destruct op; pos_tac. Qed.
Lemma pos_bin_r op : pos_ok c_cmp_bin_r (KBin op) (lvl_of_op op - 1).
Proof. destruct op; pos_tac. Qed.

Lemma clev_le_9 e : clev e <= 9.
Proof.
  unfold clev. destruct (is_neg_lit e); [lia|].
  destruct e; simpl; try lia. destruct op; simpl; lia.
Qed.

Lemma wrap_ok_gen cmp kp R c (extra : bool) :
  pos_ok cmp kp R -> R <= 9 ->
  G (clev c) (fmtC c) (canon c) ->
  G R (wrap (cmp (prec c) (prec_k kp) || extra) (fmtC c)) (canon c).
Proof.
  intros Hpos HR HG. unfold prec. destruct (cmp (prec_k (kind_of c)) (prec_k kp)) eqn:E; simpl.
  - apply G_sub with (n := 0); [|lia|exact HR]. apply G_paren.
    apply G_sub with (n := clev c); [exact HG | apply clev_le_9 | lia].
  - destruct extra; simpl.
    + apply G_sub with (n := 0); [|lia|exact HR]. apply G_paren.
      apply G_sub with (n := clev c); [exact HG | apply clev_le_9 | lia].
    + apply G_sub with (n := clev c); [exact HG | | exact HR].
      pose proof (Hpos _ E). pose proof (clev_worst c). lia.
Qed.

Lemma wrap_ok cmp kp R c :
  pos_ok cmp kp R -> R <= 9 ->
  G (clev c) (fmtC c) (canon c) ->
  G R (wrap (cmp (prec c) (prec_k kp)) (fmtC c)) (canon c).
Proof.
  intros. rewrite <- (orb_false_r (cmp (prec c) (prec_k kp))). apply wrap_ok_gen; assumption.
Qed.

Lemma lvl_of_op_bounds op : 3 <= lvl_of_op op <= 8.
Proof. destruct op; simpl; lia. Qed.

(* n-ary nodes: left-nested binary reading *)
Lemma nary_ok op (Rarg : nat) (w : expr -> list tok) :
  Rarg = lvl_of_op op - 1 ->
  forall rest ts acc,
    G (lvl_of_op op) ts acc ->
    Forall (fun a => G Rarg (w a) (canon a)) rest ->
    G (lvl_of_op op) (ts ++ flat_map (fun y => [TOp op] ++ y) (map w rest))
      (fold_left (EBin op) (map canon rest) acc).
Proof.
  intros ER. induction rest as [|a rest IH]; intros ts acc Hacc HF; simpl.
  - rewrite app_nil_r. exact Hacc.
  - inversion HF as [|? ? Ha HF']; subst.
    replace (ts ++ TOp op :: w a ++ flat_map (fun y => TOp op :: y) (map w rest))
      with ((ts ++ [TOp op] ++ w a) ++ flat_map (fun y => [TOp op] ++ y) (map w rest)).
    + apply IH; [|exact HF']. apply G_bin; [exact Hacc | exact Ha].
    + simpl. rewrite <- ?app_assoc. simpl. rewrite <- ?app_assoc. reflexivity.
Qed.

Lemma acc_ok a :
  forall suf ts pre,
    Gacc ts a pre ->
    Forall (fun i => G 9 (fmtC i) (canon i)) suf ->
    Gacc (ts ++ flat_map (fun i => TLB :: fmtC i ++ [TRB]) suf) a (pre ++ map canon suf).
Proof.
  induction suf as [|i suf IH]; intros ts pre Hpre HF; simpl.
  - rewrite !app_nil_r. exact Hpre.
  - inversion HF as [|? ? Hi HF']; subst.
    replace (ts ++ TLB :: (fmtC i ++ [TRB]) ++ flat_map (fun i0 => TLB :: fmtC i0 ++ [TRB]) suf)
      with ((ts ++ [TLB] ++ fmtC i ++ [TRB]) ++ flat_map (fun i0 => TLB :: fmtC i0 ++ [TRB]) suf).
    + replace (pre ++ canon i :: map canon suf) with ((pre ++ [canon i]) ++ map canon suf)
        by (rewrite <- ?app_assoc; reflexivity).
      apply IH; [|exact HF']. apply Gacc_snoc; assumption.
    + simpl. rewrite <- ?app_assoc. simpl. rewrite <- ?app_assoc. reflexivity.
Qed.

Lemma args_ok :
  forall rest ts pre,
    Gargs ts pre ->
    Forall (fun i => G 9 (fmtC i) (canon i)) rest ->
    Gargs (ts ++ flat_map (fun y => [TComma] ++ y) (map fmtC rest)) (pre ++ map canon rest).
Proof.
  induction rest as [|i rest IH]; intros ts pre Hpre HF; simpl.
  - rewrite !app_nil_r. exact Hpre.
  - inversion HF as [|? ? Hi HF']; subst.
    replace (ts ++ TComma :: fmtC i ++ flat_map (fun y => TComma :: y) (map fmtC rest))
      with ((ts ++ [TComma] ++ fmtC i) ++ flat_map (fun y => [TComma] ++ y) (map fmtC rest)).
    + replace (pre ++ canon i :: map canon rest) with ((pre ++ [canon i]) ++ map canon rest)
        by (rewrite <- ?app_assoc; reflexivity).
      apply IH; [|exact HF']. apply Gargs_snoc; assumption.
    + simpl. rewrite <- ?app_assoc. simpl. rewrite <- ?app_assoc. reflexivity.
Qed.

Lemma to9 e : G (clev e) (fmtC e) (canon e) -> G 9 (fmtC e) (canon e).
Proof. intros H. apply G_sub with (n := clev e); [exact H | apply clev_le_9 | lia]. Qed.

Theorem fmtC_derives : forall e, wfG e = true -> G (clev e) (fmtC e) (canon e).
Proof.
  intros e. induction e using expr_ind'; intros Hwf; simpl in Hwf.
  - (* ELitI *)
    unfold clev. simpl. destruct (z <? 0)%Z eqn:Ez.
    + apply Z.ltb_lt in Ez. apply G_neg. apply G_sub with (n := 0); [|lia|lia].
      apply G_int. lia.
    + apply Z.ltb_ge in Ez. apply G_int. exact Ez.
  - unfold clev. simpl. destruct (m <? 0)%Z eqn:Ez.
    + apply Z.ltb_lt in Ez. apply G_neg. apply G_sub with (n := 0); [|lia|lia].
      apply G_num. lia.
    + apply Z.ltb_ge in Ez. apply G_num. exact Ez.
  - (* ELitC: ( re + I * im ) *)
    assert (Hl : forall m x, G 2 (fmt_lit m x) (canon_lit m x)).
    { intros m x. unfold fmt_lit, canon_lit. destruct (m <? 0)%Z eqn:Ez.
      - apply Z.ltb_lt in Ez. apply G_neg. apply G_sub with (n := 0); [|lia|lia]. apply G_num. lia.
      - apply Z.ltb_ge in Ez. apply G_sub with (n := 0); [|lia|lia]. apply G_num. exact Ez. }
    unfold clev. simpl. apply G_paren. apply G_sub with (n := 4); [|lia|lia].
    apply (G_bin OAdd).
    + apply G_sub with (n := 2); [apply Hl | simpl; lia | simpl; lia].
    + change (G 3 ([TId id_I] ++ [TOp OMul] ++ fmt_lit c d) (EBin OMul (ESym id_I) (canon_lit c d))).
      apply (G_bin OMul).
      * apply G_sub with (n := 0); [apply G_id | simpl; lia | simpl; lia].
      * simpl. apply Hl.
  - apply G_id.
  - (* EAcc *)
    apply andb_true_iff in Hwf. destruct Hwf as [Hne Hall].
    unfold clev. simpl. apply G_acc.
    + apply (acc_ok a idx [TId a] []); [constructor|].
      rewrite forallb_forall in Hall. rewrite Forall_forall in *.
      intros i Hi. apply to9. apply H; auto.
    + destruct idx; [discriminate | simpl; discriminate].
  - (* ENeg *)
    unfold clev. simpl. apply G_neg. apply wrap_ok_gen; [apply pos_neg | lia | auto].
  - unfold clev. simpl. apply G_not. apply wrap_ok_gen; [apply pos_not | lia | auto].
  - (* EBin *)
    apply andb_true_iff in Hwf. destruct Hwf as [H1 H2].
    unfold clev. simpl. pose proof (lvl_of_op_bounds op).
    apply G_bin.
    + apply wrap_ok; [apply pos_bin_l | lia | auto].
    + apply wrap_ok; [apply pos_bin_r | lia | auto].
  - (* ESum *)
    apply andb_true_iff in Hwf. destruct Hwf as [Hne Hall].
    unfold clev. simpl. destruct args as [|a rest]; [discriminate|].
    simpl in Hall. apply andb_true_iff in Hall. destruct Hall as [Ha Hrest].
    inversion H as [|? ? IHa IHrest]; subst. simpl.
    apply (nary_ok OAdd 3 (fun a0 => wrap (c_cmp_nary (prec a0) (prec_k KSum)) (fmtC a0)) eq_refl).
    + apply G_sub with (n := 3); [|simpl; lia|simpl; lia].
      apply wrap_ok; [apply pos_sum | lia | auto].
    + rewrite forallb_forall in Hrest. rewrite Forall_forall in *.
      intros x Hx. apply wrap_ok; [apply pos_sum | lia | apply IHrest; auto].
  - (* EProd *)
    apply andb_true_iff in Hwf. destruct Hwf as [Hne Hall].
    unfold clev. simpl. destruct args as [|a rest]; [discriminate|].
    simpl in Hall. apply andb_true_iff in Hall. destruct Hall as [Ha Hrest].
    inversion H as [|? ? IHa IHrest]; subst. simpl.
    apply (nary_ok OMul 2 (fun a0 => wrap (c_cmp_nary (prec a0) (prec_k KProd)) (fmtC a0)) eq_refl).
    + apply G_sub with (n := 2); [|simpl; lia|simpl; lia].
      apply wrap_ok; [apply pos_prod | lia | auto].
    + rewrite forallb_forall in Hrest. rewrite Forall_forall in *.
      intros x Hx. apply wrap_ok; [apply pos_prod | lia | apply IHrest; auto].
  - (* ECall *)
    apply andb_true_iff in Hwf. destruct Hwf as [Hne Hall].
    unfold clev. simpl. destruct args as [|a rest]; [discriminate|].
    simpl in Hall. apply andb_true_iff in Hall. destruct Hall as [Ha Hrest].
    inversion H as [|? ? IHa IHrest]; subst. simpl.
    apply G_call.
    apply (args_ok rest (fmtC a) [canon a]).
    + constructor. apply to9. auto.
    + rewrite forallb_forall in Hrest. rewrite Forall_forall in *.
      intros x Hx. apply to9. apply IHrest; auto.
  - (* ECond *)
    apply andb_true_iff in Hwf. destruct Hwf as [Hwf H3].
    apply andb_true_iff in Hwf. destruct Hwf as [H1 H2].
    unfold clev. simpl. apply G_cond.
    + apply wrap_ok; [apply pos_cond_c | lia | auto].
    + apply wrap_ok; [apply pos_cond_t | lia | auto].
    + apply wrap_ok; [apply pos_cond_f | lia | auto].
Qed.

(* ---------- lexer safety: the only glued operator is the prefix one ---------- *)

Definition neg_operand (a : expr) : list tok :=
  wrap (c_cmp_un (prec a) (prec_k KNeg) || (c_un_guard && starts_with TMinus (fmtC a))) (fmtC a).

Arguments neg_operand : simpl never.
Arguments starts_with : simpl never.

Fixpoint lex_safe (e : expr) : bool :=
  match e with
  | ELitI _ | ELitF _ _ | ELitC _ _ _ _ | ESym _ => true
  | EAcc _ idx => forallb lex_safe idx
  | ENeg a => negb (starts_with TMinus (neg_operand a)) && lex_safe a
  | ENot a => lex_safe a
  | EBin _ l r => lex_safe l && lex_safe r
  | ESum args | EProd args | ECall _ args => forallb lex_safe args
  | ECond c t f => lex_safe c && lex_safe t && lex_safe f
  end.

(* with the guard in place "-" is never glued to a following "-", for EVERY tree *)
Lemma neg_operand_safe a : c_un_guard = true -> starts_with TMinus (neg_operand a) = false.
Proof.
  intros Hg. unfold neg_operand. rewrite Hg.
  destruct (c_cmp_un (prec a) (prec_k KNeg)); [reflexivity|].
  destruct (starts_with TMinus (fmtC a)) eqn:E; [reflexivity|].
  exact E.
Qed.

Theorem lex_safe_all : c_un_guard = true -> forall e, lex_safe e = true.
Proof.
  intros Hg e. induction e using expr_ind'; simpl; try reflexivity.
  - rewrite forallb_forall. rewrite Forall_forall in H. exact H.
  - rewrite (neg_operand_safe e Hg). simpl. exact IHe.
  - exact IHe.
  - rewrite IHe1, IHe2. reflexivity.
  - rewrite forallb_forall. rewrite Forall_forall in H. exact H.
  - rewrite forallb_forall. rewrite Forall_forall in H. exact H.
  - rewrite forallb_forall. rewrite Forall_forall in H. exact H.
  - rewrite IHe1, IHe2, IHe3. reflexivity.
Qed.
