(* Num.v — numeric instances for LN.exec.
   F64: Coq primitive floats (IEEE binary64), used to run exported kernels
        bit-for-bit against the compiled C.
   QN : exact rationals, the domain in which the algebraic theorems are stated. *)

From Coq Require Import ZArith QArith Qabs List String PrimFloat Uint63.
From FFCX Require Import LN.
Import ListNotations.
Open Scope Z_scope.

(* ---------------- binary64 ---------------- *)

Definition f_of_Z (z : Z) : float :=
  match z with
  | Z0 => PrimFloat.zero
  | Zpos _ => PrimFloat.of_uint63 (Uint63.of_Z z)
  | Zneg p => PrimFloat.opp (PrimFloat.of_uint63 (Uint63.of_Z (Zpos p)))
  end.

(* m * 2^e, exact for |m| < 2^53 and a representable result *)
Definition f_of_lit (m e : Z) : float :=
  PrimFloat.ldshiftexp (f_of_Z m) (Uint63.of_Z (e + 2101)).

Open Scope string_scope.
Definition f_fn (name : string) (args : list float) : float :=
  match args with
  | [x] => if String.eqb name "sqrt" then PrimFloat.sqrt x
           else if String.eqb name "abs" then PrimFloat.abs x
           else PrimFloat.nan
  | _ => PrimFloat.nan
  end.
Close Scope string_scope.

Definition f_val := @val float.

Definition f_eval :=
  @eval float f_of_Z f_of_lit (fun a b _ _ => f_of_lit a b)
        PrimFloat.add PrimFloat.sub PrimFloat.mul PrimFloat.div PrimFloat.opp
        PrimFloat.eqb PrimFloat.ltb PrimFloat.leb f_fn.

Definition f_run :=
  @run_kernel float f_of_Z f_of_lit (fun a b _ _ => f_of_lit a b)
        PrimFloat.add PrimFloat.sub PrimFloat.mul PrimFloat.div PrimFloat.opp
        PrimFloat.eqb PrimFloat.ltb PrimFloat.leb f_fn.

(* inputs from lists *)
Definition inputs_of_lists {T} (w c x : list (@val T)) (e p : list Z) : ident -> Z -> option (@val T) :=
  fun a i =>
    if (i <? 0) then None else
    let n := Z.to_nat i in
    if Pos.eqb a id_w then nth_error w n
    else if Pos.eqb a id_c then nth_error c n
    else if Pos.eqb a id_x then nth_error x n
    else if Pos.eqb a id_e then option_map (fun z => VI z) (nth_error e n)
    else if Pos.eqb a id_p then option_map (fun z => VI z) (nth_error p n)
    else None.

Definition floats_of (l : list (@val float)) : list float :=
  map (fun v => match v with VF x => x | _ => PrimFloat.nan end) l.

(* ---------------- exact rationals ---------------- *)

Definition q_of_lit (m e : Z) : Q :=
  match e with
  | Z0 => inject_Z m
  | Zpos p => inject_Z (m * 2 ^ e)
  | Zneg p => Qmake m (2 ^ p)%positive
  end.

(* exact rational execution (normalised after every operation) *)
Definition q_lt (a b : Q) : bool := match Qcompare a b with Lt => true | _ => false end.
Definition q_le (a b : Q) : bool := match Qcompare a b with Gt => false | _ => true end.
Open Scope string_scope.
Definition q_fn (name : string) (args : list Q) : Q :=
  match args with
  | [x] => if String.eqb name "abs" then Qred (Qabs x) else 0%Q
  | _ => 0%Q
  end.
Close Scope string_scope.

Definition q_val := @val Q.

Definition q_run :=
  @run_kernel Q inject_Z q_of_lit (fun a b _ _ => q_of_lit a b)
        (fun a b => Qred (a + b)) (fun a b => Qred (a - b)) (fun a b => Qred (a * b))
        (fun a b => Qred (a / b)) (fun a => Qred (- a))
        Qeq_bool q_lt q_le q_fn.

Definition q_same (a b : option (list q_val)) : bool :=
  match a, b with
  | Some l1, Some l2 =>
      (Nat.eqb (List.length l1) (List.length l2)) &&
      forallb (fun p => match p with
                        | (VF x, VF y) => Qeq_bool x y
                        | _ => false
                        end) (combine l1 l2)
  | _, _ => false
  end.
