(* LookupBase.v — shape of an entry of lnodes._ufl_call_lookup (gen/LookupGen.v is regenerated from the source). *)
From Coq Require Import String.

Inductive lk :=
| Node (cls : string) (order : string)   (* lambda x, a, b, ..: Cls(<params in this order>) — "01" = as given *)
| Ovl (op : string) (order : string)     (* lambda x, a, b: a <op> b through the overloaded operator of LExpr *)
| MathFn                                 (* _math_function: MathFunction(handler name of the UFL class, operands) *)
| Lit (body : string).                   (* literal constructors *)
