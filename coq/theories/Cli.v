(* Cli.v — C20: option merging (options.get_options), the construction of the priority
   options from argparse results (main.main) and header/source assembly (formatting.format_code).
   Option maps are association lists; dict.update = prepend (first match wins). *)
From Coq Require Import List Bool.
Import ListNotations.

Section Opts.
Variable K V : Type.
Variable keqb : K -> K -> bool.

Definition omap := list (K * V).

Fixpoint lookup (k : K) (m : omap) : option V :=
  match m with
  | [] => None
  | (k', v) :: r => if keqb k k' then Some v else lookup k r
  end.

(* d.update(e): entries of e override those of d *)
Definition update (d e : omap) : omap := e ++ d.

Definition get_options (defaults user pwd priority : omap) : omap :=
  update (update (update defaults user) pwd) priority.

Lemma lookup_app k a b :
  lookup k (a ++ b) = match lookup k a with Some v => Some v | None => lookup k b end.
Proof.
  induction a as [|[k' v] a IH]; simpl; [reflexivity|].
  destruct (keqb k k'); [reflexivity | exact IH].
Qed.

(* priority > $PWD file > user file > defaults, key by key *)
Theorem options_precedence k defaults user pwd priority :
  lookup k (get_options defaults user pwd priority) =
  match lookup k priority with
  | Some v => Some v
  | None => match lookup k pwd with
            | Some v => Some v
            | None => match lookup k user with
                      | Some v => Some v
                      | None => lookup k defaults
                      end
            end
  end.
Proof. unfold get_options, update. rewrite !lookup_app. reflexivity. Qed.

(* main.py: priority_options = {k: v for k, v in xargs.__dict__.items() if v is not None};
   an argument that was not given on the command line holds its argparse default *)
Definition parsed (given : omap) (argdefault : K -> option V) (keys : list K) : list (K * option V) :=
  map (fun k => (k, match lookup k given with Some v => Some v | None => argdefault k end)) keys.

Definition priority_of (p : list (K * option V)) : omap :=
  flat_map (fun kv => match snd kv with Some v => [(fst kv, v)] | None => [] end) p.

Hypothesis keqb_refl : forall k, keqb k k = true.
Hypothesis keqb_eq : forall a b, keqb a b = true -> a = b.

Lemma lookup_priority_none k given argdefault keys :
  lookup k given = None -> argdefault k = None ->
  lookup k (priority_of (parsed given argdefault keys)) = None.
Proof.
  intros Hg Hd. induction keys as [|k' keys IH]; simpl; [reflexivity|].
  destruct (lookup k' given) as [v|] eqn:E.
  - simpl. destruct (keqb k k') eqn:Ek; [|exact IH].
    apply keqb_eq in Ek. subst. rewrite Hg in E. discriminate.
  - destruct (argdefault k') as [v|] eqn:Ed; simpl; [|exact IH].
    destruct (keqb k k') eqn:Ek; [|exact IH].
    apply keqb_eq in Ek. subst. rewrite Hd in Ed. discriminate.
Qed.

(* an option not given on the command line is decided by the files / defaults,
   provided argparse leaves it at None *)
Theorem cli_defers_to_files k given argdefault keys defaults user pwd :
  lookup k given = None -> argdefault k = None ->
  lookup k (get_options defaults user pwd (priority_of (parsed given argdefault keys))) =
  lookup k (get_options defaults user pwd []).
Proof.
  intros Hg Hd. rewrite !options_precedence. rewrite (lookup_priority_none k given argdefault keys Hg Hd).
  reflexivity.
Qed.

Lemma lookup_priority_given k v given argdefault keys :
  In k keys -> lookup k given = Some v ->
  lookup k (priority_of (parsed given argdefault keys)) = Some v.
Proof.
  intros Hin Hg. induction keys as [|k' keys IH]; [contradiction|]. simpl.
  destruct (keqb k k') eqn:Ek.
  - apply keqb_eq in Ek. subst k'. rewrite Hg. simpl. rewrite keqb_refl. reflexivity.
  - destruct Hin as [->|Hin]; [rewrite keqb_refl in Ek; discriminate|].
    destruct (match lookup k' given with Some v0 => Some v0 | None => argdefault k' end); simpl;
      [rewrite Ek|]; apply IH; exact Hin.
Qed.

Theorem cli_wins k v given argdefault keys defaults user pwd :
  In k keys -> lookup k given = Some v ->
  lookup k (get_options defaults user pwd (priority_of (parsed given argdefault keys))) = Some v.
Proof.
  intros Hin Hg. rewrite options_precedence, (lookup_priority_given k v given argdefault keys Hin Hg).
  reflexivity.
Qed.
End Opts.

(* formatting.format_code: component i of the output is the concatenation, in block order,
   of component i of every (declaration, implementation) pair *)
Section Format.
Variable S : Type.
Definition format_code (blocks : list (list (list S * list S))) : list S * list S :=
  (concat (map (fun b => concat (map fst b)) blocks), concat (map (fun b => concat (map snd b)) blocks)).

Theorem format_code_concat blocks :
  fst (format_code blocks) = concat (map fst (concat blocks)) /\
  snd (format_code blocks) = concat (map snd (concat blocks)).
Proof.
  unfold format_code. simpl. split.
  - induction blocks as [|b bs IH]; simpl; [reflexivity|]. rewrite map_app, concat_app, IH. reflexivity.
  - induction blocks as [|b bs IH]; simpl; [reflexivity|]. rewrite map_app, concat_app, IH. reflexivity.
Qed.
End Format.
