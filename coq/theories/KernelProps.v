(* KernelProps.v — the UFCx contract as an [ictx], and the per-kernel
   consequences of the checker verdicts in one place. Model + corollaries. *)

From Coq Require Import ZArith List Bool String FMapPositive Lia.
From FFCX Require Import LN Check SoundExpr SoundStmt Mono Accum.
Import ListNotations.
Open Scope Z_scope.

(* w, c: allowed ranges; coordinate_dofs: [0,nx);
   entity_local_index: ne entries with values in [elo,ehi);
   quadrature_permutation: np entries with values in [plo,phi). *)
Definition mk_ictx (w_allowed c_allowed : list (Z * Z)) (nx ne elo ehi np plo phi : Z) : ictx :=
  fun a =>
    if Pos.eqb a id_w then
      Some {| ic_allowed := w_allowed; ic_ty := DScalar; ic_range := None |}
    else if Pos.eqb a id_c then
      Some {| ic_allowed := c_allowed; ic_ty := DScalar; ic_range := None |}
    else if Pos.eqb a id_x then
      Some {| ic_allowed := [(0, nx)]; ic_ty := DReal; ic_range := None |}
    else if Pos.eqb a id_e then
      Some {| ic_allowed := [(0, ne)]; ic_ty := DInt; ic_range := Some (elo, ehi - 1) |}
    else if Pos.eqb a id_p then
      Some {| ic_allowed := [(0, np)]; ic_ty := DInt; ic_range := Some (plo, phi - 1) |}
    else None.

(* With ne = 0 (np = 0) no index of the entity (permutation) pointer is
   allowed: a kernel accepted under such a contract never dereferences it. *)
Lemma no_entity_allowed w nc nx elo ehi np plo phi i :
  idx_allowed (mk_ictx w nc nx 0 elo ehi np plo phi) id_e i = false.
Proof.
  unfold idx_allowed, mk_ictx. simpl.
  destruct (0 <=? i) eqn:H1, (i <? 0) eqn:H2; simpl; try reflexivity.
  apply Z.leb_le in H1. apply Z.ltb_lt in H2. lia.
Qed.

Lemma no_perm_allowed w nc nx ne elo ehi plo phi i :
  idx_allowed (mk_ictx w nc nx ne elo ehi 0 plo phi) id_p i = false.
Proof.
  unfold idx_allowed, mk_ictx. simpl.
  destruct (0 <=? i) eqn:H1, (i <? 0) eqn:H2; simpl; try reflexivity.
  apply Z.leb_le in H1. apply Z.ltb_lt in H2. lia.
Qed.

(* first failing top-level statement index, for diagnostics only *)
Fixpoint first_fail (ic : ictx) (l : list stmt) (G : aenv) (n : nat) : option nat :=
  match l with
  | [] => None
  | s :: l' => match check ic s G with
               | Some G' => first_fail ic l' G' (S n)
               | None => Some n
               end
  end.
