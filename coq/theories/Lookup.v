(* Lookup.v — every UFL comparison / logical / conditional / arithmetic operator is translated to the LNodes node
   with the same meaning (ufl_to_lnodes through _ufl_call_lookup, regenerated into gen/LookupGen.v on every run).

   The specification side is UFL's own definition of the operators (ufl/conditional.py: LT evaluates a < b, LE a <= b,
   GT a > b, GE a >= b, EQ a == b, NE a != b, AndCondition / OrCondition / NotCondition the Boolean connectives,
   Conditional(c, t, f) = t if c else f; ufl/algebra.py: Sum, Product, Division).  The LNodes side is LN.arith /
   LN.eval, whose agreement with the compiled C is checked bit for bit by execcorr.py. *)

From Coq Require Import ZArith List Bool String.
From FFCX Require Import LN LookupBase.
From FFCXGen Require Import LookupGen.
Import ListNotations.
Open Scope string_scope.

Definition lk_eqb (a b : lk) : bool :=
  match a, b with
  | Node c o, Node c' o' => String.eqb c c' && String.eqb o o'
  | Ovl c o, Ovl c' o' => String.eqb c c' && String.eqb o o'
  | MathFn, MathFn => true
  | Lit s, Lit s' => String.eqb s s'
  | _, _ => false
  end.

Definition has (u : string) (e : lk) : bool :=
  existsb (fun p => String.eqb (fst p) u && lk_eqb (snd p) e) lookup_table.

(* the node class names are turned into LN operators by the exporter (ffx.BINOPS: class name -> constructor) *)
Definition binop_of (cls : string) : option binop :=
  if String.eqb cls "GT" then Some OGT else if String.eqb cls "GE" then Some OGE else
  if String.eqb cls "LT" then Some OLT else if String.eqb cls "LE" then Some OLE else
  if String.eqb cls "EQ" then Some OEQ else if String.eqb cls "NE" then Some ONE else
  if String.eqb cls "And" then Some OAnd else if String.eqb cls "Or" then Some OOr else None.

Section Sem.
Variable T : Type.
Variable of_Z : Z -> T.
Variable tadd tsub tmul tdiv : T -> T -> T.
Variable teqb tltb tleb : T -> T -> bool.
Notation arith := (@arith T of_Z tadd tsub tmul tdiv teqb tltb tleb).

(* UFL's meaning of the six comparisons, over the same order / equality tests *)
Definition ufl_cmp (u : string) (a b : T) : option bool :=
  if String.eqb u "LT" then Some (tltb a b) else if String.eqb u "LE" then Some (tleb a b) else
  if String.eqb u "GT" then Some (tltb b a) else if String.eqb u "GE" then Some (tleb b a) else
  if String.eqb u "EQ" then Some (teqb a b) else if String.eqb u "NE" then Some (negb (teqb a b)) else None.

Definition cmp_entry_ok (u : string) : Prop :=
  exists cls op, has u (Node cls "01") = true /\ binop_of cls = Some op /\
                 forall a b, option_map (fun r => VB r) (ufl_cmp u a b) = arith op (VF a) (VF b).

Theorem comparisons_keep_their_meaning :
  cmp_entry_ok "LT" /\ cmp_entry_ok "LE" /\ cmp_entry_ok "GT" /\ cmp_entry_ok "GE" /\
  cmp_entry_ok "EQ" /\ cmp_entry_ok "NE".
Proof.
  repeat split.
  - exists "LT", OLT. repeat split; reflexivity.
  - exists "LE", OLE. repeat split; reflexivity.
  - exists "GT", OGT. repeat split; reflexivity.
  - exists "GE", OGE. repeat split; reflexivity.
  - exists "EQ", OEQ. repeat split; reflexivity.
  - exists "NE", ONE. repeat split; reflexivity.
Qed.

Theorem connectives_keep_their_meaning :
  (has "AndCondition" (Node "And" "01") = true /\ forall p q, arith OAnd (VB p) (VB q) = Some (VB (andb p q))) /\
  (has "OrCondition" (Node "Or" "01") = true /\ forall p q, arith OOr (VB p) (VB q) = Some (VB (orb p q))) /\
  has "NotCondition" (Node "Not" "0") = true /\
  has "Conditional" (Node "Conditional" "012") = true.
Proof. repeat split; reflexivity. Qed.

(* Sum / Product / Division go through the overloaded operators of LExpr with the operands in the given order
   (their value preservation is C17_overloads_preserve_values) *)
Theorem arithmetic_goes_through_the_overloads :
  has "Sum" (Ovl "Add" "01") = true /\ has "Product" (Ovl "Mul" "01") = true /\ has "Division" (Ovl "Div" "01") = true.
Proof. repeat split; reflexivity. Qed.

End Sem.

(* every elementary function goes to MathFunction under its own handler name (the C name is chosen per scalar type by
   the table of MathTab.v, C09) *)
Definition math_ops : list string :=
  ["Abs"; "Power"; "Real"; "Imag"; "Conj"; "MinValue"; "MaxValue"; "Sqrt"; "Ln"; "Exp"; "Cos"; "Sin"; "Tan"; "Cosh"; "Sinh";
   "Tanh"; "Acos"; "Asin"; "Atan"; "Erf"; "Atan2"; "BesselJ"; "BesselY"].

Theorem math_functions_go_to_mathfunction : forallb (fun u => has u MathFn) math_ops = true.
Proof. vm_compute. reflexivity. Qed.

Theorem literals_keep_their_value :
  has "IntValue" (Lit "LiteralInt(int(x))") = true /\ has "FloatValue" (Lit "LiteralFloat(float(x))") = true /\
  has "ComplexValue" (Lit "LiteralFloat(x.value())") = true /\ has "Zero" (Lit "LiteralFloat(0.0)") = true.
Proof. repeat split; reflexivity. Qed.
