(* FormData.v — C06: model of codegeneration/common.py:integral_data (the data behind
   form_integrals / form_integral_ids / form_integral_offsets) and its properties.
   An entry is (subdomain id, integral name tag, kernels = domains of that integral).
   Per integral type the entries are sorted by id (np.argsort applied to ids, names and
   domains alike); the flattened kernel list has one slot per (entry, domain); offsets
   count kernel slots. *)

From Coq Require Import ZArith List Bool Lia Sorting.Permutation Sorting.Sorted.
Import ListNotations.
Open Scope Z_scope.

Definition entry := (Z * N * list N)%type.
Definition eid (e : entry) : Z := fst (fst e).
Definition edoms (e : entry) : list N := snd e.

(* stable insertion sort by id *)
Fixpoint insert (e : entry) (l : list entry) : list entry :=
  match l with
  | [] => [e]
  | x :: r => if eid e <? eid x then e :: x :: r else x :: insert e r
  end.

Definition sort_ids (l : list entry) : list entry := fold_right insert [] l.

Definition nslots (l : list entry) : Z := fold_right (fun e n => Z.of_nat (length (edoms e)) + n) 0 l.

(* per_type: the five lists (cell, exterior_facet, interior_facet, vertex, ridge) *)
Fixpoint offsets_from (start : Z) (per_type : list (list entry)) : list Z :=
  match per_type with
  | [] => []
  | t :: r => let nxt := start + nslots t in nxt :: offsets_from nxt r
  end.

Definition integral_data (per_type : list (list entry)) : list entry * list Z :=
  let sorted := map sort_ids per_type in
  (concat sorted, 0 :: offsets_from 0 sorted).

(* flattened kernel slots: (id, name, domain) *)
Definition slots (l : list entry) : list (Z * N * N) :=
  flat_map (fun e => map (fun d => (eid e, snd (fst e), d)) (edoms e)) l.

(* ------------------------------------------------------------------ *)

Lemma insert_perm e l : Permutation (e :: l) (insert e l).
Proof.
  induction l as [|x r IH]; simpl; [reflexivity|].
  destruct (eid e <? eid x); [reflexivity|].
  rewrite perm_swap. apply perm_skip. exact IH.
Qed.

Lemma sort_perm l : Permutation l (sort_ids l).
Proof.
  induction l as [|e l IH]; simpl; [constructor|].
  rewrite <- insert_perm. apply perm_skip. exact IH.
Qed.

Definition sorted_ids (l : list entry) : Prop := StronglySorted (fun a b => eid a <= eid b) l.

Lemma insert_sorted e l : sorted_ids l -> sorted_ids (insert e l).
Proof.
  unfold sorted_ids. induction 1 as [|x r Hr IH Hx]; simpl.
  - constructor; constructor.
  - destruct (Z.ltb_spec (eid e) (eid x)).
    + constructor; [constructor; assumption|].
      constructor; [lia|]. eapply Forall_impl; [|exact Hx]. simpl. intros; lia.
    + constructor; [exact IH|].
      eapply Permutation_Forall; [apply insert_perm|]. constructor; [lia | exact Hx].
Qed.

Lemma sort_sorted l : sorted_ids (sort_ids l).
Proof. induction l as [|e l IH]; simpl; [constructor | apply insert_sorted; exact IH]. Qed.

Lemma nslots_app a b : nslots (a ++ b) = nslots a + nslots b.
Proof. induction a; simpl; [reflexivity|]. fold (nslots (a0 ++ b)). fold (nslots a0). lia. Qed.

Lemma nslots_perm l l' : Permutation l l' -> nslots l = nslots l'.
Proof. induction 1; simpl; lia. Qed.

Lemma nslots_slots l : nslots l = Z.of_nat (length (slots l)).
Proof.
  unfold slots. induction l as [|e l IH]; simpl; [reflexivity|].
  rewrite app_length, map_length, IH. lia.
Qed.


Theorem ids_sorted_in_group per_type g :
  In g (map sort_ids per_type) -> sorted_ids g.
Proof. intros H. apply in_map_iff in H. destruct H as [l [<- _]]. apply sort_sorted. Qed.

(* each group lists exactly its own entries: (id, name, domains) stay paired *)
Theorem group_is_permutation per_type :
  Forall2 (fun l g => Permutation l g) per_type (map sort_ids per_type).
Proof. induction per_type; simpl; constructor; [apply sort_perm | assumption]. Qed.

(* offsets delimit the groups in the flattened kernel list *)
Lemma offsets_from_spec : forall groups start,
  let offs := offsets_from start groups in
  length offs = length groups /\
  forall k g, nth_error groups k = Some g ->
    nth k (start :: offs) 0 = start + nslots (concat (firstn k groups)) /\
    nth (S k) (start :: offs) 0 = nth k (start :: offs) 0 + nslots g.
Proof.
  induction groups as [|t r IH]; intros start offs; simpl in *.
  - split; [reflexivity|]. intros k g H. destruct k; discriminate.
  - destruct (IH (start + nslots t)) as [Hl Hk]. split; [simpl; rewrite Hl; reflexivity|].
    intros k g H. destruct k as [|k]; simpl in H.
    + inversion H; subst. simpl. split; lia.
    + destruct (Hk k g H) as [A B]. simpl. split.
      * rewrite A, nslots_app. lia.
      * exact B.
Qed.

Theorem offsets_delimit per_type k l :
  nth_error per_type k = Some l ->
  let '(_, offs) := integral_data per_type in
  nth (S k) offs 0 - nth k offs 0 = nslots l /\
  nth k offs 0 = nslots (concat (firstn k (map sort_ids per_type))).
Proof.
  intros H. unfold integral_data.
  destruct (offsets_from_spec (map sort_ids per_type) 0) as [_ Hk].
  assert (Hg : nth_error (map sort_ids per_type) k = Some (sort_ids l)).
  { rewrite nth_error_map, H. reflexivity. }
  destruct (Hk k _ Hg) as [A B]. split.
  - rewrite B. rewrite <- (nslots_perm _ _ (sort_perm l)). lia.
  - rewrite A. lia.
Qed.

(* dispatch: the kernel slots listed for (type k, id i) are exactly those of the entries
   of that type whose id is i *)
Theorem dispatch per_type k l i :
  nth_error per_type k = Some l ->
  Permutation (filter (fun s => Z.eqb (fst (fst s)) i) (slots (sort_ids l)))
              (filter (fun s => Z.eqb (fst (fst s)) i) (slots l)).
Proof.
  intros _. assert (P : Permutation (slots (sort_ids l)) (slots l)).
  { unfold slots. apply Permutation_flat_map. symmetry. apply sort_perm. }
  clear -P. induction P; simpl.
  - constructor.
  - destruct (Z.eqb _ _); [apply perm_skip|]; assumption.
  - destruct (Z.eqb (fst (fst y)) i), (Z.eqb (fst (fst x)) i); try reflexivity. apply perm_swap.
  - etransitivity; eassumption.
Qed.
