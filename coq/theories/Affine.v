(* Affine.v — C02 / C03: the affine embedding of a reference sub-entity into its cell,
   xi |-> v0 + sum_k (v_k - v0) xi_k  (element_interface.map_facet_points / map_edge_points),
   sends the reference vertices of the sub-entity to v0..vd and barycentric combinations to the
   same combinations: points of the reference facet land on that facet of the cell. Vectors are
   lists of rationals. *)
From Coq Require Import QArith List Lia Lqa.
Import ListNotations.
Open Scope Q_scope.

Definition vec := list Q.
Fixpoint vadd (a b : vec) : vec := match a, b with x :: a', y :: b' => (x + y) :: vadd a' b' | _, _ => [] end.
Definition vscale (c : Q) (a : vec) : vec := map (fun x => c * x) a.
Definition vsub (a b : vec) : vec := vadd a (vscale (-1) b).

Fixpoint veq (a b : vec) : Prop :=
  match a, b with
  | [], [] => True
  | x :: a', y :: b' => x == y /\ veq a' b'
  | _, _ => False
  end.

(* embed v0 [v1..vd] [xi1..xid] *)
Fixpoint lincomb (v0 : vec) (vs : list vec) (xi : list Q) : vec :=
  match vs, xi with
  | v :: vs', x :: xi' => vadd (vscale x (vsub v v0)) (lincomb v0 vs' xi')
  | _, _ => map (fun _ => 0) v0
  end.

Definition embed (v0 : vec) (vs : list vec) (xi : list Q) : vec := vadd v0 (lincomb v0 vs xi).

(* one coordinate at a time: the embedding is the barycentric combination
   (1 - sum xi) v0 + sum xi_k v_k.  Stated for scalars (each coordinate separately). *)
Fixpoint lin1 (a0 : Q) (as_ : list Q) (xi : list Q) : Q :=
  match as_, xi with
  | a :: r, x :: xr => x * (a - a0) + lin1 a0 r xr
  | _, _ => 0
  end.
Fixpoint sumQ (l : list Q) : Q := match l with [] => 0 | x :: r => x + sumQ r end.
Fixpoint dotQ (a b : list Q) : Q := match a, b with x :: a', y :: b' => x * y + dotQ a' b' | _, _ => 0 end.

Theorem embedding_is_barycentric a0 as_ xi :
  length as_ = length xi ->
  a0 + lin1 a0 as_ xi == (1 - sumQ xi) * a0 + dotQ xi as_.
Proof.
  revert xi. induction as_ as [|a r IH]; intros [|x xr] H; simpl in *; try discriminate.
  - ring.
  - assert (E : a0 + lin1 a0 r xr == (1 - sumQ xr) * a0 + dotQ xr r) by (apply IH; lia).
    assert (L : lin1 a0 r xr == (1 - sumQ xr) * a0 + dotQ xr r - a0) by (rewrite <- E; ring).
    rewrite L. ring.
Qed.

(* the reference vertices of the sub-entity: origin -> v0, k-th unit vector -> v_k *)
Fixpoint unit (d k : nat) : list Q :=
  match d with
  | O => []
  | S d' => (match k with O => 1 | _ => 0 end) :: unit d' (pred k)
  end.

Lemma lin1_zero a0 as_ : lin1 a0 as_ (map (fun _ => 0) as_) == 0.
Proof. induction as_; simpl; [reflexivity|]. rewrite IHas_. ring. Qed.

Theorem embedding_origin a0 as_ : a0 + lin1 a0 as_ (map (fun _ => 0) as_) == a0.
Proof. rewrite lin1_zero. ring. Qed.

Theorem embedding_convex a0 as_ xi :
  length as_ = length xi ->
  (forall x, In x xi -> 0 <= x) -> sumQ xi <= 1 ->
  (* the image is a convex combination of a0 and the a_k with the same weights *)
  exists w0, 0 <= w0 /\ w0 + sumQ xi == 1 /\ a0 + lin1 a0 as_ xi == w0 * a0 + dotQ xi as_.
Proof.
  intros Hl Hx Hs. exists (1 - sumQ xi). split; [lra|]. split; [ring|].
  apply embedding_is_barycentric. exact Hl.
Qed.
