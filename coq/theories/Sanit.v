(* Sanit.v — C20: main.sanitise_filename.  The namespace (prefix of every form_/expression_
   alias) and the output file stem are the file stem pushed through a short pipeline of
   regular-expression substitutions  re.subn(P, R, s)[0]  where P is a single character class,
   optionally followed by +.  Characters are code points (N); a class is a finite or cofinite set. *)
From Coq Require Import List Bool NArith Lia.
Import ListNotations.
Open Scope N_scope.

Inductive cset := Fin (l : list N) | CoFin (l : list N).

Definition inl (c : N) (l : list N) : bool := existsb (N.eqb c) l.

Definition mem (c : N) (s : cset) : bool :=
  match s with Fin l => inl c l | CoFin l => negb (inl c l) end.

Record step := { matcher : cset; plus : bool; repl : list N }.

(* re.sub with a one-character class: every matching character becomes repl *)
Fixpoint sub1 (m : cset) (r : list N) (s : list N) : list N :=
  match s with
  | [] => []
  | c :: t => if mem c m then r ++ sub1 m r t else c :: sub1 m r t
  end.

(* re.sub with class+ : every maximal run of matching characters becomes one repl *)
Fixpoint subplus (m : cset) (r : list N) (inrun : bool) (s : list N) : list N :=
  match s with
  | [] => []
  | c :: t => if mem c m then (if inrun then subplus m r true t else r ++ subplus m r true t)
              else c :: subplus m r false t
  end.

Definition run_step (st : step) (s : list N) : list N :=
  if plus st then subplus (matcher st) (repl st) false s else sub1 (matcher st) (repl st) s.

Definition run_steps (sts : list step) (s : list N) : list N := fold_left (fun s st => run_step st s) sts s.

(* ---- abstract post-condition on the characters of the result ---- *)
Definition ldiff (a b : list N) := filter (fun c => negb (inl c b)) a.
Definition linter (a b : list N) := filter (fun c => inl c b) a.

Definition diff (p m : cset) : cset :=
  match p, m with
  | Fin a, Fin b => Fin (ldiff a b)
  | Fin a, CoFin b => Fin (linter a b)
  | CoFin a, Fin b => CoFin (a ++ b)
  | CoFin a, CoFin b => Fin (ldiff b a)
  end.

Definition union_fin (p : cset) (r : list N) : cset :=
  match p with Fin a => Fin (a ++ r) | CoFin a => CoFin (ldiff a r) end.

Definition post (p : cset) (st : step) : cset := union_fin (diff p (matcher st)) (repl st).
Definition posts (sts : list step) (p : cset) : cset := fold_left post sts p.

Lemma inl_app c a b : inl c (a ++ b) = inl c a || inl c b.
Proof. unfold inl. apply existsb_app. Qed.

Lemma inl_filter c f a : (forall x, N.eqb c x = true -> f x = f c) ->
  inl c (filter f a) = inl c a && f c.
Proof.
  intros Hf. induction a as [|x a IH]; simpl; [reflexivity|].
  destruct (f x) eqn:Fx; simpl.
  - rewrite IH. destruct (N.eqb c x) eqn:E; simpl; [|reflexivity].
    rewrite <- (Hf x E), Fx. reflexivity.
  - rewrite IH. destruct (N.eqb c x) eqn:E; simpl; [|reflexivity].
    rewrite <- (Hf x E), Fx. destruct (inl c a); reflexivity.
Qed.

Lemma inl_ldiff c a b : inl c (ldiff a b) = inl c a && negb (inl c b).
Proof.
  unfold ldiff. apply inl_filter. intros x E. apply N.eqb_eq in E. subst. reflexivity.
Qed.

Lemma inl_linter c a b : inl c (linter a b) = inl c a && inl c b.
Proof.
  unfold linter. apply inl_filter. intros x E. apply N.eqb_eq in E. subst. reflexivity.
Qed.

Lemma mem_diff c p m : mem c (diff p m) = mem c p && negb (mem c m).
Proof.
  destruct p as [a|a], m as [b|b]; simpl.
  - apply inl_ldiff.
  - rewrite inl_linter, negb_involutive. reflexivity.
  - rewrite inl_app, negb_orb. reflexivity.
  - rewrite inl_ldiff, negb_involutive. apply andb_comm.
Qed.

Lemma mem_union_fin c p r : mem c (union_fin p r) = mem c p || inl c r.
Proof.
  destruct p as [a|a]; simpl.
  - apply inl_app.
  - rewrite inl_ldiff, negb_andb, negb_involutive. reflexivity.
Qed.

Lemma mem_post c p st : mem c (post p st) = (mem c p && negb (mem c (matcher st))) || inl c (repl st).
Proof. unfold post. rewrite mem_union_fin, mem_diff. reflexivity. Qed.

Lemma inl_true c r : In c r -> inl c r = true.
Proof. intros H. unfold inl. apply existsb_exists. exists c. split; [exact H|apply N.eqb_refl]. Qed.

Lemma Forall_repl p st : Forall (fun c => mem c (post p st) = true) (repl st).
Proof.
  apply Forall_forall. intros c H. rewrite mem_post, (inl_true _ _ H). apply orb_true_r.
Qed.

Lemma sub1_post p st s :
  Forall (fun c => mem c p = true) s ->
  Forall (fun c => mem c (post p st) = true) (sub1 (matcher st) (repl st) s).
Proof.
  induction s as [|c t IH]; intros H; simpl; [constructor|].
  inversion H as [|? ? Hc Ht]; subst.
  destruct (mem c (matcher st)) eqn:E.
  - apply Forall_app. split; [apply Forall_repl | apply IH; exact Ht].
  - constructor; [|apply IH; exact Ht]. rewrite mem_post, Hc, E. reflexivity.
Qed.

Lemma subplus_post p st b s :
  Forall (fun c => mem c p = true) s ->
  Forall (fun c => mem c (post p st) = true) (subplus (matcher st) (repl st) b s).
Proof.
  revert b. induction s as [|c t IH]; intros b H; simpl; [constructor|].
  inversion H as [|? ? Hc Ht]; subst.
  destruct (mem c (matcher st)) eqn:E.
  - destruct b; [apply IH; exact Ht|].
    apply Forall_app. split; [apply Forall_repl | apply IH; exact Ht].
  - constructor; [|apply IH; exact Ht]. rewrite mem_post, Hc, E. reflexivity.
Qed.

Lemma run_step_post p st s :
  Forall (fun c => mem c p = true) s ->
  Forall (fun c => mem c (post p st) = true) (run_step st s).
Proof.
  intros H. unfold run_step. destruct (plus st); [apply subplus_post | apply sub1_post]; exact H.
Qed.

(* every character of the result lies in the abstract post-set, for every input string *)
Theorem run_steps_post sts : forall p s,
  Forall (fun c => mem c p = true) s ->
  Forall (fun c => mem c (posts sts p) = true) (run_steps sts s).
Proof.
  induction sts as [|st sts IH]; intros p s H; simpl; [exact H|].
  apply IH. apply run_step_post. exact H.
Qed.

Definition top : cset := CoFin [].

Lemma all_top s : Forall (fun c => mem c top = true) s.
Proof. apply Forall_forall. intros; reflexivity. Qed.

(* the characters a C identifier may contain *)
Definition ident_char (c : N) : bool :=
  ((48 <=? c) && (c <=? 57)) || ((65 <=? c) && (c <=? 90)) || ((97 <=? c) && (c <=? 122)) || (c =? 95).

Definition fin_all (f : N -> bool) (s : cset) : bool :=
  match s with Fin l => forallb f l | CoFin _ => false end.

Lemma fin_all_mem f s c : fin_all f s = true -> mem c s = true -> f c = true.
Proof.
  destruct s as [l|l]; simpl; [|discriminate]. intros Hall Hin.
  unfold inl in Hin. apply existsb_exists in Hin. destruct Hin as [x [Hx E]].
  apply N.eqb_eq in E. subst. rewrite forallb_forall in Hall. apply Hall. exact Hx.
Qed.

(* decidable sufficient condition => the result is made of identifier characters, for every string *)
Theorem sanitise_identifier sts :
  fin_all ident_char (posts sts top) = true ->
  forall s, Forall (fun c => ident_char c = true) (run_steps sts s).
Proof.
  intros Hall s. pose proof (run_steps_post sts top s (all_top s)) as H.
  eapply Forall_impl; [|exact H]. intros c Hc. exact (fin_all_mem _ _ _ Hall Hc).
Qed.

(* ---- what must not change: a string no step matches is returned as it is ---- *)
Lemma sub1_id m r s : Forall (fun c => mem c m = false) s -> sub1 m r s = s.
Proof.
  induction s as [|c t IH]; intros H; simpl; [reflexivity|].
  inversion H as [|? ? Hc Ht]; subst. rewrite Hc, (IH Ht). reflexivity.
Qed.

Lemma subplus_id m r s : Forall (fun c => mem c m = false) s -> subplus m r false s = s.
Proof.
  induction s as [|c t IH]; intros H; simpl; [reflexivity|].
  inversion H as [|? ? Hc Ht]; subst. rewrite Hc, (IH Ht). reflexivity.
Qed.

Definition untouched (sts : list step) (c : N) : bool := forallb (fun st => negb (mem c (matcher st))) sts.

Theorem sanitise_fixes_clean_names sts : forall s,
  Forall (fun c => untouched sts c = true) s -> run_steps sts s = s.
Proof.
  induction sts as [|st sts IH]; intros s H; simpl; [reflexivity|].
  assert (H1 : Forall (fun c => mem c (matcher st) = false) s).
  { eapply Forall_impl; [|exact H]. intros c Hc. simpl in Hc. apply andb_true_iff in Hc.
    destruct Hc as [Hc _]. apply negb_true_iff in Hc. exact Hc. }
  assert (E : run_step st s = s).
  { unfold run_step. destruct (plus st); [apply subplus_id | apply sub1_id]; exact H1. }
  rewrite E. apply IH. eapply Forall_impl; [|exact H]. intros c Hc. simpl in Hc.
  apply andb_true_iff in Hc. exact (proj2 Hc).
Qed.

(* all 63 identifier characters, to state "every identifier is a fixed point" by computation *)
Definition ident_chars : list N :=
  map N.of_nat (seq 48 10 ++ seq 65 26 ++ seq 97 26 ++ [95%nat]).

Lemma ident_char_enum c : ident_char c = true -> In c ident_chars.
Proof.
  unfold ident_char. intros H.
  assert (Hc : (48 <= c <= 57) \/ (65 <= c <= 90) \/ (97 <= c <= 122) \/ c = 95).
  { repeat rewrite orb_true_iff in H. repeat rewrite andb_true_iff in H.
    repeat rewrite N.leb_le in H. rewrite N.eqb_eq in H. lia. }
  unfold ident_chars. apply in_map_iff. exists (N.to_nat c). split; [apply Nnat.N2Nat.id|].
  repeat rewrite in_app_iff. repeat rewrite in_seq. simpl. lia.
Qed.

Theorem sanitise_fixes_identifiers sts :
  forallb (untouched sts) ident_chars = true ->
  forall s, Forall (fun c => ident_char c = true) s -> run_steps sts s = s.
Proof.
  intros Hall s H. apply sanitise_fixes_clean_names.
  eapply Forall_impl; [|exact H]. intros c Hc. rewrite forallb_forall in Hall.
  apply Hall. apply ident_char_enum. exact Hc.
Qed.
