(* Render.v — executable helpers for the correspondence runs: tokens to text,
   boolean equality of trees.  Model only. *)
From Coq Require Import ZArith List Bool String Ascii.
From FFCX Require Import LN Tok.
Import ListNotations.
Local Open Scope string_scope.

Fixpoint digits (fuel : nat) (n : N) (acc : string) : string :=
  match fuel with
  | O => acc
  | S f =>
      let d := N.modulo n 10 in
      let acc' := String (ascii_of_N (48 + d)) acc in
      if N.leb n 9 then acc' else digits f (N.div n 10) acc'
  end.

Definition string_of_N (n : N) : string := digits 80 n "".
Definition string_of_Z (z : Z) : string :=
  match z with
  | Z0 => "0"
  | Zpos p => string_of_N (Npos p)
  | Zneg p => "-" ++ string_of_N (Npos p)
  end.
Definition string_of_pos (p : positive) : string := string_of_N (Npos p).

Definition op_str (op : binop) : string :=
  match op with
  | OAdd => "+" | OSub => "-" | OMul => "*" | ODiv => "/"
  | OEQ => "==" | ONE => "!=" | OLT => "<" | OGT => ">" | OLE => "<=" | OGE => ">="
  | OAnd => "&&" | OOr => "||"
  end.

Definition tok_str (t : tok) : string :=
  match t with
  | TId x => "x" ++ string_of_pos x
  | TFun f => "f:" ++ f
  | TInt z => "i" ++ string_of_Z z
  | TNum m e => "n" ++ string_of_Z m ++ "e" ++ string_of_Z e
  | TLP => "(" | TRP => ")" | TLB => "[" | TRB => "]" | TComma => "," | TQ => "?" | TColon => ":"
  | TMinus => "-" | TBang => "!"
  | TOp op => op_str op
  end.

Definition render (ts : list tok) : string := String.concat " " (map tok_str ts).

Definition binop_eqb (a b : binop) : bool :=
  match a, b with
  | OAdd, OAdd | OSub, OSub | OMul, OMul | ODiv, ODiv | OEQ, OEQ | ONE, ONE
  | OLT, OLT | OGT, OGT | OLE, OLE | OGE, OGE | OAnd, OAnd | OOr, OOr => true
  | _, _ => false
  end.

Definition list_eqb {A} (f : A -> A -> bool) : list A -> list A -> bool :=
  fix go (l1 l2 : list A) : bool :=
    match l1, l2 with
    | [], [] => true
    | a :: r1, b :: r2 => f a b && go r1 r2
    | _, _ => false
    end.

Fixpoint expr_eqb (a b : expr) : bool :=
  match a, b with
  | ELitI x, ELitI y => Z.eqb x y
  | ELitF m e, ELitF m' e' => Z.eqb m m' && Z.eqb e e'
  | ELitC a1 a2 a3 a4, ELitC b1 b2 b3 b4 => Z.eqb a1 b1 && Z.eqb a2 b2 && Z.eqb a3 b3 && Z.eqb a4 b4
  | ESym x, ESym y => Pos.eqb x y
  | EAcc x i, EAcc y j => Pos.eqb x y && list_eqb expr_eqb i j
  | ENeg x, ENeg y => expr_eqb x y
  | ENot x, ENot y => expr_eqb x y
  | EBin o l r, EBin o' l' r' => binop_eqb o o' && expr_eqb l l' && expr_eqb r r'
  | ESum x, ESum y => list_eqb expr_eqb x y
  | EProd x, EProd y => list_eqb expr_eqb x y
  | ECall f x, ECall g y => String.eqb f g && list_eqb expr_eqb x y
  | ECond c t f, ECond c' t' f' => expr_eqb c c' && expr_eqb t t' && expr_eqb f f'
  | _, _ => false
  end.
