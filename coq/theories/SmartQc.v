(* SmartQc.v — the hypotheses of Smart.v are satisfiable (so its theorems are not
   vacuous): the integers with truncating division, literals m*2^e truncated. *)
From Coq Require Import ZArith List String Lia.
From FFCX Require Import LN SmartBase Smart.
Open Scope Z_scope.

Definition z_of_lit (m e : Z) : Z := if e <? 0 then Z.quot m (2 ^ (- e)) else m * 2 ^ e.

Example smart_hypotheses_hold_for_Z :
  (forall x, 0 + x = x) /\ (forall x, x + 0 = x) /\ (forall x, 0 - x = - x) /\ (forall x, x - 0 = x) /\
  (forall x y, x + - y = x - y) /\ (forall x y, - x + y = y - x) /\ (forall x y, x - - y = x + y) /\
  (forall x, 0 * x = 0) /\ (forall x, x * 0 = 0) /\ (forall x, 1 * x = x) /\ (forall x, x * 1 = x) /\
  (forall x, (-1) * x = - x) /\ (forall x, x * (-1) = - x) /\ (forall x, Z.quot 0 x = 0) /\
  (forall z, z_of_lit z 0 = z) /\ (forall m e, z_of_lit (- m) e = - z_of_lit m e).
Proof.
  repeat split; intros; try lia; try (match goal with |- Z.quot 0 ?x = 0 => destruct x; reflexivity end).
  - unfold z_of_lit. simpl. lia.
  - unfold z_of_lit. destruct (Z.ltb_spec e 0).
    + apply Z.quot_opp_l. assert (0 < 2 ^ (- e)) by (apply Z.pow_pos_nonneg; lia). lia.
    + lia.
Qed.
