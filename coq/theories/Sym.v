(* Sym.v — symbolic execution of kernels (C17, optimiser half).
   The semantics LN.exec is parametric in the numeric domain.  Instantiated with the FREE term
   algebra [sx] (inputs are variables, every operation builds a term) it computes, for a kernel
   without data-dependent control flow, the output tensor as terms over the inputs.  The
   homomorphism theorem below says that for ANY numeric domain and ANY input values the concrete
   execution is the image of the symbolic one under the evaluation of terms.  Hence two kernels
   whose symbolic outputs are equal as polynomials (SymEq.v) compute the same tensor for all inputs. *)
From Coq Require Import ZArith List Bool String FMapPositive Lia.
From FFCX Require Import LN SoundExpr SoundStmt.
Import ListNotations.
Open Scope Z_scope.

Inductive sx : Type :=
| SIn (a : ident) (i : Z)                 (* input cell / initial A cell *)
| SZc (z : Z)
| SLitc (m e : Z)
| SCLitc (a b c d : Z)
| SAdd (a b : sx) | SSub (a b : sx) | SMul (a b : sx) | SDiv (a b : sx)
| SNeg (a : sx)
| SFn (f : string) (args : sx)            (* args: SCons .. SNil *)
| SNil
| SCons (h t : sx).

Fixpoint sx_of_list (l : list sx) : sx :=
  match l with [] => SNil | x :: r => SCons x (sx_of_list r) end.

(* the symbolic instance of the numeric domain; comparisons are never consulted on the
   fragment [nobr] below *)
Definition s_fn (f : string) (l : list sx) : sx := SFn f (sx_of_list l).
Definition s_cmp (a b : sx) : bool := false.

Notation s_eval := (@eval sx SZc SLitc SCLitc SAdd SSub SMul SDiv SNeg s_cmp s_cmp s_cmp s_fn).
Notation s_exec := (@exec sx SZc SLitc SCLitc SAdd SSub SMul SDiv SNeg s_cmp s_cmp s_cmp s_fn).
Notation s_exec_list := (@exec_list sx SZc SLitc SCLitc SAdd SSub SMul SDiv SNeg s_cmp s_cmp s_cmp s_fn).
Notation s_run := (@run_kernel sx SZc SLitc SCLitc SAdd SSub SMul SDiv SNeg s_cmp s_cmp s_cmp s_fn).

(* fragment without data-dependent control flow: no comparison, logical operator or conditional *)
Definition arith_op (op : binop) : bool :=
  match op with OAdd | OSub | OMul | ODiv => true | _ => false end.

Fixpoint nobr_e (e : expr) : bool :=
  match e with
  | ELitI _ | ELitF _ _ | ELitC _ _ _ _ | ESym _ => true
  | EAcc _ idx => forallb nobr_e idx
  | ENeg a => nobr_e a
  | ENot _ => false
  | EBin op l r => arith_op op && nobr_e l && nobr_e r
  | ESum args | EProd args | ECall _ args => forallb nobr_e args
  | ECond _ _ _ => false
  end.

Definition nobr_l (l : lval) : bool :=
  match l with LVar _ => true | LArr _ idx => forallb nobr_e idx end.

Fixpoint nobr (s : stmt) : bool :=
  match s with
  | SSkip => true
  | SVarDecl _ _ e => nobr_e e
  | SArrDecl _ _ _ vals _ => forallb nobr_e vals
  | SAssign l e | SAssignAdd l e => nobr_l l && nobr_e e
  | SFor _ _ _ body | SBlock body | SList body => forallb nobr body
  end.

Section Hom.
Set Default Proof Using "All".

Variable T : Type.
Variable of_Z : Z -> T.
Variable of_lit : Z -> Z -> T.
Variable of_clit : Z -> Z -> Z -> Z -> T.
Variable tadd tsub tmul tdiv : T -> T -> T.
Variable tneg : T -> T.
Variable teqb tltb tleb : T -> T -> bool.
Variable tfn : string -> list T -> T.
(* values of the input cells *)
Variable rho : ident -> Z -> T.

Notation c_eval := (@eval T of_Z of_lit of_clit tadd tsub tmul tdiv tneg teqb tltb tleb tfn).
Notation c_exec := (@exec T of_Z of_lit of_clit tadd tsub tmul tdiv tneg teqb tltb tleb tfn).
Notation c_exec_list := (@exec_list T of_Z of_lit of_clit tadd tsub tmul tdiv tneg teqb tltb tleb tfn).
Notation c_run := (@run_kernel T of_Z of_lit of_clit tadd tsub tmul tdiv tneg teqb tltb tleb tfn).
Notation c_write := (@write T of_Z of_lit of_clit tadd tsub tmul tdiv tneg teqb tltb tleb tfn).
Notation s_write := (@write sx SZc SLitc SCLitc SAdd SSub SMul SDiv SNeg s_cmp s_cmp s_cmp s_fn).

(* evaluation of terms *)
Fixpoint den (t : sx) : T :=
  match t with
  | SIn a i => rho a i
  | SZc z => of_Z z
  | SLitc m e => of_lit m e
  | SCLitc a b c d => of_clit a b c d
  | SAdd a b => tadd (den a) (den b)
  | SSub a b => tsub (den a) (den b)
  | SMul a b => tmul (den a) (den b)
  | SDiv a b => tdiv (den a) (den b)
  | SNeg a => tneg (den a)
  | SFn f args => tfn f (den_list args)
  | SNil => of_Z 0
  | SCons h _ => den h
  end
with den_list (t : sx) : list T :=
  match t with
  | SCons h r => den h :: den_list r
  | _ => []
  end.

Lemma den_list_of_list l : den_list (sx_of_list l) = map den l.
Proof. induction l as [|x l IH]; simpl; [reflexivity|]. rewrite IH. reflexivity. Qed.

Definition vmap (v : @val sx) : @val T :=
  match v with VI z => VI z | VF x => VF (den x) | VB b => VB b end.

Definition cmap (c : @cell sx) : @cell T :=
  match c with
  | CScalar ty ro v => CScalar ty ro (vmap v)
  | CArr ty ro shape data => CArr ty ro shape (map vmap data)
  end.

Definition imap (inp : @inputs sx) : @inputs T := fun a k => option_map vmap (inp a k).

Definition Rst (s1 : @store sx) (s2 : @store T) : Prop :=
  forall x, PositiveMap.find x s2 = option_map cmap (PositiveMap.find x s1).

(* ---- values ---- *)
Lemma as_int_vmap v : as_int (vmap v) = as_int v.
Proof. destruct v; reflexivity. Qed.

Lemma opt_map_as_int_vmap vs : opt_map as_int (map vmap vs) = opt_map as_int vs.
Proof.
  induction vs as [|v vs IH]; simpl; [reflexivity|].
  rewrite as_int_vmap, IH. reflexivity.
Qed.

Lemma to_T_vmap v : @to_T T of_Z (vmap v) = option_map den (@to_T sx SZc v).
Proof. destruct v; reflexivity. Qed.

Lemma opt_map_to_T_vmap vs xs :
  opt_map (@to_T sx SZc) vs = Some xs -> opt_map (@to_T T of_Z) (map vmap vs) = Some (map den xs).
Proof.
  revert xs. induction vs as [|v vs IH]; intros xs E; simpl in *.
  - inversion E. reflexivity.
  - rewrite to_T_vmap. destruct (@to_T sx SZc v) as [x|]; [|discriminate]. simpl.
    destruct (opt_map (@to_T sx SZc) vs) as [ys|]; [|discriminate]. inversion E; subst.
    rewrite (IH ys eq_refl). reflexivity.
Qed.

Lemma coerce_vmap ty v v' :
  @coerce sx SZc ty v = Some v' -> @coerce T of_Z ty (vmap v) = Some (vmap v').
Proof. destruct ty, v; simpl; intros E; inversion E; reflexivity. Qed.

Lemma opt_map_coerce_vmap ty vs vs' :
  opt_map (@coerce sx SZc ty) vs = Some vs' -> opt_map (@coerce T of_Z ty) (map vmap vs) = Some (map vmap vs').
Proof.
  revert vs'. induction vs as [|v vs IH]; intros vs' E; simpl in *.
  - inversion E. reflexivity.
  - destruct (@coerce sx SZc ty v) as [w|] eqn:Ev; [|discriminate].
    destruct (opt_map (@coerce sx SZc ty) vs) as [ws|]; [|discriminate]. inversion E; subst.
    rewrite (coerce_vmap _ _ _ Ev), (IH ws eq_refl). reflexivity.
Qed.

Lemma arith_vmap op a b r : arith_op op = true ->
  @arith sx SZc SAdd SSub SMul SDiv s_cmp s_cmp s_cmp op a b = Some r ->
  @arith T of_Z tadd tsub tmul tdiv teqb tltb tleb op (vmap a) (vmap b) = Some (vmap r).
Proof.
  intros Hop. destruct op; try discriminate; destruct a, b; simpl; intros E; inversion E; reflexivity.
Qed.

Lemma vneg_vmap a r : @vneg sx SNeg a = Some r -> @vneg T tneg (vmap a) = Some (vmap r).
Proof. destruct a; simpl; intros E; inversion E; reflexivity. Qed.

Lemma fold_arith_vmap op vs r : arith_op op = true ->
  @fold_arith sx SZc SAdd SSub SMul SDiv s_cmp s_cmp s_cmp op vs = Some r ->
  @fold_arith T of_Z tadd tsub tmul tdiv teqb tltb tleb op (map vmap vs) = Some (vmap r).
Proof.
  intros Hop. destruct vs as [|v vs]; [discriminate|]. simpl.
  revert v r. induction vs as [|w vs IH]; intros v r E; simpl in *.
  - inversion E. reflexivity.
  - destruct (@arith sx SZc SAdd SSub SMul SDiv s_cmp s_cmp s_cmp op v w) as [u|] eqn:Eu.
    + rewrite (arith_vmap op v w u Hop Eu). apply IH. exact E.
    + exfalso. clear -E. induction vs as [|z vs IHv]; simpl in E; [discriminate|]. apply IHv. exact E.
Qed.

(* ---- stores ---- *)
Lemma Rst_add s1 s2 x c : Rst s1 s2 -> Rst (PositiveMap.add x c s1) (PositiveMap.add x (cmap c) s2).
Proof.
  intros H y. destruct (Pos.eq_dec y x) as [->|Hne].
  - rewrite !PositiveMap.gss. reflexivity.
  - rewrite !PositiveMap.gso by exact Hne. apply H.
Qed.

Lemma Rst_remove s1 s2 x : Rst s1 s2 -> Rst (PositiveMap.remove x s1) (PositiveMap.remove x s2).
Proof.
  intros H y. destruct (Pos.eq_dec y x) as [->|Hne].
  - rewrite !PositiveMap.grs. reflexivity.
  - rewrite !PositiveMap.gro by exact Hne. apply H.
Qed.

Lemma Rst_remove_all xs : forall s1 s2, Rst s1 s2 -> Rst (remove_all xs s1) (remove_all xs s2).
Proof.
  induction xs as [|x xs IH]; intros s1 s2 H; simpl; [exact H|].
  apply IH. apply Rst_remove. exact H.
Qed.

Lemma Rst_fresh s1 s2 x : Rst s1 s2 -> fresh x s2 = fresh x s1.
Proof.
  intros H. unfold fresh. rewrite (H x). destruct (PositiveMap.find x s1); reflexivity.
Qed.

Lemma nth_error_map_vmap data k v :
  nth_error data k = Some v -> nth_error (map vmap data) k = Some (vmap v).
Proof. intros E. rewrite nth_error_map, E. reflexivity. Qed.

Lemma set_nth_map k v data : map vmap (set_nth k v data) = set_nth k (vmap v) (map vmap data).
Proof.
  revert k. induction data as [|d data IH]; intros [|k]; simpl; try reflexivity.
  rewrite IH. reflexivity.
Qed.

Lemma pad_map n d l : map vmap (pad n d l) = pad n (vmap d) (map vmap l).
Proof.
  revert l. induction n as [|n IH]; intros l; simpl; [reflexivity|].
  destruct l as [|a l]; simpl; rewrite IH; reflexivity.
Qed.

Lemma zero_of_vmap ty : vmap (@zero_of sx SZc ty) = @zero_of T of_Z ty.
Proof. destruct ty; reflexivity. Qed.

(* ---- expressions ---- *)
Section E.
Variable inp : @inputs sx.
Variables (s1 : @store sx) (s2 : @store T).
Hypothesis HR : Rst s1 s2.

Lemma opt_map_hom (l : list expr) :
  Forall (fun e => nobr_e e = true -> forall v, s_eval inp s1 e = Some v -> c_eval (imap inp) s2 e = Some (vmap v)) l ->
  forallb nobr_e l = true ->
  forall vs, opt_map (s_eval inp s1) l = Some vs -> opt_map (c_eval (imap inp) s2) l = Some (map vmap vs).
Proof.
  induction 1 as [|e l He Hl IH]; intros Hn vs E; simpl in *.
  - inversion E. reflexivity.
  - apply andb_true_iff in Hn. destruct Hn as [Hn1 Hn2].
    destruct (s_eval inp s1 e) as [v|] eqn:Ev; [|discriminate].
    destruct (opt_map (s_eval inp s1) l) as [ws|] eqn:El; [|discriminate]. inversion E; subst.
    rewrite (He Hn1 v eq_refl), (IH Hn2 ws eq_refl). reflexivity.
Qed.

Lemma eval_hom : forall e, nobr_e e = true ->
  forall v, s_eval inp s1 e = Some v -> c_eval (imap inp) s2 e = Some (vmap v).
Proof.
  intros e. induction e using expr_ind'; intros Hn v E; simpl in *; try discriminate.
  - inversion E. reflexivity.
  - inversion E. reflexivity.
  - inversion E. reflexivity.
  - (* ESym *)
    rewrite (HR x). destruct (PositiveMap.find x s1) as [[ty ro w|]|]; simpl; try discriminate.
    inversion E. reflexivity.
  - (* EAcc *)
    destruct (opt_map (s_eval inp s1) idx) as [vs|] eqn:Ei; [|discriminate].
    rewrite (opt_map_hom idx H Hn vs Ei). rewrite opt_map_as_int_vmap.
    destruct (opt_map as_int vs) as [is|]; [|discriminate].
    destruct (is_input a).
    + destruct is as [|k [|? ?]]; try discriminate. unfold imap. rewrite E. reflexivity.
    + rewrite (HR a). destruct (PositiveMap.find a s1) as [[|ty ro shape data]|]; simpl; try discriminate.
      destruct (flat_index shape is 0) as [k|]; [|discriminate].
      apply nth_error_map_vmap. exact E.
  - (* ENeg *)
    destruct (s_eval inp s1 e) as [w|] eqn:Ew; [|discriminate].
    rewrite (IHe Hn w eq_refl). apply vneg_vmap. exact E.
  - (* EBin *)
    apply andb_true_iff in Hn. destruct Hn as [Hn Hn3]. apply andb_true_iff in Hn. destruct Hn as [Hop Hn2].
    destruct (s_eval inp s1 e1) as [a|] eqn:Ea; [|discriminate].
    destruct (s_eval inp s1 e2) as [b|] eqn:Eb; [|discriminate].
    rewrite (IHe1 Hn2 a eq_refl), (IHe2 Hn3 b eq_refl). apply arith_vmap; assumption.
  - (* ESum *)
    destruct (opt_map (s_eval inp s1) args) as [vs|] eqn:Ei; [|discriminate].
    rewrite (opt_map_hom args H Hn vs Ei). apply fold_arith_vmap; [reflexivity|exact E].
  - (* EProd *)
    destruct (opt_map (s_eval inp s1) args) as [vs|] eqn:Ei; [|discriminate].
    rewrite (opt_map_hom args H Hn vs Ei). apply fold_arith_vmap; [reflexivity|exact E].
  - (* ECall *)
    destruct (opt_map (s_eval inp s1) args) as [vs|] eqn:Ei; [|discriminate].
    rewrite (opt_map_hom args H Hn vs Ei).
    destruct (opt_map (@to_T sx SZc) vs) as [xs|] eqn:Ex; [|discriminate].
    rewrite (opt_map_to_T_vmap vs xs Ex). inversion E. simpl. unfold s_fn. simpl.
    rewrite den_list_of_list. reflexivity.
Qed.

Lemma evals_hom l : forallb nobr_e l = true ->
  forall vs, opt_map (s_eval inp s1) l = Some vs -> opt_map (c_eval (imap inp) s2) l = Some (map vmap vs).
Proof.
  intros Hn. apply opt_map_hom; [|exact Hn].
  apply Forall_forall. intros e _ He. apply eval_hom. exact He.
Qed.

Lemma write_hom l f1 f2 s1' : nobr_l l = true ->
  (forall ty v v', f1 ty v = Some v' -> f2 ty (vmap v) = Some (vmap v')) ->
  s_write inp s1 l f1 = Some s1' ->
  exists s2', c_write (imap inp) s2 l f2 = Some s2' /\ Rst s1' s2'.
Proof.
  intros Hn Hf E. destruct l as [x|a idx]; simpl in *.
  - rewrite (HR x). destruct (PositiveMap.find x s1) as [[ty [|] v|]|]; simpl; try discriminate.
    destruct (f1 ty v) as [v'|] eqn:Ef; [|discriminate]. rewrite (Hf _ _ _ Ef). inversion E; subst.
    eexists. split; [reflexivity|]. apply (Rst_add s1 s2 x (CScalar ty false v')). exact HR.
  - unfold evals in *.
    destruct (opt_map (s_eval inp s1) idx) as [vs|] eqn:Ei; [|discriminate].
    rewrite (evals_hom idx Hn vs Ei). rewrite opt_map_as_int_vmap.
    destruct (opt_map as_int vs) as [is|]; [|discriminate].
    rewrite (HR a). destruct (PositiveMap.find a s1) as [[|ty [|] shape data]|]; simpl; try discriminate.
    destruct (flat_index shape is 0) as [k|]; [|discriminate].
    destruct (nth_error data (Z.to_nat k)) as [v|] eqn:En; [|discriminate].
    rewrite (nth_error_map_vmap _ _ _ En).
    destruct (f1 ty v) as [v'|] eqn:Ef; [|discriminate]. rewrite (Hf _ _ _ Ef). inversion E; subst.
    eexists. split; [reflexivity|].
    rewrite <- set_nth_map. apply (Rst_add s1 s2 a (CArr ty false shape (set_nth (Z.to_nat k) v' data))). exact HR.
Qed.
End E.

(* ---- statements ---- *)
Lemma seq_hom inp (l : list stmt) :
  Forall (fun s => nobr s = true -> forall s1 s2 s1', Rst s1 s2 -> s_exec inp s s1 = Some s1' ->
                   exists s2', c_exec (imap inp) s s2 = Some s2' /\ Rst s1' s2') l ->
  forallb nobr l = true ->
  forall s1 s2 s1', Rst s1 s2 -> s_exec_list inp l s1 = Some s1' ->
  exists s2', c_exec_list (imap inp) l s2 = Some s2' /\ Rst s1' s2'.
Proof.
  induction 1 as [|s l Hs Hl IH]; intros Hn s1 s2 s1' HR E; simpl in *.
  - inversion E; subst. exists s2. split; [reflexivity|exact HR].
  - apply andb_true_iff in Hn. destruct Hn as [Hn1 Hn2].
    unfold exec_list in *. simpl in *.
    destruct (s_exec inp s s1) as [t1|] eqn:Es; [|discriminate].
    destruct (Hs Hn1 s1 s2 t1 HR Es) as [t2 [E2 HR2]]. rewrite E2.
    apply (IH Hn2 t1 t2 s1' HR2 E).
Qed.

Lemma loop_hom (f1 : @store sx -> option (@store sx)) (f2 : @store T -> option (@store T)) i dl :
  (forall s1 s2 s1', Rst s1 s2 -> f1 s1 = Some s1' -> exists s2', f2 s2 = Some s2' /\ Rst s1' s2') ->
  forall n k s1 s2 s1', Rst s1 s2 -> @loop_gen sx f1 i dl n k s1 = Some s1' ->
  exists s2', @loop_gen T f2 i dl n k s2 = Some s2' /\ Rst s1' s2'.
Proof.
  intros Hf. induction n as [|n IH]; intros k s1 s2 s1' HR E; simpl in *.
  - inversion E; subst. exists s2. split; [reflexivity|exact HR].
  - destruct (f1 (PositiveMap.add i (CScalar DInt true (VI k)) s1)) as [t1|] eqn:E1; [|discriminate].
    destruct (Hf _ (PositiveMap.add i (CScalar DInt true (VI k)) s2) t1
                 (Rst_add s1 s2 i (CScalar DInt true (VI k)) HR) E1) as [t2 [E2 HR2]].
    rewrite E2. apply (IH (k + 1) (PositiveMap.remove i (remove_all dl t1)) (PositiveMap.remove i (remove_all dl t2)) s1'); [|exact E].
    apply Rst_remove. apply Rst_remove_all. exact HR2.
Qed.

Theorem exec_hom inp : forall s, nobr s = true ->
  forall s1 s2 s1', Rst s1 s2 -> s_exec inp s s1 = Some s1' ->
  exists s2', c_exec (imap inp) s s2 = Some s2' /\ Rst s1' s2'.
Proof.
  intros s. induction s using stmt_ind'; intros Hn s1 s2 s1' HR E; simpl in *.
  - inversion E; subst. exists s2. split; [reflexivity|exact HR].
  - (* SVarDecl *)
    rewrite (Rst_fresh s1 s2 x HR). destruct (fresh x s1); [|discriminate].
    destruct (s_eval inp s1 e) as [v|] eqn:Ev; [|discriminate].
    rewrite (eval_hom inp s1 s2 HR e Hn v Ev).
    destruct (@coerce sx SZc ty v) as [v'|] eqn:Ec; [|discriminate]. rewrite (coerce_vmap _ _ _ Ec).
    inversion E; subst. eexists. split; [reflexivity|].
    apply (Rst_add s1 s2 x (CScalar ty false v')). exact HR.
  - (* SArrDecl *)
    rewrite (Rst_fresh s1 s2 x HR).
    destruct (fresh x s1 && forallb (fun n => 0 <? n) shape && (Z.of_nat (List.length vals) <=? prodZ shape)); [|discriminate].
    unfold evals in *.
    destruct (opt_map (s_eval inp s1) vals) as [vs|] eqn:Ev; [|discriminate].
    rewrite (evals_hom inp s1 s2 HR vals Hn vs Ev).
    destruct (opt_map (@coerce sx SZc ty) vs) as [vs'|] eqn:Ec; [|discriminate].
    rewrite (opt_map_coerce_vmap _ _ _ Ec). inversion E; subst.
    eexists. split; [reflexivity|].
    rewrite <- zero_of_vmap, <- pad_map.
    apply (Rst_add s1 s2 x (CArr ty ro shape (pad (Z.to_nat (prodZ shape)) (@zero_of sx SZc ty) vs'))). exact HR.
  - (* SAssign *)
    apply andb_true_iff in Hn. destruct Hn as [Hl He].
    destruct (s_eval inp s1 e) as [v|] eqn:Ev; [|discriminate].
    rewrite (eval_hom inp s1 s2 HR e He v Ev).
    eapply (write_hom inp s1 s2 HR l); [exact Hl| |exact E].
    intros ty w w' Ew. apply coerce_vmap. exact Ew.
  - (* SAssignAdd *)
    apply andb_true_iff in Hn. destruct Hn as [Hl He].
    destruct (s_eval inp s1 e) as [v|] eqn:Ev; [|discriminate].
    rewrite (eval_hom inp s1 s2 HR e He v Ev).
    eapply (write_hom inp s1 s2 HR l); [exact Hl| |exact E].
    intros ty w w' Ew. simpl in Ew.
    destruct (@arith sx SZc SAdd SSub SMul SDiv s_cmp s_cmp s_cmp OAdd w v) as [r|] eqn:Er; [|discriminate].
    rewrite (arith_vmap OAdd w v r eq_refl Er). apply coerce_vmap. exact Ew.
  - (* SFor *)
    rewrite (Rst_fresh s1 s2 i HR). destruct (fresh i s1); [|discriminate].
    eapply loop_hom; [|exact HR|exact E].
    intros t1 t2 t1' HRt Et. eapply seq_hom; eauto.
  - (* SBlock *)
    destruct (seq_gen (s_exec inp) body s1) as [t1|] eqn:Eb; [|discriminate].
    destruct (seq_hom inp body H Hn s1 s2 t1 HR Eb) as [t2 [E2 HR2]].
    unfold exec_list in E2. rewrite E2. inversion E; subst.
    eexists. split; [reflexivity|]. apply Rst_remove_all. exact HR2.
  - (* SList *)
    eapply seq_hom; eauto.
Qed.

Lemma exec_list_hom inp l : forallb nobr l = true ->
  forall s1 s2 s1', Rst s1 s2 -> s_exec_list inp l s1 = Some s1' ->
  exists s2', c_exec_list (imap inp) l s2 = Some s2' /\ Rst s1' s2'.
Proof.
  intros Hn. apply seq_hom; [|exact Hn].
  apply Forall_forall. intros s _ Hs. apply exec_hom. exact Hs.
Qed.

Lemma Rst_init A0 : Rst (init_store A0) (init_store (map vmap A0)).
Proof.
  intros x. unfold init_store. destruct (Pos.eq_dec x id_A) as [->|Hne].
  - rewrite !PositiveMap.gss. simpl. rewrite map_length. reflexivity.
  - rewrite !PositiveMap.gso by exact Hne. rewrite !PositiveMap.gempty. reflexivity.
Qed.

(* the concrete run is the image of the symbolic run *)
Theorem run_hom inp body A0 r : forallb nobr body = true ->
  s_run inp body A0 = Some r ->
  c_run (imap inp) body (map vmap A0) = Some (map vmap r).
Proof.
  intros Hn E. unfold run_kernel in *.
  destruct (s_exec_list inp body (init_store A0)) as [s1'|] eqn:Es; [|discriminate].
  destruct (exec_list_hom inp body Hn _ _ s1' (Rst_init A0) Es) as [s2' [E2 HR2]].
  rewrite E2. unfold get_A in *. rewrite (HR2 id_A).
  destruct (PositiveMap.find id_A s1') as [[|ty ro shape data]|]; simpl; try discriminate.
  inversion E. reflexivity.
Qed.
End Hom.
