(* Check.v — the static checker run (by vm_compute) on every exported kernel.
   One abstract interpretation decides, for ALL input values at once:
     - every identifier is declared before use, once per visible C scope
       (no shadowing), never an input name                       (C19)
     - every subscript of every array (own tables, temporaries, A) and of
       every input pointer stays inside the declared shape / the allowed
       index set of the UFCx contract, on every loop iteration   (C08, C05, C02, C03)
     - inputs and const tables are never written                  (C07)
     - types are consistent (no int/int division, no float subscripts)
   Soundness w.r.t. LN.exec is proved in CheckSound.v.  Model only here. *)

From Coq Require Import ZArith List Bool String FMapPositive.
From FFCX Require Import LN.
Import ListNotations.
Open Scope Z_scope.

Inductive aval :=
| AVI (lo hi : Z)     (* an int in [lo,hi] *)
| AVF                 (* a float *)
| AVN                 (* an int or a float *)
| AVB.                (* a bool *)

Inductive acell :=
| AScalar (ty : dtype) (ro : bool) (iv : option (Z * Z))
| AArr (ty : dtype) (ro : bool) (shape : list Z) (iv : option (Z * Z)).

Definition aenv := PositiveMap.t acell.

Record icontract := {
  ic_allowed : list (Z * Z);     (* readable index ranges, half open [lo,hi) *)
  ic_ty : dtype;
  ic_range : option (Z * Z)      (* inclusive value range of an int input *)
}.

Definition ictx := ident -> option icontract.

Definition in_allowed (allowed : list (Z * Z)) (lo hi : Z) : bool :=
  existsb (fun r => (fst r <=? lo) && (hi <? snd r)) allowed.

Definition is_num (a : aval) : bool :=
  match a with AVI _ _ | AVF | AVN => true | AVB => false end.

Definition is_float (a : aval) : bool := match a with AVF => true | _ => false end.

Definition min4 a b c d := Z.min (Z.min a b) (Z.min c d).
Definition max4 a b c d := Z.max (Z.max a b) (Z.max c d).

Definition aarith (op : binop) (a b : aval) : option aval :=
  match op with
  | OAnd | OOr => match a, b with AVB, AVB => Some AVB | _, _ => None end
  | OEQ | ONE | OLT | OGT | OLE | OGE =>
      if is_num a && is_num b then Some AVB else None
  | ODiv =>
      if is_num a && is_num b && (is_float a || is_float b) then Some AVF else None
  | OAdd | OSub | OMul =>
      match a, b with
      | AVI l1 h1, AVI l2 h2 =>
          match op with
          | OAdd => Some (AVI (l1 + l2) (h1 + h2))
          | OSub => Some (AVI (l1 - h2) (h1 - l2))
          | _ => Some (AVI (min4 (l1 * l2) (l1 * h2) (h1 * l2) (h1 * h2))
                           (max4 (l1 * l2) (l1 * h2) (h1 * l2) (h1 * h2)))
          end
      | _, _ =>
          if is_num a && is_num b then
            if is_float a || is_float b then Some AVF else Some AVN
          else None
      end
  end.

Definition afold (op : binop) (vs : list aval) : option aval :=
  match vs with
  | [] => None
  | v :: vs' => fold_left (fun acc x => match acc with Some a => aarith op a x | None => None end)
                          vs' (Some v)
  end.

Definition ajoin (a b : aval) : option aval :=
  match a, b with
  | AVI l1 h1, AVI l2 h2 => Some (AVI (Z.min l1 l2) (Z.max h1 h2))
  | AVB, AVB => Some AVB
  | AVB, _ | _, AVB => None
  | AVF, AVF => Some AVF
  | _, _ => Some AVN
  end.

Definition aval_of_ty (ty : dtype) (iv : option (Z * Z)) : option aval :=
  match ty with
  | DInt => match iv with Some (lo, hi) => Some (AVI lo hi) | None => None end
  | DBool => Some AVB
  | _ => Some AVF
  end.

(* bounds of a list of abstract subscripts against a shape *)
Fixpoint idx_ok (shape : list Z) (idx : list aval) : bool :=
  match shape, idx with
  | [], [] => true
  | n :: shape', AVI lo hi :: idx' => (0 <=? lo) && (hi <? n) && idx_ok shape' idx'
  | _, _ => false
  end.

Section AEval.
Variable ic : ictx.
Variable G : aenv.

Fixpoint aeval (e : expr) : option aval :=
  match e with
  | ELitI z => Some (AVI z z)
  | ELitF _ _ => Some AVF
  | ELitC _ _ _ _ => Some AVF
  | ESym x =>
      match PositiveMap.find x G with
      | Some (AScalar ty _ iv) => aval_of_ty ty iv
      | _ => None
      end
  | EAcc a idx =>
      match opt_map aeval idx with
      | None => None
      | Some vs =>
          if is_input a then
            match ic a, vs with
            | Some c, [AVI lo hi] =>
                if in_allowed (ic_allowed c) lo hi then aval_of_ty (ic_ty c) (ic_range c) else None
            | _, _ => None
            end
          else
            match PositiveMap.find a G with
            | Some (AArr ty _ shape iv) =>
                if idx_ok shape vs then aval_of_ty ty iv else None
            | _ => None
            end
      end
  | ENeg a =>
      match aeval a with
      | Some (AVI lo hi) => Some (AVI (- hi) (- lo))
      | Some AVF => Some AVF
      | Some AVN => Some AVN
      | _ => None
      end
  | ENot a => match aeval a with Some AVB => Some AVB | _ => None end
  | EBin op l r =>
      match aeval l, aeval r with
      | Some a, Some b => aarith op a b
      | _, _ => None
      end
  | ESum args => match opt_map aeval args with Some vs => afold OAdd vs | None => None end
  | EProd args => match opt_map aeval args with Some vs => afold OMul vs | None => None end
  | ECall _ args =>
      match opt_map aeval args with
      | Some vs => if forallb is_num vs then Some AVF else None
      | None => None
      end
  | ECond c t f =>
      match aeval c, aeval t, aeval f with
      | Some AVB, Some a, Some b => ajoin a b
      | _, _, _ => None
      end
  end.

Definition aevals : list expr -> option (list aval) := opt_map aeval.

End AEval.

(* can a value of abstract kind [a] be stored in a variable of type [ty]?
   returns the interval to remember for ints *)
Definition acoerce (ty : dtype) (a : aval) : option (option (Z * Z)) :=
  match ty, a with
  | DInt, AVI lo hi => Some (Some (lo, hi))
  | DBool, AVB => Some None
  | DReal, AVB | DScalar, AVB => None
  | DReal, _ | DScalar, _ => Some None
  | _, _ => None
  end.

Definition afresh (x : ident) (G : aenv) : bool :=
  negb (is_input x) && match PositiveMap.find x G with None => true | Some _ => false end.

Definition hull (ivs : list (option (Z * Z))) : option (Z * Z) :=
  fold_left (fun acc iv => match acc, iv with
                           | Some (l, h), Some (l', h') => Some (Z.min l l', Z.max h h')
                           | _, _ => None
                           end) ivs (Some (0, 0)).

Definition is_fl_ty (ty : dtype) : bool := match ty with DReal | DScalar => true | _ => false end.

Definition acheck_lval (ic : ictx) (G : aenv) (l : lval) : option dtype :=
  match l with
  | LVar x =>
      match PositiveMap.find x G with
      | Some (AScalar ty false _) => Some ty
      | _ => None
      end
  | LArr a idx =>
      if is_input a then None else
      match aevals ic G idx, PositiveMap.find a G with
      | Some vs, Some (AArr ty false shape _) => if idx_ok shape vs then Some ty else None
      | _, _ => None
      end
  end.

Section Check.
Variable ic : ictx.

Fixpoint check (s : stmt) (G : aenv) : option aenv :=
  match s with
  | SSkip => Some G
  | SVarDecl x ty e =>
      if afresh x G then
        match aeval ic G e with
        | Some a => match acoerce ty a with
                    | Some iv => Some (PositiveMap.add x (AScalar ty false iv) G)
                    | None => None
                    end
        | None => None
        end
      else None
  | SArrDecl x ty shape vals ro =>
      if afresh x G && forallb (fun n => 0 <? n) shape
         && (Z.of_nat (List.length vals) <=? prodZ shape) then
        match aevals ic G vals with
        | Some vs =>
            match opt_map (acoerce ty) vs with
            | Some ivs =>
                let iv := match ty with
                          | DInt => if ro then hull ivs else None
                          | _ => None
                          end in
                Some (PositiveMap.add x (AArr ty ro shape iv) G)
            | None => None
            end
        | None => None
        end
      else None
  | SAssign l e =>
      match aeval ic G e, acheck_lval ic G l with
      | Some a, Some ty =>
          match ty, acoerce ty a with
          | DInt, _ => None
          | _, Some _ => Some G
          | _, None => None
          end
      | _, _ => None
      end
  | SAssignAdd l e =>
      match aeval ic G e, acheck_lval ic G l with
      | Some a, Some ty => if is_fl_ty ty && is_num a then Some G else None
      | _, _ => None
      end
  | SFor i b e body =>
      if afresh i G && (b <? e) then
        match seq_gen check body (PositiveMap.add i (AScalar DInt true (Some (b, e - 1))) G) with
        | Some _ => Some G
        | None => None
        end
      else None
  | SBlock body =>
      match seq_gen check body G with Some _ => Some G | None => None end
  | SList body => seq_gen check body G
  end.

Definition check_list : list stmt -> aenv -> option aenv := seq_gen check.

End Check.

Definition aenv0 (nA : Z) : aenv :=
  PositiveMap.add id_A (AArr DScalar false [nA] None) (PositiveMap.empty acell).

Definition check_kernel (ic : ictx) (nA : Z) (body : list stmt) : bool :=
  (0 <? nA) && match check_list ic body (aenv0 nA) with Some _ => true | None => false end.
