(* Tok.v — tokens, node kinds and the C expression grammar (C17 §6.5.1–6.5.15),
   written from the standard as a stratified derivation relation.  Nothing in
   this file comes from FFCx's precedence table.  Model only. *)

From Coq Require Import ZArith List Bool String.
From FFCX Require Import LN.
Import ListNotations.
Local Open Scope nat_scope.

Inductive kind :=
| KLit | KSym | KAcc | KNeg | KNot | KBin (op : binop) | KSum | KProd | KCall | KCond.

Definition kind_of (e : expr) : kind :=
  match e with
  | ELitI _ | ELitF _ _ | ELitC _ _ _ _ => KLit
  | ESym _ => KSym
  | EAcc _ _ => KAcc
  | ENeg _ => KNeg
  | ENot _ => KNot
  | EBin op _ _ => KBin op
  | ESum _ => KSum
  | EProd _ => KProd
  | ECall _ _ => KCall
  | ECond _ _ _ => KCond
  end.

Inductive tok :=
| TId (x : ident)
| TFun (f : string)
| TInt (z : Z)              (* magnitude, >= 0 *)
| TNum (m e : Z)            (* magnitude m*2^e, m >= 0 *)
| TLP | TRP | TLB | TRB | TComma | TQ | TColon
| TMinus | TBang
| TOp (op : binop).

(* C grammar levels: 0 primary, 1 postfix, 2 unary (= cast), 3 multiplicative,
   4 additive, 5 relational (shift collapses: no shift tokens), 6 equality,
   7 logical-AND (bitwise levels collapse), 8 logical-OR, 9 conditional
   (= assignment-expression = what may stand inside ( ) [ ] and as a call argument). *)
Definition lvl_of_op (op : binop) : nat :=
  match op with
  | OMul | ODiv => 3
  | OAdd | OSub => 4
  | OLT | OGT | OLE | OGE => 5
  | OEQ | ONE => 6
  | OAnd => 7
  | OOr => 8
  end.

Inductive G : nat -> list tok -> expr -> Prop :=
| G_sub n m ts e : G n ts e -> n <= m -> m <= 9 -> G m ts e
| G_int z : (0 <= z)%Z -> G 0 [TInt z] (ELitI z)
| G_num m e : (0 <= m)%Z -> G 0 [TNum m e] (ELitF m e)
| G_id x : G 0 [TId x] (ESym x)
| G_paren ts e : G 9 ts e -> G 0 (TLP :: ts ++ [TRP]) e
| G_acc ts a idx : Gacc ts a idx -> idx <> [] -> G 1 ts (EAcc a idx)
| G_call f ts args : Gargs ts args -> G 1 (TFun f :: TLP :: ts ++ [TRP]) (ECall f args)
| G_neg ts e : G 2 ts e -> G 2 (TMinus :: ts) (ENeg e)
| G_not ts e : G 2 ts e -> G 2 (TBang :: ts) (ENot e)
| G_bin op l r a b :
    G (lvl_of_op op) l a -> G (lvl_of_op op - 1) r b ->
    G (lvl_of_op op) (l ++ [TOp op] ++ r) (EBin op a b)
| G_cond c t f ec et ef :
    G 8 c ec -> G 9 t et -> G 9 f ef ->
    G 9 (c ++ [TQ] ++ t ++ [TColon] ++ f) (ECond ec et ef)
with Gacc : list tok -> ident -> list expr -> Prop :=
| Gacc_nil a : Gacc [TId a] a []
| Gacc_snoc ts a idx is i :
    Gacc ts a idx -> G 9 is i -> Gacc (ts ++ [TLB] ++ is ++ [TRB]) a (idx ++ [i])
with Gargs : list tok -> list expr -> Prop :=
| Gargs_one ts e : G 9 ts e -> Gargs ts [e]
| Gargs_snoc ts args is i :
    Gargs ts args -> G 9 is i -> Gargs (ts ++ [TComma] ++ is) (args ++ [i]).

(* the C level at which a node's own production sits *)
Definition clevel_k (k : kind) : nat :=
  match k with
  | KLit | KSym => 0
  | KAcc | KCall => 1
  | KNeg | KNot => 2
  | KBin op => lvl_of_op op
  | KSum => 4
  | KProd => 3
  | KCond => 9
  end.
