(* PyFmt.v — model of the numba (Python) expression printer (numba/formatter.py) as a token
   printer, parameterised by the precedence table and the parenthesisation comparators that
   tr_prec.py regenerates from the source (gen/PrecGen.v, the py_cmp definitions), and the proof that the printed
   tokens derive, under a Python expression grammar written from the language reference
   (6.3 - 6.13: primaries, unary, binary arithmetic, comparisons, boolean operations, conditional
   expressions), the tree [pcanon e].

   Differences from C that matter:
     - comparisons CHAIN in Python (a < b == c means a < b and b == c): the grammar below only
       derives single comparisons whose operands are arithmetic expressions, and the theorem
       assumes what FFCx produces: no comparison directly under a comparison (wfPy);
     - `not` binds weaker than comparisons; the printer writes (not (x)), an atom;
     - the conditional expression is written (t if c else f), an atom;
     - subscripts are written a[i, j] (numpy indexing), calls np.f(args). *)
From Coq Require Import ZArith List Bool String Lia Arith.
From FFCX Require Import LN Tok SoundExpr.
From FFCXGen Require Import PrecGen.
Import ListNotations.
Local Open Scope nat_scope.

Arguments prec_k : simpl never.
Arguments py_cmp_nary : simpl never.
Arguments py_cmp_bin_l : simpl never.
Arguments py_cmp_bin_r : simpl never.
Arguments py_cmp_un : simpl never.
Arguments py_cmp_cond_c : simpl never.
Arguments py_cmp_cond_t : simpl never.
Arguments py_cmp_cond_f : simpl never.
Arguments py_cmp_andor_l : simpl never.
Arguments py_cmp_andor_r : simpl never.

Inductive ptok :=
| PId (x : ident) | PFun (f : string) | PInt (z : Z) | PNum (m e : Z) | PCplx (a b c d : Z)
| PLP | PRP | PLB | PRB | PComma | PMinus | PNot | PIf | PElse
| POp (op : binop).           (* + - * / < > <= >= == != and or *)

(* Python levels: 0 atom, 1 primary (subscription, call), 3 u_expr, 4 m_expr, 5 a_expr,
   6 comparison, 7 not_test, 8 and_test, 9 or_test, 10 expression (conditional) *)
Definition plvl_of_op (op : binop) : nat :=
  match op with
  | OMul | ODiv => 4
  | OAdd | OSub => 5
  | OLT | OGT | OLE | OGE | OEQ | ONE => 6
  | OAnd => 8
  | OOr => 9
  end.

Definition is_cmp (op : binop) : bool :=
  match op with OLT | OGT | OLE | OGE | OEQ | ONE => true | _ => false end.

Inductive GP : nat -> list ptok -> expr -> Prop :=
| GP_sub n m ts e : GP n ts e -> n <= m -> m <= 10 -> GP m ts e
| GP_int z : (0 <= z)%Z -> GP 0 [PInt z] (ELitI z)
| GP_num m e : (0 <= m)%Z -> GP 0 [PNum m e] (ELitF m e)
| GP_cplx a b c d : GP 0 [PCplx a b c d] (ELitC a b c d)
| GP_id x : GP 0 [PId x] (ESym x)
| GP_paren ts e : GP 10 ts e -> GP 0 (PLP :: ts ++ [PRP]) e
| GP_acc ts a idx : GPargs ts idx -> GP 1 (PId a :: PLB :: ts ++ [PRB]) (EAcc a idx)
| GP_call f ts args : GPargs ts args -> GP 1 (PFun f :: PLP :: ts ++ [PRP]) (ECall f args)
| GP_neg ts e : GP 3 ts e -> GP 3 (PMinus :: ts) (ENeg e)
| GP_not ts e : GP 7 ts e -> GP 7 (PNot :: ts) (ENot e)
| GP_arith op l r a b : is_cmp op = false ->
    GP (plvl_of_op op) l a -> GP (plvl_of_op op - 1) r b ->
    GP (plvl_of_op op) (l ++ [POp op] ++ r) (EBin op a b)
| GP_cmp op l r a b : is_cmp op = true ->                   (* a single, unchained comparison *)
    GP 5 l a -> GP 5 r b -> GP 6 (l ++ [POp op] ++ r) (EBin op a b)
| GP_cond t c f et ec ef :
    GP 9 t et -> GP 9 c ec -> GP 10 f ef ->
    GP 10 (t ++ [PIf] ++ c ++ [PElse] ++ f) (ECond ec et ef)
with GPargs : list ptok -> list expr -> Prop :=
| GPargs_one ts e : GP 10 ts e -> GPargs ts [e]
| GPargs_snoc ts args is i :
    GPargs ts args -> GP 10 is i -> GPargs (ts ++ [PComma] ++ is) (args ++ [i]).

(* ---- the printer ---- *)
Definition pprec (e : expr) : nat := prec_k (kind_of e).
Definition pwrap (b : bool) (ts : list ptok) : list ptok := if b then PLP :: ts ++ [PRP] else ts.
Definition pjoin (sep : list ptok) (l : list (list ptok)) : list ptok :=
  match l with [] => [] | x :: r => x ++ flat_map (fun y => sep ++ y) r end.
Definition pstarts_minus (ts : list ptok) : bool := match ts with PMinus :: _ => true | _ => false end.

Fixpoint fmtPy (e : expr) : list ptok :=
  match e with
  | ELitI z => if (z <? 0)%Z then [PMinus; PInt (- z)] else [PInt z]
  | ELitF m x => if (m <? 0)%Z then [PMinus; PNum (- m) x] else [PNum m x]
  | ELitC a b c d => [PCplx a b c d]
  | ESym x => [PId x]
  | EAcc a idx => PId a :: PLB :: pjoin [PComma] (map fmtPy idx) ++ [PRB]
  | ENeg a => PMinus :: pwrap (py_cmp_un (pprec a) (prec_k KNeg) || (py_un_guard && pstarts_minus (fmtPy a))) (fmtPy a)
  | ENot a => PLP :: (PNot :: PLP :: fmtPy a ++ [PRP]) ++ [PRP]
  | EBin op l r =>
      if match op with OAnd | OOr => true | _ => false end then
        pwrap (py_cmp_andor_l (pprec l) (prec_k (KBin op))) (fmtPy l) ++ [POp op] ++
        pwrap (py_cmp_andor_r (pprec r) (prec_k (KBin op))) (fmtPy r)
      else
        pwrap (py_cmp_bin_l (pprec l) (prec_k (KBin op))) (fmtPy l) ++ [POp op] ++
        pwrap (py_cmp_bin_r (pprec r) (prec_k (KBin op))) (fmtPy r)
  | ESum args => pjoin [POp OAdd] (map (fun a => pwrap (py_cmp_nary (pprec a) (prec_k KSum)) (fmtPy a)) args)
  | EProd args => pjoin [POp OMul] (map (fun a => pwrap (py_cmp_nary (pprec a) (prec_k KProd)) (fmtPy a)) args)
  | ECall f args => PFun f :: PLP :: pjoin [PComma] (map fmtPy args) ++ [PRP]
  | ECond c t f =>
      PLP :: (pwrap (py_cmp_cond_t (pprec t) (prec_k KCond)) (fmtPy t) ++ [PIf] ++
              pwrap (py_cmp_cond_c (pprec c) (prec_k KCond)) (fmtPy c) ++ [PElse] ++
              pwrap (py_cmp_cond_f (pprec f) (prec_k KCond)) (fmtPy f)) ++ [PRP]
  end.

Definition pnest (op : binop) (l : list expr) : expr :=
  match l with [] => ESum [] | a :: r => fold_left (EBin op) r a end.

Fixpoint pcanon (e : expr) : expr :=
  match e with
  | ELitI z => if (z <? 0)%Z then ENeg (ELitI (- z)) else e
  | ELitF m x => if (m <? 0)%Z then ENeg (ELitF (- m) x) else e
  | ELitC _ _ _ _ | ESym _ => e
  | EAcc a idx => EAcc a (map pcanon idx)
  | ENeg a => ENeg (pcanon a)
  | ENot a => ENot (pcanon a)
  | EBin op l r => EBin op (pcanon l) (pcanon r)
  | ESum args => pnest OAdd (map pcanon args)
  | EProd args => pnest OMul (map pcanon args)
  | ECall f args => ECall f (map pcanon args)
  | ECond c t f => ECond (pcanon c) (pcanon t) (pcanon f)
  end.

Definition pneg_lit (e : expr) : bool :=
  match e with ELitI z => (z <? 0)%Z | ELitF m _ => (m <? 0)%Z | _ => false end.

Definition pnonempty {A} (l : list A) : bool := match l with [] => false | _ => true end.

Definition cmp_kind (e : expr) : bool := match e with EBin op _ _ => is_cmp op | _ => false end.

(* what FFCx produces: non-empty n-ary nodes/subscripts/calls, no comparison directly under a comparison *)
Fixpoint wfPy (e : expr) : bool :=
  match e with
  | ELitI _ | ELitF _ _ | ESym _ | ELitC _ _ _ _ => true
  | EAcc _ idx => pnonempty idx && forallb wfPy idx
  | ENeg a | ENot a => wfPy a
  | EBin op l r => wfPy l && wfPy r && (negb (is_cmp op) || (negb (cmp_kind l) && negb (cmp_kind r)))
  | ESum args | EProd args | ECall _ args => pnonempty args && forallb wfPy args
  | ECond c t f => wfPy c && wfPy t && wfPy f
  end.

(* Python level at which the printed text of a node sits *)
Definition plevel_k (k : kind) : nat :=
  match k with
  | KLit | KSym | KNot | KCond => 0
  | KAcc | KCall => 1
  | KNeg => 3
  | KBin op => plvl_of_op op
  | KSum => 5
  | KProd => 4
  end.
Definition plev (e : expr) : nat := if pneg_lit e then 3 else plevel_k (kind_of e).
Definition pworst (k : kind) : nat := match k with KLit => 3 | _ => plevel_k k end.

Lemma plev_worst e : plev e <= pworst (kind_of e).
Proof. unfold plev. destruct e; simpl; try lia; destruct (_ <? _)%Z; lia. Qed.

Lemma plev_le_10 e : plev e <= 10.
Proof. unfold plev. destruct (pneg_lit e); [lia|]. destruct e; simpl; try lia. destruct op; simpl; lia. Qed.

(* a parent position accepts, without parentheses, only children that sit low enough — checked for
   every child kind against the regenerated table; [skip] marks kinds excluded by wfPy at that position *)
Definition ppos_ok (cmp : nat -> nat -> bool) (kp : kind) (R : nat) (skip : kind -> bool) : Prop :=
  forall kc, skip kc = false -> cmp (prec_k kc) (prec_k kp) = false -> pworst kc <= R.

Definition no_skip (k : kind) : bool := false.
Definition skip_cmp (k : kind) : bool := match k with KBin op => is_cmp op | _ => false end.

Ltac ppos_tac :=
  intros kc; destruct kc as [ | | | | | op | | | | ]; try destruct op;
  vm_compute; intros Hs H; try discriminate Hs; try discriminate H; lia.

Lemma ppos_neg : ppos_ok py_cmp_un KNeg 3 no_skip.  Proof. ppos_tac. Qed.
Lemma ppos_sum : ppos_ok py_cmp_nary KSum 4 no_skip.  Proof. ppos_tac. Qed.
Lemma ppos_prod : ppos_ok py_cmp_nary KProd 3 no_skip.  Proof. ppos_tac. Qed.
Lemma ppos_cond_c : ppos_ok py_cmp_cond_c KCond 9 no_skip.  Proof. ppos_tac. Qed.
Lemma ppos_cond_t : ppos_ok py_cmp_cond_t KCond 9 no_skip.  Proof. ppos_tac. Qed.
Lemma ppos_cond_f : ppos_ok py_cmp_cond_f KCond 10 no_skip.  Proof. ppos_tac. Qed.
Lemma ppos_arith_l op : is_cmp op = false -> match op with OAnd | OOr => false | _ => true end = true ->
  ppos_ok py_cmp_bin_l (KBin op) (plvl_of_op op) no_skip.
Proof. destruct op; intros H1 H2; try discriminate; ppos_tac. Qed.
Lemma ppos_arith_r op : is_cmp op = false -> match op with OAnd | OOr => false | _ => true end = true ->
  ppos_ok py_cmp_bin_r (KBin op) (plvl_of_op op - 1) no_skip.
Proof. destruct op; intros H1 H2; try discriminate; ppos_tac. Qed.
Lemma ppos_cmp_l op : is_cmp op = true -> ppos_ok py_cmp_bin_l (KBin op) 5 skip_cmp.
Proof. destruct op; intros H1; try discriminate; ppos_tac. Qed.
Lemma ppos_cmp_r op : is_cmp op = true -> ppos_ok py_cmp_bin_r (KBin op) 5 skip_cmp.
Proof. destruct op; intros H1; try discriminate; ppos_tac. Qed.
Lemma ppos_and_l : ppos_ok py_cmp_andor_l (KBin OAnd) 8 no_skip.  Proof. ppos_tac. Qed.
Lemma ppos_and_r : ppos_ok py_cmp_andor_r (KBin OAnd) 7 no_skip.  Proof. ppos_tac. Qed.
Lemma ppos_or_l : ppos_ok py_cmp_andor_l (KBin OOr) 9 no_skip.  Proof. ppos_tac. Qed.
Lemma ppos_or_r : ppos_ok py_cmp_andor_r (KBin OOr) 8 no_skip.  Proof. ppos_tac. Qed.

Lemma pwrap_ok_gen cmp kp R c (extra : bool) skip :
  ppos_ok cmp kp R skip -> skip (kind_of c) = false -> R <= 10 ->
  GP (plev c) (fmtPy c) (pcanon c) ->
  GP R (pwrap (cmp (pprec c) (prec_k kp) || extra) (fmtPy c)) (pcanon c).
Proof.
  intros Hpos Hs HR HG. unfold pprec. destruct (cmp (prec_k (kind_of c)) (prec_k kp)) eqn:E; simpl.
  - apply GP_sub with (n := 0); [|lia|exact HR]. apply GP_paren.
    apply GP_sub with (n := plev c); [exact HG | apply plev_le_10 | lia].
  - destruct extra; simpl.
    + apply GP_sub with (n := 0); [|lia|exact HR]. apply GP_paren.
      apply GP_sub with (n := plev c); [exact HG | apply plev_le_10 | lia].
    + apply GP_sub with (n := plev c); [exact HG | | exact HR].
      pose proof (Hpos _ Hs E). pose proof (plev_worst c). lia.
Qed.

Lemma pwrap_ok cmp kp R c skip :
  ppos_ok cmp kp R skip -> skip (kind_of c) = false -> R <= 10 ->
  GP (plev c) (fmtPy c) (pcanon c) ->
  GP R (pwrap (cmp (pprec c) (prec_k kp)) (fmtPy c)) (pcanon c).
Proof.
  intros. rewrite <- (orb_false_r (cmp (pprec c) (prec_k kp))). eapply pwrap_ok_gen; eassumption.
Qed.

Lemma pnary_ok op (Rarg : nat) (w : expr -> list ptok) :
  is_cmp op = false -> Rarg = plvl_of_op op - 1 ->
  forall rest ts acc,
    GP (plvl_of_op op) ts acc ->
    Forall (fun a => GP Rarg (w a) (pcanon a)) rest ->
    GP (plvl_of_op op) (ts ++ flat_map (fun y => [POp op] ++ y) (map w rest))
       (fold_left (EBin op) (map pcanon rest) acc).
Proof.
  intros Hc ER. induction rest as [|a rest IH]; intros ts acc Hacc HF; simpl.
  - rewrite app_nil_r. exact Hacc.
  - inversion HF as [|? ? Ha HF']; subst.
    replace (ts ++ POp op :: w a ++ flat_map (fun y => POp op :: y) (map w rest))
      with ((ts ++ [POp op] ++ w a) ++ flat_map (fun y => [POp op] ++ y) (map w rest)).
    + apply IH; [|exact HF']. apply GP_arith; [exact Hc | exact Hacc | exact Ha].
    + simpl. rewrite <- ?app_assoc. simpl. rewrite <- ?app_assoc. reflexivity.
Qed.

Lemma pargs_ok :
  forall rest ts pre,
    GPargs ts pre ->
    Forall (fun i => GP 10 (fmtPy i) (pcanon i)) rest ->
    GPargs (ts ++ flat_map (fun y => [PComma] ++ y) (map fmtPy rest)) (pre ++ map pcanon rest).
Proof.
  induction rest as [|i rest IH]; intros ts pre Hpre HF; simpl.
  - rewrite !app_nil_r. exact Hpre.
  - inversion HF as [|? ? Hi HF']; subst.
    replace (ts ++ PComma :: fmtPy i ++ flat_map (fun y => PComma :: y) (map fmtPy rest))
      with ((ts ++ [PComma] ++ fmtPy i) ++ flat_map (fun y => [PComma] ++ y) (map fmtPy rest)).
    + replace (pre ++ pcanon i :: map pcanon rest) with ((pre ++ [pcanon i]) ++ map pcanon rest)
        by (rewrite <- ?app_assoc; reflexivity).
      apply IH; [|exact HF']. apply GPargs_snoc; assumption.
    + simpl. rewrite <- ?app_assoc. simpl. rewrite <- ?app_assoc. reflexivity.
Qed.

Lemma to10 e : GP (plev e) (fmtPy e) (pcanon e) -> GP 10 (fmtPy e) (pcanon e).
Proof. intros H. apply GP_sub with (n := plev e); [exact H | apply plev_le_10 | lia]. Qed.

Lemma skip_cmp_kind c : cmp_kind c = false -> skip_cmp (kind_of c) = false.
Proof. destruct c; simpl; auto. Qed.

Theorem fmtPy_derives : forall e, wfPy e = true -> GP (plev e) (fmtPy e) (pcanon e).
Proof.
  intros e. induction e using expr_ind'; intros Hwf; simpl in Hwf.
  - (* ELitI *)
    unfold plev. simpl. destruct (z <? 0)%Z eqn:Ez.
    + apply Z.ltb_lt in Ez. apply GP_neg. apply GP_sub with (n := 0); [|lia|lia]. apply GP_int. lia.
    + apply Z.ltb_ge in Ez. apply GP_int. exact Ez.
  - unfold plev. simpl. destruct (m <? 0)%Z eqn:Ez.
    + apply Z.ltb_lt in Ez. apply GP_neg. apply GP_sub with (n := 0); [|lia|lia]. apply GP_num. lia.
    + apply Z.ltb_ge in Ez. apply GP_num. exact Ez.
  - unfold plev. simpl. apply GP_cplx.
  - apply GP_id.
  - (* EAcc *)
    apply andb_true_iff in Hwf. destruct Hwf as [Hne Hall].
    unfold plev. simpl. destruct idx as [|i rest]; [discriminate|].
    simpl in Hall. apply andb_true_iff in Hall. destruct Hall as [Hi Hrest].
    inversion H as [|? ? IHi IHrest]; subst. simpl.
    apply GP_acc. apply (pargs_ok rest (fmtPy i) [pcanon i]).
    + constructor. apply to10. auto.
    + rewrite forallb_forall in Hrest. rewrite Forall_forall in *.
      intros x Hx. apply to10. apply IHrest; auto.
  - (* ENeg *)
    unfold plev. simpl. apply GP_neg. eapply pwrap_ok_gen; [apply ppos_neg | reflexivity | lia | auto].
  - (* ENot: ( not ( a ) ) *)
    unfold plev. simpl.
    apply (GP_paren (PNot :: PLP :: fmtPy e ++ [PRP]) (ENot (pcanon e))).
    apply GP_sub with (n := 7); [|lia|lia]. apply GP_not.
    apply GP_sub with (n := 0); [|lia|lia]. apply (GP_paren (fmtPy e) (pcanon e)). apply to10. auto.
  - (* EBin *)
    apply andb_true_iff in Hwf. destruct Hwf as [Hwf Hc]. apply andb_true_iff in Hwf. destruct Hwf as [H1 H2].
    unfold plev. simpl.
    destruct op; simpl;
      try (match goal with |- GP _ _ (EBin ?o _ _) => apply (GP_arith o) end;
           [reflexivity
           | eapply pwrap_ok; [apply ppos_arith_l; reflexivity | reflexivity | simpl; lia | auto]
           | eapply pwrap_ok; [apply ppos_arith_r; reflexivity | reflexivity | simpl; lia | auto]]);
      try (simpl in Hc; apply andb_true_iff in Hc; destruct Hc as [Hl Hr];
           apply negb_true_iff in Hl; apply negb_true_iff in Hr;
           match goal with |- GP _ _ (EBin ?o _ _) => apply (GP_cmp o) end;
           [reflexivity
           | eapply pwrap_ok; [apply ppos_cmp_l; reflexivity | apply skip_cmp_kind; exact Hl | lia | auto]
           | eapply pwrap_ok; [apply ppos_cmp_r; reflexivity | apply skip_cmp_kind; exact Hr | lia | auto]]).
    + (* and *)
      apply (GP_arith OAnd); [reflexivity
        | eapply pwrap_ok; [apply ppos_and_l | reflexivity | simpl; lia | auto]
        | eapply pwrap_ok; [apply ppos_and_r | reflexivity | simpl; lia | auto]].
    + (* or *)
      apply (GP_arith OOr); [reflexivity
        | eapply pwrap_ok; [apply ppos_or_l | reflexivity | simpl; lia | auto]
        | eapply pwrap_ok; [apply ppos_or_r | reflexivity | simpl; lia | auto]].
  - (* ESum *)
    apply andb_true_iff in Hwf. destruct Hwf as [Hne Hall].
    unfold plev. simpl. destruct args as [|a rest]; [discriminate|].
    simpl in Hall. apply andb_true_iff in Hall. destruct Hall as [Ha Hrest].
    inversion H as [|? ? IHa IHrest]; subst. simpl.
    apply (pnary_ok OAdd 4 (fun a0 => pwrap (py_cmp_nary (pprec a0) (prec_k KSum)) (fmtPy a0)) eq_refl eq_refl).
    + apply GP_sub with (n := 4); [|simpl; lia|simpl; lia].
      eapply pwrap_ok; [apply ppos_sum | reflexivity | lia | auto].
    + rewrite forallb_forall in Hrest. rewrite Forall_forall in *.
      intros x Hx. eapply pwrap_ok; [apply ppos_sum | reflexivity | lia | apply IHrest; auto].
  - (* EProd *)
    apply andb_true_iff in Hwf. destruct Hwf as [Hne Hall].
    unfold plev. simpl. destruct args as [|a rest]; [discriminate|].
    simpl in Hall. apply andb_true_iff in Hall. destruct Hall as [Ha Hrest].
    inversion H as [|? ? IHa IHrest]; subst. simpl.
    apply (pnary_ok OMul 3 (fun a0 => pwrap (py_cmp_nary (pprec a0) (prec_k KProd)) (fmtPy a0)) eq_refl eq_refl).
    + apply GP_sub with (n := 3); [|simpl; lia|simpl; lia].
      eapply pwrap_ok; [apply ppos_prod | reflexivity | lia | auto].
    + rewrite forallb_forall in Hrest. rewrite Forall_forall in *.
      intros x Hx. eapply pwrap_ok; [apply ppos_prod | reflexivity | lia | apply IHrest; auto].
  - (* ECall *)
    apply andb_true_iff in Hwf. destruct Hwf as [Hne Hall].
    unfold plev. simpl. destruct args as [|a rest]; [discriminate|].
    simpl in Hall. apply andb_true_iff in Hall. destruct Hall as [Ha Hrest].
    inversion H as [|? ? IHa IHrest]; subst. simpl.
    apply GP_call. apply (pargs_ok rest (fmtPy a) [pcanon a]).
    + constructor. apply to10. auto.
    + rewrite forallb_forall in Hrest. rewrite Forall_forall in *.
      intros x Hx. apply to10. apply IHrest; auto.
  - (* ECond: ( t if c else f ) *)
    apply andb_true_iff in Hwf. destruct Hwf as [Hwf H3]. apply andb_true_iff in Hwf. destruct Hwf as [H1 H2].
    unfold plev. simpl. apply GP_paren. apply GP_cond.
    + eapply pwrap_ok; [apply ppos_cond_t | reflexivity | lia | auto].
    + eapply pwrap_ok; [apply ppos_cond_c | reflexivity | lia | auto].
    + eapply pwrap_ok; [apply ppos_cond_f | reflexivity | lia | auto].
Qed.

(* ---- tokens to text, for the correspondence run against the real numba formatter ---- *)
From FFCX Require Import Render.
Local Open Scope string_scope.

Definition pop_str (op : binop) : string :=
  match op with OAnd => "and" | OOr => "or" | _ => op_str op end.

Definition ptok_str (t : ptok) : string :=
  match t with
  | PId x => "x" ++ string_of_pos x
  | PFun f => "f:" ++ f
  | PInt z => "i" ++ string_of_Z z
  | PNum m e => "n" ++ string_of_Z m ++ "e" ++ string_of_Z e
  | PCplx _ _ _ _ => "c"
  | PLP => "(" | PRP => ")" | PLB => "[" | PRB => "]" | PComma => ","
  | PMinus => "-" | PNot => "not" | PIf => "if" | PElse => "else"
  | POp op => pop_str op
  end.

Definition prender (ts : list ptok) : string := String.concat " " (map ptok_str ts).

Fixpoint has_clit (e : expr) : bool :=
  match e with
  | ELitC _ _ _ _ => true
  | ELitI _ | ELitF _ _ | ESym _ => false
  | EAcc _ l | ESum l | EProd l | ECall _ l => existsb has_clit l
  | ENeg a | ENot a => has_clit a
  | EBin _ a b => has_clit a || has_clit b
  | ECond a b c => has_clit a || has_clit b || has_clit c
  end.
