(* StmtFmt.v — statement level of C16: a token model of how C/formatter.py prints the statements of the
   code-generation AST (declarations, array declarations with nested initialiser lists, assignments, +=, for loops,
   sections / blocks, statement lists, comments) and the proof that, for EVERY statement tree whose expressions are
   well formed, the printed tokens derive that tree (expressions in their canonical reading, Fmt.canon) under a
   statement grammar written from C17 §6.7 (declarations, initialisers) and §6.8 (compound, expression and
   iteration statements).  The expression level is Fmt.fmtC_derives; this file adds the statement level.
   The model is tied to the real Formatter by the token comparison of stmtcorr.py on every statement of the corpus
   kernels, and the real text is independently re-read by pycparser (p_c16). *)

From Coq Require Import ZArith List Bool String Lia Arith.
From FFCX Require Import LN Tok SoundExpr SoundStmt Fmt.
From FFCXGen Require Import PrecGen.
Import ListNotations.
Local Open Scope nat_scope.

Inductive stok :=
| XE (t : tok)             (* a token of the expression language *)
| XKw (s : string)         (* for, int, static, const and the type names *)
| XSemi | XLBrace | XRBrace | XAssign | XPlusAssign | XLess | XIncr | XComma.

Definition xe (ts : list tok) : list stok := map XE ts.

(* initialisers: the nesting of the values array *)
Inductive ini := IVal (e : expr) | IList (l : list ini).

Section Printer.
Variable tyname : dtype -> string.

Fixpoint fmtI (i : ini) : list stok :=
  match i with
  | IVal e => xe (fmtC e)
  | IList l =>
      XLBrace :: (match map fmtI l with
                  | [] => []
                  | x :: r => x ++ flat_map (fun y => XComma :: y) r
                  end) ++ [XRBrace]
  end.

Definition dims (shape : list Z) : list stok :=
  flat_map (fun n => [XE TLB] ++ xe (fmtC (ELitI n)) ++ [XE TRB]) shape.

Definition fmtL (l : lval) : list stok :=
  match l with
  | LVar x => [XE (TId x)]
  | LArr a idx => xe (fmtC (EAcc a idx))
  end.

Definition for_header (i : ident) (b e : Z) : list stok :=
  [XKw "for"%string; XE TLP; XKw "int"%string; XE (TId i); XAssign] ++ xe (fmtC (ELitI b)) ++
  [XSemi; XE (TId i); XLess] ++ xe (fmtC (ELitI e)) ++ [XSemi; XIncr; XE (TId i); XE TRP].

(* the statement printer; [nest] says how the flat values of an array declaration are nested in the text *)
Variable nest : list Z -> list expr -> ini.

Fixpoint fmtS (s : stmt) : list stok :=
  match s with
  | SSkip => []
  | SVarDecl x ty e => XKw (tyname ty) :: XE (TId x) :: XAssign :: xe (fmtC e) ++ [XSemi]
  | SArrDecl x ty shape vals ro =>
      (if ro then [XKw "static"%string; XKw "const"%string] else []) ++
      XKw (tyname ty) :: XE (TId x) :: dims shape ++ XAssign :: fmtI (nest shape vals) ++ [XSemi]
  | SAssign l e => fmtL l ++ XAssign :: xe (fmtC e) ++ [XSemi]
  | SAssignAdd l e => fmtL l ++ XPlusAssign :: xe (fmtC e) ++ [XSemi]
  | SFor i b e body => for_header i b e ++ XLBrace :: flat_map fmtS body ++ [XRBrace]
  | SBlock body => XLBrace :: flat_map fmtS body ++ [XRBrace]
  | SList body => flat_map fmtS body
  end.

(* ---------- the grammar ---------- *)

(* initializer:  assignment-expression | { initializer-list }   (C17 6.7.9) *)
Inductive GI : list stok -> ini -> Prop :=
| GI_val ts e : G 9 ts e -> GI (xe ts) (IVal e)
| GI_list its l : GIL its l -> GI (XLBrace :: its ++ [XRBrace]) (IList l)
with GIL : list stok -> list ini -> Prop :=
| GIL_nil : GIL (@nil stok) (@nil ini)
| GIL_one ts i : GI ts i -> GIL ts [i]
| GIL_snoc its l ts i : GIL its l -> l <> [] -> GI ts i -> GIL (its ++ XComma :: ts) (l ++ [i]).

(* array declarator:  identifier [ constant ] [ constant ] ...  *)
Inductive GD : list stok -> list Z -> Prop :=
| GD_nil : GD (@nil stok) (@nil Z)
| GD_cons ts n r rs : G 9 ts (canon (ELitI n)) -> GD rs r -> GD ([XE TLB] ++ xe ts ++ [XE TRB] ++ rs) (n :: r).

(* the left side of an assignment is a unary-expression: an identifier or a subscripted identifier *)
Inductive GLv : list stok -> lval -> Prop :=
| GLv_var x : GLv [XE (TId x)] (LVar x)
| GLv_arr ts a idx : Gacc ts a idx -> idx <> [] -> GLv (xe ts) (LArr a idx).

Inductive GS : list stok -> stmt -> Prop :=
| GS_skip : GS (@nil stok) SSkip
(* declaration:  type-specifier  declarator = initializer ;                       (6.7) *)
| GS_var x ty ts e : G 9 ts e ->
    GS (XKw (tyname ty) :: XE (TId x) :: XAssign :: xe ts ++ [XSemi]) (SVarDecl x ty e)
| GS_arr x ty shape (ro : bool) dts its i vals : GD dts shape -> GI its i ->
    GS ((if ro then [XKw "static"%string; XKw "const"%string] else []) ++
        XKw (tyname ty) :: XE (TId x) :: dts ++ XAssign :: its ++ [XSemi]) (SArrDecl x ty shape vals ro)
(* expression-statement:  unary-expression  (= | +=)  assignment-expression ;    (6.8.3, 6.5.16) *)
| GS_assign lts l ts e : GLv lts l -> G 9 ts e -> GS (lts ++ XAssign :: xe ts ++ [XSemi]) (SAssign l e)
| GS_addassign lts l ts e : GLv lts l -> G 9 ts e -> GS (lts ++ XPlusAssign :: xe ts ++ [XSemi]) (SAssignAdd l e)
(* iteration-statement:  for ( declaration expression ; expression ) compound-statement   (6.8.5) *)
| GS_for i b e bts ets its body :
    G 9 bts (canon (ELitI b)) -> G 9 ets (canon (ELitI e)) -> GB its body ->
    GS ([XKw "for"%string; XE TLP; XKw "int"%string; XE (TId i); XAssign] ++ xe bts ++ [XSemi; XE (TId i); XLess] ++ xe ets ++
        [XSemi; XIncr; XE (TId i); XE TRP] ++ XLBrace :: its ++ [XRBrace]) (SFor i b e body)
(* compound-statement:  { block-item-list }                                       (6.8.2) *)
| GS_block its body : GB its body -> GS (XLBrace :: its ++ [XRBrace]) (SBlock body)
(* a statement list is spliced into the enclosing block-item-list *)
| GS_list its body : GB its body -> GS its (SList body)
with GB : list stok -> list stmt -> Prop :=
| GB_nil : GB (@nil stok) (@nil stmt)
| GB_cons ts s its r : GS ts s -> GB its r -> GB (ts ++ its) (s :: r).

(* ---------- canonical reading and well-formedness ---------- *)

Fixpoint canonI (i : ini) : ini :=
  match i with IVal e => IVal (canon e) | IList l => IList (map canonI l) end.

Fixpoint wfI (i : ini) : bool :=
  match i with IVal e => wfG e | IList l => forallb wfI l end.

Definition canonL (l : lval) : lval :=
  match l with LVar x => LVar x | LArr a idx => LArr a (map canon idx) end.

Definition wfL (l : lval) : bool :=
  match l with LVar _ => true | LArr _ idx => nonempty idx && forallb wfG idx end.

Fixpoint canonS (s : stmt) : stmt :=
  match s with
  | SSkip => SSkip
  | SVarDecl x ty e => SVarDecl x ty (canon e)
  | SArrDecl x ty shape vals ro => SArrDecl x ty shape (map canon vals) ro
  | SAssign l e => SAssign (canonL l) (canon e)
  | SAssignAdd l e => SAssignAdd (canonL l) (canon e)
  | SFor i b e body => SFor i b e (map canonS body)
  | SBlock body => SBlock (map canonS body)
  | SList body => SList (map canonS body)
  end.

Fixpoint wfS (s : stmt) : bool :=
  match s with
  | SSkip => true
  | SVarDecl _ _ e => wfG e
  | SArrDecl _ _ shape vals _ => wfI (nest shape vals)
  | SAssign l e | SAssignAdd l e => wfL l && wfG e
  | SFor _ _ _ body | SBlock body | SList body => forallb wfS body
  end.

(* ---------- the theorem ---------- *)

Lemma ini_ind' (P : ini -> Prop) :
  (forall e, P (IVal e)) -> (forall l, Forall P l -> P (IList l)) -> forall i, P i.
Proof.
  intros HV HL. fix IH 1. intros [e|l]; [apply HV|]. apply HL.
  induction l as [|x l IHl]; constructor; [apply IH | exact IHl].
Qed.

Lemma GIL_items : forall l pre its,
  GIL its pre -> pre <> [] ->
  Forall (fun i => GI (fmtI i) (canonI i)) l ->
  GIL (its ++ flat_map (fun y => XComma :: y) (map fmtI l)) (pre ++ map canonI l).
Proof.
  induction l as [|i l IH]; intros pre its Hpre Hne HF; simpl.
  - rewrite !app_nil_r. exact Hpre.
  - inversion HF as [|? ? Hi HF']; subst.
    replace (its ++ XComma :: fmtI i ++ flat_map (fun y => XComma :: y) (map fmtI l))
      with ((its ++ XComma :: fmtI i) ++ flat_map (fun y => XComma :: y) (map fmtI l))
      by (rewrite <- app_assoc; reflexivity).
    replace (pre ++ canonI i :: map canonI l) with ((pre ++ [canonI i]) ++ map canonI l)
      by (rewrite <- app_assoc; reflexivity).
    apply IH; [apply GIL_snoc; assumption | destruct pre; discriminate | exact HF'].
Qed.

Theorem fmtI_derives : forall i, wfI i = true -> GI (fmtI i) (canonI i).
Proof.
  induction i using ini_ind'; intros Hwf; simpl in *.
  - apply GI_val. apply to9. apply fmtC_derives. exact Hwf.
  - apply GI_list. rewrite forallb_forall in Hwf.
    assert (HF : Forall (fun i => GI (fmtI i) (canonI i)) l).
    { apply Forall_forall. intros i Hi. rewrite Forall_forall in H. apply H; [exact Hi | apply Hwf; exact Hi]. }
    destruct l as [|x r]; simpl; [constructor|].
    inversion HF as [|? ? Hx Hr]; subst.
    apply (GIL_items r [canonI x] (fmtI x)); [apply GIL_one; exact Hx | discriminate | exact Hr].
Qed.

Lemma dims_derive : forall shape, GD (dims shape) shape.
Proof.
  induction shape as [|n r IH]; simpl; [constructor|].
  unfold dims in *. simpl. rewrite <- app_assoc. simpl.
  apply (GD_cons (fmtC (ELitI n)) n r); [|exact IH].
  apply to9. apply fmtC_derives. reflexivity.
Qed.

Lemma fmtL_derives l : wfL l = true -> GLv (fmtL l) (canonL l).
Proof.
  destruct l as [x|a idx]; simpl; intros Hwf; [constructor|].
  apply andb_true_iff in Hwf. destruct Hwf as [Hne Hidx].
  apply (GLv_arr (TId a :: flat_map (fun i => TLB :: fmtC i ++ [TRB]) idx) a (map canon idx)).
  - change (TId a :: flat_map (fun i => TLB :: fmtC i ++ [TRB]) idx)
      with ([TId a] ++ flat_map (fun i => TLB :: fmtC i ++ [TRB]) idx).
    change (map canon idx) with ([] ++ map canon idx).
    apply acc_ok; [constructor|].
    apply Forall_forall. intros i Hi. apply to9. apply fmtC_derives.
    rewrite forallb_forall in Hidx. apply Hidx. exact Hi.
  - destruct idx; [discriminate | discriminate].
Qed.

Lemma GB_flat (body : list stmt) :
  Forall (fun s => wfS s = true -> GS (fmtS s) (canonS s)) body ->
  forallb wfS body = true -> GB (flat_map fmtS body) (map canonS body).
Proof.
  induction 1 as [|s r Hs Hr IH]; intros Hwf; simpl in *; [constructor|].
  apply andb_true_iff in Hwf. destruct Hwf as [H1 H2].
  apply GB_cons; [apply Hs; exact H1 | apply IH; exact H2].
Qed.

Theorem fmtS_derives : forall s, wfS s = true -> GS (fmtS s) (canonS s).
Proof.
  induction s using stmt_ind'; intros Hwf; cbn [fmtS canonS wfS] in *.
  - constructor.
  - apply GS_var. apply to9. apply fmtC_derives. exact Hwf.
  - apply (GS_arr x ty shape ro (dims shape) (fmtI (nest shape vals)) (canonI (nest shape vals))).
    + apply dims_derive.
    + apply fmtI_derives. exact Hwf.
  - apply andb_true_iff in Hwf. destruct Hwf as [Hl He].
    apply GS_assign; [apply fmtL_derives; exact Hl | apply to9; apply fmtC_derives; exact He].
  - apply andb_true_iff in Hwf. destruct Hwf as [Hl He].
    apply GS_addassign; [apply fmtL_derives; exact Hl | apply to9; apply fmtC_derives; exact He].
  - unfold for_header. rewrite <- !app_assoc.
    apply (GS_for i b e (fmtC (ELitI b)) (fmtC (ELitI e)) (flat_map fmtS body) (map canonS body)).
    + apply to9. apply fmtC_derives. reflexivity.
    + apply to9. apply fmtC_derives. reflexivity.
    + apply GB_flat; assumption.
  - apply GS_block. apply GB_flat; assumption.
  - apply GS_list. apply GB_flat; assumption.
Qed.

End Printer.
