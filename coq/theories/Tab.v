(* Tab.v — C01/C02/C04: classification and reduction of element tables (ffcx/ir/elementtables.py:
   analyse_table_type, is_*_table, the slicing in build_optimized_tables) and the index at which the
   generated code reads the reduced table (codegeneration/access.py: table_access).
   A table is [permutation][entity][point][dof]; np.allclose(a, b) is |a - b| <= atol + rtol |b| entrywise. *)
From Coq Require Import List Arith Bool QArith Qabs Lia Lqa.
Import ListNotations.
Open Scope Q_scope.

Record tab := { n_p : nat; n_e : nat; n_q : nat; n_d : nat; val : nat -> nat -> nat -> nat -> Q }.

Inductive ttype := Zeros | Ones | Quadrature | Fixed | Piecewise | Uniform | Varying.

Section Tol.
Variables rtol atol : Q.
Hypothesis rtol_nonneg : 0 <= rtol.
Hypothesis atol_nonneg : 0 <= atol.

Definition close (a b : Q) : bool := Qle_bool (Qabs (a - b)) (atol + rtol * Qabs b).

Definition all2 (n m : nat) (f : nat -> nat -> bool) : bool :=
  forallb (fun i => forallb (f i) (seq 0 m)) (seq 0 n).

(* table[0, :, 0, :] ~ table[0, :, i, :] for i in 1..num_points-1 *)
Definition is_piecewise (T : tab) : bool :=
  forallb (fun q => all2 (n_e T) (n_d T) (fun e d => close (val T 0 e 0 d) (val T 0 e q d))) (seq 1 (n_q T - 1)).

(* table[0, 0, :, :] ~ table[0, i, :, :] for i in 1..num_entities-1 *)
Definition is_uniform (T : tab) : bool :=
  forallb (fun e => all2 (n_q T) (n_d T) (fun q d => close (val T 0 0 q d) (val T 0 e q d))) (seq 1 (n_e T - 1)).

Definition all4 (T : tab) (f : Q -> bool) : bool :=
  forallb (fun p => forallb (fun e => all2 (n_q T) (n_d T) (fun q d => f (val T p e q d))) (seq 0 (n_e T))) (seq 0 (n_p T)).

Definition is_zeros (T : tab) : bool :=
  Nat.eqb (n_p T * n_e T * n_q T * n_d T) 0 || all4 T (fun v => close v 0).

Definition is_ones (T : tab) : bool := all4 T (fun v => close v 1).

Definition is_quadrature (T : tab) : bool :=
  Nat.eqb (n_q T) (n_d T) &&
  forallb (fun e => all2 (n_q T) (n_d T) (fun q d => close (val T 0 e q d) (if Nat.eqb q d then 1 else 0))) (seq 0 (n_e T)).

Definition analyse (T : tab) : ttype :=
  if is_zeros T then Zeros
  else if is_ones T then Ones
  else if is_quadrature T then Quadrature
  else match is_piecewise T, is_uniform T with
       | true, true => Fixed
       | true, false => Piecewise
       | false, true => Uniform
       | false, false => Varying
       end.

Definition piecewise_tt (t : ttype) : bool := match t with Piecewise | Fixed | Ones | Zeros => true | _ => false end.
Definition uniform_tt (t : ttype) : bool := match t with Fixed | Ones | Zeros | Uniform => true | _ => false end.

(* tbl[:, :, :1, :] and tbl[:, :1, :, :] *)
Definition slice_points (T : tab) : tab :=
  {| n_p := n_p T; n_e := n_e T; n_q := Nat.min 1 (n_q T); n_d := n_d T; val := val T |}.
Definition slice_entities (T : tab) : tab :=
  {| n_p := n_p T; n_e := Nat.min 1 (n_e T); n_q := n_q T; n_d := n_d T; val := val T |}.
Definition slice_perms (T : tab) : tab :=
  {| n_p := Nat.min 1 (n_p T); n_e := n_e T; n_q := n_q T; n_d := n_d T; val := val T |}.

(* not all(table[0] ~ table[i] for i in 1..) *)
Definition is_permuted (T : tab) : bool :=
  negb (forallb (fun p => forallb (fun e => all2 (n_q T) (n_d T) (fun q d => close (val T 0 e q d) (val T p e q d))) (seq 0 (n_e T)))
                (seq 1 (n_p T - 1))).

Definition reduce (T : tab) : tab * ttype * bool :=
  let t := analyse T in
  let T1 := if piecewise_tt t then slice_points T else T in
  let T2 := if uniform_tt t then slice_entities T1 else T1 in
  let perm := is_permuted T2 in
  (if perm then T2 else slice_perms T2, t, perm).

(* table_access: FE[qp][entity][iq][ic] with entity := 0 if uniform, iq := 0 if piecewise, qp := 0 unless permuted *)
Definition access (r : tab * ttype * bool) (p e q d : nat) : Q :=
  let '(T', t, perm) := r in
  val T' (if perm then p else 0%nat) (if uniform_tt t then 0%nat else e) (if piecewise_tt t then 0%nat else q) d.

(* the index read is inside the reduced table *)
Definition in_range (T : tab) (p e q d : nat) : Prop := (p < n_p T)%nat /\ (e < n_e T)%nat /\ (q < n_q T)%nat /\ (d < n_d T)%nat.

Definition used (r : tab * ttype * bool) (p e q d : nat) : Q :=
  match snd (fst r) with Zeros => 0 | Ones => 1 | _ => access r p e q d end.

(* ---- facts about the bounded quantifiers ---- *)
Lemma forallb_seq f a n : forallb f (seq a n) = true -> forall i, (a <= i < a + n)%nat -> f i = true.
Proof. intros H i Hi. rewrite forallb_forall in H. apply H. apply in_seq. exact Hi. Qed.

Lemma all2_spec n m f : all2 n m f = true -> forall i j, (i < n)%nat -> (j < m)%nat -> f i j = true.
Proof.
  unfold all2. intros H i j Hi Hj.
  pose proof (forallb_seq _ _ _ H i (conj (Nat.le_0_l i) Hi)) as H1. simpl in H1.
  exact (forallb_seq _ _ _ H1 j (conj (Nat.le_0_l j) Hj)).
Qed.

Lemma close_spec a b : close a b = true -> Qabs (a - b) <= atol + rtol * Qabs b.
Proof. unfold close. intros H. apply Qle_bool_iff. exact H. Qed.

Lemma close_refl a : Qabs (a - a) <= atol + rtol * Qabs a.
Proof.
  assert (E : a - a == 0) by ring. rewrite E. simpl.
  pose proof (Qabs_nonneg a). apply Qle_trans with (0 + 0); [apply Qle_refl|].
  apply Qplus_le_compat; [exact atol_nonneg|]. apply Qmult_le_0_compat; assumption.
Qed.

Lemma piecewise_spec T : is_piecewise T = true ->
  forall e q d, (e < n_e T)%nat -> (q < n_q T)%nat -> (d < n_d T)%nat ->
  Qabs (val T 0 e 0 d - val T 0 e q d) <= atol + rtol * Qabs (val T 0 e q d).
Proof.
  intros H e q d He Hq Hd. destruct q as [|q]; [apply close_refl|].
  unfold is_piecewise in H.
  assert (Hq' : (1 <= S q < 1 + (n_q T - 1))%nat) by lia.
  pose proof (forallb_seq _ _ _ H (S q) Hq') as H1.
  apply close_spec. exact (all2_spec _ _ _ H1 e d He Hd).
Qed.

Lemma uniform_spec T : is_uniform T = true ->
  forall e q d, (e < n_e T)%nat -> (q < n_q T)%nat -> (d < n_d T)%nat ->
  Qabs (val T 0 0 q d - val T 0 e q d) <= atol + rtol * Qabs (val T 0 e q d).
Proof.
  intros H e q d He Hq Hd. destruct e as [|e]; [apply close_refl|].
  unfold is_uniform in H.
  assert (He' : (1 <= S e < 1 + (n_e T - 1))%nat) by lia.
  pose proof (forallb_seq _ _ _ H (S e) He') as H1.
  apply close_spec. exact (all2_spec _ _ _ H1 q d Hq Hd).
Qed.

Lemma all4_spec T f : all4 T f = true ->
  forall p e q d, in_range T p e q d -> f (val T p e q d) = true.
Proof.
  unfold all4. intros H p e q d [Hp [He [Hq Hd]]].
  pose proof (forallb_seq _ _ _ H p (conj (Nat.le_0_l p) Hp)) as H1. simpl in H1.
  pose proof (forallb_seq _ _ _ H1 e (conj (Nat.le_0_l e) He)) as H2. simpl in H2.
  exact (all2_spec _ _ _ H2 q d Hq Hd).
Qed.

(* the index the generated code reads lies inside the reduced table *)
Theorem access_index_in_range T p e q d :
  in_range T p e q d ->
  let '(T', t, perm) := reduce T in
  in_range T' (if perm then p else 0%nat) (if uniform_tt t then 0%nat else e) (if piecewise_tt t then 0%nat else q) d.
Proof.
  intros [Hp [He [Hq Hd]]]. unfold reduce.
  destruct (piecewise_tt (analyse T)) eqn:Ep; destruct (uniform_tt (analyse T)) eqn:Eu;
    match goal with |- context [is_permuted ?X] => destruct (is_permuted X) eqn:Epm end;
    unfold in_range, slice_points, slice_entities, slice_perms; cbn [n_p n_e n_q n_d]; repeat split; lia.
Qed.

Lemma analyse_facts T :
  match analyse T with
  | Zeros => is_zeros T = true
  | Ones => is_ones T = true
  | Fixed => is_piecewise T = true /\ is_uniform T = true
  | Piecewise => is_piecewise T = true
  | Uniform => is_uniform T = true
  | _ => True
  end.
Proof.
  unfold analyse. destruct (is_zeros T); [reflexivity|]. destruct (is_ones T); [reflexivity|].
  destruct (is_quadrature T); [exact I|].
  destruct (is_piecewise T), (is_uniform T); auto.
Qed.

Lemma Qabs_sym a b : Qabs (a - b) == Qabs (b - a).
Proof. rewrite <- Qabs_opp. apply Qabs_wd. ring. Qed.

(* value read for permutation 0 (cell and exterior-facet integrals, '+' side without permutation):
   within the tolerances of the table it replaces *)
Theorem reduce_sound_perm0 T e q d :
  in_range T 0 e q d ->
  Qabs (val T 0 e q d - used (reduce T) 0 e q d)
  <= 2 * atol + rtol * (Qabs (val T 0 e q d) + Qabs (val T 0 0 q d) + 1).
Proof.
  intros HR. pose proof HR as [Hp [He [Hq Hd]]].
  set (v := val T 0 e q d). set (v0 := val T 0 0 q d).
  pose proof (Qabs_nonneg v) as Nv. pose proof (Qabs_nonneg v0) as Nv0.
  assert (Pv : 0 <= rtol * Qabs v) by (apply Qmult_le_0_compat; assumption).
  assert (Pv0 : 0 <= rtol * Qabs v0) by (apply Qmult_le_0_compat; assumption).
  assert (R1 : rtol * Qabs v + rtol * Qabs v0 + rtol == rtol * (Qabs v + Qabs v0 + 1)) by ring.
  assert (Hexact : Qabs (v - v) <= 2 * atol + rtol * (Qabs v + Qabs v0 + 1)).
  { assert (E : Qabs (v - v) == 0) by (assert (X : v - v == 0) by ring; rewrite X; reflexivity). lra. }
  pose proof (analyse_facts T) as AF.
  unfold used, reduce. destruct (analyse T) eqn:Ea; cbn [fst snd piecewise_tt uniform_tt access].
  - (* zeros: the term is dropped *)
    unfold is_zeros in AF. apply orb_true_iff in AF. destruct AF as [Ez|Ez].
    + apply Nat.eqb_eq in Ez. exfalso.
      assert (0 < n_p T * n_e T * n_q T * n_d T)%nat by (repeat apply Nat.mul_pos_pos; lia). lia.
    + pose proof (close_spec _ _ (all4_spec T _ Ez 0%nat e q d HR)) as C. fold v in C.
      assert (E2 : rtol * Qabs 0 == 0) by (assert (X : Qabs 0 == 0) by reflexivity; rewrite X; ring). lra.
  - (* ones: the factor is omitted *)
    pose proof (close_spec _ _ (all4_spec T _ AF 0%nat e q d HR)) as C. fold v in C.
    assert (E1 : rtol * Qabs 1 == rtol) by (assert (X : Qabs 1 == 1) by reflexivity; rewrite X; ring). lra.
  - (* quadrature: kept whole *)
    destruct (is_permuted T); cbn [val slice_perms]; exact Hexact.
  - (* fixed *)
    destruct AF as [Epw Eun].
    pose proof (uniform_spec T Eun e q d He Hq Hd) as U. fold v v0 in U.
    assert (H0 : (0 < n_e T)%nat) by lia.
    pose proof (piecewise_spec T Epw 0%nat q d H0 Hq Hd) as P. fold v0 in P.
    set (w := val T 0 0 0 d) in *.
    assert (Tr : Qabs (v - w) <= Qabs (v - v0) + Qabs (v0 - w))
      by (setoid_replace (v - w) with ((v - v0) + (v0 - w)) by ring; apply Qabs_triangle).
    pose proof (Qabs_sym v v0) as S1. pose proof (Qabs_sym v0 w) as S2.
    destruct (is_permuted _); cbn [val slice_perms slice_entities slice_points]; fold w; lra.
  - (* piecewise *)
    pose proof (piecewise_spec T AF e q d He Hq Hd) as P. fold v in P.
    set (w := val T 0 e 0 d) in *. pose proof (Qabs_sym v w) as S1.
    destruct (is_permuted _); cbn [val slice_perms slice_entities slice_points]; fold w; lra.
  - (* uniform *)
    pose proof (uniform_spec T AF e q d He Hq Hd) as U. fold v v0 in U.
    pose proof (Qabs_sym v v0) as S1.
    destruct (is_permuted _); cbn [val slice_perms slice_entities slice_points]; fold v0; lra.
  - (* varying *)
    destruct (is_permuted T); cbn [val slice_perms]; exact Hexact.
Qed.

(* ---- all permutation slots: the sub-table of permutation p holds the values of permutation 0 at
        permuted points (the same function on the facet, the rule's point set being invariant) ---- *)
Definition perm_structure (T : tab) (sigma : nat -> nat -> nat) : Prop :=
  forall p e q d, in_range T p e q d -> (sigma p q < n_q T)%nat /\ val T p e q d == val T 0 e (sigma p q) d.

Definition bounded (T : tab) (M : Q) : Prop := forall p e q d, in_range T p e q d -> Qabs (val T p e q d) <= M.

Lemma close_le M a b : Qabs b <= M -> close a b = true -> Qabs (a - b) <= atol + rtol * M.
Proof.
  intros Hb H. apply close_spec in H.
  assert (rtol * Qabs b <= rtol * M).
  { rewrite (Qmult_comm rtol (Qabs b)), (Qmult_comm rtol M). apply Qmult_le_compat_r; assumption. }
  lra.
Qed.

Lemma permuted_spec T : is_permuted T = false ->
  forall p e q d, in_range T p e q d ->
  Qabs (val T 0 e q d - val T p e q d) <= atol + rtol * Qabs (val T p e q d).
Proof.
  intros H p e q d [Hp [He [Hq Hd]]]. destruct p as [|p]; [apply close_refl|].
  unfold is_permuted in H. apply negb_false_iff in H.
  assert (Hp' : (1 <= S p < 1 + (n_p T - 1))%nat) by lia.
  pose proof (forallb_seq _ _ _ H (S p) Hp') as H1. simpl in H1.
  pose proof (forallb_seq _ _ _ H1 e (conj (Nat.le_0_l e) He)) as H2. simpl in H2.
  apply close_spec. exact (all2_spec _ _ _ H2 q d Hq Hd).
Qed.

Theorem reduce_sound_all_perms T sigma M p e q d :
  perm_structure T sigma -> bounded T M -> in_range T p e q d ->
  Qabs (val T p e q d - used (reduce T) p e q d) <= 3 * (atol + rtol * M) + rtol.
Proof.
  intros PS BD HR. pose proof HR as [Hp [He [Hq Hd]]].
  destruct (PS p e q d HR) as [Hs Ev]. set (q' := sigma p q) in *.
  assert (M0 : 0 <= M) by (eapply Qle_trans; [apply Qabs_nonneg|apply (BD p e q d HR)]).
  assert (RM : 0 <= rtol * M) by (apply Qmult_le_0_compat; assumption).
  assert (T0 : 0 <= atol + rtol * M) by lra.
  assert (P0 : (0 < n_p T)%nat) by lia. assert (E0 : (0 < n_e T)%nat) by lia. assert (Q0 : (0 < n_q T)%nat) by lia.
  assert (IR : forall p1 e1 q1, (p1 < n_p T)%nat -> (e1 < n_e T)%nat -> (q1 < n_q T)%nat -> in_range T p1 e1 q1 d)
    by (intros; repeat split; assumption).
  assert (TAU : forall a p1 e1 q1, (p1 < n_p T)%nat -> (e1 < n_e T)%nat -> (q1 < n_q T)%nat ->
                Qabs (a - val T p1 e1 q1 d) <= atol + rtol * Qabs (val T p1 e1 q1 d) ->
                Qabs (a - val T p1 e1 q1 d) <= atol + rtol * M).
  { intros a p1 e1 q1 H1 H2 H3 H. pose proof (BD p1 e1 q1 d (IR p1 e1 q1 H1 H2 H3)) as B.
    assert (rtol * Qabs (val T p1 e1 q1 d) <= rtol * M).
    { rewrite (Qmult_comm rtol _), (Qmult_comm rtol M). apply Qmult_le_compat_r; assumption. }
    lra. }
  set (v := val T p e q d) in *.
  assert (Hexact : Qabs (v - v) <= 3 * (atol + rtol * M) + rtol).
  { assert (E : Qabs (v - v) == 0) by (assert (X : v - v == 0) by ring; rewrite X; reflexivity). lra. }
  assert (TRI : forall a b c, Qabs (a - c) <= Qabs (a - b) + Qabs (b - c)).
  { intros a b c. setoid_replace (a - c) with ((a - b) + (b - c)) by ring. apply Qabs_triangle. }
  pose proof (analyse_facts T) as AF.
  unfold used, reduce. destruct (analyse T) eqn:Ea; cbn [fst snd piecewise_tt uniform_tt access].
  - unfold is_zeros in AF. apply orb_true_iff in AF. destruct AF as [Ez|Ez].
    + apply Nat.eqb_eq in Ez. exfalso.
      assert (0 < n_p T * n_e T * n_q T * n_d T)%nat by (repeat apply Nat.mul_pos_pos; lia). lia.
    + pose proof (close_spec _ _ (all4_spec T _ Ez p e q d HR)) as C. fold v in C.
      assert (E2 : rtol * Qabs 0 == 0) by (assert (X : Qabs 0 == 0) by reflexivity; rewrite X; ring). lra.
  - pose proof (close_spec _ _ (all4_spec T _ AF p e q d HR)) as C. fold v in C.
    assert (E1 : rtol * Qabs 1 == rtol) by (assert (X : Qabs 1 == 1) by reflexivity; rewrite X; ring). lra.
  - destruct (is_permuted T) eqn:Epm; cbn [val slice_perms]; [exact Hexact|].
    pose proof (TAU _ p e q Hp He Hq (permuted_spec T Epm p e q d HR)) as X. fold v in X.
    pose proof (Qabs_sym v (val T 0 e q d)). lra.
  - (* fixed *)
    destruct AF as [Epw Eun].
    set (w := val T 0 0 0 d). set (a := val T 0 e q' d). set (b := val T 0 0 q' d).
    assert (Eva : Qabs (v - a) == 0) by (assert (X : v - a == 0) by (unfold a; rewrite Ev; ring); rewrite X; reflexivity).
    pose proof (TAU _ 0%nat e q' P0 He Hs (uniform_spec T Eun e q' d He Hs Hd)) as U. fold a b in U.
    pose proof (TAU _ 0%nat 0%nat q' P0 E0 Hs (piecewise_spec T Epw 0%nat q' d E0 Hs Hd)) as P. fold b w in P.
    pose proof (TRI v a w). pose proof (TRI a b w). pose proof (Qabs_sym a b). pose proof (Qabs_sym b w).
    destruct (is_permuted _) eqn:Epm; cbn [val slice_perms slice_entities slice_points].
    + destruct (PS p 0%nat 0%nat d (IR p 0%nat 0%nat Hp E0 Q0)) as [Hs0 Ev0]. set (q0 := sigma p 0%nat) in *.
      pose proof (TAU _ 0%nat 0%nat q0 P0 E0 Hs0 (piecewise_spec T Epw 0%nat q0 d E0 Hs0 Hd)) as P2. fold w in P2.
      set (c := val T p 0 0 d) in *. set (c0 := val T 0 0 q0 d) in *.
      assert (Ecc : Qabs (w - c) == Qabs (w - c0)) by (apply Qabs_wd; rewrite Ev0; reflexivity).
      pose proof (TRI v w c). lra.
    + fold w. lra.
  - (* piecewise *)
    set (w := val T 0 e 0 d). set (a := val T 0 e q' d).
    assert (Eva : Qabs (v - a) == 0) by (assert (X : v - a == 0) by (unfold a; rewrite Ev; ring); rewrite X; reflexivity).
    pose proof (TAU _ 0%nat e q' P0 He Hs (piecewise_spec T AF e q' d He Hs Hd)) as P. fold w a in P.
    pose proof (TRI v a w). pose proof (Qabs_sym a w).
    destruct (is_permuted _) eqn:Epm; cbn [val slice_perms slice_entities slice_points].
    + destruct (PS p e 0%nat d (IR p e 0%nat Hp He Q0)) as [Hs0 Ev0]. set (q0 := sigma p 0%nat) in *.
      pose proof (TAU _ 0%nat e q0 P0 He Hs0 (piecewise_spec T AF e q0 d He Hs0 Hd)) as P2. fold w in P2.
      set (c := val T p e 0 d) in *. set (c0 := val T 0 e q0 d) in *.
      assert (Ecc : Qabs (w - c) == Qabs (w - c0)) by (apply Qabs_wd; rewrite Ev0; reflexivity).
      pose proof (TRI v w c). lra.
    + fold w. lra.
  - (* uniform *)
    set (a := val T 0 e q' d). set (b := val T 0 0 q' d).
    assert (Eva : Qabs (v - a) == 0) by (assert (X : v - a == 0) by (unfold a; rewrite Ev; ring); rewrite X; reflexivity).
    pose proof (TAU _ 0%nat e q' P0 He Hs (uniform_spec T AF e q' d He Hs Hd)) as U. fold a b in U.
    pose proof (TRI v a b). pose proof (Qabs_sym a b).
    destruct (PS p 0%nat q d (IR p 0%nat q Hp E0 Hq)) as [_ Ev0]. fold q' in Ev0. fold b in Ev0.
    set (c := val T p 0 q d) in *.
    assert (Ecb : Qabs (v - c) == Qabs (v - b)) by (apply Qabs_wd; rewrite Ev0; reflexivity).
    destruct (is_permuted _) eqn:Epm; cbn [val slice_perms slice_entities slice_points].
    + fold c. lra.
    + (* the comparison of the permutation slots ran on the sliced table: entity 0 only *)
      assert (IR2 : in_range (slice_entities T) p 0 q d) by (unfold in_range, slice_entities; cbn [n_p n_e n_q n_d]; repeat split; lia).
      pose proof (permuted_spec _ Epm p 0%nat q d IR2) as X. cbn [val slice_entities] in X. fold c in X.
      pose proof (TAU _ p 0%nat q Hp E0 Hq X) as X2. fold c in X2.
      set (w := val T 0 0 q d) in *. pose proof (TRI v c w). pose proof (Qabs_sym w c). lra.
  - destruct (is_permuted T) eqn:Epm; cbn [val slice_perms]; [exact Hexact|].
    pose proof (TAU _ p e q Hp He Hq (permuted_spec T Epm p e q d HR)) as X. fold v in X.
    pose proof (Qabs_sym v (val T 0 e q d)). lra.
Qed.

End Tol.

(* ---- executable interface for the correspondence runs: tables as nested lists ---- *)
Definition of_lists (l : list (list (list (list Q)))) : tab :=
  let e0 := nth 0 l [] in let q0 := nth 0 e0 [] in let d0 := nth 0 q0 [] in
  {| n_p := length l; n_e := length e0; n_q := length q0; n_d := length d0;
     val := fun p e q d => nth d (nth q (nth e (nth p l []) []) []) 0 |}.

Definition tt_code (t : ttype) : nat :=
  match t with Zeros => 0 | Ones => 1 | Quadrature => 2 | Fixed => 3 | Piecewise => 4 | Uniform => 5 | Varying => 6 end.

Definition classify (rtol atol : Q) (l : list (list (list (list Q)))) : nat * bool :=
  let r := reduce rtol atol (of_lists l) in (tt_code (snd (fst r)), snd r).

(* the structure hypothesis of [reduce_sound_all_perms] cannot be dropped: the classification looks at
   permutation 0 only, and the comparison of the permutation slots runs on the already sliced table *)
Example reduction_unsound_without_permutation_structure :
  let l := [[[[1]; [1]]]; [[[1]; [5]]]] in   (* [perm][entity][point][dof]: perm 0 constant over the points, perm 1 not *)
  let r := reduce (1 # 1024) (1 # 1024) (of_lists l) in
  snd (fst r) = Fixed /\ snd r = false /\ used r 1 0 1 0 == 1 /\ val (of_lists l) 1 0 1 0 == 5.
Proof. vm_compute. repeat split; reflexivity. Qed.

(* non-vacuity: the gradient table of a Q1 function along the four facets of a quadrilateral (constant along
   two of them, varying along the others) is Varying and read in full *)
Example q1_gradient_on_quadrilateral_facets_is_varying :
  classify (1 # 1024) (1 # 1024)
    [[ [[-1; 1; 0; 0]; [-1; 1; 0; 0]]; [[-(3#4); (3#4); -(1#4); (1#4)]; [-(1#4); (1#4); -(3#4); (3#4)]];
       [[-(3#4); (3#4); -(1#4); (1#4)]; [-(1#4); (1#4); -(3#4); (3#4)]]; [[0; 0; -1; 1]; [0; 0; -1; 1]] ]] = (6%nat, false).
Proof. vm_compute. reflexivity. Qed.

From Coq Require Import String.
Definition tt_name (t : ttype) : string :=
  match t with Zeros => "zeros" | Ones => "ones" | Quadrature => "quadrature" | Fixed => "fixed"
             | Piecewise => "piecewise" | Uniform => "uniform" | Varying => "varying" end%string.
Definition name_in (t : ttype) (l : list string) : bool := existsb (String.eqb (tt_name t)) l.
