(* SoundStmt.v — soundness of Check.check w.r.t. LN.exec:
   a kernel accepted by the checker executes without any trap
   (out-of-bounds, undeclared, redeclared, ill-typed, write to read-only)
   for ALL inputs that satisfy the contract. *)

From Coq Require Import ZArith List Bool String FMapPositive Lia.
From FFCX Require Import LN Check SoundExpr.
Import ListNotations.
Open Scope Z_scope.

Section StmtInd.
Variable P : stmt -> Prop.
Hypothesis HSkip : P SSkip.
Hypothesis HVar : forall x ty e, P (SVarDecl x ty e).
Hypothesis HArr : forall x ty shape vals ro, P (SArrDecl x ty shape vals ro).
Hypothesis HAssign : forall l e, P (SAssign l e).
Hypothesis HAssignAdd : forall l e, P (SAssignAdd l e).
Hypothesis HFor : forall i b e body, Forall P body -> P (SFor i b e body).
Hypothesis HBlock : forall body, Forall P body -> P (SBlock body).
Hypothesis HList : forall body, Forall P body -> P (SList body).

Fixpoint stmt_ind' (s : stmt) : P s :=
  let go := fix go (l : list stmt) : Forall P l :=
      match l with
      | [] => Forall_nil P
      | x :: l' => Forall_cons x (stmt_ind' x) (go l')
      end in
  match s with
  | SSkip => HSkip
  | SVarDecl x ty e => HVar x ty e
  | SArrDecl x ty shape vals ro => HArr x ty shape vals ro
  | SAssign l e => HAssign l e
  | SAssignAdd l e => HAssignAdd l e
  | SFor i b e body => HFor i b e body (go body)
  | SBlock body => HBlock body (go body)
  | SList body => HList body (go body)
  end.
End StmtInd.

Lemma declared_SList l : declared (SList l) = declared_list l.
Proof. reflexivity. Qed.

Lemma declared_list_cons s l : declared_list (s :: l) = declared s ++ declared_list l.
Proof. reflexivity. Qed.

Section Sound.
Set Default Proof Using "All".

Variable T : Type.
Variable of_Z : Z -> T.
Variable of_lit : Z -> Z -> T.
Variable of_clit : Z -> Z -> Z -> Z -> T.
Variable tadd tsub tmul tdiv : T -> T -> T.
Variable tneg : T -> T.
Variable teqb tltb tleb : T -> T -> bool.
Variable tfn : string -> list T -> T.

Notation val := (@val T).
Notation cell := (@cell T).
Notation store := (@store T).
Notation inputs := (@inputs T).
Notation eval := (@eval T of_Z of_lit of_clit tadd tsub tmul tdiv tneg teqb tltb tleb tfn).
Notation evals := (@evals T of_Z of_lit of_clit tadd tsub tmul tdiv tneg teqb tltb tleb tfn).
Notation exec := (@exec T of_Z of_lit of_clit tadd tsub tmul tdiv tneg teqb tltb tleb tfn).
Notation exec_list := (@exec_list T of_Z of_lit of_clit tadd tsub tmul tdiv tneg teqb tltb tleb tfn).
Notation loop := (@loop T of_Z of_lit of_clit tadd tsub tmul tdiv tneg teqb tltb tleb tfn).
Notation write := (@write T of_Z of_lit of_clit tadd tsub tmul tdiv tneg teqb tltb tleb tfn).
Notation run_kernel := (@run_kernel T of_Z of_lit of_clit tadd tsub tmul tdiv tneg teqb tltb tleb tfn).
Notation arith := (@arith T of_Z tadd tsub tmul tdiv teqb tltb tleb).
Notation coerce := (@coerce T of_Z).
Notation zero_of := (@zero_of T of_Z).
Notation val_ok := (@val_ok T).
Notation val_ty_ok := (@val_ty_ok T).
Notation cell_ok := (@cell_ok T).
Notation env_ok := (@env_ok T).
Notation inp_ok := (@inp_ok T).

(* ---------- equations for the nested fixpoints ---------- *)

Lemma exec_SList inp l st : exec inp (SList l) st = exec_list inp l st.
Proof. reflexivity. Qed.

Lemma exec_SBlock inp l st :
  exec inp (SBlock l) st =
  match exec_list inp l st with
  | Some st' => Some (remove_all (declared_list l) st')
  | None => None
  end.
Proof. reflexivity. Qed.

Lemma exec_SFor inp i b e body st :
  exec inp (SFor i b e body) st =
  if fresh i st then loop inp i body (Z.to_nat (e - b)) b st else None.
Proof. reflexivity. Qed.

Lemma loop_S inp i body n k st :
  loop inp i body (S n) k st =
  match exec_list inp body (PositiveMap.add i (CScalar DInt true (VI k)) st) with
  | Some st' => loop inp i body n (k + 1)
                     (PositiveMap.remove i (remove_all (declared_list body) st'))
  | None => None
  end.
Proof. reflexivity. Qed.

Lemma check_SList ic l G : check ic (SList l) G = check_list ic l G.
Proof. reflexivity. Qed.

Lemma check_SBlock ic l G :
  check ic (SBlock l) G = match check_list ic l G with Some _ => Some G | None => None end.
Proof. reflexivity. Qed.

Lemma check_SFor ic i b e body G :
  check ic (SFor i b e body) G =
  if afresh i G && (b <? e) then
    match check_list ic body (PositiveMap.add i (AScalar DInt true (Some (b, e - 1))) G) with
    | Some _ => Some G
    | None => None
    end
  else None.
Proof. reflexivity. Qed.

(* ---------- structure of the abstract environment ---------- *)

Lemma check_structure ic :
  forall s G G', check ic s G = Some G' ->
    (forall x, ~ In x (declared s) -> PositiveMap.find x G' = PositiveMap.find x G) /\
    (forall x, In x (declared s) -> PositiveMap.find x G = None).
Proof.
  intros s. induction s using stmt_ind'; intros G G' E.
  - simpl in E. inversion E; subst. split; [reflexivity | intros x []].
  - simpl in E. destruct (afresh x G) eqn:Hf; [|discriminate].
    destruct (aeval ic G e); [|discriminate]. destruct (acoerce ty a); [|discriminate].
    inversion E; subst. simpl. split.
    + intros y Hy. apply PositiveMap.gso. intros ->. apply Hy. left. reflexivity.
    + intros y [<-|[]]. unfold afresh in Hf. apply andb_true_iff in Hf. destruct Hf as [_ Hf].
      destruct (PositiveMap.find x G); [discriminate | reflexivity].
  - simpl in E.
    destruct (afresh x G && forallb (fun n => 0 <? n) shape &&
              (Z.of_nat (List.length vals) <=? prodZ shape)) eqn:Hc; [|discriminate].
    destruct (aevals ic G vals); [|discriminate].
    destruct (opt_map (acoerce ty) l); [|discriminate].
    inversion E; subst. simpl.
    apply andb_true_iff in Hc. destruct Hc as [Hc _].
    apply andb_true_iff in Hc. destruct Hc as [Hf _]. split.
    + intros y Hy. apply PositiveMap.gso. intros ->. apply Hy. left. reflexivity.
    + intros y [<-|[]]. unfold afresh in Hf. apply andb_true_iff in Hf. destruct Hf as [_ Hf].
      destruct (PositiveMap.find x G); [discriminate | reflexivity].
  - simpl in E. destruct (aeval ic G e); [|discriminate].
    destruct (acheck_lval ic G l) as [ty|]; [|discriminate].
    assert (G' = G) by (destruct ty, a; simpl in E; inversion E; reflexivity).
    subst. split; [reflexivity | intros x []].
  - simpl in E. destruct (aeval ic G e); [|discriminate].
    destruct (acheck_lval ic G l) as [ty|]; [|discriminate].
    destruct (is_fl_ty ty && is_num a); inversion E; subst.
    split; [reflexivity | intros x []].
  - rewrite check_SFor in E.
    destruct (afresh i G && (b <? e)); [|discriminate].
    destruct (check_list ic body _); inversion E; subst.
    split; [reflexivity | intros x []].
  - rewrite check_SBlock in E. destruct (check_list ic body G); inversion E; subst.
    split; [reflexivity | intros x []].
  - rewrite check_SList in E. rewrite declared_SList.
    revert G G' E. induction H as [|s l Hs Hl IH]; intros G G' E.
    + simpl in E. inversion E; subst. split; [reflexivity | intros x []].
    + simpl in E. destruct (check ic s G) as [G1|] eqn:E1; [|discriminate].
      destruct (Hs G G1 E1) as [A1 A2]. destruct (IH G1 G' E) as [B1 B2].
      rewrite declared_list_cons. split.
      * intros x Hx. rewrite B1, A1; [reflexivity| |]; intro; apply Hx; apply in_or_app; tauto.
      * intros x Hx. apply in_app_or in Hx. destruct Hx as [Hx|Hx]; [apply A2; exact Hx|].
        destruct (in_dec Pos.eq_dec x (declared s)) as [Hd|Hd]; [apply A2; exact Hd|].
        rewrite <- (A1 x Hd). apply B2. exact Hx.
Qed.

Lemma check_list_structure ic l G G' :
  check_list ic l G = Some G' ->
    (forall x, ~ In x (declared_list l) -> PositiveMap.find x G' = PositiveMap.find x G) /\
    (forall x, In x (declared_list l) -> PositiveMap.find x G = None).
Proof.
  intros E. rewrite <- declared_SList. apply (check_structure ic (SList l)).
  rewrite check_SList. exact E.
Qed.

Lemma remove_all_find (xs : list ident) (st : store) x :
  PositiveMap.find x (remove_all xs st) =
  if in_dec Pos.eq_dec x xs then None else PositiveMap.find x st.
Proof.
  unfold remove_all. revert st. induction xs as [|y xs IH]; intros st; simpl.
  - reflexivity.
  - rewrite IH. destruct (Pos.eq_dec y x) as [->|Hne].
    + destruct (in_dec Pos.eq_dec x xs); [reflexivity | apply PositiveMap.grs].
    + destruct (in_dec Pos.eq_dec x xs); [reflexivity|].
      apply PositiveMap.gro. congruence.
Qed.

(* ---------- helper facts on values ---------- *)

Lemma val_ty_ok_nonint ty iv1 iv2 (v : val) :
  ty <> DInt -> val_ty_ok ty iv1 v -> val_ty_ok ty iv2 v.
Proof. destruct ty, v; simpl; tauto. Qed.

Lemma val_ty_ok_none ty iv (v : val) : val_ty_ok ty iv v -> val_ty_ok ty None v.
Proof. destruct ty, v; simpl; try tauto. Qed.

Lemma val_ty_ok_widen ty l h L H (v : val) :
  val_ty_ok ty (Some (l, h)) v -> L <= l -> h <= H -> val_ty_ok ty (Some (L, H)) v.
Proof. destruct ty, v; simpl; try tauto. lia. Qed.

Lemma set_nth_length {A} n (x : A) l : List.length (set_nth n x l) = List.length l.
Proof. revert l; induction n; destruct l; simpl; auto. Qed.

Lemma set_nth_Forall {A} (P : A -> Prop) n x l : Forall P l -> P x -> Forall P (set_nth n x l).
Proof.
  revert l; induction n; destruct l; simpl; intros HF Hx; auto;
    inversion HF; subst; constructor; auto.
Qed.

Lemma pad_length {A} n (d : A) l : List.length (pad n d l) = n.
Proof. revert l; induction n; intros l; simpl; [reflexivity|]. destruct l; simpl; rewrite IHn; reflexivity. Qed.

Lemma pad_Forall {A} (P : A -> Prop) n d l : Forall P l -> P d -> Forall P (pad n d l).
Proof.
  revert l; induction n; intros l HF Hd; simpl; [constructor|].
  destruct l; [constructor; auto | inversion HF; subst; constructor; auto].
Qed.

Lemma env_ok_add st G x c a :
  env_ok st G -> cell_ok c a -> env_ok (PositiveMap.add x c st) (PositiveMap.add x a G).
Proof.
  intros H Hc y. destruct (Pos.eq_dec y x) as [->|Hne].
  - rewrite !PositiveMap.gss. exact Hc.
  - rewrite !PositiveMap.gso by exact Hne. apply H.
Qed.

Lemma env_ok_update st G x c a :
  env_ok st G -> PositiveMap.find x G = Some a -> cell_ok c a ->
  env_ok (PositiveMap.add x c st) G.
Proof.
  intros H Hx Hc y. destruct (Pos.eq_dec y x) as [->|Hne].
  - rewrite PositiveMap.gss, Hx. exact Hc.
  - rewrite PositiveMap.gso by exact Hne. apply H.
Qed.

Lemma afresh_fresh st G x : env_ok st G -> afresh x G = true -> fresh x st = true.
Proof.
  intros H Hf. unfold afresh in Hf. unfold LN.fresh.
  apply andb_true_iff in Hf. destruct Hf as [H1 H2]. rewrite H1. simpl.
  specialize (H x). destruct (PositiveMap.find x G); [discriminate|].
  destruct (PositiveMap.find x st); [contradiction | reflexivity].
Qed.

(* coercion of a list *)
Lemma coerce_list_sound ty :
  forall avs vs ivs,
    Forall2 val_ok vs avs -> opt_map (acoerce ty) avs = Some ivs ->
    exists vs', opt_map (coerce ty) vs = Some vs' /\
                Forall2 (fun v iv => val_ty_ok ty iv v) vs' ivs.
Proof.
  induction avs as [|a avs IH]; intros vs ivs HF E.
  - inversion HF; subst. simpl in E. inversion E; subst. exists []. split; [reflexivity | constructor].
  - inversion HF as [|v a' vs0 avs0 Hv HF']; subst. simpl in E.
    destruct (acoerce ty a) as [iv|] eqn:Ea; [|discriminate].
    destruct (opt_map (acoerce ty) avs) as [ivs'|] eqn:Er; [|discriminate].
    inversion E; subst.
    destruct (acoerce_sound T of_Z of_lit of_clit tadd tsub tmul tdiv tneg teqb tltb tleb tfn ty a iv v Ea Hv) as [v' [Ev' Hv']].
    destruct (IH vs0 ivs' HF' eq_refl) as [vs' [Evs' HF2]].
    exists (v' :: vs'). simpl. rewrite Ev', Evs'. split; [reflexivity | constructor; assumption].
Qed.

Lemma hull_step_some :
  forall ivs l h L H,
    fold_left (fun acc iv => match acc, iv with
                             | Some (l, h), Some (l', h') => Some (Z.min l l', Z.max h h')
                             | _, _ => None
                             end) ivs (Some (l, h)) = Some (L, H) ->
    L <= l /\ h <= H /\
    Forall (fun iv => exists l' h', iv = Some (l', h') /\ L <= l' /\ h' <= H) ivs.
Proof.
  induction ivs as [|iv ivs IH]; intros l h L H E; simpl in E.
  - inversion E; subst. repeat split; try lia. constructor.
  - destruct iv as [[l' h']|].
    + destruct (IH _ _ _ _ E) as [A [B C]]. repeat split; try lia.
      constructor; [|exact C]. exists l', h'. repeat split; lia.
    + exfalso. clear -E. induction ivs; simpl in E; [discriminate | auto].
Qed.

Lemma hull_sound ty ivs (vs : list val) L H :
  hull ivs = Some (L, H) ->
  Forall2 (fun v iv => val_ty_ok ty iv v) vs ivs ->
  L <= 0 <= H /\ Forall (val_ty_ok ty (Some (L, H))) vs.
Proof.
  intros E HF. unfold hull in E. apply hull_step_some in E. destruct E as [A [B C]].
  split; [lia|].
  induction HF as [|v iv vs ivs Hv HF IH]; [constructor|].
  inversion C as [|? ? [l' [h' [-> [Hl Hh]]]] C']; subst.
  constructor; [eapply val_ty_ok_widen; eauto | apply IH; exact C'].
Qed.

Lemma Forall2_weaken_none ty (vs : list val) ivs :
  Forall2 (fun v iv => val_ty_ok ty iv v) vs ivs -> Forall (val_ty_ok ty None) vs.
Proof.
  induction 1; constructor; auto. eapply val_ty_ok_none; eauto.
Qed.

Lemma zero_of_ok ty : val_ty_ok ty None (zero_of ty).
Proof. destruct ty; simpl; exact I. Qed.

(* ---------- lvalues ---------- *)

Lemma write_sound ic inp st G l ty (f : dtype -> val -> option val) :
  env_ok st G -> inp_ok ic inp ->
  acheck_lval ic G l = Some ty -> ty <> DInt ->
  (forall old, val_ty_ok ty None old -> exists v', f ty old = Some v' /\ val_ty_ok ty None v') ->
  exists st', write inp st l f = Some st' /\ env_ok st' G.
Proof.
  intros Henv Hinp E Hty Hf.
  destruct l as [x|a idx]; simpl in E.
  - pose proof (Henv x) as Hx.
    destruct (PositiveMap.find x G) as [[ty' [|] iv|]|] eqn:EG; try discriminate.
    inversion E; subst ty'.
    destruct (PositiveMap.find x st) as [[ty' ro' v|]|] eqn:Est; simpl in Hx; try tauto.
    destruct Hx as [-> [-> Hv]].
    destruct (Hf v (val_ty_ok_none _ _ _ Hv)) as [v' [Ev' Hv']].
    simpl. rewrite Est, Ev'. eexists. split; [reflexivity|].
    eapply env_ok_update; eauto. simpl. repeat split.
    eapply val_ty_ok_nonint; eauto.
  - destruct (is_input a) eqn:Hin; [discriminate|].
    destruct (aevals ic G idx) as [avs|] eqn:Eidx; [|discriminate].
    pose proof (Henv a) as Ha.
    destruct (PositiveMap.find a G) as [[|ty' [|] shape iv]|] eqn:EG; try discriminate.
    destruct (idx_ok shape avs) eqn:Hidx; [|discriminate]. inversion E; subst ty'.
    destruct (PositiveMap.find a st) as [[|ty' ro' shape' data]|] eqn:Est; simpl in Ha; try tauto.
    destruct Ha as [-> [-> [-> [Hlen [Hdata Hpos]]]]].
    destruct (aevals_sound T of_Z of_lit of_clit tadd tsub tmul tdiv tneg teqb tltb tleb tfn
                ic G inp st Henv Hinp idx avs Eidx) as [vs [Evs HF]].
    destruct (flat_index_sound T of_Z of_lit of_clit tadd tsub tmul tdiv tneg teqb tltb tleb tfn shape avs vs 0 Hidx HF Hpos) as [is [k [E1 [E2 Hk]]]]; [lia|].
    simpl. rewrite Evs, E1, Est, E2.
    assert (Hn : (Z.to_nat k < List.length data)%nat) by (rewrite Hlen; lia).
    destruct (nth_error data (Z.to_nat k)) as [v|] eqn:En;
      [|apply nth_error_None in En; lia].
    assert (Hv : val_ty_ok ty iv v).
    { eapply Forall_forall in Hdata; eauto. eapply nth_error_In; eauto. }
    destruct (Hf v (val_ty_ok_none _ _ _ Hv)) as [v' [Ev' Hv']].
    rewrite Ev'. eexists. split; [reflexivity|].
    eapply env_ok_update; eauto. simpl. repeat split; auto.
    + rewrite set_nth_length. exact Hlen.
    + apply set_nth_Forall; [exact Hdata|]. eapply val_ty_ok_nonint; eauto.
Qed.

(* ---------- main theorem ---------- *)

Theorem check_sound ic inp :
  inp_ok ic inp ->
  forall s G G' st, check ic s G = Some G' -> env_ok st G ->
                    exists st', exec inp s st = Some st' /\ env_ok st' G'.
Proof.
  intros Hinp s. induction s using stmt_ind'; intros G G' st E Henv.
  - (* SSkip *) simpl in E. inversion E; subst. exists st. split; [reflexivity | exact Henv].
  - (* SVarDecl *)
    simpl in E. destruct (afresh x G) eqn:Hf; [|discriminate].
    destruct (aeval ic G e) as [a|] eqn:Ea; [|discriminate].
    destruct (acoerce ty a) as [iv|] eqn:Ec; [|discriminate]. inversion E; subst.
    destruct (aeval_sound T of_Z of_lit of_clit tadd tsub tmul tdiv tneg teqb tltb tleb tfn
                ic G inp st Henv Hinp e a Ea) as [v [Ev Hv]].
    destruct (acoerce_sound T of_Z of_lit of_clit tadd tsub tmul tdiv tneg teqb tltb tleb tfn ty a iv v Ec Hv) as [v' [Ev' Hv']].
    simpl. rewrite (afresh_fresh st G x Henv Hf), Ev, Ev'.
    eexists. split; [reflexivity|]. apply env_ok_add; [exact Henv|]. simpl. auto.
  - (* SArrDecl *)
    simpl in E.
    destruct (afresh x G && forallb (fun n => 0 <? n) shape &&
              (Z.of_nat (List.length vals) <=? prodZ shape)) eqn:Hc; [|discriminate].
    destruct (aevals ic G vals) as [avs|] eqn:Ea; [|discriminate].
    destruct (opt_map (acoerce ty) avs) as [ivs|] eqn:Ec; [|discriminate].
    inversion E; subst.
    apply andb_true_iff in Hc. destruct Hc as [Hc Hlen].
    apply andb_true_iff in Hc. destruct Hc as [Hf Hpos].
    destruct (aevals_sound T of_Z of_lit of_clit tadd tsub tmul tdiv tneg teqb tltb tleb tfn
                ic G inp st Henv Hinp vals avs Ea) as [vs [Evs HF]].
    destruct (coerce_list_sound ty avs vs ivs HF Ec) as [vs' [Evs' HF2]].
    simpl. rewrite (afresh_fresh st G x Henv Hf), Hpos, Hlen. simpl.
    change (LN.evals T of_Z of_lit of_clit tadd tsub tmul tdiv tneg teqb tltb tleb tfn inp st vals)
      with (evals inp st vals).
    rewrite Evs, Evs'.
    eexists. split; [reflexivity|]. apply env_ok_add; [exact Henv|]. simpl.
    assert (Hposs : Forall (fun n => 0 < n) shape).
    { apply Forall_forall. intros n Hn. eapply forallb_forall in Hpos; eauto.
      apply Z.ltb_lt in Hpos. exact Hpos. }
    repeat split; auto.
    + apply pad_length.
    + destruct ty; try (apply pad_Forall; [eapply Forall2_weaken_none; eauto | apply zero_of_ok]).
      destruct ro; [|apply pad_Forall; [eapply Forall2_weaken_none; eauto | apply zero_of_ok]].
      destruct (hull ivs) as [[L H]|] eqn:Eh;
        [|apply pad_Forall; [eapply Forall2_weaken_none; eauto | apply zero_of_ok]].
      destruct (hull_sound DInt ivs vs' L H Eh HF2) as [H0 HFv].
      apply pad_Forall; [exact HFv | simpl; exact H0].
  - (* SAssign *)
    simpl in E. destruct (aeval ic G e) as [a|] eqn:Ea; [|discriminate].
    destruct (acheck_lval ic G l) as [ty|] eqn:El; [|discriminate].
    destruct (aeval_sound T of_Z of_lit of_clit tadd tsub tmul tdiv tneg teqb tltb tleb tfn
                ic G inp st Henv Hinp e a Ea) as [v [Ev Hv]].
    simpl. rewrite Ev.
    assert (Hty : ty <> DInt). { intros ->. simpl in E. discriminate. }
    destruct (acoerce ty a) as [iv|] eqn:Ec.
    2: { exfalso. destruct ty, a; simpl in E, Ec; discriminate. }
    assert (G' = G) by (destruct ty, a; simpl in E, Ec; try discriminate; inversion E; reflexivity).
    subst G'.
    eapply write_sound; eauto.
    intros old _. destruct (acoerce_sound T of_Z of_lit of_clit tadd tsub tmul tdiv tneg teqb tltb tleb tfn ty a iv v Ec Hv) as [v' [Ev' Hv']].
    exists v'. split; [exact Ev' | eapply val_ty_ok_none; eauto].
  - (* SAssignAdd *)
    simpl in E. destruct (aeval ic G e) as [a|] eqn:Ea; [|discriminate].
    destruct (acheck_lval ic G l) as [ty|] eqn:El; [|discriminate].
    destruct (is_fl_ty ty && is_num a) eqn:Hc; [|discriminate]. inversion E; subst G'.
    apply andb_true_iff in Hc. destruct Hc as [Hfl Hnum].
    destruct (aeval_sound T of_Z of_lit of_clit tadd tsub tmul tdiv tneg teqb tltb tleb tfn
                ic G inp st Henv Hinp e a Ea) as [v [Ev Hv]].
    simpl. rewrite Ev.
    assert (Hty : ty <> DInt) by (intros ->; discriminate).
    eapply write_sound; eauto.
    intros old Hold.
    destruct (is_num_to_T T of_Z of_lit of_clit tadd tsub tmul tdiv tneg teqb tltb tleb tfn v a Hv Hnum) as [y Ey].
    destruct ty; try discriminate; destruct old as [|o|]; simpl in Hold; try tauto;
      destruct v as [z|y'|b]; simpl in Ey; try discriminate; simpl;
        eexists; (split; [reflexivity | exact I]).
  - (* SFor *)
    rewrite check_SFor in E.
    destruct (afresh i G && (b <? e)) eqn:Hc; [|discriminate].
    apply andb_true_iff in Hc. destruct Hc as [Hf Hbe]. apply Z.ltb_lt in Hbe.
    destruct (check_list ic body (PositiveMap.add i (AScalar DInt true (Some (b, e - 1))) G))
      as [Gb|] eqn:Eb; [|discriminate].
    inversion E; subst G'.
    rewrite exec_SFor, (afresh_fresh st G i Henv Hf).
    (* generalise over the iteration *)
    assert (Hloop : forall n k st0, env_ok st0 G -> b <= k -> k + Z.of_nat n <= e ->
              exists st', loop inp i body n k st0 = Some st' /\ env_ok st' G).
    { induction n as [|n IHn]; intros k st0 Hst0 Hk1 Hk2.
      - exists st0. split; [reflexivity | exact Hst0].
      - rewrite loop_S.
        assert (Henv_i : env_ok (PositiveMap.add i (CScalar DInt true (VI k)) st0)
                                (PositiveMap.add i (AScalar DInt true (Some (b, e - 1))) G)).
        { apply env_ok_add; [exact Hst0|]. simpl. repeat split; lia. }
        (* body as a list *)
        assert (Hbody : forall l G1 G2 st1, Forall (fun s => forall G G' st,
                    check ic s G = Some G' -> env_ok st G ->
                    exists st', exec inp s st = Some st' /\ env_ok st' G') l ->
                  check_list ic l G1 = Some G2 -> env_ok st1 G1 ->
                  exists st2, exec_list inp l st1 = Some st2 /\ env_ok st2 G2).
        { induction l as [|s l IHl]; intros G1 G2 st1 HFl El Hst1.
          - simpl in El. inversion El; subst. exists st1. split; [reflexivity | exact Hst1].
          - inversion HFl as [|? ? Hs HFl']; subst. simpl in El.
            destruct (check ic s G1) as [G1'|] eqn:Es; [|discriminate].
            destruct (Hs G1 G1' st1 Es Hst1) as [st1' [Ex Hst1']].
            destruct (IHl G1' G2 st1' HFl' El Hst1') as [st2 [Ex2 Hst2]].
            exists st2. simpl. rewrite Ex. split; assumption. }
        destruct (Hbody body _ Gb _ H Eb Henv_i) as [st1 [Ex1 Hst1]].
        rewrite Ex1.
        apply IHn; [|lia|lia].
        (* popping the scope gives back G *)
        destruct (check_list_structure ic body _ Gb Eb) as [S1 S2].
        intros y.
        destruct (Pos.eq_dec y i) as [->|Hne].
        * rewrite PositiveMap.grs. unfold afresh in Hf. apply andb_true_iff in Hf.
          destruct Hf as [_ Hf]. destruct (PositiveMap.find i G); [discriminate | exact I].
        * rewrite PositiveMap.gro by congruence. rewrite remove_all_find.
          destruct (in_dec Pos.eq_dec y (declared_list body)) as [Hd|Hd].
          -- pose proof (S2 y Hd) as Hn. rewrite PositiveMap.gso in Hn by exact Hne.
             rewrite Hn. exact I.
          -- specialize (Hst1 y). rewrite (S1 y Hd) in Hst1.
             rewrite PositiveMap.gso in Hst1 by exact Hne. exact Hst1. }
    apply Hloop; [exact Henv | lia | lia].
  - (* SBlock *)
    rewrite check_SBlock in E.
    destruct (check_list ic body G) as [Gb|] eqn:Eb; [|discriminate]. inversion E; subst G'.
    rewrite exec_SBlock.
    assert (Hbody : forall l G1 G2 st1, Forall (fun s => forall G G' st,
                check ic s G = Some G' -> env_ok st G ->
                exists st', exec inp s st = Some st' /\ env_ok st' G') l ->
              check_list ic l G1 = Some G2 -> env_ok st1 G1 ->
              exists st2, exec_list inp l st1 = Some st2 /\ env_ok st2 G2).
    { induction l as [|s l IHl]; intros G1 G2 st1 HFl El Hst1.
      - simpl in El. inversion El; subst. exists st1. split; [reflexivity | exact Hst1].
      - inversion HFl as [|? ? Hs HFl']; subst. simpl in El.
        destruct (check ic s G1) as [G1'|] eqn:Es; [|discriminate].
        destruct (Hs G1 G1' st1 Es Hst1) as [st1' [Ex Hst1']].
        destruct (IHl G1' G2 st1' HFl' El Hst1') as [st2 [Ex2 Hst2]].
        exists st2. simpl. rewrite Ex. split; assumption. }
    destruct (Hbody body G Gb st H Eb Henv) as [st1 [Ex1 Hst1]]. rewrite Ex1.
    eexists. split; [reflexivity|].
    destruct (check_list_structure ic body G Gb Eb) as [S1 S2].
    intros y. rewrite remove_all_find.
    destruct (in_dec Pos.eq_dec y (declared_list body)) as [Hd|Hd].
    + rewrite (S2 y Hd). exact I.
    + specialize (Hst1 y). rewrite (S1 y Hd) in Hst1. exact Hst1.
  - (* SList *)
    rewrite check_SList in E. rewrite exec_SList.
    revert G G' st E Henv. induction H as [|s l Hs Hl IHl]; intros G G' st E Henv.
    + simpl in E. inversion E; subst. exists st. split; [reflexivity | exact Henv].
    + simpl in E. destruct (check ic s G) as [G1|] eqn:Es; [|discriminate].
      destruct (Hs G G1 st Es Henv) as [st1 [Ex Hst1]].
      destruct (IHl G1 G' st1 E Hst1) as [st2 [Ex2 Hst2]].
      exists st2. simpl. rewrite Ex. split; assumption.
Qed.

Lemma check_list_sound ic inp :
  inp_ok ic inp ->
  forall l G G' st, check_list ic l G = Some G' -> env_ok st G ->
                    exists st', exec_list inp l st = Some st' /\ env_ok st' G'.
Proof.
  intros Hinp l G G' st E Henv.
  rewrite <- check_SList in E. rewrite <- exec_SList. eapply check_sound; eauto.
Qed.

(* ---------- kernel level ---------- *)

Definition A_ok (nA : Z) (A0 : list val) : Prop :=
  Z.of_nat (List.length A0) = nA /\ Forall (fun v => match v with VF _ => True | _ => False end) A0.

Lemma init_env_ok nA A0 : 0 < nA -> A_ok nA A0 -> env_ok (init_store A0) (aenv0 nA).
Proof.
  intros Hpos [Hlen HF] x. unfold init_store, aenv0.
  destruct (Pos.eq_dec x id_A) as [->|Hne].
  - rewrite !PositiveMap.gss. simpl. rewrite Hlen.
    split; [reflexivity|]. split; [reflexivity|]. split; [reflexivity|].
    split; [rewrite Z.mul_1_r; lia|]. split.
    + eapply Forall_impl; [|exact HF]. intros v Hv. destruct v; simpl; tauto.
    + constructor; [exact Hpos | constructor].
  - rewrite !PositiveMap.gso by exact Hne. rewrite !PositiveMap.gempty. exact I.
Qed.

(* C08 / C19 core: an accepted kernel never traps, and A keeps its extent. *)
Theorem kernel_safe ic nA body inp A0 :
  check_kernel ic nA body = true -> inp_ok ic inp -> A_ok nA A0 ->
  exists A1, run_kernel inp body A0 = Some A1 /\ A_ok nA A1.
Proof.
  unfold check_kernel. intros Hc Hinp HA.
  apply andb_true_iff in Hc. destruct Hc as [Hpos Hc]. apply Z.ltb_lt in Hpos.
  destruct (check_list ic body (aenv0 nA)) as [G'|] eqn:E; [|discriminate].
  destruct (check_list_sound ic inp Hinp body _ G' _ E (init_env_ok nA A0 Hpos HA))
    as [st' [Ex Hst']].
  unfold LN.run_kernel. rewrite Ex.
  destruct (check_list_structure ic body _ G' E) as [S1 S2].
  assert (HAG : PositiveMap.find id_A G' = Some (AArr DScalar false [nA] None)).
  { destruct (in_dec Pos.eq_dec id_A (declared_list body)) as [Hd|Hd].
    - pose proof (S2 _ Hd) as Hn. unfold aenv0 in Hn. rewrite PositiveMap.gss in Hn. discriminate.
    - rewrite (S1 _ Hd). unfold aenv0. apply PositiveMap.gss. }
  specialize (Hst' id_A). rewrite HAG in Hst'. unfold LN.get_A.
  destruct (PositiveMap.find id_A st') as [[|ty ro shape data]|]; simpl in Hst'; try tauto.
  destruct Hst' as [-> [-> [-> [Hlen [Hdata _]]]]].
  exists data. split; [reflexivity|]. split.
  - rewrite Hlen. simpl. rewrite Z.mul_1_r. lia.
  - eapply Forall_impl; [|exact Hdata]. intros v Hv. destruct v; simpl in *; tauto.
Qed.

End Sound.
