(* Flatten.v — index layout facts the tensor A and the tables rely on (C01 C02 C04 C08):
   row-major flattening is a bijection from in-range multi-indices onto [0, prod sizes);
   the stride form  sum_k i_k * prod_{l>k} s_l  printed by MultiIndex.global_index equals
   the Horner form; the interior-facet macro layout (restriction, dof) -> r*dim + dof and the
   blocked layout  bs*i + c  are bijections. *)
From Coq Require Import ZArith List Lia.
Import ListNotations.
Open Scope Z_scope.

Fixpoint prodZ (l : list Z) : Z := match l with [] => 1 | n :: r => n * prodZ r end.

(* Horner form, as evaluated by LN.flat_index *)
Fixpoint horner (shape idx : list Z) (acc : Z) : Z :=
  match shape, idx with
  | n :: s, i :: r => horner s r (acc * n + i)
  | _, _ => acc
  end.

(* stride form, as built by MultiIndex.__init__ *)
Fixpoint strided (shape idx : list Z) : Z :=
  match shape, idx with
  | _ :: s, i :: r => i * prodZ s + strided s r
  | _, _ => 0
  end.

Definition in_range (shape idx : list Z) : Prop :=
  Forall2 (fun n i => 0 <= i < n) shape idx.

Lemma prodZ_pos shape idx : in_range shape idx -> 0 < prodZ shape.
Proof. induction 1; simpl; [lia | nia]. Qed.

Lemma horner_strided : forall shape idx acc,
  length shape = length idx ->
  horner shape idx acc = acc * prodZ shape + strided shape idx.
Proof.
  induction shape as [|n s IH]; intros [|i r] acc H; simpl in *; try discriminate; try lia.
  rewrite IH by lia. ring.
Qed.

Theorem global_index_is_row_major shape idx :
  length shape = length idx -> horner shape idx 0 = strided shape idx.
Proof. intros H. rewrite horner_strided by exact H. lia. Qed.

Theorem strided_bounds shape idx :
  in_range shape idx -> 0 <= strided shape idx < prodZ shape.
Proof.
  induction 1 as [|n i s r Hi Hr IH]; simpl; [lia|].
  assert (0 < prodZ s) by (eapply prodZ_pos; eauto). nia.
Qed.

Theorem strided_injective shape i1 i2 :
  in_range shape i1 -> in_range shape i2 -> strided shape i1 = strided shape i2 -> i1 = i2.
Proof.
  intros H1. revert i2. induction H1 as [|n a s r Ha Hr IH]; intros i2 H2 E.
  - inversion H2. reflexivity.
  - inversion H2 as [|n' b s' r' Hb Hr']; subst. simpl in E.
    pose proof (strided_bounds s r Hr) as B1. pose proof (strided_bounds s r' Hr') as B2.
    assert (Hp : 0 < prodZ s) by (eapply prodZ_pos; eauto).
    assert (a = b).
    { destruct (Z.lt_trichotomy a b) as [L|[E'|L]]; [exfalso | exact E' | exfalso].
      - assert (a * prodZ s + prodZ s <= b * prodZ s) by nia. lia.
      - assert (b * prodZ s + prodZ s <= a * prodZ s) by nia. lia. }
    subst. f_equal. apply IH; [exact Hr' | lia].
Qed.

(* every position of the flat array is hit *)
Theorem strided_surjective : forall shape k,
  Forall (fun n => 0 < n) shape -> 0 <= k < prodZ shape ->
  exists idx, in_range shape idx /\ strided shape idx = k.
Proof.
  induction shape as [|n s IH]; intros k Hpos Hk; simpl in *.
  - exists []. split; [constructor | lia].
  - inversion Hpos as [|? ? Hn Hs]; subst.
    assert (Hp : 0 < prodZ s) by (clear -Hs; induction Hs; simpl; [lia | nia]).
    destruct (IH (k mod prodZ s) Hs) as [r [Hr Er]]; [apply Z.mod_pos_bound; exact Hp|].
    exists (k / prodZ s :: r). split.
    + constructor; [|exact Hr]. split; [apply Z.div_pos; lia|].
      apply Z.div_lt_upper_bound; [exact Hp | lia].
    + simpl. rewrite Er. rewrite (Z.div_mod k (prodZ s)) at 3 by lia. ring.
Qed.

(* interior-facet macro layout: block [r] of size dim *)
Theorem macro_layout_bijective dim r1 i1 r2 i2 :
  0 <= i1 < dim -> 0 <= i2 < dim -> 0 <= r1 < 2 -> 0 <= r2 < 2 ->
  r1 * dim + i1 = r2 * dim + i2 -> r1 = r2 /\ i1 = i2.
Proof.
  intros. assert (A : r1 = 0 \/ r1 = 1) by lia. assert (B : r2 = 0 \/ r2 = 1) by lia.
  destruct A, B; subst; lia.
Qed.

Theorem macro_layout_range dim r i : 0 <= i < dim -> 0 <= r < 2 -> 0 <= r * dim + i < 2 * dim.
Proof. intros. assert (A : r = 0 \/ r = 1) by lia. destruct A; subst; lia. Qed.

(* blocked elements: dof bs*i + c, component c < bs *)
Theorem blocked_layout_bijective bs i1 c1 i2 c2 :
  0 <= c1 < bs -> 0 <= c2 < bs -> bs * i1 + c1 = bs * i2 + c2 -> i1 = i2 /\ c1 = c2.
Proof.
  intros H1 H2 E. assert (i1 = i2).
  { destruct (Z.lt_trichotomy i1 i2) as [L|[E'|L]]; [exfalso | exact E' | exfalso].
    - assert (bs * i1 + bs <= bs * i2) by nia. lia.
    - assert (bs * i2 + bs <= bs * i1) by nia. lia. }
  subst. split; [reflexivity | lia].
Qed.

(* the A entry of a rank-2 kernel: row-major over (test dof, trial dof) — an instance *)
Corollary A_layout n m i j i' j' :
  0 <= i < n -> 0 <= j < m -> 0 <= i' < n -> 0 <= j' < m ->
  strided [n; m] [i; j] = strided [n; m] [i'; j'] -> i = i' /\ j = j'.
Proof.
  intros Hi Hj Hi' Hj' E.
  assert (H : [i; j] = [i'; j']).
  { apply (strided_injective [n; m]); [ | | exact E];
      (constructor; [assumption | constructor; [assumption | constructor]]). }
  inversion H. auto.
Qed.
