(* Structural facts about the licm model (Opt.v: number / lookup / rewrite_assign), for ALL assignment lists
   (no bound on the number of products, no reference to a particular kernel):

     - number hands out the temporaries counter, counter+1, ... without gaps or repeats: the table's
       temp numbers are exactly seq counter (length tab);
     - the pre-loop code declares exactly those temporaries, each once, in that order; with distinct
       temp identifiers no temporary is declared twice (no duplicate definition) and
     - two different (target, occurrence) keys that both hoist never share a temporary (the mechanism
       whose failure lets one product read another product's hoisted factor).

   These are the all-AST half of "hoisting does not mix up products"; the value half is
   OptProps.licm_product_value, the per-kernel half is the symbolic comparison of C17. *)
From Coq Require Import ZArith List Bool String Lia.
Require Import FFCX.LN FFCX.Opt FFCX.OptProps.
Import ListNotations.

Local Arguments hoists : simpl never.
Local Arguments temp_id : simpl never.

Section L.
Variable temps : list ident.
Variables (inner outer : ident) (ob oe : Z).

Notation number := (Opt.number temps inner outer ob oe).

Definition tab_temps (tab : list (lval * nat * nat)) : list nat := map snd tab.

Lemma number_counters : forall l seen c tab pre,
  number l seen c = Some (tab, pre) ->
  tab_temps tab = seq c (List.length tab).
Proof.
  induction l as [|[lv args] r IH]; intros seen c tab pre H; cbn in H.
  - inversion H; subst. reflexivity.
  - destruct (split_args inner args) as [[keep hoist]|]; [|discriminate].
    destruct (hoists hoist).
    + destruct (temp_id temps c) as [t|] eqn:Et; cbn in H; [|discriminate].
      destruct (Opt.number temps inner outer ob oe r (seen ++ [(lv, args)]) (S c)) as [[tab' pre']|] eqn:E; [|discriminate].
      inversion H; subst. cbn. f_equal. exact (IH _ _ _ _ E).
    + exact (IH _ _ _ _ H).
Qed.

Lemma number_declares : forall l seen c tab pre,
  number l seen c = Some (tab, pre) ->
  map Some (declared_list pre) = map (temp_id temps) (tab_temps tab).
Proof.
  induction l as [|[lv args] r IH]; intros seen c tab pre H; cbn in H.
  - inversion H; subst. reflexivity.
  - destruct (split_args inner args) as [[keep hoist]|]; [|discriminate].
    destruct (hoists hoist).
    + destruct (temp_id temps c) as [t|] eqn:Et; cbn in H; [|discriminate].
      destruct (Opt.number temps inner outer ob oe r (seen ++ [(lv, args)]) (S c)) as [[tab' pre']|] eqn:E; [|discriminate].
      inversion H; subst. cbn. rewrite Et. f_equal. exact (IH _ _ _ _ E).
    + exact (IH _ _ _ _ H).
Qed.

Lemma NoDup_nth_error_seq : forall n c,
  NoDup temps -> Forall (fun k => temp_id temps k <> None) (seq c n) ->
  NoDup (map (temp_id temps) (seq c n)).
Proof.
  intros n c Hnd Hall.
  assert (Hinj : forall a b, In a (seq c n) -> In b (seq c n) ->
                 temp_id temps a = temp_id temps b -> a = b).
  { intros a b Ha Hb Hab. rewrite Forall_forall in Hall.
    unfold temp_id in *. rewrite NoDup_nth_error in Hnd.
    apply Hnd; [|exact Hab].
    apply nth_error_Some. apply Hall. exact Ha. }
  assert (Hs : NoDup (seq c n)) by apply seq_NoDup.
  revert Hinj Hs. generalize (seq c n) as l.
  induction l as [|x l IH]; intros Hinj Hs; cbn; constructor.
  - intros Hin. apply in_map_iff in Hin. destruct Hin as [y [Hy Hyin]].
    assert (y = x) by (apply Hinj; [right; exact Hyin | left; reflexivity | exact Hy]).
    subst. inversion Hs; contradiction.
  - apply IH; [|inversion Hs; assumption].
    intros a b Ha Hb. apply Hinj; right; assumption.
Qed.

Lemma number_temps_defined : forall l seen c tab pre,
  number l seen c = Some (tab, pre) ->
  Forall (fun k => temp_id temps k <> None) (tab_temps tab).
Proof.
  induction l as [|[lv args] r IH]; intros seen c tab pre H; cbn in H.
  - inversion H; subst. constructor.
  - destruct (split_args inner args) as [[keep hoist]|]; [|discriminate].
    destruct (hoists hoist).
    + destruct (temp_id temps c) as [t|] eqn:Et; cbn in H; [|discriminate].
      destruct (Opt.number temps inner outer ob oe r (seen ++ [(lv, args)]) (S c)) as [[tab' pre']|] eqn:E; [|discriminate].
      inversion H; subst. cbn. constructor; [rewrite Et; discriminate | exact (IH _ _ _ _ E)].
    + exact (IH _ _ _ _ H).
Qed.

(* no temporary is declared twice by the pre-loop code *)
Theorem number_declares_once l seen c tab pre :
  NoDup temps -> number l seen c = Some (tab, pre) -> NoDup (declared_list pre).
Proof.
  intros Hnd H.
  apply (NoDup_map_inv Some). rewrite (number_declares _ _ _ _ _ H).
  pose proof (number_temps_defined _ _ _ _ _ H) as Hdef.
  rewrite (number_counters _ _ _ _ _ H) in *.
  apply NoDup_nth_error_seq; assumption.
Qed.

(* lookup finds an entry of the table whose key matches *)
Lemma lookup_in lv occ : forall tab c,
  lookup lv occ tab = Some c ->
  exists l, In (l, occ, c) tab /\ lval_eqb l lv = true.
Proof.
  induction tab as [|[[l o] c'] r IH]; intros c H; cbn in H; [discriminate|].
  destruct (lval_eqb l lv && Nat.eqb o occ) eqn:E.
  - inversion H; subst. apply andb_true_iff in E. destruct E as [E1 E2].
    apply Nat.eqb_eq in E2. subst. exists l. split; [left; reflexivity | exact E1].
  - destruct (IH c H) as [l' [Hin Hl]]. exists l'. split; [right; exact Hin | exact Hl].
Qed.

Lemma nodup_snd_inj {A} (tab : list (A * nat)) : NoDup (map snd tab) ->
  forall a b c, In (a, c) tab -> In (b, c) tab -> a = b.
Proof.
  induction tab as [|[x n] r IH]; intros Hnd a b c Ha Hb; [destruct Ha|].
  cbn in Hnd. inversion Hnd as [|? ? Hnotin Hnd']; subst.
  destruct Ha as [Ha|Ha]; destruct Hb as [Hb|Hb].
  - congruence.
  - inversion Ha; subst. exfalso. apply Hnotin. apply in_map_iff. exists (b, c). split; [reflexivity|exact Hb].
  - inversion Hb; subst. exfalso. apply Hnotin. apply in_map_iff. exists (a, c). split; [reflexivity|exact Ha].
  - exact (IH Hnd' a b c Ha Hb).
Qed.

(* two rewritten assignments that read the same temporary have the same (target, occurrence) key *)
Theorem temps_not_shared l seen c0 tab pre lv1 o1 lv2 o2 c :
  number l seen c0 = Some (tab, pre) ->
  lookup lv1 o1 tab = Some c -> lookup lv2 o2 tab = Some c ->
  o1 = o2 /\ exists k, lval_eqb k lv1 = true /\ lval_eqb k lv2 = true.
Proof.
  intros H H1 H2.
  destruct (lookup_in _ _ _ _ H1) as [k1 [Hin1 Hk1]].
  destruct (lookup_in _ _ _ _ H2) as [k2 [Hin2 Hk2]].
  assert (Hnd : NoDup (map snd tab)).
  { change (NoDup (tab_temps tab)). rewrite (number_counters _ _ _ _ _ H). apply seq_NoDup. }
  assert (E : (k1, o1) = (k2, o2)) by (eapply nodup_snd_inj; eauto).
  inversion E; subst. split; [reflexivity|]. exists k2. split; assumption.
Qed.


(* value of a rewritten assignment: in any commutative monoid, if the temporary read by the rewritten product
   holds the product of the hoisted factors, the rewritten product has the value of the original one; an
   assignment that does not hoist is left as it was *)
Section V.
Variable M : Type.
Variable mul : M -> M -> M.
Variable one : M.
Hypothesis mul_comm : forall a b, mul a b = mul b a.
Hypothesis mul_assoc : forall a b c, mul (mul a b) c = mul a (mul b c).
Hypothesis mul_1_l : forall a, mul one a = a.
Variable den : expr -> M.

Theorem rewrite_assign_value tab seen lv args s :
  rewrite_assign temps inner outer tab seen (lv, args) = Some s ->
  (forall c t keep hoist, lookup lv (occurrence lv seen) tab = Some c -> temp_id temps c = Some t ->
      split_args inner args = Some (keep, hoist) ->
      den (EAcc t [ESym outer]) = prod M mul one (map den hoist)) ->
  exists args', s = SAssignAdd lv (EProd args')
                /\ prod M mul one (map den args') = prod M mul one (map den args).
Proof.
  unfold rewrite_assign. intros H Htmp.
  destruct (lookup lv (occurrence lv seen) tab) as [c|] eqn:El.
  - destruct (split_args inner args) as [[keep hoist]|] eqn:Es; [|discriminate].
    destruct (temp_id temps c) as [t|] eqn:Et; [|discriminate].
    inversion H; subst. eexists. split; [reflexivity|].
    rewrite map_app. cbn [map].
    apply (licm_product_value M mul one mul_comm mul_assoc mul_1_l den inner args keep hoist); [exact Es|].
    apply (Htmp c t keep hoist); auto.
  - inversion H; subst. eexists. split; reflexivity.
Qed.
End V.

End L.
